"""State inventory of src/flowmark -> Gen/Inventory.v (C13).

Every place where state could outlive one formatting call is listed with a kind:
  cache            function decorated with functools.cache / lru_cache / cached_property
  global           `global x` statement inside a function
  nonlocal         `nonlocal x` inside a nested function (closure-local, per call)
  mod-immutable    module-level binding to a constant / tuple / frozenset / str / number / enum / compiled regex / function result known pure
  mod-mutable      module-level binding to a list / dict / set literal or comprehension (never written = constant by convention)
  mod-mutable-written  the same, but some code mutates it (method call / item assignment / augmented assignment)
  mod-object       module-level binding to the result of a call that is not known to be immutable
  class-attr       class-level (non-dataclass-field) attribute assignment
  class-attr-written  class attribute that some code assigns through the class or an instance at module level
Fail-closed: unknown AST shapes abort."""
from __future__ import annotations

import ast
from pathlib import Path

SRC = Path("/repo/src/flowmark")
MUTATORS = {"append", "extend", "insert", "pop", "remove", "clear", "update", "add", "discard", "setdefault", "popitem", "sort", "reverse", "__setitem__"}
IMMUTABLE_CALLS = {"compile", "frozenset", "tuple", "str", "int", "float", "bool", "AtomicPattern", "TypeVar", "object", "Path"}
CACHE_DECOS = {"cache", "lru_cache", "cached_property"}


def deco_name(d: ast.expr) -> str:
    if isinstance(d, ast.Call):
        d = d.func
    if isinstance(d, ast.Attribute):
        return d.attr
    if isinstance(d, ast.Name):
        return d.id
    return ""


def value_kind(v: ast.expr | None) -> str:
    if v is None:
        return "mod-immutable"
    if isinstance(v, (ast.Constant, ast.JoinedStr, ast.Tuple, ast.Lambda, ast.Name, ast.Attribute, ast.BinOp, ast.UnaryOp, ast.Compare, ast.BoolOp, ast.Subscript, ast.IfExp)):
        return "mod-immutable"
    if isinstance(v, (ast.List, ast.Dict, ast.Set, ast.ListComp, ast.DictComp, ast.SetComp)):
        return "mod-mutable"
    if isinstance(v, ast.GeneratorExp):
        return "mod-object"
    if isinstance(v, ast.Call):
        f = v.func
        name = f.attr if isinstance(f, ast.Attribute) else (f.id if isinstance(f, ast.Name) else "")
        if name in IMMUTABLE_CALLS or name == "join":
            return "mod-immutable"
        return "mod-object:" + name
    raise SystemExit(f"gen: inventory: unsupported module-level value {ast.dump(v)[:80]}")


def scan() -> list[tuple[str, str, str]]:
    items: list[tuple[str, str, str]] = []
    written: set[tuple[str, str]] = set()
    modvars: dict[str, set[str]] = {}
    trees = {}
    for py in sorted(SRC.rglob("*.py")):
        mod = ".".join(py.relative_to(SRC.parent).with_suffix("").parts)
        trees[mod] = ast.parse(py.read_text())
    for mod, tree in trees.items():
        names = set()
        for st in tree.body:
            targets = []
            val = None
            if isinstance(st, ast.Assign):
                targets, val = st.targets, st.value
            elif isinstance(st, ast.AnnAssign):
                targets, val = [st.target], st.value
            elif isinstance(st, ast.AugAssign):
                targets, val = [st.target], st.value
            for t in targets:
                if isinstance(t, ast.Name):
                    if t.id.startswith("__") and t.id.endswith("__"):
                        continue
                    names.add(t.id)
                    kind = value_kind(val)
                    items.append((mod, t.id, kind))
                elif isinstance(t, (ast.Tuple, ast.List)):
                    for e in t.elts:
                        if isinstance(e, ast.Name):
                            names.add(e.id)
                            items.append((mod, e.id, "mod-object:unpack"))
            if isinstance(st, ast.ClassDef):
                is_dc = any(deco_name(d) == "dataclass" for d in st.decorator_list)
                is_enum = any((isinstance(b, ast.Name) and b.id in ("Enum",)) or (isinstance(b, ast.Attribute) and b.attr == "Enum") for b in st.bases)
                for cst in st.body:
                    if isinstance(cst, ast.Assign) and not is_enum:
                        for t in cst.targets:
                            if isinstance(t, ast.Name):
                                k = value_kind(cst.value)
                                items.append((mod, f"{st.name}.{t.id}", "class-attr" if k in ("mod-immutable",) else "class-attr:" + k))
                    elif isinstance(cst, ast.AnnAssign) and not is_dc and isinstance(cst.target, ast.Name) and cst.value is not None:
                        k = value_kind(cst.value)
                        items.append((mod, f"{st.name}.{cst.target.id}", "class-attr" if k in ("mod-immutable",) else "class-attr:" + k))
        modvars[mod] = names
        for node in ast.walk(tree):
            if isinstance(node, (ast.FunctionDef, ast.AsyncFunctionDef)):
                for d in node.decorator_list:
                    if deco_name(d) in CACHE_DECOS:
                        items.append((mod, node.name, "cache"))
                for sub in ast.walk(node):
                    if isinstance(sub, ast.Global):
                        for n in sub.names:
                            items.append((mod, f"{node.name}:{n}", "global"))
                    elif isinstance(sub, ast.Nonlocal):
                        for n in sub.names:
                            items.append((mod, f"{node.name}:{n}", "nonlocal"))
    # writes to module-level names / class attributes anywhere in the package
    allmod = {(m, n) for m, ns in modvars.items() for n in ns}
    byname: dict[str, list[str]] = {}
    for m, n in allmod:
        byname.setdefault(n, []).append(m)
    classes = {it[1].split(".")[0] for it in items if it[2].startswith("class-attr")}
    for mod, tree in trees.items():
        for node in ast.walk(tree):
            if isinstance(node, ast.Call) and isinstance(node.func, ast.Attribute) and node.func.attr in MUTATORS \
                    and isinstance(node.func.value, ast.Name) and node.func.value.id in byname:
                # only counts if the name is not shadowed by a local: approximate by "is it a module-level name of this or an imported module"
                if _is_module_name(trees[mod], node, node.func.value.id):
                    for m in byname[node.func.value.id]:
                        written.add((m, node.func.value.id))
            if isinstance(node, (ast.Assign, ast.AugAssign)):
                tg = node.targets if isinstance(node, ast.Assign) else [node.target]
                for t in tg:
                    if isinstance(t, ast.Subscript) and isinstance(t.value, ast.Name) and t.value.id in byname and _is_module_name(trees[mod], node, t.value.id):
                        for m in byname[t.value.id]:
                            written.add((m, t.value.id))
                    if isinstance(t, ast.Attribute) and isinstance(t.value, ast.Name) and t.value.id in classes:
                        written.add(("*", f"{t.value.id}.{t.attr}"))
    # writes to a class attribute from inside a function: cls.x = .., type(self).x = .., self.__class__.x = .., ClassName.x = ..
    # (state shared by every instance, hence by every call and thread, whether or not the attribute is declared in the class body)
    allclasses = {n.name for t in trees.values() for n in ast.walk(t) if isinstance(n, ast.ClassDef)}
    for mod, tree in trees.items():
        for cls in [n for n in ast.walk(tree) if isinstance(n, ast.ClassDef)]:
            for fn in [n for n in ast.walk(cls) if isinstance(n, (ast.FunctionDef, ast.AsyncFunctionDef))]:
                for node in ast.walk(fn):
                    tg = []
                    if isinstance(node, ast.Assign):
                        tg = node.targets
                    elif isinstance(node, (ast.AugAssign, ast.AnnAssign)):
                        tg = [node.target] if not (isinstance(node, ast.AnnAssign) and node.value is None) else []
                    elif isinstance(node, ast.Delete):
                        tg = node.targets
                    for t in tg:
                        for t1 in (t.elts if isinstance(t, (ast.Tuple, ast.List)) else [t]):
                            if not isinstance(t1, ast.Attribute):
                                continue
                            v = t1.value
                            through_class = (isinstance(v, ast.Name) and v.id == "cls") or \
                                (isinstance(v, ast.Attribute) and v.attr == "__class__") or \
                                (isinstance(v, ast.Call) and isinstance(v.func, ast.Name) and v.func.id == "type")
                            if through_class:
                                items.append((mod, f"{cls.name}.{t1.attr}", "class-attr-written"))
        for node in ast.walk(tree):
            if isinstance(node, (ast.FunctionDef, ast.AsyncFunctionDef)):
                for sub in ast.walk(node):
                    tg = sub.targets if isinstance(sub, ast.Assign) else ([sub.target] if isinstance(sub, ast.AugAssign) else [])
                    for t in tg:
                        if isinstance(t, ast.Attribute) and isinstance(t.value, ast.Name) and t.value.id in allclasses:
                            items.append((mod, f"{t.value.id}.{t.attr}", "class-attr-written"))
    out = []
    for mod, name, kind in items:
        if kind == "mod-mutable" and (mod, name) in written:
            kind = "mod-mutable-written"
        if kind.startswith("class-attr") and ("*", name) in written:
            kind = "class-attr-written"
        out.append((mod, name, kind))
    return sorted(set(out))


def _is_module_name(tree: ast.AST, node: ast.AST, name: str) -> bool:
    """is `name` at `node` a module-level name (not a local/parameter of the enclosing function)?"""
    for fn in ast.walk(tree):
        if isinstance(fn, (ast.FunctionDef, ast.AsyncFunctionDef)):
            inside = any(n is node for n in ast.walk(fn))
            if inside:
                local = {a.arg for a in fn.args.args + fn.args.kwonlyargs}
                for sub in ast.walk(fn):
                    if isinstance(sub, (ast.Assign, ast.AnnAssign)):
                        ts = sub.targets if isinstance(sub, ast.Assign) else [sub.target]
                        for t in ts:
                            if isinstance(t, ast.Name):
                                local.add(t.id)
                    if isinstance(sub, (ast.For, ast.comprehension)) and isinstance(sub.target, ast.Name):
                        local.add(sub.target.id)
                globs = {n for sub in ast.walk(fn) if isinstance(sub, ast.Global) for n in sub.names}
                if name in local and name not in globs:
                    return False
    return True


def generate() -> dict[str, str]:
    items = scan()
    L = [
        "(* GENERATED by gen/inventory.py from /repo's working tree. Do not edit. *)",
        "From Coq Require Import List String.",
        "Import ListNotations.",
        "Local Open Scope string_scope.",
        "",
        "(* (module, name, kind) *)",
        "Definition inventory : list (string * string * string) := [",
        ";\n".join('  ("%s", "%s", "%s")' % it for it in items),
        "].",
        "",
    ]
    return {"Inventory.v": "\n".join(L) + "\n"}


if __name__ == "__main__":
    for it in scan():
        print(it)
