"""Translate every regular expression flowmark uses into a Coq `regex` AST (Gen/Regexes.v).

Module-level compiled patterns are read from the imported modules; patterns written
inline at call sites (re.sub(r"...", ...)) are read from the source with `ast`, by
function and position.  CPython's own `re._parser` does the parsing.  Fail-closed."""
from __future__ import annotations

import ast
import importlib
import inspect
import re
import re._constants as C
import re._parser as P
import textwrap

SUPPORTED_FLAGS = re.MULTILINE | re.DOTALL | re.UNICODE

CATS = {
    C.CATEGORY_SPACE: ("false", "CSpace"), C.CATEGORY_NOT_SPACE: ("true", "CSpace"),
    C.CATEGORY_WORD: ("false", "CWord"), C.CATEGORY_NOT_WORD: ("true", "CWord"),
}
# private-use stand-ins for regex-module property classes (pre-pass)
PU_LETTER, PU_LOWER = 0xE000, 0xE001


class Unsupported(Exception):
    pass


def nullable(seq) -> bool:
    return all(_nullable(op, av) for op, av in seq)


def _nullable(op, av) -> bool:
    if op in (C.LITERAL, C.NOT_LITERAL, C.IN, C.ANY):
        return False
    if op in (C.AT, C.ASSERT, C.ASSERT_NOT, C.GROUPREF):
        return True
    if op in (C.MAX_REPEAT, C.MIN_REPEAT):
        lo, hi, body = av
        return lo == 0 or nullable(body)
    if op is C.SUBPATTERN:
        return nullable(av[3])
    if op is C.BRANCH:
        return any(nullable(b) for b in av[1])
    raise Unsupported(f"opcode {op}")


class Tr:
    def __init__(self, flags: int, rx: bool):
        self.multiline = bool(flags & re.MULTILINE)
        self.dotall = bool(flags & re.DOTALL)
        self.rx = rx  # pattern belongs to the `regex` module (word table, \p classes)

    def seq(self, items) -> str:
        items = list(items)
        if not items:
            return "REps"
        parts = [self.one(op, av) for op, av in items]
        out = parts[-1]
        for p in reversed(parts[:-1]):
            out = f"(RCat {p} {out})"
        return out

    def citem(self, op, av) -> str:
        if op is C.LITERAL:
            if self.rx and av == PU_LETTER:
                return "ICat false CLetter"
            if self.rx and av == PU_LOWER:
                return "ICat false CLower"
            return f"IRange {av} {av}"
        if op is C.RANGE:
            return f"IRange {av[0]} {av[1]}"
        if op is C.CATEGORY:
            if av not in CATS:
                raise Unsupported(f"category {av}")
            neg, cat = CATS[av]
            if self.rx and cat == "CWord":
                cat = "CRxWord"
            return f"ICat {neg} {cat}"
        raise Unsupported(f"class item {op}")

    def one(self, op, av) -> str:
        if op is C.LITERAL:
            if self.rx and av in (PU_LETTER, PU_LOWER):
                return f"(RIn false [{self.citem(op, av)}])"
            return f"(RLit {av})"
        if op is C.NOT_LITERAL:
            return f"(RNotLit {av})"
        if op is C.ANY:
            return f"(RAny {'true' if self.dotall else 'false'})"
        if op is C.IN:
            neg = "false"
            its = []
            for o, a in av:
                if o is C.NEGATE:
                    neg = "true"
                else:
                    its.append(self.citem(o, a))
            return f"(RIn {neg} [{'; '.join(its)}])"
        if op is C.AT:
            m = {
                C.AT_BEGINNING: "ABeginLine" if self.multiline else "ABegin",
                C.AT_BEGINNING_STRING: "ABegin",
                C.AT_END: "AEndLine" if self.multiline else "AEnd",
                C.AT_END_STRING: "AEndString",
                C.AT_BOUNDARY: f"(ABoundary {'true' if self.rx else 'false'})",
                C.AT_NON_BOUNDARY: f"(ANotBoundary {'true' if self.rx else 'false'})",
            }
            if av not in m:
                raise Unsupported(f"anchor {av}")
            return f"(RAt {m[av]})"
        if op in (C.MAX_REPEAT, C.MIN_REPEAT):
            lo, hi, body = av
            if nullable(body):
                raise Unsupported("repeat with nullable body")
            if lo > 2000 or (hi is not C.MAXREPEAT and hi > 2000):
                raise Unsupported("repeat bound too large")
            mx = "None" if hi is C.MAXREPEAT else f"(Some {hi}%nat)"
            g = "true" if op is C.MAX_REPEAT else "false"
            return f"(RRep {lo}%nat {mx} {g} {self.seq(body)})"
        if op is C.SUBPATTERN:
            group, add, dele, body = av
            if add or dele:
                raise Unsupported("inline flags")
            inner = self.seq(body)
            return inner if group is None else f"(RGroup {group}%nat {inner})"
        if op is C.BRANCH:
            alts = [self.seq(b) for b in av[1]]
            out = alts[-1]
            for a in reversed(alts[:-1]):
                out = f"(RAlt {a} {out})"
            return out
        if op in (C.ASSERT, C.ASSERT_NOT):
            direction, body = av
            neg = "true" if op is C.ASSERT_NOT else "false"
            if direction == 1:
                return f"(RLook {neg} {self.seq(body)})"
            body = list(body)
            if len(body) != 1 or body[0][0] not in (C.LITERAL, C.NOT_LITERAL, C.IN):
                raise Unsupported("look-behind wider than one character class")
            return f"(RBehind1 {neg} {self.seq(body)})"
        if op is C.GROUPREF:
            return f"(RRef {av}%nat)"
        raise Unsupported(f"opcode {op}")


def translate(pattern: str, flags: int, rx: bool = False) -> tuple[str, int]:
    if flags & ~SUPPORTED_FLAGS:
        raise Unsupported(f"flags {flags}")
    src = pattern
    if rx:
        if chr(PU_LETTER) in src or chr(PU_LOWER) in src:
            raise Unsupported("private-use character in regex-module pattern")
        src = src.replace(r"\p{Ll}", chr(PU_LOWER)).replace(r"\p{L}", chr(PU_LETTER))
        if r"\p" in src or r"\P" in src:
            raise Unsupported("regex-module syntax beyond \\p{L}, \\p{Ll}")
    tree = P.parse(src, flags)
    tr = Tr(flags, rx)
    term = tr.seq(tree)
    return term, tree.state.groups  # groups includes group 0


# ---------------------------------------------------------------------------------
# inventory
# ---------------------------------------------------------------------------------

# module-level compiled patterns: coq name -> (module, attribute, is_regex_module)
MODULE_PATTERNS = {
    "re_atomic": ("flowmark.linewrapping.atomic_patterns", "ATOMIC_CONSTRUCT_PATTERN", False),
    "re_template_tag": ("flowmark.linewrapping.tag_handling", "TEMPLATE_TAG_PATTERN", False),
    "re_adjacent_tags": ("flowmark.linewrapping.tag_handling", "_adjacent_tags_re", False),
    "re_denormalize_tags": ("flowmark.linewrapping.tag_handling", "_denormalize_tags_re", False),
    "re_multiline_closing": ("flowmark.linewrapping.tag_handling", "_multiline_closing_pattern", False),
    "re_md_specials": ("flowmark.linewrapping.text_wrapping", "_md_specials_pat", False),
    "re_md_numeral": ("flowmark.linewrapping.text_wrapping", "_md_numeral_pat", False),
    "re_line_break": ("flowmark.linewrapping.line_wrappers", "_line_break_re", False),
    "re_sentence_end": ("flowmark.linewrapping.sentence_split_regex", "SENTENCE_END_RE", True),
    "re_paragraph_break": ("flowmark.typography.smartquotes", "PARAGRAPH_BREAK_PATTERN", False),
    "re_quote": ("flowmark.typography.smartquotes", "QUOTE_PATTERN", False),
    "re_ellipsis": ("flowmark.typography.ellipses", "ELLIPSIS_PATTERN", False),
    "re_pangu": ("marko.ext.pangu", "PANGU_RE", False),
}

# inline literal patterns: (module, function qualname) -> list of coq names, in source order of
# the re.<fn>(pattern, ...) calls inside that function
INLINE_PATTERNS = {
    ("flowmark.linewrapping.text_wrapping", "wrap_paragraph_lines"): ["re_ws_run", "re_ws_run_2"],
    ("flowmark.linewrapping.text_filling", "split_paragraphs"): ["re_para_split"],
    ("flowmark.typography.smartquotes", "_apply_smart_quotes_to_text"):
        ["re_sq_split", "re_sq_contraction", "re_sq_apos", "re_sq_possessive", "re_sq_apos_2"],
    ("flowmark.typography.ellipses", "ellipses"): ["re_ell_word_or_end", "re_ell_word", "re_ell_word_2"],
}

RE_FUNCS = {"compile", "sub", "subn", "split", "match", "search", "fullmatch", "findall", "finditer"}


def _find_function(tree: ast.AST, qualname: str) -> ast.FunctionDef:
    parts = qualname.split(".")
    node = tree
    for part in parts:
        found = None
        for ch in ast.walk(node):
            if isinstance(ch, (ast.FunctionDef, ast.ClassDef)) and ch.name == part and ch is not node:
                found = ch
                break
        if found is None:
            raise Unsupported(f"function {qualname} not found")
        node = found
    return node  # type: ignore


def inline_patterns(modname: str, qualname: str) -> list[tuple[str, int, str]]:
    mod = importlib.import_module(modname)
    src = inspect.getsource(mod)
    tree = ast.parse(src)
    fn = _find_function(tree, qualname)
    # simple constant assignments inside the function (name -> str)
    consts: dict[str, str] = {}
    for node in ast.walk(fn):
        if isinstance(node, ast.Assign) and len(node.targets) == 1 and isinstance(node.targets[0], ast.Name) \
                and isinstance(node.value, ast.Constant) and isinstance(node.value.value, str):
            consts[node.targets[0].id] = node.value.value
    calls = []
    for node in ast.walk(fn):
        if isinstance(node, ast.Call) and isinstance(node.func, ast.Attribute) and isinstance(node.func.value, ast.Name) \
                and node.func.value.id == "re" and node.func.attr in RE_FUNCS:
            calls.append(node)
    calls.sort(key=lambda n: (n.lineno, n.col_offset))
    out = []
    for call in calls:
        a0 = call.args[0]
        if isinstance(a0, ast.Constant) and isinstance(a0.value, str):
            pat = a0.value
        elif isinstance(a0, ast.Name) and a0.id in consts:
            pat = consts[a0.id]
        else:
            raise Unsupported(f"{modname}.{qualname}: non-literal pattern at line {call.lineno}")
        flags = 0
        for kw in call.keywords:
            if kw.arg == "flags":
                raise Unsupported("flags keyword on inline pattern")
        # positional flags: re.sub(p, r, s, count, flags) / re.match(p, s, flags) etc. -- none expected
        nmax = {"sub": 3, "subn": 3, "split": 2, "match": 2, "search": 2, "fullmatch": 2, "findall": 2,
                "finditer": 2, "compile": 1}[call.func.attr]
        if len(call.args) > nmax:
            raise Unsupported("positional flags/count on inline pattern")
        out.append((pat, flags | re.UNICODE, call.func.attr))
    return out


def generate() -> dict[str, str]:
    lines = [
        "(* GENERATED by gen/regex_to_coq.py from /repo's working tree. Do not edit. *)",
        "From Coq Require Import List NArith.",
        "Import ListNotations.",
        "From Base Require Import Regex.",
        "Local Open Scope N_scope.",
        "",
    ]
    names = []
    for name, (modname, attr, rx) in MODULE_PATTERNS.items():
        mod = importlib.import_module(modname)
        if not hasattr(mod, attr):
            raise SystemExit(f"gen: regex inventory: {modname}.{attr} is missing")
        pat = getattr(mod, attr)
        flags = pat.flags
        if rx:
            import regex as rxmod
            allowed = rxmod.UNICODE | rxmod.V0 | rxmod.MULTILINE | rxmod.DOTALL
            if flags & ~allowed:
                raise SystemExit(f"gen: {attr}: unsupported regex-module flags {flags}")
            f2 = (re.MULTILINE if flags & rxmod.MULTILINE else 0) | (re.DOTALL if flags & rxmod.DOTALL else 0) | re.UNICODE
        else:
            f2 = flags
        try:
            term, ngroups = translate(pat.pattern, f2, rx)
        except Unsupported as e:
            raise SystemExit(f"gen: cannot translate {modname}.{attr} = {pat.pattern!r}: {e}")
        lines.append(f"(* {modname}.{attr} = {pat.pattern!r} flags={f2} *)".replace("*)", "* )", 0))
        lines.append(f"Definition {name} : pattern := Pat {term} {ngroups}%nat.")
        lines.append("")
        names.append(name)
    for (modname, qual), coqnames in INLINE_PATTERNS.items():
        try:
            found = inline_patterns(modname, qual)
        except Unsupported as e:
            raise SystemExit(f"gen: {e}")
        if len(found) != len(coqnames):
            raise SystemExit(f"gen: regex inventory of {modname}.{qual} changed: expected {len(coqnames)} "
                             f"inline patterns, found {len(found)}: {[f[0] for f in found]}")
        for cn, (pat, flags, fn) in zip(coqnames, found):
            try:
                term, ngroups = translate(pat, flags, False)
            except Unsupported as e:
                raise SystemExit(f"gen: cannot translate inline {pat!r} in {qual}: {e}")
            lines.append(f"(* {modname}.{qual}: re.{fn}({pat!r}) *)")
            lines.append(f"Definition {cn} : pattern := Pat {term} {ngroups}%nat.")
            lines.append("")
            names.append(cn)
    lines.append("Definition pattern_table : list pattern := [%s]." % "; ".join(names))
    lines.append("")
    text = "\n".join(lines)
    # comments must not contain a stray close-comment; patterns contain "*)" e.g. "[^)]*)" -> neutralise
    fixed = []
    for ln in text.split("\n"):
        if ln.startswith("(* ") and ln.endswith(" *)"):
            inner = ln[3:-3].replace("*)", "* )").replace("(*", "( *").replace('"', "'")
            ln = "(* " + inner + " *)"
        fixed.append(ln)
    return {"Regexes.v": "\n".join(fixed) + "\n"}


def pattern_names() -> list[str]:
    out = list(MODULE_PATTERNS)
    for v in INLINE_PATTERNS.values():
        out += v
    return out


def pattern_sources() -> dict[str, tuple[str, int, bool]]:
    """name -> (pattern source, flags, is_regex_module) as found in the working tree."""
    out = {}
    for name, (modname, attr, rx) in MODULE_PATTERNS.items():
        pat = getattr(importlib.import_module(modname), attr)
        out[name] = (pat.pattern, int(pat.flags), rx)
    for (modname, qual), coqnames in INLINE_PATTERNS.items():
        for cn, (pat, flags, fn) in zip(coqnames, inline_patterns(modname, qual)):
            out[cn] = (pat, flags, False)
    return out


if __name__ == "__main__":
    print(generate()["Regexes.v"])
