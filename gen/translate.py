"""Translator: regenerate coq/Gen/*.v from /repo's working tree (run with
PYTHONPATH=/repo/src).  Fail-closed: any unrecognised shape raises SystemExit(1)."""
from __future__ import annotations

import importlib
import sys
from pathlib import Path

HERE = Path(__file__).resolve().parent
sys.path.insert(0, str(HERE))
GEN = HERE.parent / "coq" / "Gen"


def write_if_changed(name: str, text: str):
    p = GEN / name
    if not p.exists() or p.read_text() != text:
        p.write_text(text)
        print(f"gen: wrote {name}")


def main():
    GEN.mkdir(exist_ok=True)
    import unicode_tables
    write_if_changed("Unicode.v", unicode_tables.emit(unicode_tables.tables()))
    for modname in ("consts", "regex_to_coq", "wiring", "inventory"):
        if (HERE / f"{modname}.py").exists():
            mod = importlib.import_module(modname)
            for fname, text in mod.generate().items():
                write_if_changed(fname, text)


if __name__ == "__main__":
    try:
        main()
    except SystemExit:
        raise
    except Exception as e:  # fail closed
        import traceback
        traceback.print_exc()
        print(f"gen: FAILED: {type(e).__name__}: {e}")
        sys.exit(1)
