"""Wiring translator: how option values travel CLI -> reformat_files -> reformat_file ->
reformat_text -> fill_markdown / fill_text, read from the source with `ast` and
`inspect.signature`, emitted as Coq functions on the option record (Gen/Wiring.v), plus the
argparse / config tables of cli.py and config.py.  Fail-closed."""
from __future__ import annotations

import ast
import importlib
import inspect

FIELDS = ["width", "plaintext", "semantic", "cleanups", "smartquotes", "ellipses", "list_spacing", "inplace", "nobackup"]


class Bad(Exception):
    pass


def func_ast(modname: str, fname: str) -> ast.FunctionDef:
    mod = importlib.import_module(modname)
    tree = ast.parse(inspect.getsource(mod))
    for node in ast.walk(tree):
        if isinstance(node, ast.FunctionDef) and node.name == fname:
            return node
    raise Bad(f"{modname}.{fname} not found")


def calls_in(fn: ast.FunctionDef, callee: str) -> list[ast.Call]:
    out = []
    for node in ast.walk(fn):
        if isinstance(node, ast.Call):
            f = node.func
            name = f.id if isinstance(f, ast.Name) else (f.attr if isinstance(f, ast.Attribute) else None)
            if name == callee:
                out.append(node)
    out.sort(key=lambda n: (n.lineno, n.col_offset))
    return out


def expr_field(e: ast.expr, base: str | None) -> tuple[str, bool]:
    """expression -> (field name it reads, negated?)   allowed: name, base.attr, not <those>,
    ListSpacing(base.attr)"""
    neg = False
    if isinstance(e, ast.UnaryOp) and isinstance(e.op, ast.Not):
        neg = True
        e = e.operand
    if isinstance(e, ast.Call) and isinstance(e.func, ast.Name) and e.func.id == "ListSpacing" and len(e.args) == 1:
        e = e.args[0]
    if isinstance(e, ast.Name):
        return e.id, neg
    if isinstance(e, ast.Attribute) and isinstance(e.value, ast.Name) and (base is None or e.value.id == base):
        return e.attr, neg
    raise Bad(f"unsupported argument expression: {ast.unparse(e)}")


def bind(call: ast.Call, callee_params: list[str], base: str | None, skip_first_positional=0) -> dict[str, tuple[str, bool]]:
    """parameter name -> (source field, negated) for one call"""
    out: dict[str, tuple[str, bool]] = {}
    pos = call.args[skip_first_positional:]
    params = callee_params[skip_first_positional:]
    if len(pos) > len(params):
        raise Bad("too many positional arguments")
    for p, a in zip(params, pos):
        if isinstance(a, ast.Starred):
            raise Bad("starred argument")
        try:
            out[p] = expr_field(a, base)
        except Bad:
            if p in FIELDS:
                raise
    for kw in call.keywords:
        if kw.arg is None:
            raise Bad("**kwargs in call")
        if kw.arg in out:
            raise Bad(f"duplicate argument {kw.arg}")
        try:
            out[kw.arg] = expr_field(kw.value, base)
        except Bad:
            if kw.arg in FIELDS:
                raise
    return out


def layer(name: str, binding: dict[str, tuple[str, bool]], callee_params: list[str], defaults: dict[str, object]) -> str:
    """Coq function fo -> fo: fields that are parameters of the callee take the bound value (or the
    callee's default when not passed); other fields are carried unchanged."""
    parts = []
    for f in FIELDS:
        if f in callee_params:
            if f in binding:
                src, neg = binding[f]
                if src not in FIELDS:
                    raise Bad(f"{name}: parameter {f} is fed from {src}, which is not a tracked option")
                v = f"f_{src} o"
                if neg:
                    v = f"negb ({v})"
            else:
                if f not in defaults:
                    raise Bad(f"{name}: parameter {f} neither passed nor defaulted")
                v = coq_value(f, defaults[f])
        else:
            v = f"f_{f} o"
        parts.append(f"f_{f} := {v}")
    return f"Definition {name} (o : fo) : fo :=\n  {{| " + ";\n     ".join(parts) + " |}.\n"


def coq_value(field: str, v) -> str:
    if isinstance(v, bool):
        return "true" if v else "false"
    if isinstance(v, int):
        return f"({v})%Z"
    s = getattr(v, "value", v)
    if s in ("preserve", "loose", "tight"):
        return {"preserve": "LPreserve", "loose": "LLoose", "tight": "LTight"}[s]
    raise Bad(f"default of {field} not representable: {v!r}")


def sig(modname: str, fname: str):
    f = getattr(importlib.import_module(modname), fname)
    s = inspect.signature(f)
    params = list(s.parameters)
    defaults = {n: p.default for n, p in s.parameters.items() if p.default is not inspect.Parameter.empty}
    return params, defaults


def coq_strlist(xs) -> str:
    return "[" + "; ".join('"%s"' % x for x in xs) + "]"


def argparse_table(fn: ast.FunctionDef, parser_name: str):
    rows = []
    for node in ast.walk(fn):
        if isinstance(node, ast.Call) and isinstance(node.func, ast.Attribute) and node.func.attr == "add_argument" \
                and isinstance(node.func.value, ast.Name) and node.func.value.id == parser_name:
            flags = []
            for a in node.args:
                if not (isinstance(a, ast.Constant) and isinstance(a.value, str)):
                    raise Bad("non-literal flag in add_argument")
                flags.append(a.value)
            kw = {k.arg: k.value for k in node.keywords}
            dest = None
            if "dest" in kw:
                dest = kw["dest"].value
            else:
                longs = [f for f in flags if f.startswith("--")]
                dest = (longs[0][2:] if longs else flags[0].lstrip("-")).replace("-", "_")
            action = kw["action"].value if "action" in kw else "store"
            typ = kw["type"].id if "type" in kw and isinstance(kw["type"], ast.Name) else ""
            nargs = kw["nargs"].value if "nargs" in kw else ""
            rows.append((node.lineno, dest, flags, action, typ, nargs))
    rows.sort()
    return [r[1:] for r in rows]


def generate() -> dict[str, str]:
    try:
        return _generate()
    except Bad as e:
        raise SystemExit(f"gen: wiring: {e}")


def _generate() -> dict[str, str]:
    L = [
        "(* GENERATED by gen/wiring.py from /repo's working tree. Do not edit. *)",
        "From Coq Require Import List ZArith Bool String.",
        "Import ListNotations.",
        "From Base Require Import CliTypes.",
        "Local Open Scope string_scope.",
        "",
    ]
    # ---- Options(...) constructor in cli._parse_args: field <- opts.X ----
    pa = func_ast("flowmark.cli", "_parse_args")
    ctor = calls_in(pa, "Options")
    if len(ctor) != 1:
        raise Bad("expected exactly one Options(...) construction in _parse_args")
    b = bind(ctor[0], [], "opts")
    opt_fields = [kw.arg for kw in ctor[0].keywords]
    L.append(layer("w_options", {k: v for k, v in b.items()}, FIELDS, {}))
    # the `if opts.auto:` block
    auto_sets = []
    for node in ast.walk(pa):
        if isinstance(node, ast.If) and isinstance(node.test, ast.Attribute) and node.test.attr == "auto":
            for st in node.body:
                if not (isinstance(st, ast.Assign) and len(st.targets) == 1 and isinstance(st.targets[0], ast.Attribute)
                        and isinstance(st.value, ast.Constant) and isinstance(st.value.value, bool)):
                    raise Bad("unsupported statement in `if opts.auto:` block")
                auto_sets.append((st.targets[0].attr, st.value.value))
            if node.orelse:
                raise Bad("`if opts.auto:` has an else branch")
    L.append("Definition auto_sets : list (string * bool) := [%s]." %
             "; ".join('("%s", %s)' % (n, "true" if v else "false") for n, v in auto_sets))
    L.append("")
    # ---- cli.main -> reformat_files ----
    mainf = func_ast("flowmark.cli", "main")
    c = calls_in(mainf, "reformat_files")
    if len(c) != 1:
        raise Bad("expected exactly one reformat_files(...) call in main")
    p_files, d_files = sig("flowmark.reformat_api", "reformat_files")
    L.append(layer("w_main_files", bind(c[0], p_files, "options"), p_files, d_files))
    # ---- reformat_files -> reformat_file (two call sites) ----
    rf = func_ast("flowmark.reformat_api", "reformat_files")
    c = calls_in(rf, "reformat_file")
    if len(c) != 2:
        raise Bad("expected two reformat_file(...) calls in reformat_files")
    p_file, d_file = sig("flowmark.reformat_api", "reformat_file")
    L.append(layer("w_files_file_stdin", bind(c[0], p_file, None), p_file, d_file))
    L.append(layer("w_files_file_loop", bind(c[1], p_file, None), p_file, d_file))
    # ---- reformat_file -> reformat_text (positional) ----
    rfile = func_ast("flowmark.reformat_api", "reformat_file")
    c = calls_in(rfile, "reformat_text")
    if len(c) != 1:
        raise Bad("expected one reformat_text(...) call in reformat_file")
    p_text, d_text = sig("flowmark.reformat_api", "reformat_text")
    L.append(layer("w_file_text", bind(c[0], p_text, None, skip_first_positional=1), p_text, d_text))
    # ---- reformat_text -> fill_markdown / fill_text ----
    rt = func_ast("flowmark.reformat_api", "reformat_text")
    c = calls_in(rt, "fill_markdown")
    if len(c) != 1:
        raise Bad("expected one fill_markdown(...) call in reformat_text")
    p_md, d_md = sig("flowmark.linewrapping.markdown_filling", "fill_markdown")
    L.append(layer("w_text_markdown", bind(c[0], p_md, None, skip_first_positional=1), p_md, d_md))
    c = calls_in(rt, "fill_text")
    if len(c) != 1:
        raise Bad("expected one fill_text(...) call in reformat_text")
    p_ft, d_ft = sig("flowmark.linewrapping.text_filling", "fill_text")
    L.append(layer("w_text_plain", bind(c[0], p_ft, None, skip_first_positional=1), p_ft, d_ft))
    # which parameters of fill_markdown / fill_text are options at all
    L.append("Definition markdown_params : list string := %s." % coq_strlist([p for p in p_md if p in FIELDS]))
    L.append("Definition plain_params : list string := %s." % coq_strlist([p for p in p_ft if p in FIELDS]))
    # ---- cli._resolve_files -> FileResolverConfig ----
    rs = func_ast("flowmark.cli", "_resolve_files")
    c = calls_in(rs, "FileResolverConfig")
    if len(c) != 1:
        raise Bad("expected one FileResolverConfig(...) call in _resolve_files")
    rb = bind(c[0], [], "options")
    for k, (src, neg) in rb.items():
        if k != src or neg:
            raise Bad(f"FileResolverConfig({k}=...) is fed from options.{src}{' negated' if neg else ''}")
    L.append("Definition resolver_params_from_options : list string := %s." % coq_strlist(sorted(rb)))
    L.append("")
    # ---- tables ----
    cfgmod = importlib.import_module("flowmark.config")
    import dataclasses
    cfg_fields = [f.name for f in dataclasses.fields(cfgmod.FlowmarkConfig)]
    L.append("Definition config_fields : list string := %s." % coq_strlist(cfg_fields))
    L.append("Definition options_fields : list string := %s." % coq_strlist(opt_fields))
    L.append("Definition config_filenames : list string := %s." % coq_strlist(cfgmod._CONFIG_FILENAMES))
    L.append("Definition kebab_to_snake : list (string * string) := [%s]." %
             "; ".join('("%s", "%s")' % kv for kv in cfgmod._KEBAB_TO_SNAKE.items()))
    # auto_locked set and _tracked_flags dict are literals inside functions
    mc = func_ast("flowmark.config", "merge_cli_with_config")
    locked = None
    for node in ast.walk(mc):
        if isinstance(node, ast.Assign) and isinstance(node.targets[0], ast.Name) and node.targets[0].id == "auto_locked":
            if not isinstance(node.value, ast.Set):
                raise Bad("auto_locked is not a set literal")
            locked = sorted(e.value for e in node.value.elts)
    if locked is None:
        raise Bad("auto_locked not found")
    L.append("Definition auto_locked : list string := %s." % coq_strlist(locked))
    tracked = None
    append_dests = None
    for node in ast.walk(pa):
        if isinstance(node, ast.AnnAssign) and isinstance(node.target, ast.Name) and node.target.id == "_tracked_flags":
            if not isinstance(node.value, ast.Dict):
                raise Bad("_tracked_flags is not a dict literal")
            tracked = [(k.value, v.value) for k, v in zip(node.value.keys, node.value.values)]
        if isinstance(node, ast.Compare) and isinstance(node.left, ast.Name) and node.left.id == "dest_name" \
                and isinstance(node.ops[0], ast.In) and isinstance(node.comparators[0], ast.Tuple):
            append_dests = [e.value for e in node.comparators[0].elts]
    if tracked is None or append_dests is None:
        raise Bad("_tracked_flags / append-dest tuple not found")
    L.append("Definition tracked_flags : list (string * string) := [%s]." % "; ".join('("%s", "%s")' % kv for kv in tracked))
    L.append("Definition append_dests : list string := %s." % coq_strlist(append_dests))

    def table(name, rows):
        L.append(f"Definition {name} : list (string * list string * string * string) := [")
        L.append(";\n".join('  ("%s", %s, "%s", "%s")' % (d, coq_strlist(fl), act, typ) for d, fl, act, typ, _n in rows))
        L.append("].")
    table("main_parser", argparse_table(pa, "parser"))
    table("sentinel_parser", argparse_table(pa, "sentinel_parser"))
    L.append("")
    return {"Wiring.v": "\n".join(L) + "\n"}


if __name__ == "__main__":
    print(generate()["Wiring.v"])
