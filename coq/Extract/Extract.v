(* Extraction of the executable model. ExtrOcamlBasic only; N/Z/positive/nat stay inductive. *)
From Coq Require Extraction ExtrOcamlBasic.
From Base Require Import PyStr.
From Model Require Import Wrap RxPort.

Extraction Language OCaml.
Extraction "model.ml"
  split_ws strip collapse_ws splitlines
  escape_word wrap_words wrap_ok wrap_paragraph_lines
  rx_finditer.
