(* Extraction of the executable model. ExtrOcamlBasic only; N/Z/positive/nat stay inductive. *)
From Coq Require Extraction ExtrOcamlBasic.
From Base Require Import PyStr.
From Model Require Import Wrap BlockStart Resolver RxPort Tags LineWrap Frontmatter FsOps Cli Typography Ast Transforms Render Pipeline InlineRead BlockRead.

Extraction Language OCaml.
Extraction "model.ml"
  split_ws strip collapse_ws splitlines
  escape_word opens_block_word wrap_words wrap_ok wrap_ok_strict wrap_paragraph_lines
  rx_finditer
  escape_rx html_md_word_splitter normalize_adjacent_tags denormalize_adjacent_tags
  preprocess_tag_block_spacing fix_closing_tag_spacing fix_multiline_opening_tag_with_closing
  line_is_block_content line_is_list_item line_is_table_row is_tag_only_line
  wrap_paragraph_lines_md wrap_paragraph line_wrap_to_width line_wrap_by_sentence
  split_sentences_regex split_markdown_hard_breaks fill_text
  split_frontmatter fill_markdown_fm
  run_prog target_okb
  main_run merge_fields find_config
  smart_quotes ellipses
  walk include_explicit expand_glob resolve
  read_code_span read_destination read_title read_fenced render_code_span link_destination normalize_title_quotes strip_backslash escape_backslashes escape_backslashes_inner read_atx escape_closing_hashes read_ol_marker read_row
  dedent prepare_body render_parsed transform_doc render_doc doc_cleanups coalesce_doc fill_markdown parser_input.
