(* C14 — In-place formatting never leaves a damaged or half-written file.
   A run is a list of micro-operations (FsOps.job_prog / run_prog); an operation that raises
   and a process that dies both end the run after some prefix; a partial write is a prefix of
   a finer chunking.  The theorems quantify over every prefix length k, every chunking of the
   new content, every initial file system, with and without backup, any number of files. *)
From Coq Require Import List NArith Bool Arith.
Import ListNotations.
From Base Require Import PyStr.
From Model Require Import FsOps.
From Proofs Require Import FsProofs.

(* 1. One target, any crash point: the target holds the old or the new content, or (backup)
   is absent while the backup name holds the old content; nothing else is touched. *)
Theorem C14_target_never_partial : forall j f0 k, job_wf j ->
  let f := exec (firstn k (job_prog j)) f0 in
  target_ok j f0 f /\
  (forall q, q <> j_dst j -> q <> j_tmp j -> q <> j_orig j -> f q = f0 q) /\
  (j_backup j = false -> f (j_orig j) = f0 (j_orig j)).
Proof. exact job_prefix_ok. Qed.
Print Assumptions C14_target_never_partial.

(* 2. With backups the old content stays recoverable at every instant. *)
Theorem C14_backup_recoverable : forall j f0 k old, job_wf j -> j_backup j = true ->
  f0 (j_dst j) = Some old -> old <> j_new j ->
  let f := exec (firstn k (job_prog j)) f0 in
  f (j_dst j) = Some old \/ f (j_orig j) = Some old \/ f (j_dst j) = Some (j_new j).
Proof. exact backup_recoverable. Qed.
Print Assumptions C14_backup_recoverable.

(* 3. A run that is not interrupted installs the new content. *)
Theorem C14_job_complete : forall j f0, job_wf j ->
  exec (job_prog j) f0 (j_dst j) = Some (j_new j).
Proof. exact job_complete. Qed.
Print Assumptions C14_job_complete.

(* 4. Several files: after any prefix of the whole run every target is old, new or in the
   backup window (files are processed one after the other; names must not collide). *)
Theorem C14_multi_file_all_or_nothing : forall js f0 k,
  Forall job_wf js -> ForallOrdPairs disjoint_jobs js ->
  let f := exec (firstn k (run_prog js)) f0 in
  Forall (fun j => target_ok j f0 f) js.
Proof. exact run_prefix_ok. Qed.
Print Assumptions C14_multi_file_all_or_nothing.

(* 5. Frame: operations only touch the paths they name, so a run without file-system
   operations (failure while reading/formatting; output to stdout) changes nothing. *)
Theorem C14_no_ops_no_change : forall f0, exec [] f0 = f0.
Proof. reflexivity. Qed.
Print Assumptions C14_no_ops_no_change.

Theorem C14_frame : forall ops f q, (forall o, In o ops -> ~ In q (touches o)) -> exec ops f q = f q.
Proof. exact exec_frame. Qed.
Print Assumptions C14_frame.

(* the extracted checker used on observed directory states means target_ok *)
Theorem C14_checker_spec : forall j f0 f,
  target_okb (j_backup j) (j_new j) (f0 (j_dst j)) (f (j_dst j)) (f (j_orig j)) = true <->
  target_ok j f0 f.
Proof. exact target_okb_spec. Qed.
Print Assumptions C14_checker_spec.
