(* C16 — Configuration precedence: explicit flag over config file over default. *)
From Coq Require Import List ZArith Bool String.
Import ListNotations.
From Gen Require Import Wiring.
From Model Require Import Cli.
From Proofs Require Import CliProofs CliTables.
Local Open Scope list_scope.

(* 1. Precedence, pointwise for every setting n of any duplicate-free field list: explicit flag
   (even with the default value) wins; otherwise the config value, unless --auto locks the
   field; otherwise what the command line / preset / default gave. *)
Theorem C16_precedence : forall V fields, NoDup fields ->
  forall cli cfg is_auto explicit locked n,
  merge_fields V fields cli cfg is_auto explicit locked n =
  if mem n fields then effective V cli cfg is_auto explicit locked n else cli n.
Proof. exact merge_precedence. Qed.
Print Assumptions C16_precedence.

(* the real field list is duplicate-free *)
Theorem C16_config_fields_nodup : NoDup config_fields.
Proof. repeat constructor; cbn; intuition discriminate. Qed.
Print Assumptions C16_config_fields_nodup.

(* 2. The explicit-flag table covers every dual setting, and the sentinel parser spells each
   tracked flag like the main parser. *)
Theorem C16_explicit_table_complete : cert_tracked_complete = true /\ cert_sentinel = true.
Proof. split; [exact cert_tracked_complete_ok|exact cert_sentinel_ok]. Qed.
Print Assumptions C16_explicit_table_complete.

(* 3. --auto locks exactly the formatting switches; width and discovery settings still come
   from the config file; the discovery settings reach the resolver unchanged. *)
Theorem C16_auto_locks_exactly_formatting : cert_locked = true /\ cert_resolver = true.
Proof. split; [exact cert_locked_ok|exact cert_resolver_ok]. Qed.
Print Assumptions C16_auto_locks_exactly_formatting.

(* 4. Every accepted key has a field to land in -- all keys except `include`
   (Findings/C16_refuted.v: D-19). *)
Theorem C16_every_key_effective_partial : cert_keys_effective_except ["include"%string] = true.
Proof. exact cert_keys_effective_partial_ok. Qed.
Print Assumptions C16_every_key_effective_partial.

(* 5. Upward search: the nearest directory with a qualifying file wins; inside a directory the
   fixed filename order, a pyproject.toml only when it has the [tool.flowmark] table. *)
Theorem C16_find_config_nearest : forall dirs depth d n,
  find_config dirs depth = Some (d, n) ->
  exists k, d = (depth + k)%nat /\
    (forall i, (i < k)%nat -> first_in_dir (nth i dirs []) = None) /\
    first_in_dir (nth k dirs []) = Some n.
Proof. exact find_config_nearest. Qed.
Print Assumptions C16_find_config_nearest.

Theorem C16_first_in_dir : forall cands n, first_in_dir cands = Some n ->
  exists pre st post, cands = pre ++ (n, st) :: post /\ is_file st = true /\
    (n = "pyproject.toml"%string -> has_section st = true) /\
    Forall (fun c => is_file (snd c) = false \/ (fst c = "pyproject.toml"%string /\ has_section (snd c) = false)) pre.
Proof. exact first_in_dir_spec. Qed.
Print Assumptions C16_first_in_dir.

Theorem C16_filename_order : cert_filenames = true.
Proof. exact cert_filenames_ok. Qed.
Print Assumptions C16_filename_order.
