(* C11 — Semantic line breaks fall at sentence ends and keep edits local.
   All statements are generic in the sentence-end heuristic [heur], the minimum sentence
   length [ml], the minimum line length [mll], the width and the per-sentence wrapper
   [wrapf] (any function from a sentence and a start column to lines, possibly raising). *)
From Coq Require Import List ZArith Bool.
Import ListNotations.
From Base Require Import PyStr.
From Model Require Import Wrap LineWrap.
From Proofs Require Import SentenceProofs.
Local Open Scope Z_scope.

(* 1a. The sentences partition the words, in order. *)
Theorem C11_sentences_partition : forall heur ml ws,
  concat (split_sentences_loop heur ml ws [] 0) = ws.
Proof. intros heur ml ws. exact (ssl_concat heur ml ws [] 0). Qed.
Print Assumptions C11_sentences_partition.

(* 1b. Every sentence except possibly the last ends at a word that passes the heuristic with
   the sentence long enough, and no earlier word of any sentence is such an end. *)
Theorem C11_sentences_end_only_at_ends : forall heur ml ws,
  all_ok heur ml (split_sentences_loop heur ml ws [] 0).
Proof.
  intros heur ml ws. apply ssl_ok; [reflexivity|].
  intros a x b F. destruct a; discriminate.
Qed.
Print Assumptions C11_sentences_end_only_at_ends.

(* 2. Provenance of output lines: a line is one wrapped line of one sentence, possibly
   prefixed by merged earlier lines, each shorter than the minimum line length when merged
   and only if the merged line fits the width.  (So a sentence end is followed by a line break
   unless the line so far is shorter than the minimum.) *)
Theorem C11_lines_provenance : forall wrapf width mll i1len i2len ss L,
  sentence_loop wrapf width mll i1len i2len ss [] true = inl L ->
  Forall (line_from wrapf width mll ss) L.
Proof. exact lines_provenance. Qed.
Print Assumptions C11_lines_provenance.

(* 3. Prefix stability: appending sentences can only change the last line of what precedes. *)
Theorem C11_prefix_stable : forall wrapf width mll i1len i2len P Q LP L,
  sentence_loop wrapf width mll i1len i2len P [] true = inl LP ->
  sentence_loop wrapf width mll i1len i2len (P ++ Q) [] true = inl L ->
  prefix (removelast LP) L.
Proof. exact prefix_stable. Qed.
Print Assumptions C11_prefix_stable.

(* 4. Resynchronisation: after a line of at least the minimum length the rest of the
   paragraph is laid out independently of everything before it. *)
Theorem C11_resync : forall wrapf width mll i1len i2len P Q LP,
  P <> [] ->
  sentence_loop wrapf width mll i1len i2len P [] true = inl LP ->
  mll <= len (last LP []) -> LP <> [] ->
  sentence_loop wrapf width mll i1len i2len (P ++ Q) [] true =
  (LQ <- sentence_loop wrapf width mll i1len i2len Q [] false ;; ret (LP ++ LQ)).
Proof. exact resync. Qed.
Print Assumptions C11_resync.

(* 5. Edit locality, in the property's own words: two paragraphs that share the sentences
   before (A) and after (B) an edited region (X vs X') have identical lines before the last
   line of A's layout, and identical lines after any point where both layouts of A++X and
   A++X' end on a line of at least the minimum length. *)
Theorem C11_edit_locality : forall wrapf width mll i1len i2len A X X' B LA L L',
  sentence_loop wrapf width mll i1len i2len A [] true = inl LA ->
  sentence_loop wrapf width mll i1len i2len (A ++ X ++ B) [] true = inl L ->
  sentence_loop wrapf width mll i1len i2len (A ++ X' ++ B) [] true = inl L' ->
  prefix (removelast LA) L /\ prefix (removelast LA) L' /\
  (forall LX LX',
     A ++ X <> [] -> A ++ X' <> [] ->
     sentence_loop wrapf width mll i1len i2len (A ++ X) [] true = inl LX ->
     sentence_loop wrapf width mll i1len i2len (A ++ X') [] true = inl LX' ->
     mll <= len (last LX []) -> mll <= len (last LX' []) -> LX <> [] -> LX' <> [] ->
     exists LB, L = LX ++ LB /\ L' = LX' ++ LB).
Proof. exact edit_locality. Qed.
Print Assumptions C11_edit_locality.
