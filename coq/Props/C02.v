(* C02 — Formatting is idempotent.
   What a proof can carry: at the paragraph level the wrapped form is a function of the word
   sequence, and re-reading the wrapped lines gives that word sequence back, so wrapping the
   wrapped lines again changes nothing (plain mode, whitespace splitter, every width (wrapping or not) and
   every pair of columns); frontmatter: an unclosed frontmatter document is a fixpoint of the whole
   formatter (Props/C07.v).  Whether Marko reads the canonical spelling back as the same tree, and
   the Markdown-aware splitter, are covered by the two-pass runs of harness/c02.py (model and
   implementation).  Property theorems only. *)
From Coq Require Import List NArith ZArith Bool.
Import ListNotations.
From Base Require Import PyStr.
From Model Require Import Wrap.
From Proofs Require Import PyStrFacts WrapProofs CanonProofs IdemProofs.
From Model Require Ast Transforms.
From Proofs Require CleanupIdem.
Local Open Scope Z_scope.

Theorem C02_reread_gives_the_words : forall esc text width c0 c1,
  split_ws (join [nl] (wrap_paragraph_lines esc split_ws text width c0 c1 true true false)) = split_ws text.
Proof. exact wrap_words_reread. Qed.
Print Assumptions C02_reread_gives_the_words.

Theorem C02_wrap_idempotent : forall esc text width c0 c1,
  wrap_paragraph_lines esc split_ws
    (join [nl] (wrap_paragraph_lines esc split_ws text width c0 c1 true true false)) width c0 c1 true true false
  = wrap_paragraph_lines esc split_ws text width c0 c1 true true false.
Proof. exact wrap_idempotent. Qed.
Print Assumptions C02_wrap_idempotent.

(* non-vacuity: a paragraph that is actually re-broken *)
Example C02_example :
  wrap_paragraph_lines (fun w => w) split_ws [97; 32; 32; 98; 10; 99; 99; 32; 100]%N 4 0 0 true true false
  = [[97; 32; 98]; [99; 99; 32; 100]]%N.
Proof. vm_compute. reflexivity. Qed.

(* Markdown mode (escapes at line heads): wrapping the wrapped paragraph again reproduces it, for every
   text, width and pair of columns.  The second pass meets the escaped words where the first pass put them
   (escaping is idempotent and never shortens a word) and makes the same decisions (Proofs/IdemProofs.v). *)
Theorem C02_wrap_idempotent_markdown : forall text width c0 c1,
  wrap_paragraph_lines escape_word split_ws
    (join [nl] (wrap_paragraph_lines escape_word split_ws text width c0 c1 true true true)) width c0 c1 true true true
  = wrap_paragraph_lines escape_word split_ws text width c0 c1 true true true.
Proof. exact wrap_md_idempotent_all. Qed.
Print Assumptions C02_wrap_idempotent_markdown.

Theorem C02_escape_idempotent : forall w, goodword w -> escape_word (escape_word w) = escape_word w.
Proof. exact escape_word_idem. Qed.
Print Assumptions C02_escape_idempotent.

(* non-vacuity: a line head that is escaped by the first pass and left alone by the second *)
Example C02_markdown_example :
  wrap_paragraph_lines escape_word split_ws [97; 97; 97; 32; 45; 32; 98]%N 4 0 0 true true true = [[97; 97; 97]; [92; 45; 32; 98]]%N.
Proof. vm_compute. reflexivity. Qed.

(* the cleanup stage reaches its fixed point in one application, for every tree (after fix b925259; before it
   a heading that was bold around italics around bold needed two): the second formatting pass finds nothing to do *)
Theorem C02_cleanup_idempotent : forall bs,
  Model.Transforms.doc_cleanups (Model.Transforms.doc_cleanups bs) = Model.Transforms.doc_cleanups bs.
Proof. exact Proofs.CleanupIdem.doc_cleanups_idem. Qed.
Print Assumptions C02_cleanup_idempotent.

(* non-vacuity: the heading of the repaired defect loses both levels of bold at once *)
Example C02_cleanup_example :
  Model.Transforms.doc_cleanups
    [Model.Ast.BLeaf (Model.Ast.LHeading false 1
       [Model.Ast.INode Model.Ast.KStrong [Model.Ast.INode Model.Ast.KEmph [Model.Ast.INode Model.Ast.KStrong [Model.Ast.IRaw [97%N]]]]])] =
    [Model.Ast.BLeaf (Model.Ast.LHeading false 1 [Model.Ast.INode Model.Ast.KEmph [Model.Ast.IRaw [97%N]]])].
Proof. reflexivity. Qed.
