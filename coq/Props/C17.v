(* C17 — File discovery returns exactly the wanted files, deterministically.
   Model: Model/Resolver.v (directory tree; pathspec, glob and the order of paths are oracles).
   Proved for every tree, every matcher, every setting: the traversal returns exactly the files
   that are regular files, reached through real directories only, none of them excluded, and that
   pass the per-file tests; nothing is reached through a link; the listing order of directories is
   irrelevant; a glob selects among the traversal's files; explicit files bypass exclusion unless
   force_exclude and never the size limit; the final result is sorted, duplicate-free, the union of
   what the arguments give, and the same for every permutation / repetition of the arguments.
   Property theorems only. *)
From Coq Require Import List NArith Bool Permutation Sorted.
Import ListNotations.
From Base Require Import PyStr.
From Model Require Import Resolver.
From Proofs Require Import ResolverProofs.

Theorem C17_walk_sound_and_complete : forall inc exc tool gi respect maxsize n rel chain0 p,
  In p (walk inc exc tool gi respect maxsize rel chain0 n) <-> Wanted inc exc tool gi respect maxsize rel chain0 n p.
Proof. intros. apply walk_sound_complete. Qed.
Print Assumptions C17_walk_sound_and_complete.

Theorem C17_nothing_through_a_link : forall inc exc tool gi respect maxsize rel chain0 es p,
  In p (walk inc exc tool gi respect maxsize rel chain0 (NDir es)) ->
  exists name t n, p = rel ++ name :: t /\ In (name, n) es /\ n <> NLink.
Proof. intros. eapply walk_never_through_link; eauto. Qed.
Print Assumptions C17_nothing_through_a_link.

Theorem C17_listing_order_irrelevant : forall inc exc tool gi respect maxsize rel chain0 n n' p,
  same_entries n n' ->
  In p (walk inc exc tool gi respect maxsize rel chain0 n) -> In p (walk inc exc tool gi respect maxsize rel chain0 n').
Proof. intros. eapply walk_listing_order_irrelevant; eauto. Qed.
Print Assumptions C17_listing_order_irrelevant.

Theorem C17_glob_selects_among_walk_results : forall inc exc tool gi respect maxsize sel root p,
  In p (expand_glob inc exc tool gi respect maxsize sel root) ->
  In p (walk inc exc tool gi respect maxsize [] [] root) /\ sel p = true.
Proof. intros. eapply glob_subset_of_walk; eauto. Qed.
Print Assumptions C17_glob_selects_among_walk_results.

Theorem C17_explicit_files : forall exc maxsize,
  (forall parts sz, include_explicit exc maxsize false parts sz = negb (exceeds maxsize sz)) /\
  (forall force parts sz, exceeds maxsize sz = true -> include_explicit exc maxsize force parts sz = false).
Proof. intros. split; [apply explicit_bypass|apply explicit_size_limit]. Qed.
Print Assumptions C17_explicit_files.

(* the result list, for any decidable equality and any total order on resolved paths *)
Theorem C17_result_shape_and_order_independence : forall (A : Type) (eqb leb : A -> A -> bool),
  (forall x y, eqb x y = true <-> x = y) ->
  (forall x y, leb x y = true \/ leb y x = true) ->
  (forall x y z, leb x y = true -> leb y z = true -> leb x z = true) ->
  (forall x y, leb x y = true -> leb y x = true -> x = y) ->
  forall per_arg,
    Sorted (fun x y => leb x y = true) (resolve eqb leb per_arg) /\ NoDup (resolve eqb leb per_arg) /\
    (forall y, In y (resolve eqb leb per_arg) <-> exists l, In l per_arg /\ In y l) /\
    (forall per_arg', Permutation per_arg per_arg' -> resolve eqb leb per_arg = resolve eqb leb per_arg') /\
    (forall per_arg', (forall y, (exists l, In l per_arg /\ In y l) <-> (exists l, In l per_arg' /\ In y l)) ->
                      resolve eqb leb per_arg = resolve eqb leb per_arg').
Proof.
  intros A eqb leb E T Tr An per_arg. split; [now apply resolve_sorted|]. split; [now apply resolve_nodup|].
  split; [intros y; now apply resolve_in|]. split.
  - intros b P. now apply resolve_permutation.
  - intros b H. now apply resolve_set_determined.
Qed.
Print Assumptions C17_result_shape_and_order_independence.

(* non-vacuity: a tree with an excluded directory, a link, a file over the limit and a wanted file *)
Example C17_example :
  let md s := match rev s with 100 :: 109 :: 46 :: _ => true | _ => false end%N in
  let exc s := str_eqb s [120; 47]%N in
  walk md exc None (fun _ => None) true 100
       [] [] (NDir [([97; 46; 109; 100], NFile 10); ([98; 46; 109; 100], NFile 101); ([108; 46; 109; 100], NLink);
                    ([120], NDir [([99; 46; 109; 100], NFile 1)]); ([121], NDir [([100; 46; 109; 100], NFile 1)])])%N
  = [[[97; 46; 109; 100]]; [[121]; [100; 46; 109; 100]]]%N.
Proof. vm_compute. reflexivity. Qed.
