(* C03 — Output is a canonical form independent of the input's line layout.
   What a proof can carry, at the paragraph level: the wrapped form depends on the text only through
   its whitespace-normal form (any splitter, any width, both modes), with the whitespace splitter
   only through its word sequence; and formatting first with any other width and columns and then
   with the target ones gives exactly what formatting the source with the target ones gives.
   Sentence mode: the sentence loop is a function of the word sequence (Props/C11.v).  The
   Markdown-aware splitter (whose deliberate exception is a newline next to a tag) and the parser are
   covered by the re-layout runs of harness/c03.py.  Property theorems only. *)
From Coq Require Import List NArith ZArith Bool.
Import ListNotations.
From Base Require Import PyStr.
From Model Require Import Wrap.
From Proofs Require Import PyStrFacts WrapProofs CanonProofs.
Local Open Scope Z_scope.

(* re-breaking lines at other spaces / multiplying spaces = same whitespace-normal form *)
Theorem C03_layout_independent : forall esc splitter t1 t2 width c0 c1 dw md,
  collapse_ws t1 = collapse_ws t2 ->
  wrap_paragraph_lines esc splitter t1 width c0 c1 true dw md =
  wrap_paragraph_lines esc splitter t2 width c0 c1 true dw md.
Proof. exact wrap_canonical_collapse. Qed.
Print Assumptions C03_layout_independent.

Theorem C03_function_of_the_words : forall esc t1 t2 width c0 c1 md,
  split_ws t1 = split_ws t2 ->
  wrap_paragraph_lines esc split_ws t1 width c0 c1 true true md =
  wrap_paragraph_lines esc split_ws t2 width c0 c1 true true md.
Proof. exact wrap_canonical_words. Qed.
Print Assumptions C03_function_of_the_words.

Theorem C03_any_width_then_target_width : forall esc esc' text w1 a0 a1 w2 c0 c1 md,
  wrap_paragraph_lines esc split_ws
    (join [nl] (wrap_paragraph_lines esc' split_ws text w1 a0 a1 true true false)) w2 c0 c1 true true md
  = wrap_paragraph_lines esc split_ws text w2 c0 c1 true true md.
Proof. exact wrap_cross_width. Qed.
Print Assumptions C03_any_width_then_target_width.

Example C03_example :
  collapse_ws [97; 32; 32; 98; 10; 99]%N = collapse_ws [97; 10; 98; 32; 99]%N /\
  [97; 32; 32; 98; 10; 99]%N <> [97; 10; 98; 32; 99]%N.
Proof. split; [vm_compute; reflexivity|discriminate]. Qed.
