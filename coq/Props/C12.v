(* C12 — Formatting always terminates with well-formed output.
   What a proof can carry: the model's functions are total by construction (Coq accepts them),
   the regex matcher never runs out of its fuel, the typography rewrites never raise, every
   rendered block and document is empty or ends in a newline, and the fence of a code block is
   always long enough.  CPU time of CPython's re and of Marko's parser is runtime behaviour:
   see the watchdog part of the check (partial). *)
From Coq Require Import List NArith ZArith Bool.
Import ListNotations.
From Base Require Import PyStr CliTypes Regex.
From Model Require Import Ast Typography Render Pipeline.
From Proofs Require Import RegexFacts TypoProofs EllProofs RenderProofs TotalProofs WrapperTotal PipelineTotal FenceProofs.

(* 1. The regex engine always answers (no fuel exhaustion), for every pattern and input. *)
Theorem C12_regex_total : forall p s,
  finditer p s <> None /\ re_search p s <> None /\ re_match p s <> None.
Proof.
  intros p s. split; [apply finditer_never_out_of_fuel|split; [apply re_search_never_out_of_fuel|apply re_match_never_out_of_fuel]].
Qed.
Print Assumptions C12_regex_total.

(* 2. The typography rewrites never raise (so the length assertion of the across-inlines rewrite
   cannot fail: C08 shows the length is preserved). *)
Theorem C12_typography_total : forall text,
  (exists out, smart_quotes text = ret out) /\ (exists out, ellipses text = ret out).
Proof.
  intros text. split.
  - apply smart_quotes_total. vm_compute. reflexivity.
  - destruct (ellipses_confined text) as [out [g [t [r [tl [H _]]]]]]; [vm_compute; reflexivity|]. eauto.
Qed.
Print Assumptions C12_typography_total.

(* 3. Markdown-mode output ends in a newline: every rendered block, and every rendered document,
   is empty or ends in a newline (for trees without HTML blocks, which flowmark's parser
   configuration never produces), whatever the line wrapper returns. *)
Theorem C12_render_ends_with_newline : forall wrapper spacing refdefs blocks t,
  Forall wf_blk blocks -> render_doc wrapper spacing refdefs blocks = ret t -> ends_nl t.
Proof. exact render_doc_ends. Qed.
Print Assumptions C12_render_ends_with_newline.

(* 4. The fence of a code block is longer than any fence-like run starting a content line
   (so the block cannot close early) and never shorter than the fence of the source. *)
Theorem C12_fence_adequate : forall content fc flen line,
  In line (split_on 10%N content) ->
  (fence_run_at_line_start fc line < Nat.max flen (min_fence_length content fc))%nat /\
  (flen <= Nat.max flen (min_fence_length content fc))%nat.
Proof. exact fence_adequate. Qed.
Print Assumptions C12_fence_adequate.

(* 5. The renderer never raises: if the line wrapper answers for every paragraph, rendering answers
   for every document tree whose tables have a header row (Marko's always do), in every mode. *)
Theorem C12_render_total : forall wrapper refdefs mode,
  (forall t i1 i2, exists r, wrapper t i1 i2 = ret r) ->
  forall blocks, Forall tables_ok blocks -> exists t, render_doc wrapper mode refdefs blocks = ret t.
Proof. exact render_doc_total. Qed.
Print Assumptions C12_render_total.

(* 6. The whole function: the model of fill_markdown (frontmatter split, dedent/strip, tag pre-pass, the
   parser as an ARBITRARY function returning documents whose tables have a header row, tree rewrites with
   smart quotes / ellipses / cleanups, line wrappers with word splitter, tag and hard-break handling,
   renderer) never raises, for every input text and every option set.  The certificates are boolean
   facts about the regexes translated from the source on this run (shape of QUOTE_PATTERN, ELLIPSIS_PATTERN
   and the two adjacent-tag patterns). *)
Theorem C12_certificates : all_certs = true.
Proof. vm_compute. reflexivity. Qed.
Print Assumptions C12_certificates.

Theorem C12_fill_markdown_never_raises : forall PARSE o text,
  (forall s, Forall tables_ok (d_blocks (PARSE s))) ->
  exists out, fill_markdown PARSE o text = ret out.
Proof. exact (fill_markdown_total C12_certificates). Qed.
Print Assumptions C12_fill_markdown_never_raises.

Theorem C12_line_wrappers_never_raise : forall o t i1 i2, exists r, md_wrapper o t i1 i2 = ret r.
Proof. exact (md_wrapper_total C12_certificates). Qed.
Print Assumptions C12_line_wrappers_never_raise.

(* 7. Blank lines inside code blocks carry no added trailing spaces: an empty content line is written
   as the container prefix with its trailing whitespace removed (and every other content line as
   prefix + line, FenceProofs.code_block_lines). *)
Theorem C12_blank_code_lines_clean : forall lang extra fc flen content st,
  fst (render_code lang extra fc flen content st)
  = join [nlc] ((r_prefix st ++ repeat fc (fence_len fc flen content) ++ info_sep fc (info_of lang extra) ++ info_of lang extra)
                :: map (written_line (r_prefix2 st)) (code_lines content)
                ++ [r_prefix2 st ++ repeat fc (fence_len fc flen content)]) ++ [nlc]
  /\ forall p2, rstrip (written_line p2 []) = written_line p2 [].
Proof. intros. split; [apply code_block_lines|apply blank_code_line_has_no_trailing_space]. Qed.
Print Assumptions C12_blank_code_lines_clean.
