(* C09 — Ellipsis conversion touches only three-dot runs in prose.
   String rewrite ellipses() (typography/ellipses.py) over the translated ELLIPSIS_PATTERN; the
   proof uses the pattern only through the certificate [ell_cert] (five groups in sequence:
   group-free prefix, a whitespace run, three literal dots, group-free punctuation, a whitespace run). *)
From Coq Require Import List NArith Bool.
Import ListNotations.
From Base Require Import PyStr Regex.
From Gen Require Import Regexes.
From Model Require Import Typography.
From Proofs Require Import EllProofs.
From Proofs Require EllCorollary.

Theorem C09_cert : ell_cert = true.
Proof. vm_compute. reflexivity. Qed.
Print Assumptions C09_cert.

(* Confinement, and no exception: the text is cut into gaps and matches; gaps and tail are copied;
   each match t = g1 ws1 ... p ws2 is copied or becomes g1 ws1' (ellipsis) p ws2' where ws1' is
   ws1 or one space, ws2' is ws2 or one space, ws1 and ws2 are whitespace only. *)
Theorem C09_ellipses_confined : forall text,
  exists out gaps ts rs tl,
    ellipses text = inl out /\
    length gaps = length ts /\ length rs = length ts /\
    text = concat (map (fun gt => fst gt ++ snd gt) (combine gaps ts)) ++ tl /\
    out = concat (map (fun gt => fst gt ++ snd gt) (combine gaps rs)) ++ tl /\
    Forall2 ell_rel ts rs.
Proof. intros text. exact (ellipses_confined text C09_cert). Qed.
Print Assumptions C09_ellipses_confined.

(* Only three-dot runs are touched: a text that holds no run of three dots comes back unchanged. *)
Theorem C09_no_dots_no_change : forall text,
  ~ (exists a b, text = a ++ [46; 46; 46]%N ++ b) -> ellipses text = inl text.
Proof. intros text N. exact (EllCorollary.ellipses_without_dots_is_identity text C09_cert N). Qed.
Print Assumptions C09_no_dots_no_change.
