(* C06 — Template tags and other atomic constructs are never split or displaced. *)
From Coq Require Import List NArith Bool Arith.
Import ListNotations.
From Base Require Import PyStr.
From Gen Require Import Consts.
From Model Require Import Wrap Tags LineWrap.
From Proofs Require Import PyStrFacts WrapProofs TagProofs.

(* 1. The splitter replaces each atomic construct by a whitespace-free placeholder before
   splitting on whitespace: any whitespace-free, non-empty piece of the text ends up inside
   exactly one token, whatever surrounds it. *)
Theorem C06_piece_in_one_token : forall w, nows w -> w <> [] -> forall a b cur,
  exists pre t post, split_ws_aux (a ++ w ++ b) cur = pre ++ t :: post /\ infix w t.
Proof. exact piece_in_one_token. Qed.
Print Assumptions C06_piece_in_one_token.

Theorem C06_placeholder_affixes_whitespace_free : nows placeholder_prefix /\ nows placeholder_suffix.
Proof. exact placeholder_affixes_nows. Qed.
Print Assumptions C06_placeholder_affixes_whitespace_free.

(* 2. Wrapping never cuts inside a word (= token = whole construct): the lines are a partition
   of the word list; only heads of later lines are passed through the escape function. *)
Theorem C06_words_on_lines : forall esc ws width c0 c1 md,
  exists Lo, concat Lo = ws /\ wrap_words esc ws width c0 c1 md = esc_lines esc md true Lo.
Proof. exact words_on_lines. Qed.
Print Assumptions C06_words_on_lines.

(* 3. Tag/block pre-processing only inserts empty lines ... *)
Theorem C06_preprocess_only_inserts : forall lines prev inb,
  ins_blanks (preprocess_lines prev inb lines) lines.
Proof. exact preprocess_lines_only_inserts. Qed.
Print Assumptions C06_preprocess_only_inserts.

(* ... and afterwards no non-blank tag-only line is directly adjacent to a list/table line (the pass as fill_markdown runs it; the flag
   that remembers an open list or table - fix c8c087c - starts unset). *)
Theorem C06_preprocess_separates : forall lines,
  adjacent_ok None (preprocess_lines None false lines) = true.
Proof. exact preprocess_lines_separates. Qed.
Print Assumptions C06_preprocess_separates.

(* a list whose last item goes on over a second line is separated from the closing tag line as well *)
Theorem C06_continued_item_separated :
  preprocess_lines None false [[123;37;32;102;32;37;125]; [45;32;97]; [32;32;98]; [123;37;32;47;102;32;37;125]]%N
  = [[123;37;32;102;32;37;125]; []; [45;32;97]; [32;32;98]; []; [123;37;32;47;102;32;37;125]]%N.
Proof. exact continued_item_separated. Qed.
Print Assumptions C06_continued_item_separated.
