(* C05 — Wrapping is lossless, width-bounded and maximal.
   Property theorems only; each is closed by `exact` of a lemma proved elsewhere and
   followed by Print Assumptions (parsed by the check). *)
From Coq Require Import List ZArith Bool.
Import ListNotations.
From Base Require Import PyStr.
From Model Require Import Wrap.
From Proofs Require Import WrapProofs.

From Model Require Tags LineWrap.
From Proofs Require HardBreakProofs.
Local Open Scope Z_scope.

(* Lossless: the lines are the input words in order; line 0 verbatim, the head of every
   later line passed through escape_word when in Markdown mode, nothing else changed. *)
Theorem C05_wrap_lossless : forall esc ws width c0 c1 md,
  exists Lo, concat Lo = ws /\ Forall (fun l => l <> []) Lo /\
             wrap_words esc ws width c0 c1 md = esc_lines esc md true Lo.
Proof. exact wrap_lossless. Qed.
Print Assumptions C05_wrap_lossless.

Theorem C05_wrap_lossless_plain : forall esc ws width c0 c1,
  concat (wrap_words esc ws width c0 c1 false) = ws.
Proof. exact wrap_lossless_plain. Qed.
Print Assumptions C05_wrap_lossless_plain.

Theorem C05_wrap_no_empty_line : forall esc ws width c0 c1 md,
  Forall (fun l => l <> []) (wrap_words esc ws width c0 c1 md).
Proof. exact wrap_no_empty_line. Qed.
Print Assumptions C05_wrap_no_empty_line.

(* Width bound, exact: line i is measured from the column the loop accounts for it. *)
Theorem C05_wrap_width_exact : forall esc ws width c0 c1 md i l,
  nth_error (wrap_words esc ws width c0 c1 md) i = Some l ->
  col_at c1 (scol0 ws width c0 c1) i + llen l <= width \/ length l = 1%nat.
Proof. exact wrap_width_exact. Qed.
Print Assumptions C05_wrap_width_exact.

(* Width bound as the property states it, measured from the real first-line column c0;
   guard: first word fits at c0, or c0 <= c1 (Findings/C05_refuted.v refutes the unguarded form: D-11). *)
Theorem C05_wrap_width_partial : forall esc ws width c0 c1 md i l,
  (c0 <= c1 \/ match ws with w :: _ => c0 + wlen w <= width | [] => True end) ->
  nth_error (wrap_words esc ws width c0 c1 md) i = Some l ->
  col_at c1 c0 i + llen l <= width \/ length l = 1%nat.
Proof. exact wrap_width_partial. Qed.
Print Assumptions C05_wrap_width_partial.

Theorem C05_wrap_maximal : forall esc ws width c0 c1 md,
  exists Lo, concat Lo = ws /\ wrap_words esc ws width c0 c1 md = esc_lines esc md true Lo /\
    forall i l h t,
      nth_error (wrap_words esc ws width c0 c1 md) i = Some l ->
      nth_error Lo (S i) = Some (h :: t) ->
      width < col_at c1 (scol0 ws width c0 c1) i + llen l + 1 + wlen h.
Proof. exact wrap_maximal. Qed.
Print Assumptions C05_wrap_maximal.

(* The extracted checker accepts every output of the model ... *)
Theorem C05_wrap_checker_accepts_model : forall esc width c1 md ws c0,
  wrap_ok esc ws width c0 c1 md (wrap_words esc ws width c0 c1 md) = true.
Proof. exact wrap_words_ok. Qed.
Print Assumptions C05_wrap_checker_accepts_model.

(* ... and whatever it accepts (in particular an implementation output) is lossless,
   width-bounded and maximal. *)
Theorem C05_wrap_checker_sound : forall esc width c1 md L first scol ws,
  chk_lines esc width c1 md first scol L ws = true ->
  exists Lo,
    concat Lo = ws /\ L = esc_lines esc md first Lo /\ Forall (fun l => l <> []) Lo /\
    (forall i l, nth_error L i = Some l ->
       col_at c1 scol i + llen l <= width \/ length l = 1%nat) /\
    (forall i l h t, nth_error L i = Some l -> nth_error Lo (S i) = Some (h :: t) ->
       width < col_at c1 scol i + llen l + 1 + wlen h).
Proof. exact chk_sound. Qed.
Print Assumptions C05_wrap_checker_sound.

(* String level, plain text, width > 0: re-reading the lines gives exactly the words. *)
Theorem C05_wrap_text_lossless_plain : forall esc text width c0 c1, 0 < width ->
  concat (map split_ws (wrap_paragraph_lines esc split_ws text width c0 c1 true true false))
  = split_ws text.
Proof. exact wrap_text_lossless_plain. Qed.
Print Assumptions C05_wrap_text_lossless_plain.

(* width <= 0: one line per paragraph with the same words. *)
Theorem C05_wrap_nowrap : forall esc splitter text width c0 c1 md, width <= 0 ->
  let out := wrap_paragraph_lines esc splitter text width c0 c1 true true md in
  (length out <= 1)%nat /\ concat (map split_ws out) = split_ws text /\
  (out = [] <-> split_ws text = []).
Proof. exact wrap_nowrap. Qed.
Print Assumptions C05_wrap_nowrap.

(* 11. Hard-break segments (Markdown line wrapper): every segment between hard breaks yields exactly one piece
   of the output, in order, and every piece but the last ends in the break's backslash - whatever the
   underlying wrapper does, for every width and indent. *)
Theorem C05_hard_break_segments_kept : forall (base : Tags.wrapper) segs first i1 i2 ws,
  LineWrap.wrap_hard_segments base segs first i1 i2 = ret ws ->
  length ws = length segs /\
  (forall k w, (S k < length segs)%nat -> nth_error ws k = Some w -> exists body, w = body ++ [bsl]).
Proof. exact HardBreakProofs.hard_segments_kept. Qed.
Print Assumptions C05_hard_break_segments_kept.
