(* C10 — Cleanups and list-spacing options do exactly what they say and nothing else.
   Proved: the cleanup keeps the block structure and maps every leaf through the documented rewrite
   (a heading whose whole content is bold loses the bold, bold-italic becomes italic), every other
   leaf is untouched, at any nesting depth; the transform stage keeps every literal (C04).  The
   list-spacing part (the modes change only separator lines) is decided on the implementation and
   the extracted model by harness/c10.py.  Property theorems only. *)
From Coq Require Import List NArith ZArith Bool.
Import ListNotations.
From Base Require Import PyStr CliTypes.
From Model Require Import Ast Transforms.
From Proofs Require Import RenderProofs.

Theorem C10_cleanup_touches_wholly_bold_headings_only : forall bs,
  map blk_shape (doc_cleanups bs) = map blk_shape bs /\
  concat (map blk_leaves (doc_cleanups bs)) =
    map (fun l => match wholly_bold l with Some l' => l' | None => l end) (concat (map blk_leaves bs)).
Proof. exact cleanups_spec. Qed.
Print Assumptions C10_cleanup_touches_wholly_bold_headings_only.

(* what "wholly bold" means, and that a partly bold heading is not one *)
Example C10_example :
  wholly_bold (LHeading false 1 [INode KStrong [IRaw [97%N]]]) = Some (LHeading false 1 [IRaw [97%N]]) /\
  wholly_bold (LHeading false 1 [INode KStrong [IRaw [97%N]]; IRaw [98%N]]) = None /\
  wholly_bold (LPara None [INode KStrong [IRaw [97%N]]]) = None.
Proof. repeat split. Qed.
