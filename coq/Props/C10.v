(* C10 — Cleanups and list-spacing options do exactly what they say and nothing else.
   Proved: the cleanup keeps the block structure and maps every leaf through the documented rewrite
   (a heading whose whole content is bold loses the bold, bold-italic becomes italic), every other
   leaf is untouched, at any nesting depth; the transform stage keeps every literal (C04).  List
   spacing: for every document tree, every wrapper and every two modes the rendered outputs agree on
   every line that is not empty up to quote markers and indentation (Proofs/SpacingProofs.v, a
   simulation between the two renderer runs).  What the modes do to the tightness Marko reads back
   is decided on the implementation by harness/c10.py.  The modes themselves (Proofs/ModeProofs.v): rendering
   under any mode is rendering under preserve the tree whose lists are re-labelled with the tightness
   the mode decides - preserve re-labels nothing, loose marks every list loose, tight marks a list tight
   exactly when each of its items holds at most one block; nothing else depends on the mode.
   Property theorems only. *)
From Coq Require Import List NArith ZArith Bool.
Import ListNotations.
From Base Require Import PyStr CliTypes.
From Model Require Import Ast Transforms.
From Model Require Import Render.
From Proofs Require Import RenderProofs SpacingProofs ModeProofs.

Theorem C10_cleanup_touches_wholly_bold_headings_only : forall bs,
  map blk_shape (doc_cleanups bs) = map blk_shape bs /\
  concat (map blk_leaves (doc_cleanups bs)) =
    map (fun l => match wholly_bold l with Some l' => l' | None => l end) (concat (map blk_leaves bs)).
Proof. exact cleanups_spec. Qed.
Print Assumptions C10_cleanup_touches_wholly_bold_headings_only.

(* what "wholly bold" means, and that a partly bold heading is not one *)
Example C10_example :
  wholly_bold (LHeading false 1 [INode KStrong [IRaw [97%N]]]) = Some (LHeading false 1 [IRaw [97%N]]) /\
  wholly_bold (LHeading false 1 [INode KStrong [IRaw [97%N]]; IRaw [98%N]]) = None /\
  wholly_bold (LPara None [INode KStrong [IRaw [97%N]]]) = None.
Proof. repeat split. Qed.

(* [unblank t]: the lines of t that contain something other than spaces and quote markers.
   wf_blk excludes HTML blocks, which flowmark's parser configuration never produces. *)
Theorem C10_list_spacing_changes_only_blank_lines : forall wrapper refdefs s1 s2 blocks t1 t2,
  Forall wf_blk blocks ->
  render_doc wrapper s1 refdefs blocks = ret t1 ->
  render_doc wrapper s2 refdefs blocks = ret t2 ->
  unblank t1 = unblank t2.
Proof. exact spacing_changes_blank_lines_only. Qed.
Print Assumptions C10_list_spacing_changes_only_blank_lines.

(* non-vacuity: a two-item list inside a quote renders differently under loose and tight, and the
   difference is a blank (quote-marker) line *)
Definition C10_example_doc : list blk :=
  [BNode KQuote [BNode (KList false [45%N] 1%Z true)
                   [BNode KItem [BLeaf (LPara None [IRaw [97%N]])]; BNode KItem [BLeaf (LPara None [IRaw [98%N]])]]]].
Example C10_spacing_example :
  let w := fun (t i1 i2 : str) => ret (i1 ++ t) in
  exists t1 t2, render_doc w LLoose [] C10_example_doc = ret t1 /\ render_doc w LTight [] C10_example_doc = ret t2 /\
                t1 <> t2 /\ unblank t1 = unblank t2 /\ Forall wf_blk C10_example_doc.
Proof.
  eexists. eexists. split; [vm_compute; reflexivity|]. split; [vm_compute; reflexivity|].
  split; [intro E; discriminate E|]. split; [vm_compute; reflexivity|]. repeat constructor.
Qed.

(* the three modes are re-labellings of list tightness and nothing else: for every tree, wrapper and
   reference table, the output (or the exception) under a mode is that of preserve on the re-labelled tree *)
Theorem C10_modes_only_relabel_list_tightness : forall wrapper refdefs mode blocks,
  render_doc wrapper mode refdefs blocks = render_doc wrapper LPreserve refdefs (map (retight mode) blocks).
Proof. exact mode_is_relabelling_doc. Qed.
Print Assumptions C10_modes_only_relabel_list_tightness.

Theorem C10_preserve_keeps_every_list_as_authored : forall b, retight LPreserve b = b.
Proof. exact retight_preserve. Qed.
Print Assumptions C10_preserve_keeps_every_list_as_authored.

Theorem C10_loose_marks_every_list_loose : forall b,
  lists_labelled (fun tight _ => tight = false) (retight LLoose b).
Proof. exact retight_loose_labels. Qed.
Print Assumptions C10_loose_marks_every_list_loose.

Theorem C10_tight_marks_exactly_the_single_block_lists : forall b,
  lists_labelled (fun tight items => tight = single_block_items items) (retight LTight b).
Proof. exact retight_tight_labels. Qed.
Print Assumptions C10_tight_marks_exactly_the_single_block_lists.

Theorem C10_mode_choice_is_idempotent : forall mode b, retight mode (retight mode b) = retight mode b.
Proof. exact retight_idem. Qed.
Print Assumptions C10_mode_choice_is_idempotent.

(* non-vacuity: the quoted two-item list authored tight is re-labelled by loose and kept by tight; a list
   with a two-block item is re-labelled loose by tight *)
Example C10_relabel_example :
  map (retight LLoose) C10_example_doc <> C10_example_doc /\
  map (retight LTight) C10_example_doc = C10_example_doc /\
  retight LTight (BNode (KList false [45%N] 1%Z true)
                    [BNode KItem [BLeaf (LPara None [IRaw [97%N]]); BLeaf (LPara None [IRaw [98%N]])]]) =
  BNode (KList false [45%N] 1%Z false)
        [BNode KItem [BLeaf (LPara None [IRaw [97%N]]); BLeaf (LPara None [IRaw [98%N]])]].
Proof. split; [intro E; discriminate E|]. split; reflexivity. Qed.
