(* C15 — All entry points agree: CLI, file API and text API give the same bytes.
   Gen/Wiring.v is regenerated from the source on every run; the theorems below are
   re-checked against it.  reformat_text (fmt), file reading and stdin are universally
   quantified. *)
From Coq Require Import List ZArith Bool String.
Import ListNotations.
From Base Require Import PyStr CliTypes.
From Gen Require Import Wiring.
From Model Require Import Cli.
From Proofs Require Import CliProofs CliTables.
Local Open Scope list_scope.

(* 1. Wiring: every call-site on the path from the command line to fill_markdown / fill_text
   passes every option through unchanged (keyword and positional bindings, both
   reformat_file call sites). *)
Theorem C15_wiring_identity : forall o,
  w_options o = o /\ w_main_files o = o /\ w_files_file_stdin o = o /\ w_files_file_loop o = o /\
  w_file_text o = o /\ w_text_markdown o = o /\ w_text_plain o = o.
Proof. exact wiring_identity. Qed.
Print Assumptions C15_wiring_identity.

Theorem C15_fill_params_complete : cert_fill_params = true.
Proof. exact cert_fill_params_ok. Qed.
Print Assumptions C15_fill_params_complete.

(* 2. Entry points agree: every byte string a CLI run delivers (stdout, -o, in place, with or
   without backup, one or several files, stdin) is reformat_text of that input under the
   command line's options. *)
Theorem C15_entry_points_agree : forall fmt read stdin files output o acts oc,
  main_run fmt read stdin files output o = (acts, oc) ->
  Forall (fun a => exists f text, In f files /\ src_text read stdin f = Some text /\
            match a with AWriteStdout b => b = fmt o text | AAtomicWrite _ b _ => b = fmt o text end) acts.
Proof. exact entry_points_agree. Qed.
Print Assumptions C15_entry_points_agree.

(* every processed file yields exactly one action, in order; the run stops at the first failure *)
Theorem C15_files_loop_spec : forall fmt read stdin files o acts oc,
  files_loop fmt read stdin files o = (acts, oc) ->
  exists done rest, files = done ++ rest /\
    Forall2 (fun f a => exists text, src_text read stdin f = Some text /\
               a = act_of fmt f (if f_inplace o then None else Some dash) o text) done acts /\
    (oc = Done -> rest = []) /\
    (oc <> Done -> exists f r, rest = f :: r /\
        ((oc = ErrValue /\ f_inplace o = true /\ is_dash f = true) \/ (oc = ErrOther /\ src_text read stdin f = None))).
Proof. exact files_loop_spec. Qed.
Print Assumptions C15_files_loop_spec.

(* 3. --auto is exactly --inplace --nobackup --semantic --cleanups --smartquotes --ellipses *)
Theorem C15_auto_expansion : cert_auto = true.
Proof. exact cert_auto_ok. Qed.
Print Assumptions C15_auto_expansion.

(* 4. With several inputs each file gets exactly the result it would get alone. *)
Theorem C15_each_file_alone : forall fmt read stdin f o text,
  is_dash f = false -> src_text read stdin f = Some text ->
  files_loop fmt read stdin [f] o =
    ([act_of fmt f (if f_inplace o then None else Some dash) o text], Done).
Proof. exact each_file_alone. Qed.
Print Assumptions C15_each_file_alone.

(* 5. Usage errors exit non-zero without writing anything. *)
Theorem C15_usage_error_stdin_inplace : forall fmt read stdin files output o,
  f_inplace o = true -> In dash files ->
  main_run fmt read stdin files output o = ([], ErrValue).
Proof. exact usage_error_stdin_inplace. Qed.
Print Assumptions C15_usage_error_stdin_inplace.

Theorem C15_usage_error_output_multi : forall fmt read stdin files p o,
  f_inplace o = false -> p <> [] -> is_dash p = false -> files <> [dash] ->
  main_run fmt read stdin files (Some p) o = ([], ErrValue).
Proof. exact usage_error_output_multi. Qed.
Print Assumptions C15_usage_error_output_multi.
