(* C18 — gitignore handling agrees with git.
   The reference is an external program, so agreement itself is decided by running the implementation
   against git (harness/c18.py).  Proved about the model (Model/Resolver.v, tied to the code by
   correspondence with pathspec's answers supplied): the chain of .gitignore files is combined by
   git's rule - each file is asked about the path relative to its own directory, the deepest file
   that has an opinion decides; a directory that is ignored contributes no file (git: children of an
   excluded directory stay excluded); with respect_gitignore off the .gitignore files have no
   influence at all.  Property theorems only. *)
From Coq Require Import List NArith Bool.
Import ListNotations.
From Base Require Import PyStr.
From Model Require Import Resolver.
From Proofs Require Import ResolverProofs.

Theorem C18_deeper_file_overrides : forall chain d s path is_dir,
  gitignored [] path is_dir = false /\
  gitignored (chain ++ [(d, s)]) path is_dir =
    match s (path_str (skipn (length d) path) ++ (if is_dir then [slash] else [])) with
    | Some b => b
    | None => gitignored chain path is_dir
    end.
Proof. intros. split; [apply gitignored_nil|apply gitignored_snoc]. Qed.
Print Assumptions C18_deeper_file_overrides.

Theorem C18_ignored_directory_contributes_nothing : forall inc exc tool maxsize gi respect rel chain0 es name sub,
  gitignored (chain_of gi respect rel chain0) (rel ++ [name]) true = true ->
  NoDup (map fst es) -> In (name, NDir sub) es ->
  forall t, ~ In (rel ++ name :: t) (walk inc exc tool gi respect maxsize rel chain0 (NDir es)).
Proof. intros. eapply ignored_directory_contributes_nothing; eauto. Qed.
Print Assumptions C18_ignored_directory_contributes_nothing.

Theorem C18_no_respect_is_inert : forall inc exc tool maxsize gi gi' n rel chain0,
  walk inc exc tool gi false maxsize rel chain0 n = walk inc exc tool gi' false maxsize rel chain0 n.
Proof. intros. apply walk_respect_off. Qed.
Print Assumptions C18_no_respect_is_inert.

(* non-vacuity: root ignores *.md, the .gitignore of docs/ re-includes keep.md *)
Example C18_example :
  let md s := match rev s with 100 :: 109 :: 46 :: _ => true | _ => false end%N in
  let root_spec s := if md s then Some true else None in
  let docs_spec s := if str_eqb s [107; 46; 109; 100]%N then Some false else None in
  let gi rel := match rel with [] => Some root_spec | [[100]%N] => Some docs_spec | _ => None end in
  walk md (fun _ => false) None gi true 0 [] []
       (NDir [([97; 46; 109; 100], NFile 1); ([100], NDir [([107; 46; 109; 100], NFile 1); ([120; 46; 109; 100], NFile 1)])])%N
  = [[[100]; [107; 46; 109; 100]]]%N.
Proof. vm_compute. reflexivity. Qed.
