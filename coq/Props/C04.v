(* C04 — Code, tags, URLs and other non-prose spans are reproduced verbatim.
   What a proof can carry: the transform stage (cleanups, smart quotes, ellipses) leaves the whole
   literal content of the document tree untouched - every code block, code span, HTML, escaped
   character, footnote label, link / image destination and title, table alignment and the tree shape
   - for EVERY rewrite function, so in particular for the typography functions; smart_quotes copies
   template tags at the same positions; the renderer writes code content line by line under the
   container prefix with an adequate fence, and code spans between adequate delimiters.  That Marko
   reads these spellings back as the same literals is decided by harness/c04.py on the implementation.
   Property theorems only. *)
From Coq Require Import List NArith ZArith Bool.
Import ListNotations.
From Base Require Import PyStr CliTypes Regex.
From Gen Require Import Regexes.
From Model Require Import Ast Transforms Typography Render Pipeline InlineRead BlockRead.
From Proofs Require Import RegexSem TypoProofs RenderProofs RewriteProofs CodeSpanProofs DestProofs FenceProofs.

(* 1. Text rewrites visit only raw-text nodes: after the transform stage the literal content
   (Proofs/RewriteProofs.v: blk_lits) is that of the tree after cleanups, whatever the options. *)
Theorem C04_transforms_keep_literals : forall o bs bs',
  transform_doc o bs = ret bs' ->
  map blk_lits bs' = map blk_lits (if o_cleanups o then doc_cleanups bs else bs).
Proof. exact transform_doc_keeps_literals. Qed.
Print Assumptions C04_transforms_keep_literals.

(* ... and this does not depend on what the rewrite function is *)
Theorem C04_any_rewrite_keeps_literals : forall f bs bs',
  rewrite_text_across_inlines f bs = ret bs' -> map blk_lits bs' = map blk_lits bs.
Proof. exact across_inlines_keeps_literals. Qed.
Print Assumptions C04_any_rewrite_keeps_literals.

Theorem C04_any_content_rewrite_keeps_literals : forall f coalesce bs bs',
  rewrite_text_content f coalesce bs = ret bs' -> map blk_lits bs' = map blk_lits bs.
Proof. exact text_content_keeps_literals. Qed.
Print Assumptions C04_any_content_rewrite_keeps_literals.

(* non-vacuity: a paragraph with a code span, an escape and a link whose text is rewritten *)
Definition C04_example_doc : list blk :=
  [BLeaf (LPara None [IRaw [39; 97; 39; 32]%N; ICode [39; 98; 39]%N; IRaw [32]%N; ILit [46]%N;
                      INode (KLink [47; 117]%N None) [IRaw [32; 34; 99; 34]%N]])].
Example C04_example :
  exists bs', rewrite_text_across_inlines smart_quotes C04_example_doc = ret bs' /\ bs' <> C04_example_doc /\
              map blk_lits bs' = map blk_lits C04_example_doc.
Proof.
  eexists. split; [vm_compute; reflexivity|]. split; [unfold C04_example_doc; intro E; discriminate E|vm_compute; reflexivity].
Qed.

(* 2. Template tags are cut out before quote conversion and copied back at the same positions. *)
Theorem C04_smart_quotes_copy_tags : forall text out,
  smart_quotes text = ret out ->
  exists gaps gaps' tags tl tl',
    map (fun gm => (fst gm, m_text (snd gm))) (fst (finditer_t re_template_tag text)) = combine gaps tags /\
    length gaps = length tags /\ length gaps' = length tags /\
    text = concat (map (fun gt => fst gt ++ snd gt) (combine gaps tags)) ++ tl /\
    out = concat (map (fun gt => fst gt ++ snd gt) (combine gaps' tags)) ++ tl' /\
    Forall2 pw gaps gaps' /\ pw tl tl'.
Proof.
  intros text out H. assert (C : typo_cert = true) by (vm_compute; reflexivity).
  exact (proj2 (smart_quotes_spec text out C H)).
Qed.
Print Assumptions C04_smart_quotes_copy_tags.

(* 3. A fence is always long enough to contain its content, and never shorter than the source's. *)
Theorem C04_fence_adequate : forall content fc flen line,
  In line (split_on 10%N content) ->
  (fence_run_at_line_start fc line < Nat.max flen (min_fence_length content fc))%nat /\
  (flen <= Nat.max flen (min_fence_length content fc))%nat.
Proof. exact fence_adequate. Qed.
Print Assumptions C04_fence_adequate.

(* 4. A code span is written verbatim between delimiters longer than any backtick run inside it. *)
Theorem C04_code_span_delimited : forall s,
  exists pad, (pad = [] \/ pad = [sp]) /\
    render_code_span s = repeat bq (S (longest_run bq s)) ++ pad ++ s ++ pad ++ repeat bq (S (longest_run bq s)).
Proof. exact code_span_shape. Qed.
Print Assumptions C04_code_span_delimited.

(* 5. Read-back theorems (specifications Model/InlineRead.v, Model/BlockRead.v of a CommonMark reader):
   the code span, destination, title and code block the renderer writes are read back as exactly the
   literal the parser had handed over - nothing re-quoted, padded or truncated.  The one shape for
   which the code-span statement fails is content with a space at both ends (finding D-49). *)
Theorem C04_code_span_read_back : forall s tail,
  s <> [] -> needs_padding s = false -> no_bq_head tail ->
  read_code_span (render_code_span s ++ tail) = Some (s, tail).
Proof. exact code_span_roundtrip. Qed.
Print Assumptions C04_code_span_read_back.

Theorem C04_destination_read_back : forall d tail, dest_ok d -> tail_ok tail ->
  read_destination (link_destination d ++ tail) = Some (d, tail).
Proof. exact destination_roundtrip. Qed.
Print Assumptions C04_destination_read_back.

Theorem C04_title_read_back : forall t tail, read_title (normalize_title_quotes t ++ tail) = Some (t, tail).
Proof. exact title_roundtrip. Qed.
Print Assumptions C04_title_read_back.

Theorem C04_code_block_read_back : forall lang extra fc flen content st rest,
  r_prefix st = [] -> r_prefix2 st = [] -> (fc = 96 \/ fc = 126)%N -> info_ok fc (info_of lang extra) ->
  exists lines,
    fst (render_code lang extra fc flen content st) = join [nlc] lines ++ [nlc] /\
    read_fenced (lines ++ rest)
    = Some (Fenced fc (fence_len fc flen content) (info_of lang extra) (code_lines content), rest).
Proof. exact code_block_roundtrip. Qed.
Print Assumptions C04_code_block_read_back.

(* the language word of a code fence (and every destination and title) is handed over by the parser
   with backslash escapes removed; what the renderer writes gives it back exactly *)
Theorem C04_escapes_undone : forall s, strip_backslash (escape_backslashes s) = s.
Proof. exact strip_escape_backslashes. Qed.
Print Assumptions C04_escapes_undone.

(* 6. In every container: the code block is written as the opening fence line, then each content line
   verbatim under the continuation prefix (an empty content line as that prefix without trailing
   whitespace), then the closing fence. *)
Theorem C04_code_lines_verbatim : forall lang extra fc flen content st,
  fst (render_code lang extra fc flen content st)
  = join [nlc] ((r_prefix st ++ repeat fc (fence_len fc flen content) ++ info_sep fc (info_of lang extra) ++ info_of lang extra)
                :: map (written_line (r_prefix2 st)) (code_lines content)
                ++ [r_prefix2 st ++ repeat fc (fence_len fc flen content)]) ++ [nlc].
Proof. exact code_block_lines. Qed.
Print Assumptions C04_code_lines_verbatim.

Theorem C04_fence_language_escapes_undone : forall s, strip_backslash (escape_backslashes_inner s) = s.
Proof. exact strip_escape_backslashes_inner. Qed.
Print Assumptions C04_fence_language_escapes_undone.
