(* C08 — Smart quotes only swap individual quote characters, and only in prose.
   Statements about the string rewrite smart_quotes (typography/smartquotes.py) as modelled in
   Model/Typography.v over the regexes translated from the source.  The proofs depend on the
   generated patterns only through the boolean certificate [typo_cert] (QUOTE_PATTERN has the
   shape  G1 ( dq G2 dq | sq G3 sq ) G4  with group-free bodies; the split pattern is one whole-match
   group), re-evaluated by vm_compute on every run. *)
From Coq Require Import List NArith Bool.
Import ListNotations.
From Base Require Import PyStr Regex.
From Gen Require Import Regexes.
From Model Require Import Typography.
From Model Require Ast Transforms.
From Proofs Require RenderProofs.
From Proofs Require Import RegexSem TypoProofs.
From Proofs Require ScopeProofs.

Theorem C08_cert : typo_cert = true.
Proof. vm_compute. reflexivity. Qed.
Print Assumptions C08_cert.

(* [pw s t]: same length, and position by position either equal or an apostrophe -> one of the single
   curly quotes or a straight double quote -> one of the double curly quotes. *)
Theorem C08_smart_quotes_pointwise : forall text out,
  smart_quotes text = inl out -> pw text out.
Proof. intros text out H. exact (proj1 (smart_quotes_spec text out C08_cert H)). Qed.
Print Assumptions C08_smart_quotes_pointwise.

Theorem C08_smart_quotes_length : forall text out,
  smart_quotes text = inl out -> length out = length text.
Proof.
  intros text out H. symmetry. apply pw_length. exact (proj1 (smart_quotes_spec text out C08_cert H)).
Qed.
Print Assumptions C08_smart_quotes_length.

(* Template tags ({% %}, {# #}, {{ }}, <!-- -->) are copied unchanged at the same positions: the
   text is  gap1 tag1 gap2 tag2 ... tail  (as TEMPLATE_TAG_PATTERN.finditer cuts it) and the output
   is  gap1' tag1 gap2' tag2 ... tail'  with each gap rewritten pointwise. *)
Theorem C08_smart_quotes_tags_fixed : forall text out,
  smart_quotes text = inl out ->
  exists gaps gaps' tags tl tl',
    map (fun gm => (fst gm, m_text (snd gm))) (fst (finditer_t re_template_tag text)) = combine gaps tags /\
    length gaps = length tags /\ length gaps' = length tags /\
    text = concat (map (fun gt => fst gt ++ snd gt) (combine gaps tags)) ++ tl /\
    out = concat (map (fun gt => fst gt ++ snd gt) (combine gaps' tags)) ++ tl' /\
    Forall2 pw gaps gaps' /\ pw tl tl'.
Proof. intros text out H. exact (proj2 (smart_quotes_spec text out C08_cert H)). Qed.
Print Assumptions C08_smart_quotes_tags_fixed.

(* The rewrite never raises: the renderer's length assertion cannot fail and the callback's
   None-concatenations are unreachable. *)
Theorem C08_smart_quotes_total : forall text, exists out, smart_quotes text = inl out.
Proof. intros text. exact (smart_quotes_total text C08_cert). Qed.
Print Assumptions C08_smart_quotes_total.

(* 6. Quotes are only paired within one paragraph: the document-level rewrite hands the rewrite function
   one inline scope (paragraph, heading, table cell) at a time; every leaf of the result is the rewrite
   of the corresponding leaf alone, whatever the rest of the document holds. *)
Theorem C08_rewrite_is_per_paragraph : forall f bs bs',
  Transforms.rewrite_text_across_inlines f bs = ret bs' ->
  Forall2 (fun l l' => Transforms.across_leaf f l = ret l')
          (concat (map RenderProofs.blk_leaves (Transforms.coalesce_doc bs))) (concat (map RenderProofs.blk_leaves bs')).
Proof. exact ScopeProofs.across_inlines_leafwise. Qed.
Print Assumptions C08_rewrite_is_per_paragraph.

(* 7. Nothing but straight quote characters is ever changed: a text without apostrophe and double quote comes back exactly as it is. *)
Theorem C08_no_quotes_no_change : forall text out,
  smart_quotes text = inl out -> (forall c, In c text -> c <> apos /\ c <> dquote) -> out = text.
Proof.
  intros text out H N. apply ScopeProofs.pw_no_quotes; [|exact N].
  exact (proj1 (smart_quotes_spec text out C08_cert H)).
Qed.
Print Assumptions C08_no_quotes_no_change.
