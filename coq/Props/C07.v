(* C07 — YAML frontmatter is passed through exactly and does not influence the body.
   BODY (everything after the split: dedent, strip, tag preprocessing, parser, transforms,
   renderer) is universally quantified, so independence holds for every parser/renderer. *)
From Coq Require Import List NArith ZArith Bool.
Import ListNotations.
From Base Require Import PyStr.
From Model Require Import Frontmatter.
From Proofs Require Import FrontmatterProofs.

(* [clean_line]: a line contains neither LF nor CR; every other character -- including every
   other character Python's str.splitlines would treat as a line end -- is allowed.

   1. Exactness + 2. independence: for a text made of blank lines B, an opening delimiter
   line l0, lines mid (none a delimiter), a closing delimiter lc and following lines,
   the output is literally  l0\n mid.. \n lc \n  followed by the formatted rest. *)
Theorem C07_fill_closed : forall O (BODY : O -> str -> str) o B l0 mid lc after,
  Forall clean_line (B ++ l0 :: mid ++ lc :: after) ->
  Forall blank_line B -> is_delim l0 = true ->
  Forall (fun l => is_delim l = false) mid -> is_delim lc = true ->
  fill_markdown_fm O BODY o (join [nl] (B ++ l0 :: mid ++ lc :: after)) =
  (join [nl] (l0 :: mid ++ [lc]) ++ [nl]) ++ BODY o (join [nl] (drop_last_empty after)).
Proof. exact fill_closed. Qed.
Print Assumptions C07_fill_closed.

Theorem C07_frontmatter_is_substring : forall B l0 mid lc after,
  Forall clean_line (B ++ l0 :: mid ++ lc :: after) ->
  Forall blank_line B -> is_delim l0 = true ->
  Forall (fun l => is_delim l = false) mid -> is_delim lc = true ->
  after <> [] ->
  exists pre post,
    join [nl] (B ++ l0 :: mid ++ lc :: after) =
      pre ++ fst (split_frontmatter (join [nl] (B ++ l0 :: mid ++ lc :: after))) ++ post.
Proof. exact frontmatter_is_substring. Qed.
Print Assumptions C07_frontmatter_is_substring.

(* CRLF -> LF is the only change line splitting makes: a CRLF document splits like its LF twin. *)
Theorem C07_crlf_only : forall ls, Forall clean_line ls ->
  fm_lines (join [13; 10]%N ls) = fm_lines (join [nl] ls).
Proof. exact fm_lines_crlf. Qed.
Print Assumptions C07_crlf_only.

(* 3. The frontmatter part never depends on the options. *)
Theorem C07_fm_no_options : forall O (BODY : O -> str -> str) text,
  exists F, (forall o, fill_markdown_fm O BODY o text = F) \/
            (exists Bd, forall o, fill_markdown_fm O BODY o text = F ++ BODY o Bd).
Proof. exact fm_no_options. Qed.
Print Assumptions C07_fm_no_options.

Theorem C07_fill_no_frontmatter : forall O (BODY : O -> str -> str) o text,
  fst (split_frontmatter text) = [] -> fill_markdown_fm O BODY o text = BODY o text.
Proof. exact fill_no_frontmatter. Qed.
Print Assumptions C07_fill_no_frontmatter.

(* 4. Unclosed frontmatter: returned unchanged apart from a final newline, however often
   it is formatted, whatever the parser/renderer. *)
Theorem C07_fill_unclosed : forall O (BODY : O -> str -> str) o B l0 rest,
  Forall clean_line (B ++ l0 :: rest) -> Forall blank_line B -> is_delim l0 = true ->
  Forall (fun l => is_delim l = false) rest ->
  fill_markdown_fm O BODY o (join [nl] (B ++ l0 :: rest)) = ensure_nl (join [nl] (B ++ l0 :: rest)).
Proof. exact fill_unclosed. Qed.
Print Assumptions C07_fill_unclosed.

Theorem C07_fill_unclosed_fixpoint : forall O (BODY : O -> str -> str) o B l0 rest,
  Forall clean_line (B ++ l0 :: rest) -> Forall blank_line B -> is_delim l0 = true ->
  Forall (fun l => is_delim l = false) rest ->
  let x := join [nl] (B ++ l0 :: rest) in
  fill_markdown_fm O BODY o (fill_markdown_fm O BODY o x) = fill_markdown_fm O BODY o x.
Proof. exact fill_unclosed_fixpoint. Qed.
Print Assumptions C07_fill_unclosed_fixpoint.
