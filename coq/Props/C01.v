(* C01 — Formatting preserves the meaning of the document.
   What a proof can carry (the parser is Marko, which is not modelled: that re-reading flowmark's
   canonical spelling gives the same tree is decided by the differential part of the check):
   wrapping keeps the words, the only change it makes is the line-start escape, the escaped form of
   ANY word opens no block, so no wrapped line after the first begins a list, heading, quote, rule or
   fence; code spans and fences are delimited adequately.  The full statement (also for the first
   line of each wrap call) is refuted in Findings/C01_refuted.v (D-1c, D-44, D-47).
   Property theorems only; each is closed by `exact` of a lemma proved elsewhere. *)
From Coq Require Import List NArith ZArith Bool.
Import ListNotations.
From Base Require Import PyStr.
From Model Require Import Wrap BlockStart Render InlineRead BlockRead.
From Proofs Require Import PyStrFacts WrapProofs EscapeProofs RenderProofs CodeSpanProofs DestProofs FenceProofs HeadingProofs ListProofs TableProofs.
From Model Require Pipeline.
From Proofs Require HeadProofs.

(* 1. Nothing is dropped, invented, merged or split by wrapping: the lines are the input words in
   order; line 0 verbatim, the head of every later line passed through the escape, nothing else. *)
Theorem C01_wrap_keeps_words : forall esc ws width c0 c1 md,
  exists Lo, concat Lo = ws /\ Forall (fun l => l <> []) Lo /\
             wrap_words esc ws width c0 c1 md = esc_lines esc md true Lo.
Proof. exact wrap_lossless. Qed.
Print Assumptions C01_wrap_keeps_words.

(* 2. The escaped form of any word (without whitespace) is not a word that opens a block at the
   start of a line (Model/BlockStart.v: list markers, ATX headings, quotes, fences, rules, setext
   underlines). *)
Theorem C01_escaped_word_opens_no_block : forall w,
  nows w -> opens_block_word (escape_word w) = false.
Proof. exact escape_word_never_opens. Qed.
Print Assumptions C01_escaped_word_opens_no_block.

(* 3. ... and a word that would open a block is always changed by the escape. *)
Theorem C01_opener_is_escaped : forall w,
  nows w -> opens_block_word w = true -> escape_word w <> w.
Proof. exact opener_is_escaped. Qed.
Print Assumptions C01_opener_is_escaped.

(* 4. Hence a line break introduced by wrapping never makes a word start a list, heading, quote,
   rule or fence: every line after the first begins with a word that opens no block, for every
   word list, width and pair of start columns. *)
Theorem C01_wrapped_lines_open_no_block : forall ws width c0 c1 i l,
  Forall nows ws ->
  nth_error (wrap_words escape_word ws width c0 c1 true) (S i) = Some l ->
  exists h t, l = h :: t /\ opens_block_word h = false.
Proof. exact wrapped_heads_safe. Qed.
Print Assumptions C01_wrapped_lines_open_no_block.

(* non-vacuity: a paragraph whose second word is a bullet marker, wrapped so that it heads a line *)
Example C01_example :
  wrap_words escape_word [[97; 97; 97]; [45]; [98]]%N 4 0 0 true = [[[97; 97; 97]]; [[92; 45]; [98]]]%N
  /\ opens_block_word [45]%N = true /\ Forall nows [[97; 97; 97]; [45]; [98]]%N.
Proof. split; [vm_compute; reflexivity|split; [vm_compute; reflexivity|repeat constructor]]. Qed.

(* 5. A code span is written between delimiters one backtick longer than the longest backtick run
   inside it, its content verbatim (one space of padding on both sides or none). *)
Theorem C01_code_span_delimited : forall s,
  exists pad, (pad = [] \/ pad = [sp]) /\
    render_code_span s = repeat bq (S (longest_run bq s)) ++ pad ++ s ++ pad ++ repeat bq (S (longest_run bq s)).
Proof. exact code_span_shape. Qed.
Print Assumptions C01_code_span_delimited.

(* 6. The fence of a code block is longer than any fence-like run that starts a content line. *)
Theorem C01_fence_adequate : forall content fc flen line,
  In line (split_on 10%N content) ->
  (fence_run_at_line_start fc line < Nat.max flen (min_fence_length content fc))%nat /\
  (flen <= Nat.max flen (min_fence_length content fc))%nat.
Proof. exact fence_adequate. Qed.
Print Assumptions C01_fence_adequate.

(* 7. Read-back theorems.  Model/InlineRead.v and Model/BlockRead.v state how a CommonMark reader reads
   a code span, a link destination, a link title and a fenced code block (specification, validated
   against the parser flowmark uses by harness/c01.py).  What the renderer writes is read back as
   exactly what the parser had handed over. *)
Theorem C01_code_span_read_back : forall s tail,
  s <> [] -> needs_padding s = false -> no_bq_head tail ->
  read_code_span (render_code_span s ++ tail) = Some (s, tail).
Proof. exact code_span_roundtrip. Qed.
Print Assumptions C01_code_span_read_back.

Theorem C01_destination_read_back : forall d tail, dest_ok d -> tail_ok tail ->
  read_destination (link_destination d ++ tail) = Some (d, tail).
Proof. exact destination_roundtrip. Qed.
Print Assumptions C01_destination_read_back.

Theorem C01_title_read_back : forall t tail, read_title (normalize_title_quotes t ++ tail) = Some (t, tail).
Proof. exact title_roundtrip. Qed.
Print Assumptions C01_title_read_back.

(* a code block outside containers: same fence character, info string and content lines, for EVERY
   content, and the reader stops exactly at the closing fence *)
Theorem C01_code_block_read_back : forall lang extra fc flen content st rest,
  r_prefix st = [] -> r_prefix2 st = [] -> (fc = 96 \/ fc = 126)%N -> info_ok fc (info_of lang extra) ->
  exists lines,
    fst (render_code lang extra fc flen content st) = join [nlc] lines ++ [nlc] /\
    read_fenced (lines ++ rest)
    = Some (Fenced fc (fence_len fc flen content) (info_of lang extra) (code_lines content), rest).
Proof. exact code_block_roundtrip. Qed.
Print Assumptions C01_code_block_read_back.

(* non-vacuity: content that holds a fence, a destination that needs its escapes back *)
Example C01_read_back_examples :
  read_code_span (render_code_span [96; 97]%N ++ []) = Some ([96; 97]%N, [])
  /\ read_destination (link_destination [97; 92; 42; 98]%N ++ [41]%N) = Some ([97; 92; 42; 98]%N, [41]%N)
  /\ read_title (normalize_title_quotes [116; 92]%N ++ [41]%N) = Some ([116; 92]%N, [41]%N)
  /\ read_fenced (split_on nlc (fst (render_code [112; 121]%N [] 96%N 3 [96; 96; 96; 10; 120; 10]%N (RS [] [] false false [] false))))
     = Some (Fenced 96%N 4 [112; 121]%N [[96; 96; 96]%N; [120]%N], [[]]).
Proof. repeat split; vm_compute; reflexivity. Qed.

(* the language word of a code fence (and every destination and title) is handed over by the parser
   with backslash escapes removed; what the renderer writes gives it back exactly *)
Theorem C01_escapes_undone : forall s, strip_backslash (escape_backslashes s) = s.
Proof. exact strip_escape_backslashes. Qed.
Print Assumptions C01_escapes_undone.

(* 8. Headings and levels: an ATX heading line as the renderer writes it (hashes, a space, the text
   with a final run of '#' escaped where it would be taken for a closing sequence) is read back with
   the same level and the whole text as its content. *)
Theorem C01_heading_read_back : forall level t, (1 <= level <= 6)%nat -> t <> [] -> clean_ends t ->
  read_atx (hashes level ++ [sp] ++ escape_closing_hashes t) = Some (level, escape_closing_hashes t).
Proof. exact heading_roundtrip. Qed.
Print Assumptions C01_heading_read_back.

(* 9. Ordered lists and start numbers: the marker the renderer writes (number, period, space) is read back
   as the same number, for every number a list item can carry, and the reader's marker width is the
   continuation indent the renderer gives the item's further lines. *)
Theorem C01_ordered_marker_read_back : forall (num : Z) rest, (0 <= num < 10 ^ 9)%Z ->
  read_ol_marker (zstr num ++ [46; 32]%N ++ rest) = Some (Z.to_N num, (length (zstr num) + 2)%nat).
Proof. exact ol_marker_roundtrip. Qed.
Print Assumptions C01_ordered_marker_read_back.

(* 10. Tables: a row as render_row writes it - "| c1 | c2 |", every pipe inside a cell as backslash-pipe - is
   split by a GFM reader into exactly those cells, whatever they hold, and the normalised delimiter row
   keeps each column's alignment. *)
Theorem C01_table_row_read_back : forall ts, ts <> [] -> Forall clean_ends ts ->
  read_row ([124; 32]%N ++ join bar_sep (map esc_cell ts) ++ [32; 124]%N) = Some ts.
Proof. exact rendered_row_read_back. Qed.
Print Assumptions C01_table_row_read_back.

Theorem C01_table_alignment_kept : forall d, alignment (delim_norm d) = alignment d.
Proof. exact delimiter_alignment. Qed.
Print Assumptions C01_table_alignment_kept.

Theorem C01_rendered_item_marker_read_back : forall (i start : Z) rest, (0 <= i + start)%Z ->
  let num := Z.min (i + start) 999999999 in
  read_ol_marker (zstr num ++ [46; 32]%N ++ rest) = Some (Z.to_N num, (length (zstr num) + 2)%nat).
Proof. exact rendered_item_marker_read_back. Qed.
Print Assumptions C01_rendered_item_marker_read_back.

Theorem C01_fence_language_escapes_undone : forall s, strip_backslash (escape_backslashes_inner s) = s.
Proof. exact strip_escape_backslashes_inner. Qed.
Print Assumptions C01_fence_language_escapes_undone.

(* 11. The head of the formatter drops nothing but whitespace-only lines from the start of the text: what is
   handed on begins at a line start of the text, with that line's indentation (an indented code block that
   opens the document stays one; fix aeff3ee). *)
Theorem C01_only_leading_blank_lines_dropped : forall s,
  exists pre, s = pre ++ Pipeline.drop_leading_blank_lines s /\ forallb is_space pre = true /\
              (pre = [] \/ exists p, pre = p ++ [10%N]).
Proof. exact HeadProofs.leading_blank_lines_only. Qed.
Print Assumptions C01_only_leading_blank_lines_dropped.
