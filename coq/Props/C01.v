(* C01 — placeholder until the theorem set is assembled below *)
From Coq Require Import List.
Theorem C01_placeholder : True. Proof. exact I. Qed.
Print Assumptions C01_placeholder.
