(* C13 — Each formatting call is isolated from other calls.
   Part 1 (generated data): every piece of state that can outlive a call, as listed by the
   inventory translator from the current source, is of a kind that cannot carry information
   between calls.  Part 2 (machine): when the only shared state is a set of init-once cells,
   every call returns its stand-alone result for every history and every interleaving. *)
From Coq Require Import List Bool.
Import ListNotations.
From Gen Require Import Inventory.
From Model Require Import Session.
From Proofs Require Import SessionProofs.

Theorem C13_inventory_covered : inventory_covered = true.
Proof. vm_compute. reflexivity. Qed.
Print Assumptions C13_inventory_covered.

Theorem C13_schedule_independence :
  forall (K V In Out : Type) (K_eqb : K -> K -> bool),
  (forall a b, K_eqb a b = true <-> a = b) ->
  forall (init : K -> V) (result : In -> list V -> Out) (prog : In -> list K)
         (s0 : session K V) inputs sched,
  sinv K V init s0 ->
  let ts := snd (run K V In K_eqb init sched s0 (map (start K V In prog) inputs)) in
  Forall (fun t => finished _ _ _ t = true ->
            output _ _ _ _ result t = pure_call K V In Out init result prog (t_in _ _ _ t)) ts.
Proof. exact schedule_independence. Qed.
Print Assumptions C13_schedule_independence.

Theorem C13_history_independence :
  forall (K V In Out : Type) (K_eqb : K -> K -> bool),
  (forall a b, K_eqb a b = true <-> a = b) ->
  forall (init : K -> V) (result : In -> list V -> Out) (prog : In -> list K) inputs s,
  sinv K V init s ->
  run_seq K V In Out K_eqb init result prog s inputs = map (pure_call K V In Out init result prog) inputs.
Proof. exact history_independence. Qed.
Print Assumptions C13_history_independence.

(* non-vacuity: a fresh process satisfies the session invariant *)
Theorem C13_fresh_process_ok : forall K V (init : K -> V), sinv K V init (empty K V).
Proof. exact empty_inv. Qed.
Print Assumptions C13_fresh_process_ok.
