(* A backtracking regular-expression matcher with CPython `re` priority semantics,
   written as total Gallina (continuation-passing; the only iteration that is not
   structural in the regex — repetition — runs on fuel = remaining input + 1, which
   cannot run out because every iteration must consume at least one character).
   Definitions only. *)
From Coq Require Import List NArith Bool Arith.
Import ListNotations.
From Base Require Import PyStr.

Inductive cat := CSpace | CWord | CDigit | CLetter | CLower | CRxWord.

Definition in_cat (c : cat) (x : N) : bool :=
  match c with
  | CSpace => is_space x
  | CWord => is_wordch x
  | CDigit => is_pydigit x
  | CLetter => is_letter x
  | CLower => is_lower x
  | CRxWord => is_rxword x
  end.

Inductive citem := IRange (lo hi : N) | ICat (neg : bool) (c : cat).

Definition in_item (i : citem) (x : N) : bool :=
  match i with
  | IRange lo hi => (N.leb lo x) && (N.leb x hi)
  | ICat neg c => xorb neg (in_cat c x)
  end.
Definition in_items (l : list citem) (x : N) : bool := existsb (fun i => in_item i x) l.

Inductive anchor :=
| ABegin        (* ^ without MULTILINE, \A *)
| ABeginLine    (* ^ with MULTILINE *)
| AEnd          (* $ without MULTILINE: at end or before a final newline *)
| AEndLine      (* $ with MULTILINE *)
| AEndString    (* \Z *)
| ABoundary (rx : bool)      (* \b; rx = word table of the `regex` module *)
| ANotBoundary (rx : bool).  (* \B *)

Inductive regex :=
| RLit (c : N)
| RNotLit (c : N)
| RIn (neg : bool) (items : list citem)
| RAny (dotall : bool)
| REps
| RFail
| RCat (a b : regex)
| RAlt (a b : regex)
| RRep (mn : nat) (mx : option nat) (greedy : bool) (r : regex)
| RGroup (i : nat) (r : regex)
| RRef (i : nat)
| RLook (neg : bool) (r : regex)      (* look-ahead *)
| RBehind1 (neg : bool) (r : regex)   (* look-behind of width 1 (body: one character class) *)
| RAt (a : anchor).

Record mstate := MS {
  rest : str;                 (* input not yet consumed *)
  prev : option N;            (* character just before the current position *)
  pos : nat;                  (* current position *)
  rem : nat;                  (* length of [rest] (fuel for repetitions) *)
  caps : list (option (nat * str))  (* group number -> (start, text) *)
}.

Inductive res := Fail | Oof | Ok (st : mstate).

Definition step1 (st : mstate) (p : N -> bool) (k : mstate -> res) : res :=
  match rest st with
  | c :: r => if p c then k (MS r (Some c) (S (pos st)) (Nat.pred (rem st)) (caps st)) else Fail
  | [] => Fail
  end.

Fixpoint match_lit (t : str) (st : mstate) (k : mstate -> res) : res :=
  match t with
  | [] => k st
  | c :: t' => step1 st (N.eqb c) (fun st' => match_lit t' st' k)
  end.

Fixpoint set_nth {A} (i : nat) (x : A) (l : list A) : list A :=
  match i, l with
  | O, _ :: t => x :: t
  | S i', h :: t => h :: set_nth i' x t
  | _, [] => []
  end.

Definition set_cap (i : nat) (st0 st1 : mstate) : mstate :=
  MS (rest st1) (prev st1) (pos st1) (rem st1)
     (set_nth i (Some (pos st0, firstn (pos st1 - pos st0) (rest st0))) (caps st1)).

Definition with_caps (st : mstate) (c : list (option (nat * str))) : mstate :=
  MS (rest st) (prev st) (pos st) (rem st) c.

Definition is_w (rx : bool) (o : option N) : bool :=
  match o with
  | Some c => if rx then is_rxword c else is_wordch c
  | None => false
  end.

Definition anchor_ok (a : anchor) (st : mstate) : bool :=
  match a with
  | ABegin => match prev st with None => true | Some _ => false end
  | ABeginLine => match prev st with None => true | Some c => N.eqb c 10 end
  | AEnd => match rest st with [] => true | [c] => N.eqb c 10 | _ => false end
  | AEndLine => match rest st with [] => true | c :: _ => N.eqb c 10 end
  | AEndString => match rest st with [] => true | _ => false end
  | ABoundary rx => xorb (is_w rx (prev st)) (is_w rx (hd_error (rest st)))
  | ANotBoundary rx => negb (xorb (is_w rx (prev st)) (is_w rx (hd_error (rest st))))
  end.

Fixpoint rep_loop (body : mstate -> (mstate -> res) -> res) (mn : nat) (mx : option nat)
  (greedy : bool) (fuel : nat) (n : nat) (st : mstate) (k : mstate -> res) : res :=
  match fuel with
  | O => Oof
  | S fuel' =>
      let can_more := match mx with None => true | Some x => Nat.ltb n x end in
      let more (_ : unit) :=
        if can_more then
          body st (fun st' => if Nat.eqb (pos st') (pos st) then Fail
                              else rep_loop body mn mx greedy fuel' (S n) st' k)
        else Fail in
      if Nat.ltb n mn then more tt
      else if greedy then
        match more tt with Fail => k st | x => x end
      else
        match k st with Fail => more tt | x => x end
  end.

Fixpoint m (r : regex) (st : mstate) (k : mstate -> res) {struct r} : res :=
  match r with
  | RLit c => step1 st (N.eqb c) k
  | RNotLit c => step1 st (fun x => negb (N.eqb c x)) k
  | RIn neg items => step1 st (fun x => xorb neg (in_items items x)) k
  | RAny dotall => step1 st (fun x => dotall || negb (N.eqb x 10)) k
  | REps => k st
  | RFail => Fail
  | RCat a b => m a st (fun st' => m b st' k)
  | RAlt a b => match m a st k with Fail => m b st k | x => x end
  | RRep mn mx g r' => rep_loop (m r') mn mx g (S (rem st)) 0 st k
  | RGroup i r' => m r' st (fun st' => k (set_cap i st st'))
  | RRef i =>
      match nth i (caps st) None with
      | Some (_, t) => match_lit t st k
      | None => Fail
      end
  | RLook neg r' =>
      match m r' st (fun st' => Ok st') with
      | Ok st' => if neg then Fail else k (with_caps st (caps st'))
      | Fail => if neg then k st else Fail
      | Oof => Oof
      end
  | RBehind1 neg r' =>
      let hit :=
        match prev st with
        | Some c =>
            match m r' (MS [c] None 0 1 (caps st)) (fun st' => Ok st') with
            | Ok st' => is_nil (rest st')
            | _ => false
            end
        | None => false
        end in
      if xorb neg hit then k st else Fail
  | RAt a => if anchor_ok a st then k st else Fail
  end.

(* ---- a compiled pattern: the regex and its number of groups (group 0 included) ---- *)
Record pattern := Pat { p_re : regex; p_ngroups : nat }.

Record mmatch := MM {
  m_start : nat; m_end : nat;
  m_text : str;                            (* group 0 *)
  m_groups : list (option (nat * str));    (* index = group number; entry 0 unused *)
  m_after : str                            (* input following the match *)
}.

Definition mk_match (st0 st1 : mstate) : mmatch :=
  MM (pos st0) (pos st1) (firstn (pos st1 - pos st0) (rest st0)) (caps st1) (rest st1).

Definition group (mm : mmatch) (i : nat) : option str :=
  match i with
  | O => Some (m_text mm)
  | _ => match nth i (m_groups mm) None with Some (_, t) => Some t | None => None end
  end.
Definition group_start (mm : mmatch) (i : nat) : option nat :=
  match nth i (m_groups mm) None with Some (s, _) => Some s | None => None end.

(* one match attempt exactly at the given state *)
Definition try_at (p : pattern) (st : mstate) (must_adv : bool) : res :=
  m (p_re p) (with_caps st (repeat None (p_ngroups p)))
    (fun st' => if must_adv && Nat.eqb (pos st') (pos st) then Fail else Ok st').

Inductive sres :=
| SNone (skipped_rev : str)
| SFound (skipped_rev : str) (st0 st1 : mstate)
| SOof.

(* scan forward from a position for the first match; [must_adv] only constrains the
   first candidate position (CPython's must_advance) *)
Fixpoint search_from (p : pattern) (s : str) (pv : option N) (ps rm : nat)
  (must_adv : bool) (skipped : str) : sres :=
  let st := MS s pv ps rm [] in
  match try_at p st must_adv with
  | Ok st1 => SFound skipped st st1
  | Oof => SOof
  | Fail =>
      match s with
      | [] => SNone skipped
      | c :: s' => search_from p s' (Some c) (S ps) (Nat.pred rm) false (c :: skipped)
      end
  end.

Definition re_search (p : pattern) (s : str) : option (option mmatch) :=
  match search_from p s None 0 (length s) false [] with
  | SNone _ => Some None
  | SFound _ st0 st1 => Some (Some (mk_match st0 st1))
  | SOof => None
  end.

(* re.match: anchored at position 0 *)
Definition re_match (p : pattern) (s : str) : option (option mmatch) :=
  let st := MS s None 0 (length s) [] in
  match try_at p st false with
  | Ok st1 => Some (Some (mk_match st st1))
  | Fail => Some None
  | Oof => None
  end.

(* finditer as a decomposition of the input: [(gap, match)]* and the final tail *)
Fixpoint finditer_loop (p : pattern) (fuel : nat) (s : str) (pv : option N) (ps rm : nat)
  (must_adv : bool) : option (list (str * mmatch) * str) :=
  match fuel with
  | O => None
  | S fuel' =>
      match search_from p s pv ps rm must_adv [] with
      | SOof => None
      | SNone sk => Some ([], rev sk)
      | SFound sk st0 st1 =>
          match finditer_loop p fuel' (rest st1) (prev st1) (pos st1) (rem st1)
                  (Nat.eqb (pos st1) (pos st0)) with
          | None => None
          | Some (l, tl) => Some ((rev sk, mk_match st0 st1) :: l, tl)
          end
      end
  end.

Definition finditer (p : pattern) (s : str) : option (list (str * mmatch) * str) :=
  finditer_loop p (S (S (length s + length s))) s None 0 (length s) false.

(* re.sub with a callback *)
Definition re_sub (p : pattern) (f : mmatch -> str) (s : str) : option str :=
  match finditer p s with
  | None => None
  | Some (l, tl) => Some (concat (map (fun gm => fst gm ++ f (snd gm)) l) ++ tl)
  end.

(* re.split (all groups 1.. of each match are interleaved; unset groups appear as None) *)
Fixpoint seq_from (a n : nat) : list nat :=
  match n with O => [] | S n' => a :: seq_from (S a) n' end.

Definition re_split (p : pattern) (s : str) : option (list (option str)) :=
  match finditer p s with
  | None => None
  | Some (l, tl) =>
      Some (concat (map (fun gm =>
                Some (fst gm) :: map (fun i => group (snd gm) i) (seq_from 1 (p_ngroups p - 1))) l)
            ++ [Some tl])
  end.

(* ---- total variants.  Running out of fuel is impossible (Proofs/RegexFacts.v:
   finditer_never_out_of_fuel etc.), so the default value is never produced. ---- *)
Definition finditer_t (p : pattern) (s : str) : list (str * mmatch) * str :=
  match finditer p s with Some x => x | None => ([], s) end.
Definition re_search_t (p : pattern) (s : str) : option mmatch :=
  match re_search p s with Some x => x | None => None end.
Definition re_match_t (p : pattern) (s : str) : option mmatch :=
  match re_match p s with Some x => x | None => None end.
Definition re_split_t (p : pattern) (s : str) : list (option str) :=
  match re_split p s with Some x => x | None => [Some s] end.
Definition re_sub_t (p : pattern) (f : mmatch -> str) (s : str) : str :=
  match re_sub p f s with Some x => x | None => s end.
