(* Python string built-ins as total Gallina functions over code-point lists.
   Definitions only (plus boolean equality); lemmas live in Proofs/PyStrFacts.v. *)
From Coq Require Import List NArith ZArith Bool.
Import ListNotations.
From Gen Require Import Unicode.
Local Open Scope N_scope.

Definition cp := N.
Definition str := list N.

Fixpoint in_ranges (t : list (N * N)) (c : N) : bool :=
  match t with
  | [] => false
  | (a, b) :: t' => ((a <=? c) && (c <=? b)) || in_ranges t' c
  end.

Definition is_space (c : N) : bool := in_ranges space_ranges c.
Definition is_wordch (c : N) : bool := in_ranges word_ranges c.       (* re \w *)
Definition is_pydigit (c : N) : bool := in_ranges digit_ranges c.     (* str.isdigit *)
Definition is_letter (c : N) : bool := in_ranges letter_ranges c.     (* regex \p{L} *)
Definition is_lower (c : N) : bool := in_ranges lower_ranges c.       (* regex \p{Ll} *)
Definition is_rxword (c : N) : bool := in_ranges regex_word_ranges c. (* regex \w *)
Definition is_linebreak (c : N) : bool := in_ranges linebreak_ranges c.
Definition is_ascii_digit (c : N) : bool := (48 <=? c) && (c <=? 57).

Definition len (s : str) : Z := Z.of_nat (length s).

Fixpoint str_eqb (a b : str) : bool :=
  match a, b with
  | [], [] => true
  | x :: a', y :: b' => (x =? y) && str_eqb a' b'
  | _, _ => false
  end.

Fixpoint strs_eqb (a b : list str) : bool :=
  match a, b with
  | [], [] => true
  | x :: a', y :: b' => str_eqb x y && strs_eqb a' b'
  | _, _ => false
  end.

Definition is_nil {A} (l : list A) : bool := match l with [] => true | _ => false end.

(* ---- whitespace splitting: str.split() ---- *)
Fixpoint split_ws_aux (s : str) (cur : str) : list str :=
  match s with
  | [] => match cur with [] => [] | _ => [rev cur] end
  | c :: s' =>
      if is_space c then
        match cur with
        | [] => split_ws_aux s' []
        | _ => rev cur :: split_ws_aux s' []
        end
      else split_ws_aux s' (c :: cur)
  end.
Definition split_ws (s : str) : list str := split_ws_aux s [].

(* ---- strip family ---- *)
Fixpoint lstrip (s : str) : str :=
  match s with
  | c :: s' => if is_space c then lstrip s' else s
  | [] => []
  end.
Definition rstrip (s : str) : str := rev (lstrip (rev s)).
Definition strip (s : str) : str := rstrip (lstrip s).

Fixpoint lstrip_chars (p : N -> bool) (s : str) : str :=
  match s with
  | c :: s' => if p c then lstrip_chars p s' else s
  | [] => []
  end.
Definition rstrip_chars (p : N -> bool) (s : str) : str := rev (lstrip_chars p (rev s)).

Definition all_space (s : str) : bool := forallb is_space s.
(* str.isspace(): non-empty and all whitespace *)
Definition py_isspace (s : str) : bool := negb (is_nil s) && all_space s.

(* ---- join ---- *)
Fixpoint join (sep : str) (l : list str) : str :=
  match l with
  | [] => []
  | [x] => x
  | x :: l' => x ++ sep ++ join sep l'
  end.

Definition sp : N := 32.
Definition nl : N := 10.
Definition bsl : N := 92.

(* ---- re.sub(r"\s+", " ", s) ---- *)
Fixpoint collapse_ws_aux (s : str) (in_ws : bool) : str :=
  match s with
  | [] => []
  | c :: s' =>
      if is_space c then
        if in_ws then collapse_ws_aux s' true else sp :: collapse_ws_aux s' true
      else c :: collapse_ws_aux s' false
  end.
Definition collapse_ws (s : str) : str := collapse_ws_aux s false.

(* ---- str.split(sep) for a one-character separator ---- *)
Fixpoint split_on_aux (d : N) (s : str) (cur : str) : list str :=
  match s with
  | [] => [rev cur]
  | c :: s' => if c =? d then rev cur :: split_on_aux d s' [] else split_on_aux d s' (c :: cur)
  end.
Definition split_on (d : N) (s : str) : list str := split_on_aux d s [].

(* ---- str.replace for single characters ---- *)
Definition replace_ch (a b : N) (s : str) : str := map (fun c => if c =? a then b else c) s.

(* ---- prefix / suffix tests ---- *)
Fixpoint startswith (s p : str) : bool :=
  match p, s with
  | [], _ => true
  | x :: p', y :: s' => (x =? y) && startswith s' p'
  | _ :: _, [] => false
  end.
Definition endswith (s p : str) : bool := startswith (rev s) (rev p).

Fixpoint contains_ch (c : N) (s : str) : bool :=
  match s with [] => false | x :: s' => (x =? c) || contains_ch c s' end.

(* ---- str.splitlines() (keepends = False) ----
   boundaries: the characters of linebreak_ranges, with CR LF counting as one. *)
Fixpoint splitlines_aux (s : str) (cur : str) : list str :=
  match s with
  | [] => match cur with [] => [] | _ => [rev cur] end
  | c :: s' =>
      if is_linebreak c then
        match s' with
        | c2 :: s'' => if (c =? 13) && (c2 =? 10) then rev cur :: splitlines_aux s'' []
                       else rev cur :: splitlines_aux s' []
        | [] => [rev cur]
        end
      else splitlines_aux s' (c :: cur)
  end.
Definition splitlines (s : str) : list str := splitlines_aux s [].

Definition last_ch (s : str) : option N :=
  match rev s with [] => None | c :: _ => Some c end.

Arguments is_space : simpl never.
Arguments is_wordch : simpl never.
Arguments is_pydigit : simpl never.
Arguments is_letter : simpl never.
Arguments is_lower : simpl never.
Arguments is_rxword : simpl never.
Arguments is_linebreak : simpl never.
Arguments in_ranges : simpl never.
