(* Python string built-ins as total Gallina functions over code-point lists.
   Definitions only (plus boolean equality); lemmas live in Proofs/PyStrFacts.v. *)
From Coq Require Import List NArith ZArith Bool.
Import ListNotations.
From Gen Require Import Unicode.
Local Open Scope N_scope.

Definition cp := N.
Definition str := list N.

Fixpoint in_ranges (t : list (N * N)) (c : N) : bool :=
  match t with
  | [] => false
  | (a, b) :: t' => ((a <=? c) && (c <=? b)) || in_ranges t' c
  end.

Definition is_space (c : N) : bool := in_ranges space_ranges c.
Definition is_wordch (c : N) : bool := in_ranges word_ranges c.       (* re \w *)
Definition is_pydigit (c : N) : bool := in_ranges digit_ranges c.     (* str.isdigit *)
Definition is_letter (c : N) : bool := in_ranges letter_ranges c.     (* regex \p{L} *)
Definition is_lower (c : N) : bool := in_ranges lower_ranges c.       (* regex \p{Ll} *)
Definition is_rxword (c : N) : bool := in_ranges regex_word_ranges c. (* regex \w *)
Definition is_linebreak (c : N) : bool := in_ranges linebreak_ranges c.
Definition is_ascii_digit (c : N) : bool := (48 <=? c) && (c <=? 57).

Definition len (s : str) : Z := Z.of_nat (length s).

Fixpoint str_eqb (a b : str) : bool :=
  match a, b with
  | [], [] => true
  | x :: a', y :: b' => (x =? y) && str_eqb a' b'
  | _, _ => false
  end.

Fixpoint strs_eqb (a b : list str) : bool :=
  match a, b with
  | [], [] => true
  | x :: a', y :: b' => str_eqb x y && strs_eqb a' b'
  | _, _ => false
  end.

Definition is_nil {A} (l : list A) : bool := match l with [] => true | _ => false end.

(* ---- whitespace splitting: str.split() ---- *)
Fixpoint split_ws_aux (s : str) (cur : str) : list str :=
  match s with
  | [] => match cur with [] => [] | _ => [rev cur] end
  | c :: s' =>
      if is_space c then
        match cur with
        | [] => split_ws_aux s' []
        | _ => rev cur :: split_ws_aux s' []
        end
      else split_ws_aux s' (c :: cur)
  end.
Definition split_ws (s : str) : list str := split_ws_aux s [].

(* ---- strip family ---- *)
Fixpoint lstrip (s : str) : str :=
  match s with
  | c :: s' => if is_space c then lstrip s' else s
  | [] => []
  end.
Definition rstrip (s : str) : str := rev (lstrip (rev s)).
Definition strip (s : str) : str := rstrip (lstrip s).

Fixpoint lstrip_chars (p : N -> bool) (s : str) : str :=
  match s with
  | c :: s' => if p c then lstrip_chars p s' else s
  | [] => []
  end.
Definition rstrip_chars (p : N -> bool) (s : str) : str := rev (lstrip_chars p (rev s)).

Definition all_space (s : str) : bool := forallb is_space s.
(* str.isspace(): non-empty and all whitespace *)
Definition py_isspace (s : str) : bool := negb (is_nil s) && all_space s.

(* ---- join ---- *)
Fixpoint join (sep : str) (l : list str) : str :=
  match l with
  | [] => []
  | [x] => x
  | x :: l' => x ++ sep ++ join sep l'
  end.

Definition sp : N := 32.
Definition nl : N := 10.
Definition bsl : N := 92.

(* ---- re.sub(r"\s+", " ", s) ---- *)
Fixpoint collapse_ws_aux (s : str) (in_ws : bool) : str :=
  match s with
  | [] => []
  | c :: s' =>
      if is_space c then
        if in_ws then collapse_ws_aux s' true else sp :: collapse_ws_aux s' true
      else c :: collapse_ws_aux s' false
  end.
Definition collapse_ws (s : str) : str := collapse_ws_aux s false.

(* ---- str.split(sep) for a one-character separator ---- *)
Fixpoint split_on_aux (d : N) (s : str) (cur : str) : list str :=
  match s with
  | [] => [rev cur]
  | c :: s' => if c =? d then rev cur :: split_on_aux d s' [] else split_on_aux d s' (c :: cur)
  end.
Definition split_on (d : N) (s : str) : list str := split_on_aux d s [].

(* ---- str.replace for single characters ---- *)
Definition replace_ch (a b : N) (s : str) : str := map (fun c => if c =? a then b else c) s.

(* ---- prefix / suffix tests ---- *)
Fixpoint startswith (s p : str) : bool :=
  match p, s with
  | [], _ => true
  | x :: p', y :: s' => (x =? y) && startswith s' p'
  | _ :: _, [] => false
  end.
Definition endswith (s p : str) : bool := startswith (rev s) (rev p).

Fixpoint contains_ch (c : N) (s : str) : bool :=
  match s with [] => false | x :: s' => (x =? c) || contains_ch c s' end.

(* ---- str.splitlines() (keepends = False) ----
   boundaries: the characters of linebreak_ranges, with CR LF counting as one. *)
Fixpoint splitlines_aux (s : str) (cur : str) : list str :=
  match s with
  | [] => match cur with [] => [] | _ => [rev cur] end
  | c :: s' =>
      if is_linebreak c then
        match s' with
        | c2 :: s'' => if (c =? 13) && (c2 =? 10) then rev cur :: splitlines_aux s'' []
                       else rev cur :: splitlines_aux s' []
        | [] => [rev cur]
        end
      else splitlines_aux s' (c :: cur)
  end.
Definition splitlines (s : str) : list str := splitlines_aux s [].

Definition last_ch (s : str) : option N :=
  match rev s with [] => None | c :: _ => Some c end.

Arguments is_space : simpl never.
Arguments is_wordch : simpl never.
Arguments is_pydigit : simpl never.
Arguments is_letter : simpl never.
Arguments is_lower : simpl never.
Arguments is_rxword : simpl never.
Arguments is_linebreak : simpl never.
Arguments in_ranges : simpl never.

(* ---- results of computations that may raise in Python ---- *)
Inductive exc := TypeError | IndexError | AssertionError | ValueError | OutOfFuel.
Definition M (A : Type) : Type := A + exc.
Definition ret {A} (a : A) : M A := inl a.
Definition throw {A} (e : exc) : M A := inr e.
Definition bind {A B} (a : M A) (f : A -> M B) : M B :=
  match a with inl x => f x | inr e => inr e end.
Notation "x <- a ;; b" := (bind a (fun x => b)) (at level 61, a at next level, right associativity).
Definition of_fuel {A} (o : option A) : M A :=
  match o with Some a => inl a | None => inr OutOfFuel end.

Fixpoint mapM {A B} (f : A -> M B) (l : list A) : M (list B) :=
  match l with
  | [] => ret []
  | x :: l' => y <- f x ;; ys <- mapM f l' ;; ret (y :: ys)
  end.

(* ---- str.replace(old, new) for a non-empty needle (left to right, non-overlapping) ---- *)
Fixpoint drop_prefix (p s : str) : option str :=
  match p, s with
  | [], _ => Some s
  | x :: p', y :: s' => if x =? y then drop_prefix p' s' else None
  | _ :: _, [] => None
  end.

(* fuel = length of the input; every step consumes at least one character *)
Fixpoint replace_aux (fuel : nat) (old new s : str) : str :=
  match fuel with
  | O => s
  | S fuel' =>
      match s with
      | [] => []
      | c :: s' =>
          match drop_prefix old s with
          | Some r => new ++ replace_aux fuel' old new r
          | None => c :: replace_aux fuel' old new s'
          end
      end
  end.
Definition str_replace (old new s : str) : str :=
  match old with
  | [] => s   (* not used with an empty needle *)
  | _ => replace_aux (length s) old new s
  end.

(* decimal digits of a natural number, as code points *)
Fixpoint dec_aux (fuel : nat) (n : N) (acc : str) : str :=
  match fuel with
  | O => acc
  | S f => let d := (48 + n mod 10) in
           if n <? 10 then d :: acc else dec_aux f (n / 10) (d :: acc)
  end.
Definition dec_of_N (n : N) : str := dec_aux 40 n [].

Fixpoint count_ch (c : N) (s : str) : nat :=
  match s with [] => O | x :: s' => (if x =? c then 1 else 0) + count_ch c s' end.

(* length of the run of [c] at the start of [s] *)
Fixpoint run_len (c : N) (s : str) : nat :=
  match s with x :: s' => if N.eqb x c then S (run_len c s') else O | [] => O end.
