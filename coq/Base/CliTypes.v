(* The option record travelling through the API layers (C15/C16). *)
From Coq Require Import ZArith Bool.

Inductive lsp := LPreserve | LLoose | LTight.

Record fo := {
  f_width : Z;
  f_plaintext : bool; f_semantic : bool; f_cleanups : bool; f_smartquotes : bool; f_ellipses : bool;
  f_list_spacing : lsp;
  f_inplace : bool; f_nobackup : bool
}.
