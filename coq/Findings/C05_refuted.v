(* Refutation witnesses for the full-strength forms of C05 that the faithful model violates.
   Built separately and non-fatally: if a witness stops computing, the finding no longer
   reproduces in the model. *)
From Coq Require Import List ZArith Bool.
Import ListNotations.
From Base Require Import PyStr.
From Model Require Import Wrap.
From Proofs Require Import WrapProofs.
Local Open Scope Z_scope.

(* D-11: the width bound measured from the real first-line column fails when the first word
   does not fit at c0 and c0 > c1: words "aaaa" "b", width 6, c0 = 3, c1 = 0 gives the line
   "aaaa b" printed at column 3 (9 columns) although it is breakable. *)
Theorem C05_wrap_width_full_refuted :
  exists esc ws width c0 c1 md i l,
    nth_error (wrap_words esc ws width c0 c1 md) i = Some l /\
    ~ (col_at c1 c0 i + llen l <= width \/ length l = 1%nat).
Proof.
  exists (fun w => w), [[97;97;97;97]%N; [98]%N], 6, 3, 0, false, 0%nat, [[97;97;97;97]%N; [98]%N].
  split; [vm_compute; reflexivity|].
  vm_compute. intros [H|H]; [apply H; reflexivity|discriminate].
Qed.
Print Assumptions C05_wrap_width_full_refuted.
