(* D-19: the config key `include` is accepted (it is a field of FlowmarkConfig) but the options
   record has no such field, so merge_cli_with_config drops it (hasattr is false). *)
From Coq Require Import List Bool String.
Import ListNotations.
From Gen Require Import Wiring.
From Proofs Require Import CliTables.
Theorem C16_every_key_effective_full_refuted : cert_keys_effective = false.
Proof. vm_compute. reflexivity. Qed.
Print Assumptions C16_every_key_effective_full_refuted.
