(* Refutation witness for C14 without the hypothesis that the jobs of a multi-file run do not collide
   (finding D-81): when one input is the backup name of another ("flowmark -i a a.orig"), the backup of
   the first file overwrites the second file before it is processed, and that file's old content is
   then neither at its path nor at its backup path.  Built separately and non-fatally. *)
From Coq Require Import List NArith Bool.
Import ListNotations.
From Base Require Import PyStr.
From Model Require Import FsOps.
Local Open Scope N_scope.

Definition pa : path := [97].                          (* "a" *)
Definition pao : path := [97; 46; 111; 114; 105; 103].  (* "a.orig" *)
Definition f0 : fs := upd pa (Some [65; 48]) (upd pao (Some [80; 48]) (fun _ => None)).   (* a = "A0", a.orig = "P0" *)
Definition j1 : job := Job pa [97; 33] true [[65; 49]].          (* new content "A1", temporary "a!" *)
Definition j2 : job := Job pao [97; 46; 111; 114; 105; 103; 33] true [[80; 49]].   (* new content "P1" *)

Theorem C14_backup_recoverable_without_disjointness_refuted :
  let f := exec (run_prog [j1; j2]) f0 in
  f0 (j_dst j2) = Some [80; 48] /\
  f (j_dst j2) <> Some [80; 48] /\ f (j_orig j2) <> Some [80; 48] /\
  (* the old content of the second input is gone: its backup holds the first file's old content *)
  f (j_orig j2) = Some [65; 48].
Proof. cbv zeta. repeat split; vm_compute; congruence. Qed.
Print Assumptions C14_backup_recoverable_without_disjointness_refuted.
