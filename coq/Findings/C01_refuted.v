(* C01, full statement refuted on the faithful model (findings D-44, D-1c, D-47): the first word of a
   wrap_paragraph_lines call is never escaped, so a word that opens a block only when it stands alone
   on its line (a thematic break) can end up alone on line 0 when the next word does not fit. *)
From Coq Require Import List NArith ZArith Bool.
Import ListNotations.
From Base Require Import PyStr.
From Model Require Import Wrap BlockStart.
From Proofs Require Import PyStrFacts.

Theorem C01_first_line_head_refuted :
  exists ws width c0 c1 h,
    Forall nows ws /\ (1 < length ws)%nat /\
    nth_error (wrap_words escape_word ws width c0 c1 true) 0 = Some [h] /\
    opens_block_word h = true.
Proof.
  exists [[95; 95; 95]; [97]]%N, 1%Z, 0%Z, 0%Z, [95; 95; 95]%N.
  split; [repeat constructor|]. split; [cbn; auto|]. split; vm_compute; reflexivity.
Qed.
Print Assumptions C01_first_line_head_refuted.
