(* C15/C16: control flow of reformat_files / reformat_file (reformat_api.py), the error
   mapping of cli.main, config merging (config.merge_cli_with_config) and the upward config
   search (config.find_config_file).  The formatter itself (reformat_text) and the reading of
   files are Section variables.  Definitions only. *)
From Coq Require Import List ZArith Bool String.
Import ListNotations.
From Base Require Import PyStr CliTypes.
From Gen Require Import Wiring.
Local Open Scope list_scope.
Local Open Scope string_scope.

Definition dash : str := [45%N].

Inductive action :=
| AWriteStdout (bytes : str)
| AAtomicWrite (p : str) (bytes : str) (backup : bool).

Inductive outcome := Done | ErrValue | ErrOther.   (* exit codes 0 / 1 / 2 of cli.main *)

Definition is_dash (s : str) : bool := str_eqb s dash.
Definition nonempty_output (o : option str) : option str :=
  match o with Some [] => None | x => x end.      (* `not output` *)

Section Flow.
  Variable fmt : fo -> str -> str.          (* reformat_text with the options reaching it *)
  Variable read : str -> option str.        (* Path(p).read_text(); None = raises *)
  Variable stdin : str.

  (* what reformat_text finally hands to fill_markdown / fill_text *)
  Definition text_level (o : fo) : fo :=
    if f_plaintext o then w_text_plain o else w_text_markdown o.

  Definition reformat_file (path : str) (output : option str) (o : fo) : list action * outcome :=
    let read_stdin := is_dash path in
    let output := nonempty_output output in
    let write_stdout := match output with Some p => is_dash p | None => true end in
    if f_inplace o && read_stdin then ([], ErrValue)
    else
      match (if read_stdin then Some stdin else read path) with
      | None => ([], ErrOther)
      | Some text =>
          let result := fmt (text_level (w_file_text o)) text in
          if f_inplace o then ([AAtomicWrite path result (negb (f_nobackup o))], Done)
          else if write_stdout then ([AWriteStdout result], Done)
          else match output with
               | Some p => ([AAtomicWrite p result false], Done)
               | None => ([AWriteStdout result], Done)
               end
      end.

  Fixpoint files_loop (files : list str) (o : fo) : list action * outcome :=
    match files with
    | [] => ([], Done)
    | f :: rest =>
        let out := if f_inplace o then None else Some dash in
        match reformat_file f out (w_files_file_loop o) with
        | (acts, Done) => let '(acts', oc) := files_loop rest o in (app acts acts', oc)
        | (acts, e) => (acts, e)
        end
    end.

  Definition multi_files (files : list str) (output : option str) (o : fo) : list action * outcome :=
    if f_inplace o && existsb is_dash files then ([], ErrValue)
    else
      match nonempty_output output with
      | Some p => if negb (f_inplace o) && negb (is_dash p) then ([], ErrValue) else files_loop files o
      | None => files_loop files o
      end.

  Definition reformat_files (files : list str) (output : option str) (o : fo) : list action * outcome :=
    match files with
    | [f] => if is_dash f then reformat_file f output (w_files_file_stdin o) else multi_files files output o
    | _ => multi_files files output o
    end.

  (* cli.main after parsing/merging/resolution *)
  Definition main_run (files : list str) (output : option str) (o : fo) : list action * outcome :=
    reformat_files files output (w_main_files o).
End Flow.

(* ---- config merge: generic over the set of fields ---- *)
Section Merge.
  Variable V : Type.                              (* values *)
  Definition settings := string -> option V.      (* None = attribute does not exist / not set *)

  Definition mem (x : string) (l : list string) : bool := existsb (String.eqb x) l.

  Definition set_field (n : string) (v : V) (s : settings) : settings :=
    fun m => if String.eqb m n then Some v else s m.

  (* for cfg_field in fields(FlowmarkConfig): ... *)
  Fixpoint merge_fields (fields : list string) (cli cfg : settings) (is_auto : bool)
    (explicit locked : list string) : settings :=
    match fields with
    | [] => cli
    | n :: rest =>
        let cli' :=
          match cfg n with
          | None => cli
          | Some v =>
              if mem n explicit then cli
              else if is_auto && mem n locked then cli
              else match cli n with Some _ => set_field n v cli | None => cli end  (* hasattr *)
          end in
        merge_fields rest cli' cfg is_auto explicit locked
    end.
End Merge.

(* ---- find_config_file: directories from cwd upward; per directory the candidates in order ---- *)
Inductive cfile := CAbsent | CPlain | CPyprojectWithSection | CPyprojectWithoutSection.

(* [dirs] = the listing of each directory from the start upward: for each candidate filename
   (in config_filenames order) what is there *)
Definition has_section (st : cfile) : bool :=
  match st with CPyprojectWithSection => true | _ => false end.
Definition is_file (st : cfile) : bool := match st with CAbsent => false | _ => true end.

Fixpoint first_in_dir (cands : list (string * cfile)) : option string :=
  match cands with
  | [] => None
  | (name, st) :: rest =>
      if is_file st then
        if String.eqb name "pyproject.toml" then
          (if has_section st then Some name else first_in_dir rest)
        else Some name
      else first_in_dir rest
  end.

Fixpoint find_config (dirs : list (list (string * cfile))) (depth : nat) : option (nat * string) :=
  match dirs with
  | [] => None
  | d :: up =>
      match first_in_dir d with
      | Some n => Some (depth, n)
      | None => find_config up (S depth)
      end
  end.
