(* The head of fill_markdown (dedent, strip, tag-block preprocessing), the document transforms
   and the renderer put together.  Marko's parser is the Section variable PARSE. *)
From Coq Require Import List NArith ZArith Bool Arith.
Import ListNotations.
From Base Require Import PyStr CliTypes Regex.
From Gen Require Import Consts.
From Model Require Import Ast Tags Typography Transforms Render LineWrap Frontmatter.
Local Open Scope Z_scope.

(* ---- textwrap.dedent (CPython 3.12) ---- *)
Definition is_sptab (c : N) : bool := N.eqb c 32 || N.eqb c 9.
Fixpoint take_while (p : N -> bool) (s : str) : str :=
  match s with c :: s' => if p c then c :: take_while p s' else [] | [] => [] end.
Fixpoint drop_while (p : N -> bool) (s : str) : str :=
  match s with c :: s' => if p c then drop_while p s' else s | [] => [] end.

Definition ws_only_line (l : str) : bool := negb (is_nil l) && forallb is_sptab l.

Fixpoint common_prefix (a b : str) : str :=
  match a, b with
  | x :: a', y :: b' => if N.eqb x y then x :: common_prefix a' b' else []
  | _, _ => []
  end.

Definition margin_step (margin : option str) (indent : str) : option str :=
  match margin with
  | None => Some indent
  | Some m =>
      if startswith indent m then Some m
      else if startswith m indent then Some indent
      else Some (common_prefix m indent)
  end.

Definition dedent (text : str) : str :=
  let lines := map (fun l => if ws_only_line l then [] else l) (split_on nl text) in
  let indents := concat (map (fun l => match drop_while is_sptab l with [] => [] | _ => [take_while is_sptab l] end) lines) in
  match fold_left margin_step indents None with
  | Some (c :: m) =>
      let mg := c :: m in
      join [nl] (map (fun l => match drop_prefix mg l with Some r => r | None => l end) lines)
  | _ => join [nl] lines
  end.

(* _LEADING_BLANK_LINES_RE.sub("", text): re.sub(r"\A(?:[^\S\n]*\n)+", "", text) - whitespace-only lines at the start go,
   the indentation of the first line with content stays ([line_start] is the text from the start of the current line) *)
Fixpoint dlb (s : str) (line_start : str) : str :=
  match s with
  | [] => line_start
  | c :: r => if N.eqb c 10 then dlb r r
              else if is_space c then dlb r line_start
              else line_start
  end.
Definition drop_leading_blank_lines (s : str) : str := dlb s s.

Definition prepare_body (text : str) : str :=
  preprocess_tag_block_spacing (rstrip (drop_leading_blank_lines (dedent text)) ++ [nl]).

(* ---- transforms + render ---- *)
Record mdopts := MdOpts {
  o_width : Z; o_semantic : bool; o_cleanups : bool; o_smartquotes : bool; o_ellipses : bool;
  o_spacing : lsp
}.

Definition transform_doc (o : mdopts) (bs : list blk) : M (list blk) :=
  let bs := if o_cleanups o then doc_cleanups bs else bs in
  bs <- (if o_smartquotes o then rewrite_text_across_inlines smart_quotes bs else ret bs) ;;
  (if o_ellipses o then rewrite_text_content ellipses true bs else ret bs).

Definition md_wrapper (o : mdopts) : wrapper :=
  if o_semantic o then line_wrap_by_sentence (o_width o) default_min_line_len true
  else line_wrap_to_width (o_width o) true.

Definition render_parsed (o : mdopts) (d : doc) : M str :=
  bs <- transform_doc o (d_blocks d) ;;
  render_doc (md_wrapper o) (o_spacing o) (d_refdefs d) bs.

Section Fill.
  Variable PARSE : str -> doc.       (* Marko, as configured by flowmark_markdown() *)

  Definition fill_body (o : mdopts) (text : str) : M str :=
    render_parsed o (PARSE (prepare_body text)).

  (* fill_markdown: frontmatter handling (same decisions as Frontmatter.fill_markdown_fm) around the body *)
  Definition fill_markdown (o : mdopts) (text : str) : M str :=
    let '(fm, content) := split_frontmatter text in
    match fm with
    | [] => fill_body o text
    | _ =>
        if is_nil content && Nat.ltb (count_delims fm) 2 then
          ret (if endswith fm [nl] then fm else fm ++ [nl])
        else b <- fill_body o content ;; ret (fm ++ b)
    end.
End Fill.

(* the text handed to the parser by fill_markdown (None when the parser is not reached) *)
Definition parser_input (text : str) : option str :=
  let '(fm, content) := split_frontmatter text in
  match fm with
  | [] => Some (prepare_body text)
  | _ => if is_nil content && Nat.ltb (count_delims fm) 2 then None else Some (prepare_body content)
  end.
