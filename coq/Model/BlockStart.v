(* Specification (not a model of flowmark code): which words open a block when they stand at the
   start of a line, after CommonMark 0.31 sections 4.1-4.5, 5.1-5.2 (thematic breaks, ATX headings,
   setext underlines, fenced code, block quotes, list items).  Used by the C01 theorems in
   Proofs/EscapeProofs.v and validated against the Marko parser by harness/c01.py.
   Definitions only. *)
From Coq Require Import List NArith Bool Arith.
Import ListNotations.
From Base Require Import PyStr.
From Model Require Import Wrap.
Local Open Scope N_scope.

Definition all_ch (c : N) (w : str) : bool := forallb (N.eqb c) w.

(* digits followed by . or ) : an ordered list marker (CommonMark allows at most 9 digits; the
   specification here is wider, which only strengthens the theorem) *)
Definition ordered_marker (w : str) : bool :=
  match rev w with
  | c :: ds => is_dot_paren c && negb (is_nil ds) && forallb is_ascii_digit ds
  | [] => false
  end.

(* the first word of a line opens a block (possibly depending on what follows on the line) *)
Definition opens_block_word (w : str) : bool :=
  match w with
  | [] => false
  | c :: _ =>
      str_eqb w [45] || str_eqb w [43] || str_eqb w [42]       (* bullet list marker - + * *)
      || ordered_marker w                                       (* 1. 1) *)
      || all_ch 35 w                                            (* ATX heading: a run of # *)
      || (c =? 62)                                              (* block quote *)
      || (Nat.leb 3 (run_len 96 w) && negb (existsb (N.eqb 96) (skipn (run_len 96 w) w)))
                                                                (* backtick fence: no backtick in the info string *)
      || startswith w [126; 126; 126]                           (* tilde fence *)
      || all_ch 45 w || all_ch 61 w                             (* setext underline, thematic break --- *)
      || all_ch 42 w || all_ch 95 w                             (* thematic break *** ___ (also spaced out) *)
  end.

