(* Model of transforms/doc_transforms.py and doc_cleanups.py on the AST of Model/Ast.v.
   transform_tree visits a node, and descends only into the listed container kinds:
   Document, Quote (and its subclass Alert), List, ListItem, Paragraph, Heading,
   SetextHeading, Emphasis, StrongEmphasis, Link, FootnoteDef, Table/Row/Cell, Strikethrough.
   Definitions only. *)
From Coq Require Import List NArith ZArith Bool Arith.
Import ListNotations.
From Base Require Import PyStr CliTypes.
From Model Require Import Ast.

Definition ik_container (k : ikind) : bool :=
  match k with KEmph | KStrong | KStrike | KLink _ _ => true | _ => false end.

(* ---- coalesce_raw_text_nodes ---- *)
Fixpoint absorb (s : str) (l : list inl) : str * list inl :=
  match l with
  | IBreak true :: IRaw t :: r => absorb (s ++ [nl] ++ t) r
  | _ => (s, l)
  end.

Fixpoint coalesce_fuel (n : nat) (l : list inl) : list inl :=
  match n with
  | O => l
  | S n' =>
      match l with
      | [] => []
      | IRaw s :: rest => let '(s', rest') := absorb s rest in IRaw s' :: coalesce_fuel n' rest'
      | x :: rest => x :: coalesce_fuel n' rest
      end
  end.
Definition coalesce_list (l : list inl) : list inl := coalesce_fuel (length l) l.

Fixpoint co_inl (e : inl) : inl :=
  match e with
  | INode k c =>
      if ik_container k then INode k (coalesce_list (map co_inl c))
      else INode k (coalesce_list c)            (* visited, children not traversed *)
  | x => x
  end.
Definition co_inls (l : list inl) : list inl := coalesce_list (map co_inl l).

(* a scope's children when the scope node itself is a container (Paragraph, Heading, TableCell) *)
Definition co_leaf (l : leaf) : leaf :=
  match l with
  | LPara ch c => LPara ch (co_inls c)
  | LHeading sx lv c => LHeading sx lv (co_inls c)      (* Heading and SetextHeading alike *)
  | LTable d rows => LTable d (map (map co_inls) rows)
  | x => x
  end.

Fixpoint map_blk (f : leaf -> leaf) (b : blk) : blk :=
  match b with
  | BLeaf l => BLeaf (f l)
  | BNode k c => BNode k (map (map_blk f) c)
  end.
Definition coalesce_doc (bs : list blk) : list blk := map (map_blk co_leaf) bs.

(* ---- rewrite_text_content: apply f to every RawText reached through containers ---- *)
Section Content.
  Variable f : str -> M str.

  Fixpoint rc_inl (e : inl) : M inl :=
    match e with
    | IRaw s => t <- f s ;; ret (IRaw t)
    | INode k c =>
        if ik_container k then
          c' <- (fix go (l : list inl) : M (list inl) :=
                   match l with [] => ret [] | x :: r => a <- rc_inl x ;; b <- go r ;; ret (a :: b) end) c ;;
          ret (INode k c')
        else ret e
    | x => ret x
    end.
  Definition rc_inls (l : list inl) : M (list inl) := mapM rc_inl l.

  Definition rc_leaf (l : leaf) : M leaf :=
    match l with
    | LPara ch c => c' <- rc_inls c ;; ret (LPara ch c')
    | LHeading sx lv c => c' <- rc_inls c ;; ret (LHeading sx lv c')
    | LTable d rows => rows' <- mapM (mapM rc_inls) rows ;; ret (LTable d rows')
    | x => ret x
    end.
End Content.

Fixpoint mapM_blk (f : leaf -> M leaf) (b : blk) : M blk :=
  match b with
  | BLeaf l => l' <- f l ;; ret (BLeaf l')
  | BNode k c =>
      c' <- (fix go (l : list blk) : M (list blk) :=
               match l with [] => ret [] | x :: r => a <- mapM_blk f x ;; b <- go r ;; ret (a :: b) end) c ;;
      ret (BNode k c')
  end.

Definition rewrite_text_content (f : str -> M str) (coalesce : bool) (bs : list blk) : M (list blk) :=
  let bs := if coalesce then coalesce_doc bs else bs in
  mapM (mapM_blk (rc_leaf f)) bs.

(* ---- rewrite_text_across_inlines ---- *)
(* segments of an inline scope: (text, mutable?) *)
Fixpoint segs_inl (e : inl) : list (str * bool) :=
  match e with
  | IRaw s => [(s, true)]
  | ICode s => [(s, false)]
  | IBreak _ => [([nl], false)]
  | ILit s => [(s, false)]
  | IHtml s => [(s, false)]
  | IFootRef _ => []
  | INode (KAuto _) c | INode (KUrl _) c =>     (* autolinks: their text is the URL, context only *)
      map (fun e => match e with IRaw s => (s, false) | _ => ([], false) end) (filter (fun e => match e with IRaw _ => true | _ => false end) c)
  | INode _ c => concat (map segs_inl c)      (* any other element with list children is recursed into *)
  end.
Definition segs_inls (l : list inl) : list (str * bool) := concat (map segs_inl l).

(* write back: consume the converted text in document order *)
Fixpoint wb_inl (e : inl) (conv : str) : inl * str :=
  match e with
  | IRaw s => (IRaw (firstn (length s) conv), skipn (length s) conv)
  | ICode s => (e, skipn (length s) conv)
  | IBreak _ => (e, skipn 1 conv)
  | ILit s => (e, skipn (length s) conv)
  | IHtml s => (e, skipn (length s) conv)
  | IFootRef _ => (e, conv)
  | INode (KAuto _) c | INode (KUrl _) c =>
      (e, skipn (length (concat (map (fun x => match x with IRaw s => s | _ => [] end) c))) conv)
  | INode k c =>
      let '(c', rest) :=
        (fix go (l : list inl) (conv : str) : list inl * str :=
           match l with
           | [] => ([], conv)
           | x :: r => let '(a, c1) := wb_inl x conv in let '(b, c2) := go r c1 in (a :: b, c2)
           end) c conv in
      (INode k c', rest)
  end.
Fixpoint wb_inls (l : list inl) (conv : str) : list inl * str :=
  match l with
  | [] => ([], conv)
  | x :: r => let '(a, c1) := wb_inl x conv in let '(b, c2) := wb_inls r c1 in (a :: b, c2)
  end.

Section Across.
  Variable f : str -> M str.

  Definition across_scope (c : list inl) : M (list inl) :=
    let composite := concat (map fst (segs_inls c)) in
    match segs_inls c, composite with
    | [], _ => ret c
    | _, [] => ret c
    | _, _ =>
        conv <- f composite ;;
        if Nat.eqb (length conv) (length composite) then ret (fst (wb_inls c conv))
        else throw AssertionError
    end.

  Definition across_leaf (l : leaf) : M leaf :=
    match l with
    | LPara ch c => c' <- across_scope c ;; ret (LPara ch c')
    | LHeading sx lv c => c' <- across_scope c ;; ret (LHeading sx lv c')
    | LTable d rows => rows' <- mapM (mapM across_scope) rows ;; ret (LTable d rows')
    | x => ret x
    end.
End Across.

Definition rewrite_text_across_inlines (f : str -> M str) (bs : list blk) : M (list blk) :=
  mapM (mapM_blk (across_leaf f)) (coalesce_doc bs).

(* ---- doc_cleanups: unbold headings ---- *)
(* the while loop of the cleanup: bold inside bold inside ... is unwrapped completely.
   [e] is a StrongEmphasis node; the result is the content of the innermost sole-child one *)
Fixpoint unwrap_strong (e : inl) : list inl :=
  match e with
  | INode KStrong [INode KStrong _ as x] => unwrap_strong x
  | INode KStrong cs => cs
  | _ => [e]
  end.

(* first rule: bold around the whole content goes (every directly nested level) *)
Definition unbold_outer (c : list inl) : list inl :=
  match c with
  | [INode KStrong _ as e] => unwrap_strong e
  | _ => c
  end.
(* second rule, applied to what the first leaves: italics around the whole content whose own whole content
   is bold keeps the italics only *)
Definition unbold_inner (c : list inl) : list inl :=
  match c with
  | [INode KEmph [INode KStrong _ as e]] => [INode KEmph (unwrap_strong e)]
  | _ => c
  end.
Definition unbold_leaf (l : leaf) : leaf :=
  match l with
  | LHeading sx lv c => LHeading sx lv (unbold_inner (unbold_outer c))
  | x => x
  end.
Definition doc_cleanups (bs : list blk) : list blk := map (map_blk unbold_leaf) bs.
