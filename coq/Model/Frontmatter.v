(* Model of flowmark/formats/frontmatter.py and of the head/tail of fill_markdown that
   deals with frontmatter.  Everything after the split (dedent, strip, preprocessing,
   parser, transforms, renderer) is the abstract function BODY : options -> str -> str,
   so the theorems hold for every parser and renderer. *)
From Coq Require Import List NArith ZArith Bool.
Import ListNotations.
From Base Require Import PyStr.

Definition dashes : str := [45; 45; 45]%N.
Definition is_delim (l : str) : bool := str_eqb (strip l) dashes.

(* text.replace("\r\n", "\n").split("\n"), minus one trailing empty line *)
Fixpoint crlf_to_lf (s : str) : str :=
  match s with
  | 13%N :: 10%N :: r => 10%N :: crlf_to_lf r
  | c :: r => c :: crlf_to_lf r
  | [] => []
  end.
Definition pop_last_empty (ls : list str) : list str :=
  match rev ls with
  | [] :: r => rev r
  | _ => ls
  end.
Definition fm_lines (text : str) : list str := pop_last_empty (split_on nl (crlf_to_lf text)).

Fixpoint skip_blank (lines : list str) : list str :=
  match lines with
  | l :: r => if is_nil (strip l) then skip_blank r else lines
  | [] => []
  end.

(* lines after the opening delimiter: find the closing one *)
Fixpoint find_close (lines : list str) (acc_rev : list str) : option (list str * list str) :=
  match lines with
  | [] => None
  | l :: r => if is_delim l then Some (rev (l :: acc_rev), r) else find_close r (l :: acc_rev)
  end.

Definition split_frontmatter (text : str) : str * str :=
  match skip_blank (fm_lines text) with
  | [] => ([], text)
  | l0 :: rest =>
      if is_delim l0 then
        match find_close rest [] with
        | Some (fm_rest, content_lines) => (join [nl] (l0 :: fm_rest) ++ [nl], join [nl] content_lines)
        | None => (text, [])
        end
      else ([], text)
  end.

Definition count_delims (fm : str) : nat := length (filter is_delim (split_on nl fm)).

Section Fill.
  Variable O : Type.                 (* option sets *)
  Variable BODY : O -> str -> str.   (* dedent/strip/preprocess/parse/transform/render *)

  Definition fill_markdown_fm (o : O) (text : str) : str :=
    let '(fm, content) := split_frontmatter text in
    match fm with
    | [] => BODY o text
    | _ =>
        if is_nil content && Nat.ltb (count_delims fm) 2 then
          (if endswith fm [nl] then fm else fm ++ [nl])
        else fm ++ BODY o content
    end.
End Fill.
