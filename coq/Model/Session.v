(* C13: what can outlive one formatting call.  The inventory (Gen/Inventory.v) is regenerated
   from the source; [classify] says for each item why it cannot carry information from one
   call to another.  The process is then a machine whose only shared state is a set of
   init-once cells. *)
From Coq Require Import List String Bool.
Import ListNotations.
From Gen Require Import Inventory.
Local Open Scope string_scope.

Inductive safety :=
| Immutable          (* constant, compiled pattern, function, enum, frozen dataclass *)
| ConstByConvention  (* mutable container that no code in the package writes *)
| InitOnce           (* memoised factory of a stateless object *)
| ClosureLocal       (* nonlocal counter of a closure created per call *)
| PureClosure.       (* module-level closure built by a pure factory (default line wrappers) *)

Definition classify (it : string * string * string) : option safety :=
  let '(modname, name, kind) := it in
  if String.eqb kind "mod-immutable" then Some Immutable
  else if String.eqb kind "class-attr" then Some Immutable
  else if String.eqb kind "mod-mutable" then Some ConstByConvention
  else if String.eqb kind "nonlocal" then Some ClosureLocal
  else if String.eqb kind "cache" then
    (if String.eqb modname "flowmark.linewrapping.text_wrapping" && String.eqb name "get_html_md_word_splitter"
     then Some InitOnce else None)
  else if String.eqb kind "mod-object:line_wrap_to_width" || String.eqb kind "mod-object:line_wrap_by_sentence"
  then Some PureClosure
  else None.   (* anything else -- a written module-level container, a global, an unknown cache or object -- is not covered *)

Definition inventory_covered : bool := forallb (fun it => match classify it with Some _ => true | None => false end) inventory.

(* ---- the machine ----
   Cells: K (memo cells), each initialised on first use with the call-independent value
   [init k].  A call is a list of cell reads followed by a result computed from the values
   it read and its own input; calls have no other access to shared state. *)
Section Machine.
  Variables (K V In Out : Type).
  Variable K_eqb : K -> K -> bool.
  Variable init : K -> V.

  Definition session := K -> option V.
  Definition empty : session := fun _ => None.

  Definition read (s : session) (k : K) : session * V :=
    match s k with
    | Some v => (s, v)
    | None => (fun k' => if K_eqb k' k then Some (init k) else s k', init k)
    end.

  (* a call in progress: its input, the cells still to read, the values read so far *)
  Record thread := T { t_in : In; t_todo : list K; t_seen : list V }.

  Variable result : In -> list V -> Out.
  Variable prog : In -> list K.

  Definition start (i : In) : thread := T i (prog i) [].
  Definition tstep (s : session) (t : thread) : session * thread :=
    match t_todo t with
    | [] => (s, t)
    | k :: rest => let '(s', v) := read s k in (s', T (t_in t) rest (t_seen t ++ [v]))
    end.
  Definition finished (t : thread) : bool := match t_todo t with [] => true | _ => false end.
  Definition output (t : thread) : Out := result (t_in t) (t_seen t).

  (* running alone from a fresh process *)
  Definition pure_call (i : In) : Out := result i (map init (prog i)).

  (* a schedule picks which thread steps next *)
  Fixpoint set_nth {A} (n : nat) (x : A) (l : list A) : list A :=
    match n, l with
    | O, _ :: r => x :: r
    | S n', h :: r => h :: set_nth n' x r
    | _, [] => []
    end.

  Fixpoint run (sched : list nat) (s : session) (ts : list thread) : session * list thread :=
    match sched with
    | [] => (s, ts)
    | i :: rest =>
        match nth_error ts i with
        | Some t => let '(s', t') := tstep s t in run rest s' (set_nth i t' ts)
        | None => run rest s ts
        end
    end.
End Machine.
