(* Model of MarkdownNormalizer (formats/flowmark_markdown.py): the renderer with its mutable
   fields as an explicit state record threaded through every render_* method.
   Definitions only. *)
From Coq Require Import List NArith ZArith Bool Arith.
Import ListNotations.
From Base Require Import PyStr CliTypes Regex.
From Gen Require Import Regexes.
From Model Require Import Ast Tags.
Local Open Scope Z_scope.

Record rst := RS {
  r_prefix : str;          (* _prefix *)
  r_prefix2 : str;         (* _second_prefix *)
  r_suppress : bool;       (* _suppress_item_break *)
  r_skip : bool;           (* _skip_next_blank_line *)
  r_cur : str;             (* _current_inline_text *)
  r_tight : bool           (* _current_list_tight *)
}.

Definition init_rst : rst := RS [] [] true false [] false.

Definition set_prefix p st := RS p (r_prefix2 st) (r_suppress st) (r_skip st) (r_cur st) (r_tight st).
Definition set_prefixes p p2 st := RS p p2 (r_suppress st) (r_skip st) (r_cur st) (r_tight st).
Definition set_suppress b st := RS (r_prefix st) (r_prefix2 st) b (r_skip st) (r_cur st) (r_tight st).
Definition set_skip b st := RS (r_prefix st) (r_prefix2 st) (r_suppress st) b (r_cur st) (r_tight st).
Definition set_cur c st := RS (r_prefix st) (r_prefix2 st) (r_suppress st) (r_skip st) c (r_tight st).
Definition set_tight b st := RS (r_prefix st) (r_prefix2 st) (r_suppress st) (r_skip st) (r_cur st) b.
Definition next_prefix st := set_prefix (r_prefix2 st) st.    (* self._prefix = self._second_prefix *)

Definition S_ (l : list N) : str := l.
Definition nlc : N := 10%N.
Definition bq : N := 96%N.       (* backtick *)
Definition dq : N := 34%N.

(* ---- small helpers ---- *)
Definition rstrip_nl (s : str) : str := rstrip_chars (N.eqb 10) s.

Definition strip_char (c : N) (s : str) : str := rstrip_chars (N.eqb c) (lstrip_chars (N.eqb c) s).

(* _escape_backslashes: re.sub(r"\\(?=[!-/:-@\[-`{-~]|\Z)", r"\\\\", text) - a backslash followed by ASCII
   punctuation, or the last character, is doubled *)
Definition is_ascii_punct (c : N) : bool :=
  (((33 <=? c) && (c <=? 47)) || ((58 <=? c) && (c <=? 64)) || ((91 <=? c) && (c <=? 96)) || ((123 <=? c) && (c <=? 126)))%N.
Fixpoint escape_backslashes (s : str) : str :=
  match s with
  | [] => []
  | c :: r =>
      if (c =? 92)%N && (match r with d :: _ => is_ascii_punct d | [] => true end)
      then 92%N :: 92%N :: escape_backslashes r
      else c :: escape_backslashes r
  end.

(* _escape_backslashes(text, delimiter_follows=False): a final backslash stays single (the language word of a fence) *)
Fixpoint escape_backslashes_inner (s : str) : str :=
  match s with
  | [] => []
  | c :: r =>
      if (c =? 92)%N && (match r with d :: _ => is_ascii_punct d | [] => false end)
      then 92%N :: 92%N :: escape_backslashes_inner r
      else c :: escape_backslashes_inner r
  end.

(* _normalize_title_quotes *)
Definition normalize_title_quotes (t : str) : str :=
  [dq] ++ str_replace [dq] [bsl; dq] (escape_backslashes t) ++ [dq].

(* re.sub(r"[ \t]+", " ", s): runs of spaces and tabs become one space *)
Fixpoint collapse_blanks_aux (s : str) (in_run : bool) : str :=
  match s with
  | [] => []
  | c :: r =>
      if N.eqb c 32 || N.eqb c 9 then (if in_run then collapse_blanks_aux r true else sp :: collapse_blanks_aux r true)
      else c :: collapse_blanks_aux r false
  end.
Definition collapse_blanks (s : str) : str := collapse_blanks_aux s false.

Definition truthy (o : option str) : bool := match o with Some (_ :: _) => true | _ => false end.

(* _link_destination: empty, containing whitespace or with unbalanced parentheses -> <...> *)
Fixpoint parens_scan (d : str) (depth : Z) (ok : bool) : Z * bool :=
  match d with
  | [] => (depth, ok)
  | c :: r =>
      if N.eqb c 40 then parens_scan r (depth + 1)%Z ok
      else if N.eqb c 41 then parens_scan r (depth - 1)%Z (ok && negb (Z.ltb (depth - 1) 0))
      else parens_scan r depth ok
  end.
Definition parens_balanced (d : str) : bool :=
  let '(depth, ok) := parens_scan d 0%Z true in Z.eqb depth 0 && ok.
Definition link_destination (d : str) : str :=
  let e := escape_backslashes d in
  if is_nil d || existsb is_space d || negb (parens_balanced d)
  then [60%N] ++ str_replace [62%N] [bsl; 62%N] (str_replace [60%N] [bsl; 60%N] e) ++ [62%N]
  else match e with 60%N :: _ => bsl :: e | _ => e end.

(* _autolink_text: the raw text children as written, else the parsed destination *)
Definition autolink_text (c : list inl) (dest : str) : str :=
  if forallb (fun e => match e with IRaw _ => true | _ => false end) c
  then concat (map (fun e => match e with IRaw s => s | _ => [] end) c)
  else dest.

(* longest run of character c in s *)
Fixpoint longest_run_aux (c : N) (s : str) (cur best : nat) : nat :=
  match s with
  | [] => Nat.max cur best
  | x :: s' => if N.eqb x c then longest_run_aux c s' (S cur) best else longest_run_aux c s' O (Nat.max cur best)
  end.
Definition longest_run (c : N) (s : str) : nat := longest_run_aux c s O O.


(* _min_fence_length: ^[ ]{0,3}(X{3,}) with MULTILINE over the content *)
Definition fence_run_at_line_start (fc : N) (line : str) : nat :=
  let sps := run_len 32 line in
  (* the regex takes up to 3 spaces greedily and then needs the fence character *)
  let try_ (k : nat) := run_len fc (skipn k line) in
  let n := Nat.min sps 3 in
  (* backtracking over the number of spaces cannot help: after k < sps spaces the next char is a space *)
  let r := try_ n in
  if Nat.leb 3 r then r else O.
Definition min_fence_length (content : str) (fc : N) : nat :=
  let m := fold_left (fun acc l => Nat.max acc (fence_run_at_line_start fc l)) (split_on nlc content) O in
  Nat.max 3 (S m).

Definition zstr (z : Z) : str :=
  match z with
  | Z0 => [48%N]
  | Zpos p => dec_of_N (Npos p)
  | Zneg p => 45%N :: dec_of_N (Npos p)
  end.

(* render_raw_text: re.sub(PANGU_RE, " ", text) *)
Definition pangu (s : str) : str := re_sub_t re_pangu (fun _ => [sp]) s.

(* render_code_span *)
Definition render_code_span (text : str) : str :=
  let delim := repeat bq (S (longest_run bq text)) in
  match text with
  | [] => delim ++ delim
  | c :: _ =>
      if N.eqb c bq || (match last_ch text with Some l => N.eqb l bq | None => false end)
      then delim ++ [sp] ++ text ++ [sp] ++ delim
      else delim ++ text ++ delim
  end.

(* render_literal *)
Definition all_digits (s : str) : bool := negb (is_nil s) && forallb is_pydigit s.
Definition render_literal (in_heading : bool) (ch : str) (cur : str) : str * str :=
  if negb (str_eqb ch [46%N]) then ([bsl] ++ ch, cur ++ [bsl] ++ ch)
  else if in_heading then (ch, cur ++ ch)
  else
    let stripped := lstrip cur in
    if negb (is_nil stripped) && all_digits stripped then ([bsl] ++ ch, cur ++ [bsl] ++ ch)
    else (ch, cur ++ ch).

Section Render.
  Variable wrapper : str -> str -> str -> M str.
  Variable spacing : lsp.
  Variable refdefs : list (str * (str * option str)).

  Definition opt_str_eqb (a b : option str) : bool :=
    match a, b with Some x, Some y => str_eqb x y | None, None => true | _, _ => false end.

  Definition find_label (dest : str) (title : option str) : option str :=
    match find (fun kv => str_eqb (fst (snd kv)) dest && opt_str_eqb (snd (snd kv)) title) refdefs with
    | Some kv => Some (fst kv)
    | None => None
    end.

  (* inline rendering threads only _current_inline_text; _in_heading is a parameter *)
  Fixpoint render_inl (h : bool) (e : inl) (cur : str) {struct e} : str * str :=
    match e with
    | IRaw s => let t := pangu s in (t, cur ++ t)
    | ICode s => (render_code_span s, cur)
    | IBreak soft => if soft then ([nlc], cur ++ [nlc]) else ([bsl; nlc], [])
    | ILit c => render_literal h c cur
    | IHtml s => (s, cur)
    | IFootRef l => ([91; 94]%N ++ l ++ [93%N], cur)
    | INode k c =>
        let kids :=
          (fix kids (l : list inl) (cur : str) : str * str :=
             match l with
             | [] => ([], cur)
             | x :: r => let '(a, c1) := render_inl h x cur in
                         let '(b, c2) := kids r c1 in (a ++ b, c2)
             end) in
        match k with
        | KEmph => let '(t, c') := kids c cur in ([42%N] ++ t ++ [42%N], c')
        | KStrong => let '(t, c') := kids c cur in ([42; 42]%N ++ t ++ [42; 42]%N, c')
        | KStrike => let '(t, c') := kids c cur in ([126; 126]%N ++ t ++ [126; 126]%N, c')
        | KLink dest title =>
            let '(t, c') := kids c cur in
            let link_title := if truthy title then Some (normalize_title_quotes (match title with Some x => x | None => [] end)) else None in
            match find_label dest link_title with
            | Some label =>
                if str_eqb label (strip (collapse_ws t)) then ([91%N] ++ label ++ [93%N], c')
                else ([91%N] ++ t ++ [93; 91]%N ++ label ++ [93%N], c')
            | None =>
                let tt := match link_title with Some x => [sp] ++ x | None => [] end in
                ([91%N] ++ t ++ [93; 40]%N ++ link_destination dest ++ tt ++ [41%N], c')
            end
        | KImage dest title =>
            let '(t, c') := kids c cur in
            let tt := if truthy title then [sp] ++ normalize_title_quotes (match title with Some x => x | None => [] end) else [] in
            ([33; 91]%N ++ t ++ [93; 40]%N ++ link_destination dest ++ tt ++ [41%N], c')
        | KAuto dest => ([60%N] ++ autolink_text c dest ++ [62%N], cur)
        | KUrl dest => (autolink_text c dest, cur)
        end
    end.

  Fixpoint render_inls (h : bool) (l : list inl) (cur : str) : str * str :=
    match l with
    | [] => ([], cur)
    | x :: r => let '(a, c1) := render_inl h x cur in
                let '(b, c2) := render_inls h r c1 in (a ++ b, c2)
    end.

  (* re.sub(r"(?<!\\)\n", " ", s): newlines not preceded by a backslash become spaces *)
  Fixpoint join_soft_breaks (prev : option N) (s : str) : str :=
    match s with
    | [] => []
    | c :: s' =>
        (if N.eqb c 10 && negb (match prev with Some p => N.eqb p 92 | None => false end) then sp else c)
        :: join_soft_breaks (Some c) s'
    end.

  (* a run of # at the end of the heading text, alone or after a space or tab, gets a backslash
     (unless one is already there): re.search(r"(?:^|(?<=[ \t]))#+$") *)
  Definition escape_closing_hashes (t : str) : str :=
    let r := rev t in
    let n := run_len 35 r in
    let before := rev (skipn n r) in        (* the text before the final run of # *)
    match n with
    | O => t
    | _ =>
        let starts_ok := match rev before with
                         | [] => true
                         | c :: _ => N.eqb c 32 || N.eqb c 9
                         end in
        if starts_ok && negb (endswith before [bsl]) then before ++ [bsl] ++ repeat 35%N n else t
    end.

  (* ---- leaves ---- *)
  Definition hashes (n : nat) : str := repeat 35%N n.

  Definition render_code (lang extra : str) (fc : N) (flen : nat) (content : str) (st : rst) : str * rst :=
    let st := set_skip false st in
    let code := match rev content with 10%N :: r => rev r | _ => content end in     (* removesuffix: only the final newline *)
    let extra_text := match extra with [] => [] | _ => [sp] ++ extra end in
    let lang_text := match lang with [] => [] | _ => escape_backslashes_inner lang ++ extra_text end in
    let fence := repeat fc (Nat.max flen (min_fence_length code fc)) in
    let info_sep := match lang_text with c :: _ => if N.eqb c fc then [sp] else [] | [] => [] end in
    let first := r_prefix st ++ fence ++ info_sep ++ lang_text in
    let empty_pref := rstrip (r_prefix2 st) in
    let code_lines := match content with [] => [] | _ => split_on nlc code end in
    let body := map (fun l => match l with [] => empty_pref | _ => r_prefix2 st ++ l end) code_lines in
    let lines := first :: body ++ [r_prefix2 st ++ fence] in
    (join [nlc] lines ++ [nlc], set_suppress false (next_prefix st)).

  Definition delim_norm (d : str) : str :=
    let s := startswith d [58%N] in
    let e := endswith d [58%N] in
    if s && e then [58; 45; 45; 45; 58]%N
    else if s then [58; 45; 45; 45]%N
    else if e then [45; 45; 45; 58]%N
    else [45; 45; 45]%N.

  Definition bar_sep : str := [32; 124; 32]%N.        (* " | " *)

  Fixpoint render_cells (cells : list (list inl)) (cur : str) : list str * str :=
    match cells with
    | [] => ([], cur)
    | c :: r => let '(t, c1) := render_inls false c cur in
                let '(ts, c2) := render_cells r c1 in
                (str_replace [124%N] [bsl; 124%N] (strip_char sp (collapse_blanks t)) :: ts, c2)
    end.
  Definition render_row (cells : list (list inl)) (cur : str) : str * str :=
    let '(ts, c') := render_cells cells cur in
    ([124; 32]%N ++ join bar_sep ts ++ [32; 124; 10]%N, c').
  Fixpoint render_rows (rows : list (list (list inl))) (cur : str) : str * str :=
    match rows with
    | [] => ([], cur)
    | r :: rest => let '(t, c1) := render_row r cur in
                   let '(ts, c2) := render_rows rest c1 in (t ++ ts, c2)
    end.

  Definition render_leaf (l : leaf) (st : rst) : M (str * rst) :=
    match l with
    | LPara checked c =>
        let st := set_cur [] (set_suppress false (set_skip false st)) in
        let '(t, _) := render_inls false c [] in
        let children := match checked with
                        | Some b => [91%N] ++ (if b then [120%N] else [sp]) ++ [93; 32]%N ++ lstrip t
                        | None => t
                        end in
        w <- wrapper children (r_prefix st) (r_prefix2 st) ;;
        ret (w ++ [nlc], set_cur [] (next_prefix st))
    | LHeading _ level c =>
        let '(t0, _) := render_inls true c [] in
        let t := escape_closing_hashes (strip_char sp (collapse_blanks (join_soft_breaks None t0))) in
        let st := set_cur [] st in
        if endswith t [bsl] then
          ret (r_prefix st ++ hashes level ++ [sp] ++ t ++ [nlc], next_prefix st)
        else
          ret (r_prefix st ++ hashes level ++ [sp] ++ t ++ [nlc; nlc],
               set_suppress true (set_skip true (next_prefix st)))
    | LCode lang extra fc flen content => ret (render_code lang extra fc flen content st)
    | LThematic => ret (r_prefix st ++ [42; 32; 42; 32; 42; 10]%N, set_suppress false (set_skip false (next_prefix st)))
    | LBlank =>
        if r_skip st then ret ([], set_skip false st)
        else
          let out := match strip (r_prefix st) with [] => [nlc] | _ => r_prefix st ++ [nlc] end in
          ret (out, next_prefix (set_suppress true st))
    | LLinkRef label dest title =>
        let lt := dest ++ (if truthy title then [sp] ++ (match title with Some x => x | None => [] end) else []) in
        ret (r_prefix st ++ [91%N] ++ label ++ [93; 58; 32]%N ++ lt ++ [nlc], set_suppress true (next_prefix st))
    | LTable delims rows =>
        let st := set_suppress false (set_skip false st) in
        match rows with
        | [] => throw ValueError          (* head, *body = element.children *)
        | head :: body =>
            let '(h, c1) := render_row head (r_cur st) in
            let dl := [124; 32]%N ++ join bar_sep (map delim_norm delims) ++ [32; 124; 10]%N in
            let '(b, c2) := render_rows body c1 in
            let lines := removelast (split_on nlc (h ++ dl ++ b)) in
            let out := match lines with
                       | [] => []
                       | l0 :: rest => (r_prefix st ++ l0 ++ [nlc]) ++ concat (map (fun l => r_prefix2 st ++ l ++ [nlc]) rest)
                       end in
            ret (out, next_prefix (set_cur c2 st))
        end
    | LHtml body => ret (r_prefix st ++ body, next_prefix st)
    end.

  Definition spaces (n : nat) : str := repeat sp n.

  (* "\n".join(line if line else marker for line in result.split("\n")) *)
  Definition mark_empty_lines (marker : str) (s : str) : str :=
    join [nlc] (map (fun l => match l with [] => marker | _ => l end) (split_on nlc s)).

  (* ---- blocks ---- *)
  Fixpoint render_blk (b : blk) (st : rst) {struct b} : M (str * rst) :=
    match b with
    | BLeaf l => render_leaf l st
    | BNode k c =>
        let kids :=
          (fix kids (l : list blk) (st : rst) : M (str * rst) :=
             match l with
             | [] => ret ([], st)
             | x :: r => a <- render_blk x st ;; b <- kids r (snd a) ;; ret (fst a ++ fst b, snd b)
             end) in
        match k with
        | KList ordered bullet start tight =>
            let st := set_skip false st in
            let st := if str_eqb (r_prefix st) (r_prefix2 st) then st else set_suppress true st in
            let is_tight :=
              match spacing with
              | LPreserve => tight
              | LTight => forallb (fun it => match it with
                                             | BNode KItem cs => Nat.leb (length cs) 1
                                             | _ => true end) c
              | LLoose => false
              end in
            let old_tight := r_tight st in
            let st := set_tight is_tight st in
            r <- (fix items (l : list blk) (i : Z) (st : rst) : M (str * rst) :=
                    match l with
                    | [] => ret ([], st)
                    | child :: rest =>
                        let num := Z.min (i + start) 999999999 in       (* a list marker has at most nine digits *)
                        let pfx := if ordered then zstr num ++ [46; 32]%N else bullet ++ [sp] in
                        let sub := if ordered then spaces (length (zstr num) + 2) else [sp; sp] in
                        let p := r_prefix st in let p2 := r_prefix2 st in
                        a <- render_blk child (set_prefixes (p ++ pfx) (p2 ++ sub) st) ;;
                        b <- items rest (i + 1) (next_prefix (set_prefixes p p2 (snd a))) ;;
                        ret (fst a ++ fst b, snd b)
                    end) c 0 st ;;
            ret (fst r, next_prefix (set_tight old_tight (snd r)))
        | KItem =>
            let '(pre, st) :=
              if r_tight st then ([], st)
              else if r_suppress st then ([], set_suppress false st)
              else (rstrip (r_prefix2 st) ++ [nlc], st) in
            match c with
            | [] => ret (pre ++ rstrip (r_prefix st) ++ [nlc], next_prefix st)
            | _ => r <- kids c st ;; ret (pre ++ fst r, snd r)
            end
        | KQuote =>
            let st := set_suppress true (set_skip false st) in
            let p := r_prefix st in let p2 := r_prefix2 st in
            r <- kids c (set_prefixes (p ++ [62; 32]%N) (p2 ++ [62; 32]%N) st) ;;
            let st' := set_prefixes p p2 (snd r) in
            ret (mark_empty_lines (rstrip (r_prefix2 (snd r))) (rstrip_nl (fst r)) ++ [nlc],
                 set_suppress false (next_prefix (set_skip false st')))
        | KAlert atype =>
            let st := set_skip false st in
            let header := r_prefix st ++ [62; 32; 91; 33]%N ++ atype ++ [93; 10]%N in
            let st := set_suppress true (next_prefix st) in
            let p := r_prefix st in let p2 := r_prefix2 st in
            r <- kids c (set_prefixes (p ++ [62; 32]%N) (p2 ++ [62; 32]%N) st) ;;
            let st' := set_prefixes p p2 (snd r) in
            ret (header ++ mark_empty_lines (rstrip (r_prefix2 (snd r))) (rstrip_nl (fst r)) ++ [nlc],
                 set_suppress false (next_prefix (set_skip false st')))
        | KFootDef label =>
            let p := r_prefix st in let p2 := r_prefix2 st in
            r <- kids c (set_prefixes (p ++ [91; 94]%N ++ label ++ [93; 58; 32]%N) (p2 ++ spaces 4) st) ;;
            let st' := set_prefixes p p2 (snd r) in
            ret (rstrip_nl (fst r) ++ [nlc; nlc], set_suppress true (next_prefix st'))
        end
    end.

  Fixpoint render_blocks (l : list blk) (st : rst) : M (str * rst) :=
    match l with
    | [] => ret ([], st)
    | x :: r => a <- render_blk x st ;; b <- render_blocks r (snd a) ;; ret (fst a ++ fst b, snd b)
    end.

  Definition render_doc (blocks : list blk) : M str :=
    r <- render_blocks blocks init_rst ;; ret (fst r).
End Render.
