(* The Marko document tree as flowmark sees it (after its parser configuration): inline and
   block nodes with exactly the attributes the transforms and the renderer read. *)
From Coq Require Import List NArith ZArith Bool.
Import ListNotations.
From Base Require Import PyStr CliTypes.

Inductive ikind :=
| KEmph | KStrong | KStrike
| KLink (dest : str) (title : option str)
| KImage (dest : str) (title : option str)
| KAuto (dest : str)           (* AutoLink <dest>; children are its text, not rendered *)
| KUrl (dest : str).           (* GFM bare URL; a subclass of AutoLink *)

Inductive inl :=
| IRaw (s : str)               (* RawText *)
| ICode (s : str)              (* CodeSpan *)
| IBreak (soft : bool)         (* LineBreak *)
| ILit (s : str)               (* Literal: the escaped character *)
| IHtml (s : str)              (* InlineHTML *)
| IFootRef (label : str)
| INode (k : ikind) (c : list inl).

Inductive leaf :=
| LPara (checked : option bool) (c : list inl)
| LHeading (setext : bool) (level : nat) (c : list inl)
| LCode (lang extra : str) (fence_char : N) (fence_len : nat) (content : str)
| LThematic
| LBlank
| LLinkRef (label dest : str) (title : option str)
| LTable (delims : list str) (rows : list (list (list inl)))   (* rows of cells; head row first *)
| LHtml (body : str).

Inductive bkind :=
| KList (ordered : bool) (bullet : str) (start : Z) (tight : bool)
| KItem
| KQuote
| KAlert (atype : str)
| KFootDef (label : str).

Inductive blk :=
| BLeaf (l : leaf)
| BNode (k : bkind) (c : list blk).

Record doc := Doc {
  d_blocks : list blk;
  d_refdefs : list (str * (str * option str))     (* label -> (dest, title), insertion order *)
}.
