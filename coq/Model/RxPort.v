(* Engine validation port: run an inventory pattern (by index in Gen.Regexes.pattern_table)
   with finditer on a string and return spans and groups. *)
From Coq Require Import List NArith Bool Arith.
Import ListNotations.
From Base Require Import PyStr Regex.
From Gen Require Import Regexes.

Definition rx_finditer (i : nat) (s : str)
  : option (list (nat * nat * list (option (nat * str)))) :=
  match nth_error pattern_table i with
  | None => None
  | Some p =>
      match finditer p s with
      | None => None
      | Some (l, _) =>
          Some (map (fun gm => (m_start (snd gm), m_end (snd gm), tl (m_groups (snd gm)))) l)
      end
  end.
