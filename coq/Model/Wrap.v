(* Model of flowmark/linewrapping/text_wrapping.py:
   markdown_escape_word, wrap_paragraph_lines (greedy fill), and the boolean
   specification checker [chk_lines] used both in theorems and, extracted, on the
   implementation's outputs.  Definitions only. *)
From Coq Require Import List NArith ZArith Bool.
Import ListNotations.
From Base Require Import PyStr.
Local Open Scope Z_scope.

Definition word := str.
Definition wlen (w : word) : Z := len w.

(* ---- markdown_escape_word ----
   _md_numeral_pat  = ^[0-9]+[.)]$      _md_specials_pat = a run of one of - = * _, or a single +, or > followed by anything,
   or a run of #, or three or more backticks followed by no further backtick, or a word starting with three tildes (DOTALL)
   used with .match(); `$` also matches before one final "\n". *)
Definition is_dot_paren (c : N) : bool := (N.eqb c 46) || (N.eqb c 41).

Definition numeral_core (w : str) : bool :=
  match rev w with
  | c :: ds => is_dot_paren c && negb (is_nil ds) && forallb is_ascii_digit ds
  | [] => false
  end.
Definition is_rule_char (c : N) : bool :=
  (N.eqb c 45) || (N.eqb c 42) || (N.eqb c 43) || (N.eqb c 95) || (N.eqb c 61).   (* - * + _ = *)
Definition specials_core (w : str) : bool :=
  match w with
  | [] => false
  | c :: _ =>
      forallb (N.eqb 45) w || forallb (N.eqb 61) w || forallb (N.eqb 42) w || forallb (N.eqb 95) w   (* -+ =+ [*]+ _+ *)
      || str_eqb w [43%N]                             (* + *)
      || N.eqb c 62                                   (* >.* *)
      || forallb (N.eqb 35) w                         (* #+ *)
      || (Nat.leb 3 (run_len 96 w) && negb (existsb (N.eqb 96) (skipn (run_len 96 w) w)))   (* three or more backticks, then no further backtick *)
      || startswith w [126; 126; 126]%N               (* ~~~.* *)
  end.
(* `$`: end of string, or just before a final newline *)
Definition dollar (core : str -> bool) (w : str) : bool :=
  core w || match rev w with 10%N :: r => core (rev r) | _ => false end.

Definition escape_word (w : word) : word :=
  if dollar numeral_core w then
    match rev w with
    | c :: r => rev r ++ [bsl; c]
    | [] => w
    end
  else if dollar specials_core w then
    if forallb (fun c => N.eqb c 42 || N.eqb c 95) w then flat_map (fun c => [bsl; c]) w   (* a run of * or _: each character escaped *)
    else bsl :: w
  else w.

(* ---- the greedy fill loop of wrap_paragraph_lines, as a recursion over the words.
   [cur] = words on the line being filled, [col] = current_width, [first] = first_line.
   Returns lines as word lists. *)
Section Fill.
  Variable esc : word -> word.   (* markdown_escape_word *)
  Variables (width c1 : Z) (md : bool).

  Fixpoint fill (ws : list word) (cur : list word) (col : Z) (first : bool)
    : list (list word) :=
    match ws with
    | [] => match cur with [] => [] | _ => [cur] end
    | w :: ws' =>
        let sw := match cur with [] => 0 | _ => 1 end in
        if col + wlen w + sw <=? width then
          fill ws' (cur ++ [w]) (col + wlen w + sw) first
        else
          match cur with
          | [] =>
              let ew := if md && negb first then esc w else w in
              fill ws' [ew] (c1 + wlen ew) first
          | _ =>
              let ew := if md then esc w else w in
              cur :: fill ws' [ew] (c1 + wlen ew) false
          end
    end.
End Fill.

Definition wrap_words (esc : word -> word) (ws : list word) (width c0 c1 : Z) (md : bool) : list (list word) :=
  fill esc width c1 md ws [] c0 true.

Definition maybe (b : bool) (f : str -> str) (s : str) : str := if b then f s else s.

(* wrap_paragraph_lines(text, width, initial_column, subsequent_offset,
                        replace_whitespace, drop_whitespace, splitter, len, is_markdown) *)
Definition wrap_paragraph_lines (esc : word -> word) (splitter : str -> list word)
  (text : str) (width c0 c1 : Z) (rw dw md : bool) : list str :=
  let t := maybe rw collapse_ws text in
  if width <=? 0 then
    let t := maybe dw strip t in
    match t with [] => [] | _ => [t] end
  else
    map (fun l => maybe dw strip (join [sp] l)) (wrap_words esc (splitter t) width c0 c1 md).

(* ---- specification checker ---------------------------------------------------
   [chk_lines width c1 md first scol L ws] decides whether the list of lines [L]
   (word lists) is a correct greedy wrapping of the word sequence [ws] when the
   first line of [L] starts at column [scol] and is (first = true) / is not the
   first line of the paragraph:
     - each line is non-empty and its words are the next words of [ws], the head
       of every non-first line passed through escape_word when md;
     - the line fits (scol + printed length <= width) unless it is a single word;
     - the first word of the following line would not have fit on this line. *)
Definition llen (l : list word) : Z :=
  fold_right (fun w a => wlen w + a) 0 l + Z.of_nat (length l) - 1.

Definition esc_head (esc : word -> word) (md : bool) (l : list word) : list word :=
  match l with
  | h :: t => (if md then esc h else h) :: t
  | [] => []
  end.

Fixpoint chk_lines (esc : word -> word) (width c1 : Z) (md first : bool) (scol : Z)
  (L : list (list word)) (ws : list word) : bool :=
  match L with
  | [] => is_nil ws
  | l :: L' =>
      let n := length l in
      let orig := firstn n ws in
      let rest := skipn n ws in
      negb (is_nil l)
      && Nat.eqb (length orig) n
      && strs_eqb l (if first then orig else esc_head esc md orig)
      && ((scol + llen l <=? width) || Nat.eqb n 1)
      && match rest with
         | [] => true
         | h :: _ => width <? scol + llen l + 1 + wlen h
         end
      && chk_lines esc width c1 md false c1 L' rest
  end.

(* effective start column of line 0: the code accounts a first word that does not fit
   at c0 as if the line started at the continuation offset (finding D-11). *)
Definition scol0 (ws : list word) (width c0 c1 : Z) : Z :=
  match ws with
  | w :: _ => if c0 + wlen w <=? width then c0 else c1
  | [] => c0
  end.

Definition wrap_ok (esc : word -> word) (ws : list word) (width c0 c1 : Z) (md : bool) (L : list (list word)) : bool :=
  chk_lines esc width c1 md true (scol0 ws width c0 c1) L ws.

(* the width bound as the property words it: line 0 measured from the real column c0 *)
Definition wrap_ok_strict (esc : word -> word) (ws : list word) (width c0 c1 : Z) (md : bool) (L : list (list word)) : bool :=
  chk_lines esc width c1 md true c0 L ws.
