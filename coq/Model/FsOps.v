(* C14: a file-system model and the operation program of reformat_file / reformat_files
   (reformat_api.py + strif.atomic_output_file 3.1.0).  Definitions only.

   A run of the tool is a list of micro-operations.  An operation that raises, and a
   process that dies, both simply end the run after some prefix of that list; a write that
   stops part-way is the prefix of a finer chunking of the same bytes.  So "every crash
   point and every failing operation" = every prefix of every chunking. *)
From Coq Require Import List NArith Bool Arith.
Import ListNotations.
From Base Require Import PyStr.

Definition path := str.
Definition fs := path -> option str.        (* regular files only; None = absent *)

Definition upd (p : path) (v : option str) (f : fs) : fs :=
  fun q => if str_eqb q p then v else f q.

Inductive op :=
| Create (p : path)              (* open(p, O_WRONLY|O_CREAT|O_TRUNC) *)
| Append (p : path) (c : str)    (* one write(2) on the open file *)
| BackupMove (a b : path)        (* move_to_backup: rename a -> b if a exists, else nothing *)
| Rename (a b : path).           (* Path.replace: atomic rename(2) *)

Definition step (f : fs) (o : op) : fs :=
  match o with
  | Create p => upd p (Some []) f
  | Append p c => match f p with Some old => upd p (Some (old ++ c)) f | None => f end
  | BackupMove a b => match f a with Some v => upd b (Some v) (upd a None f) | None => f end
  | Rename a b => match f a with Some v => upd b (Some v) (upd a None f) | None => f end
  end.

Definition exec (ops : list op) (f : fs) : fs := fold_left step ops f.

Definition orig_suffix : str := [46; 111; 114; 105; 103]%N.   (* ".orig" *)

(* one target: write the new content to a temporary sibling in chunks, optionally move
   the old file to the backup name, rename the temporary over the target *)
Record job := Job { j_dst : path; j_tmp : path; j_backup : bool; j_chunks : list str }.

Definition j_orig (j : job) : path := j_dst j ++ orig_suffix.
Definition j_new (j : job) : str := concat (j_chunks j).

Definition job_prog (j : job) : list op :=
  Create (j_tmp j) :: map (Append (j_tmp j)) (j_chunks j)
  ++ (if j_backup j then [BackupMove (j_dst j) (j_orig j)] else [])
  ++ [Rename (j_tmp j) (j_dst j)].

(* reformat_files: one job after the other *)
Definition run_prog (js : list job) : list op := concat (map job_prog js).

(* the states the property allows for one target *)
Definition target_ok (j : job) (f0 f : fs) : Prop :=
  f (j_dst j) = f0 (j_dst j) \/
  f (j_dst j) = Some (j_new j) \/
  (j_backup j = true /\ f (j_dst j) = None /\ f (j_orig j) = f0 (j_dst j)).

(* executable form for the trace correspondence: the op program as data *)
Definition job_paths (j : job) : list path := [j_dst j; j_tmp j; j_orig j].

(* boolean form of target_ok for observed directory states *)
Definition opt_eqb (a b : option str) : bool :=
  match a, b with
  | Some x, Some y => str_eqb x y
  | None, None => true
  | _, _ => false
  end.


Definition target_okb (backup : bool) (new : str) (old cur_dst cur_orig : option str) : bool :=
  opt_eqb cur_dst old || opt_eqb cur_dst (Some new) ||
  (backup && opt_eqb cur_dst None && opt_eqb cur_orig old).

