(* Model of flowmark/typography/smartquotes.py and ellipses.py.  Definitions only. *)
From Coq Require Import List NArith ZArith Bool Arith.
Import ListNotations.
From Base Require Import PyStr Regex.
From Gen Require Import Regexes.
From Model Require Import Tags.
Local Open Scope N_scope.

Definition ldq : N := 8220.  (* “ *)
Definition rdq : N := 8221.  (* ” *)
Definition lsq : N := 8216.  (* ‘ *)
Definition rsq : N := 8217.  (* ’ *)
Definition apos : N := 39.
Definition dquote : N := 34.
Definition ellipsis_ch : N := 8230.

Definition is_multi_paragraph (s : str) : bool :=
  match re_search_t re_paragraph_break s with Some _ => true | None => false end.

(* the replace_quotes callback; None + str raises TypeError in Python *)
Definition replace_quotes (mm : mmatch) : M str :=
  let double := group mm 2 in
  let single := group mm 3 in
  match (match double with Some d => Some d | None => single end) with
  | None => throw TypeError              (* PARAGRAPH_BREAK_PATTERN.search(None) *)
  | Some content =>
      if is_multi_paragraph content then ret (m_text mm)
      else
        match group mm 1 with
        | Some prefix =>
            match double with
            | Some d => ret (prefix ++ [ldq] ++ d ++ [rdq])
            | None => ret (prefix ++ [lsq] ++ content ++ [rsq])
            end
        | _ => throw TypeError
        end
  end.

Definition has_match (p : pattern) (s : str) : bool :=
  match re_search_t p s with Some _ => true | None => false end.
Definition has_match_start (p : pattern) (s : str) : bool :=
  match re_match_t p s with Some _ => true | None => false end.

Definition fix_word (w : str) : str :=
  if py_isspace w then w
  else if Nat.eqb (count_ch apos w) 1 then
    if has_match re_sq_contraction w then replace_ch apos rsq w
    else if has_match_start re_sq_possessive w then replace_ch apos rsq w
    else w
  else w.

Definition apply_smart_quotes_to_text (text : str) : M str :=
  result <- re_subM re_quote replace_quotes text ;;
  let words := re_split_t re_sq_split result in
  ret (concat (map (fun o => match o with Some w => fix_word w | None => [] end) words)).

(* smart_quotes: template tags are copied, the text between them converted *)
Definition smart_quotes (text : str) : M str :=
  let dec := finditer_t re_template_tag text in
  parts <- mapM (fun gm =>
             b <- (match fst gm with [] => ret [] | g => apply_smart_quotes_to_text g end) ;;
             ret (b ++ m_text (snd gm))) (fst dec) ;;
  tl <- (match snd dec with [] => ret [] | g => apply_smart_quotes_to_text g end) ;;
  ret (concat parts ++ tl).

(* ---- ellipses ---- *)
Definition opt_str (o : option str) : str := match o with Some s => s | None => [] end.

Definition is_word_or_end (c : str) : bool := has_match_start re_ell_word_or_end c.
Definition is_word (c : str) : bool := has_match_start re_ell_word c.

(* spans of the template tags of the text being rewritten *)
Definition tag_spans (text : str) : list (nat * nat) :=
  map (fun gm => (m_start (snd gm), m_end (snd gm))) (fst (finditer_t re_template_tag text)).
Definition in_spans (spans : list (nat * nat)) (p : nat) : bool :=
  existsb (fun se => Nat.leb (fst se) p && Nat.ltb p (snd se)) spans.

(* the callback reads the OUTER text after the match, and the tag spans of the outer text *)
Definition ellipsis_repl (spans : list (nat * nat)) (mm : mmatch) : M str :=
  (* match.start(3) is -1 if the group did not take part; then no span contains it *)
  let inside := match group_start mm 3 with Some ds => in_spans spans ds | None => false end in
  if inside then ret (m_text mm) else
  match group mm 1, group mm 2, group mm 4, group mm 5 with
  | Some prefix, Some sb, Some punct, Some sa =>
      let remaining := m_after mm in
      let next_char := match remaining with c :: _ => [c] | [] => [] end in
      if negb (is_nil remaining) && negb (is_word_or_end next_char) then ret (m_text mm)
      else
        let r1 := prefix ++ (if negb (is_nil prefix) && is_word prefix && is_nil sb then [sp] else sb) in
        let r2 := r1 ++ [ellipsis_ch] ++ punct in
        ret (r2 ++ (if negb (is_nil next_char) && is_word next_char && is_nil sa && is_nil punct then [sp] else sa))
  | _, _, _, _ => throw TypeError
  end.

Definition ellipses (text : str) : M str := re_subM re_ellipsis (ellipsis_repl (tag_spans text)) text.
