(* Specification (not a model of flowmark code): how a CommonMark reader reads a code span
   (CommonMark 0.31 section 6.1).  A code span begins with a backtick string of length n and ends
   with the next backtick string of exactly that length; if the content both begins and ends with a
   space but is not all spaces, one space is removed from each end.  (Line endings inside the span
   become spaces; the strings considered here are single lines.)  Used by Proofs/CodeSpanProofs.v.
   Definitions only. *)
From Coq Require Import List NArith Bool Arith.
Import ListNotations.
From Base Require Import PyStr.
From Model Require Import Render.
Local Open Scope N_scope.

(* scan for the closing backtick string: [cur] backticks are pending just before the current
   position, [acc] is the content read so far, reversed *)
Fixpoint scan_close (n : nat) (s : str) (cur : nat) (acc : str) : option (str * str) :=
  match s with
  | [] => if Nat.eqb cur n && Nat.ltb 0 cur then Some (rev acc, []) else None
  | c :: r =>
      if c =? bq then scan_close n r (S cur) acc
      else if Nat.eqb cur n && Nat.ltb 0 cur then Some (rev acc, s)
      else scan_close n r O (c :: repeat bq cur ++ acc)
  end.

Definition strip_one_space (c : str) : str :=
  match c with
  | 32 :: r =>
      match rev r with
      | 32 :: m => if forallb (N.eqb 32) c then c else rev m
      | _ => c
      end
  | _ => c
  end.

(* read a code span at the start of [t]: its content and the text after it *)
Definition read_code_span (t : str) : option (str * str) :=
  let n := run_len bq t in
  match n with
  | O => None
  | _ =>
      match scan_close n (skipn n t) O [] with
      | Some (content, rest) => Some (strip_one_space content, rest)
      | None => None
      end
  end.

(* ---- link destination and title (CommonMark 0.31 section 6.3) ----
   A backslash before an ASCII punctuation character is an escape for that character; any other
   backslash is a literal backslash.
   <...> form: ends at the first unescaped '>', may not contain a line ending or an unescaped '<'.
   Bare form: non-empty, does not begin with '<', ends at a space or ASCII control character or at
   an unbalanced ')'; parentheses must be balanced unless escaped.
   Title in double quotes: ends at the first unescaped double quote. *)
Definition is_ctl (c : N) : bool := (c <? 32) || (c =? 127).

Fixpoint read_quoted (stop forbid : N -> bool) (s acc : str) : option (str * str) :=
  match s with
  | [] => None
  | c :: r =>
      if stop c then Some (rev acc, r)
      else if forbid c then None
      else if c =? 92 then
        match r with
        | d :: r' => if is_ascii_punct d then read_quoted stop forbid r' (d :: acc)
                     else read_quoted stop forbid r (92 :: acc)
        | [] => None
        end
      else read_quoted stop forbid r (c :: acc)
  end.

Definition read_pointy (s : str) : option (str * str) :=
  read_quoted (N.eqb 62) (fun c => (c =? 60) || (c =? 10) || (c =? 13)) s [].
Definition read_title (s : str) : option (str * str) :=
  match s with
  | 34 :: r => read_quoted (N.eqb 34) (fun _ => false) r []
  | _ => None
  end.

Fixpoint read_bare (s : str) (depth : nat) (acc : str) : option (str * str) :=
  match s with
  | [] => match depth with O => Some (rev acc, []) | _ => None end
  | c :: r =>
      if (c =? 32) || is_ctl c then match depth with O => Some (rev acc, s) | _ => None end
      else if c =? 40 then read_bare r (S depth) (40 :: acc)
      else if c =? 41 then match depth with O => Some (rev acc, s) | S d => read_bare r d (41 :: acc) end
      else if c =? 92 then
        match r with
        | d :: r' => if is_ascii_punct d then read_bare r' depth (d :: acc)
                     else read_bare r depth (92 :: acc)
        | [] => read_bare r depth (92 :: acc)
        end
      else read_bare r depth (c :: acc)
  end.

Definition read_destination (s : str) : option (str * str) :=
  match s with
  | 60 :: r => read_pointy r
  | _ => match read_bare s O [] with
         | Some ([], _) => None
         | x => x
         end
  end.

(* removal of backslash escapes (what the parser applies to destinations, titles and the language
   word of a code fence): a backslash before ASCII punctuation disappears, any other stays *)
Fixpoint strip_backslash (s : str) : str :=
  match s with
  | [] => []
  | c :: r =>
      if c =? 92 then
        match r with
        | d :: r' => if is_ascii_punct d then d :: strip_backslash r' else 92 :: strip_backslash r
        | [] => [92]
        end
      else c :: strip_backslash r
  end.
