(* Model of the word splitter (text_wrapping._HtmlMdWordSplitter), wrap_paragraph,
   sentence splitting, the line wrappers (line_wrappers.py) and fill_text.
   Definitions only. *)
From Coq Require Import List NArith ZArith Bool Arith.
Import ListNotations.
From Base Require Import PyStr Regex.
From Gen Require Import Consts Regexes.
From Model Require Import Wrap Tags.
Local Open Scope Z_scope.

(* ---- _HtmlMdWordSplitter ---- *)
Definition placeholder (i : nat) : str :=
  placeholder_prefix ++ dec_of_N (N.of_nat i) ++ placeholder_suffix.

(* ATOMIC_CONSTRUCT_PATTERN.sub(replace_construct, text): constructs in order + new text *)
Fixpoint number_from {A} (i : nat) (l : list A) : list (nat * A) :=
  match l with [] => [] | x :: l' => (i, x) :: number_from (S i) l' end.

Definition extract_atomic_constructs (text : str) : list str * str :=
  let dec := finditer_t re_atomic text in
  let numbered := number_from 0 (fst dec) in
  (map (fun gm => m_text (snd gm)) (fst dec),
   concat (map (fun igm => fst (snd igm) ++ placeholder (fst igm)) numbered) ++ snd dec).

Definition restore_token (constructs : list (nat * str)) (tok : str) : str :=
  fold_left (fun t ic => str_replace (placeholder (fst ic)) (snd ic) t) constructs tok.

Definition html_md_word_splitter (text : str) : M (list str) :=
  t <- normalize_adjacent_tags text ;;
  let ex := extract_atomic_constructs t in
  let constructs := number_from 0 (fst ex) in
  ret (map (restore_token constructs) (split_ws (snd ex))).

(* ---- markdown_escape_word driven by the translated patterns _md_numeral_pat /
   _md_specials_pat ---- *)
Definition rx_matches (p : pattern) (w : str) : bool :=
  match re_match_t p w with Some _ => true | None => false end.

Definition escape_rx (w : word) : word :=
  if rx_matches re_md_numeral w then
    match rev w with
    | c :: r => rev r ++ [bsl; c]
    | [] => w
    end
  else if rx_matches re_md_specials w then
    if forallb (fun c => N.eqb c 42 || N.eqb c 95) w then flat_map (fun c => [bsl; c]) w   (* set(word) <= {"*", "_"} *)
    else bsl :: w
  else w.

(* ---- wrap_paragraph_lines with the default (HTML/Markdown aware) splitter ---- *)
Definition wrap_paragraph_lines_md (text : str) (width c0 c1 : Z) (rw dw md : bool) : M (list str) :=
  let t := maybe rw collapse_ws text in
  if width <=? 0 then
    let t := maybe dw strip t in
    ret (match t with [] => [] | _ => [t] end)
  else
    ws <- html_md_word_splitter t ;;
    ret (map (fun l => maybe dw strip (join [sp] l)) (wrap_words escape_rx ws width c0 c1 md)).

(* ---- wrap_paragraph ---- *)
Definition add_indents (i1 i2 : str) (ic0 : bool) (lines : list str) : list str :=
  match lines with
  | [] => []
  | l0 :: rest =>
      (if negb (is_nil i1) && ic0 then i1 ++ l0 else l0)
      :: (if negb (is_nil i2) then map (fun l => i2 ++ l) rest else rest)
  end.

Definition wrap_paragraph (text : str) (width : Z) (i1 i2 : str) (ic : Z) (rw dw md : bool) : M str :=
  lines <- wrap_paragraph_lines_md text width (ic + len i1) (len i2) rw dw md ;;
  denormalize_adjacent_tags (join [nl] (add_indents i1 i2 (ic =? 0) lines)).

(* ---- hard breaks ---- *)
Definition split_markdown_hard_breaks (text : str) : list str :=
  map (fun o => match o with Some s => s | None => [] end) (re_split_t re_line_break text).

Fixpoint wrap_hard_segments (base : wrapper) (segs : list str) (first : bool) (i1 i2 : str)
  : M (list str) :=
  match segs with
  | [] => ret []
  | [seg] => w <- base seg (if first then i1 else i2) i2 ;; ret [w]
  | seg :: rest =>
      w <- base seg (if first then i1 else i2) i2 ;;
      let w := match w with
               | [] => (if first then i1 else i2)                    (* an empty segment keeps its indent *)
               | _ => if endswith w [nl] then w ++ i2 else w           (* the backslash starts a line of its own *)
               end in
      ws <- wrap_hard_segments base rest false i1 i2 ;;
      ret ((w ++ [bsl]) :: ws)
  end.

Definition add_markdown_hard_break_handling (base : wrapper) : wrapper :=
  fun text i1 i2 =>
    let segs := split_markdown_hard_breaks text in
    match segs with
    | [] => ret []
    | [_] => base text i1 i2
    | _ => ws <- wrap_hard_segments base segs true i1 i2 ;; ret (join [nl] ws)
    end.

(* ---- line_wrap_to_width ---- *)
Definition line_wrap_to_width (width : Z) (md : bool) : wrapper :=
  let lw : wrapper := fun text i1 i2 => wrap_paragraph text width i1 i2 0 true true md in
  if md then add_markdown_hard_break_handling (add_tag_newline_handling lw) else lw.

(* ---- split_sentences_regex ---- *)
Definition heuristic_end_of_sentence (w : str) : bool :=
  match re_search_t re_sentence_end w with Some _ => true | None => false end.

(* the loop of split_sentences_regex over the word list; sentences as word lists *)
Fixpoint split_sentences_loop (heur : str -> bool) (min_length : Z) (words : list str)
  (sent_rev : list str) (words_len : Z) : list (list str) :=
  match words with
  | [] => match sent_rev with [] => [] | _ => [rev sent_rev] end
  | w :: rest =>
      let sent_rev' := w :: sent_rev in
      let words_len' := words_len + len w in
      let sentence_len := words_len' + Z.of_nat (length sent_rev') - 1 in
      if heur w && (min_length <=? sentence_len) then
        rev sent_rev' :: split_sentences_loop heur min_length rest [] 0
      else split_sentences_loop heur min_length rest sent_rev' words_len'
  end.

Definition split_sentences_with (heur : str -> bool) (text : str) (min_length : Z) : list str :=
  map (join [sp]) (split_sentences_loop heur min_length (split_ws text) [] 0).

Definition split_sentences_regex (text : str) (min_length : Z) : list str :=
  split_sentences_with heuristic_end_of_sentence text min_length.

(* ---- line_wrap_by_sentence ---- *)
(* the loop over sentences, generic in the function wrapping one sentence from a column *)
Section SentenceLoop.
  Variable wrapf : str -> Z -> M (list str).
  Variables (width min_line_len i1len i2len : Z).

  Definition sentence_step (s : str) (lines_rev : list str) (first : bool) : M (list str) :=
    let col0 := if first then i1len else i2len in
    let col := match lines_rev with
               | last :: _ => if len last <? min_line_len then col0 + len last else col0
               | [] => col0
               end in
    wrapped <- wrapf s col ;;
    ret (match lines_rev, wrapped with
         | last :: lr, w0 :: wr =>
             if (len last <? min_line_len) && (len last + 1 + len w0 <=? width)
             then rev wr ++ (last ++ [sp] ++ w0) :: lr
             else rev wrapped ++ lines_rev
         | _, _ => rev wrapped ++ lines_rev
         end).

  Fixpoint sentence_loop (sentences : list str) (lines_rev : list str) (first : bool)
    : M (list str) :=
    match sentences with
    | [] => ret (rev lines_rev)
    | s :: rest =>
        lines_rev' <- sentence_step s lines_rev first ;;
        sentence_loop rest lines_rev' false
    end.
End SentenceLoop.

Definition add_indents_sentence (i1 i2 : str) (lines : list str) : list str :=
  match lines with
  | [] => []
  | l0 :: rest =>
      (if negb (is_nil i1) then i1 ++ l0 else l0)
      :: (if negb (is_nil i2) then map (fun l => i2 ++ l) rest else rest)
  end.

Definition line_wrap_by_sentence_base (width min_line_len : Z) (md : bool) : wrapper :=
  fun text i1 i2 =>
    let text := replace_ch 10 32 text in
    if width <=? 0 then ret (i1 ++ strip (collapse_ws text))
    else
      let sentences := split_sentences_regex text 0 in
      lines <- sentence_loop (fun s col => wrap_paragraph_lines_md s width col (len i2) true true md)
                 width min_line_len (len i1) (len i2) sentences [] true ;;
      denormalize_adjacent_tags (join [nl] (add_indents_sentence i1 i2 lines)).

Definition line_wrap_by_sentence (width min_line_len : Z) (md : bool) : wrapper :=
  let lw := line_wrap_by_sentence_base width min_line_len md in
  if md then add_markdown_hard_break_handling (add_tag_newline_handling lw) else lw.

(* ---- fill_text with Wrap.WRAP (the plaintext mode of reformat_text) and the other modes ---- *)
Inductive wrap_mode := WNone | WWrap | WWrapFull | WWrapIndent | WIndentOnly | WHangingIndent | WMarkdownItem.

Definition wm_initial_indent (m : wrap_mode) : str :=
  match m with WIndentOnly | WWrapIndent => default_indent | _ => [] end.
Definition wm_subsequent_indent (m : wrap_mode) : str :=
  match m with
  | WMarkdownItem => [32%N; 32%N]
  | WIndentOnly | WWrapIndent | WHangingIndent => default_indent
  | _ => []
  end.
Definition wm_should_wrap (m : wrap_mode) : bool :=
  match m with WNone | WIndentOnly => false | _ => true end.
Definition wm_first_para_only (m : wrap_mode) : bool :=
  match m with WHangingIndent | WMarkdownItem => true | _ => false end.
Definition wm_replace_ws (m : wrap_mode) : bool :=
  match m with WWrapFull | WWrapIndent | WHangingIndent => true | _ => false end.

Definition split_paragraphs (text : str) : list str :=
  map (fun o => strip (match o with Some s => s | None => [] end)) (re_split_t re_para_split text).

Fixpoint fill_paragraphs (width : Z) (i1 i2 : str) (ic : Z) (rw : bool) (first_only : bool)
  (paras : list str) (is_first : bool) : M (list str) :=
  match paras with
  | [] => ret []
  | p :: rest =>
      let i1' := if first_only && negb is_first then i2 else i1 in
      w <- wrap_paragraph p width i1' i2 ic rw true false ;;
      ws <- fill_paragraphs width i1 i2 ic rw first_only rest false ;;
      ret (w :: ws)
  end.

Definition fill_text (text : str) (mode : wrap_mode) (width : Z) (extra_indent empty_indent : str)
  (ic : Z) : M str :=
  if negb (wm_should_wrap mode) then
    let indent := match mode with WIndentOnly => extra_indent ++ default_indent | _ => extra_indent end in
    match splitlines text with
    | [] => ret empty_indent
    | lines => ret (join [nl] (map (fun l => indent ++ l) lines))
    end
  else
    let empty_indent := strip empty_indent in
    let i1 := extra_indent ++ wm_initial_indent mode in
    let i2 := extra_indent ++ wm_subsequent_indent mode in
    let width := width - len i2 in
    let paras := split_paragraphs text in
    wrapped <- fill_paragraphs width i1 i2 ic (wm_replace_ws mode) (wm_first_para_only mode) paras true ;;
    ret (join ([nl] ++ empty_indent ++ [nl]) wrapped).
