(* Model of file_resolver/resolver.py: FileResolver._walk_directory, _is_dir_excluded,
   _should_include_explicit, _exceeds_max_size, _expand_glob and resolve, over an abstract
   directory tree.  pathspec (the gitignore-syntax matcher), glob and the order of Path objects
   are oracles: Section variables, answered by the real libraries in the correspondence run.
   os.walk with followlinks=False: a symlinked directory is listed but not entered, a symlinked or
   dangling file is listed among the files and skipped by the is_symlink test - both contribute
   nothing, so the tree has one constructor for every kind of link.
   Definitions only. *)
From Coq Require Import List NArith Bool Arith.
Import ListNotations.
From Base Require Import PyStr.
Local Open Scope N_scope.

Inductive node :=
| NFile (size : N)
| NDir (entries : list (str * node))
| NLink.

Definition slash : N := 47.
Definition path_str (p : list str) : str := join [slash] p.   (* the string of a Path built from the components p *)

Section Resolver.
  Variable inc : str -> bool.                       (* include_spec.match_file *)
  Variable exc : str -> bool.                       (* exclude_spec.match_file *)
  Variable tool : option (str -> bool).             (* the .flowmarkignore spec found from the walk root upwards *)
  Variable gi : list str -> option (str -> option bool).
      (* the .gitignore spec of the directory at this path below the walk root, as check_file(...).include:
         Some true = ignored by the last matching pattern, Some false = re-included by it, None = no pattern matches *)
  Variable respect : bool.                          (* respect_gitignore *)
  Variable maxsize : N.                             (* files_max_size, 0 = no limit *)

  Definition exceeds (sz : N) : bool := negb (maxsize =? 0) && (maxsize <? sz).
  Definition tool_m (s : str) : bool := match tool with Some t => t s | None => false end.

  (* the gitignore chain of the directory at [rel], given the chain of its parent: (directory, spec) pairs, root first *)
  Definition gchain := list (list str * (str -> option bool)).
  Definition chain_of (rel : list str) (chain0 : gchain) : gchain :=
    chain0 ++ (if respect then match gi rel with Some s => [(rel, s)] | None => [] end else []).

  (* _is_gitignored: each spec sees the path relative to its own directory; the last matching pattern
     decides, deeper files are read later *)
  Definition gitignored (chain : gchain) (path : list str) (is_dir : bool) : bool :=
    fold_left (fun acc ds =>
                 match snd ds (path_str (skipn (length (fst ds)) path) ++ (if is_dir then [slash] else [])) with
                 | Some b => b
                 | None => acc
                 end) chain false.

  (* _is_dir_excluded(d, rel/d, current, tool_ignore, root) *)
  Definition dir_excluded (chain : gchain) (rel : list str) (d : str) : bool :=
    exc (d ++ [slash]) || exc (path_str (rel ++ [d]) ++ [slash])
    || gitignored chain (rel ++ [d]) true
    || tool_m (d ++ [slash]) || tool_m (path_str (rel ++ [d]) ++ [slash]).

  (* the per-file tests of _walk_directory *)
  Definition file_ok (chain : gchain) (rel : list str) (name : str) (sz : N) : bool :=
    inc name && negb (exceeds sz) && negb (gitignored chain (rel ++ [name]) false)
    && negb (tool_m name || tool_m (path_str (rel ++ [name]))).

  (* _walk_directory: paths relative to the walk root, in listing order *)
  Fixpoint walk (rel : list str) (chain0 : gchain) (n : node) {struct n} : list (list str) :=
    match n with
    | NDir es =>
        let chain := chain_of rel chain0 in
        (fix go (l : list (str * node)) : list (list str) :=
           match l with
           | [] => []
           | (name, NFile sz) :: r => (if file_ok chain rel name sz then [rel ++ [name]] else []) ++ go r
           | (name, (NDir _ as sub)) :: r =>
               (if dir_excluded chain rel name then [] else walk (rel ++ [name]) chain sub) ++ go r
           | (_, NLink) :: r => go r
           end) es
    | _ => []
    end.

  (* _expand_glob (after the fix): a glob selects among the files the traversal of its root finds *)
  Definition expand_glob (sel : list str -> bool) (root : node) : list (list str) :=
    filter sel (walk [] [] root).

  (* _should_include_explicit: parts = the components of the path as given, last one the name *)
  Definition include_explicit (force : bool) (parts : list str) (sz : N) : bool :=
    let name := last parts [] in
    let dirs := removelast parts in
    negb (force && (exc name || existsb (fun p => exc (p ++ [slash])) dirs)) && negb (exceeds sz).
End Resolver.

(* ---- resolve: de-duplication on the resolved path and final sort, for any total order ---- *)
Section Resolve.
  Context {A : Type}.
  Variable eqb : A -> A -> bool.
  Variable leb : A -> A -> bool.

  Fixpoint insert (x : A) (l : list A) : list A :=
    match l with
    | [] => [x]
    | y :: r => if leb x y then x :: l else y :: insert x r
    end.
  Fixpoint isort (l : list A) : list A :=
    match l with [] => [] | x :: r => insert x (isort r) end.

  (* seen-set loop of resolve: keep the first occurrence *)
  Fixpoint dedup (seen : list A) (l : list A) : list A :=
    match l with
    | [] => []
    | x :: r => if existsb (eqb x) seen then dedup seen r else x :: dedup (x :: seen) r
    end.

  Definition resolve (per_arg : list (list A)) : list A := isort (dedup [] (concat per_arg)).
End Resolve.
