(* Specification (not a model of flowmark code): how a CommonMark reader reads a fenced code block
   (CommonMark 0.31 section 4.5) from a list of lines.  The opening line has at most three spaces of
   indentation, then at least three backticks or tildes, then the info string (trimmed of spaces and
   tabs; no backtick allowed in it after a backtick fence).  The block ends at the first line with at
   most three spaces of indentation, a run of the same character at least as long as the opening
   run, and nothing but spaces or tabs after it; without such a line it runs to the end.  Content
   lines lose as many leading spaces as the opening fence was indented.
   Used by Proofs/FenceProofs.v.  Definitions only. *)
From Coq Require Import List NArith Bool Arith.
Import ListNotations.
From Base Require Import PyStr.
Local Open Scope N_scope.

Definition is_sptab (c : N) : bool := (c =? 32) || (c =? 9).
Definition trim (s : str) : str := rstrip_chars is_sptab (lstrip_chars is_sptab s).

Definition closes (fc : N) (n : nat) (l : str) : bool :=
  let k := run_len 32 l in
  let t := skipn k l in
  let m := run_len fc t in
  Nat.leb k 3 && Nat.leb n m && forallb is_sptab (skipn m t).

Fixpoint drop_spaces (k : nat) (l : str) : str :=
  match k, l with
  | S k', 32 :: r => drop_spaces k' r
  | _, _ => l
  end.

Fixpoint read_body (fc : N) (n k : nat) (lines : list str) (acc : list str) : list str * list str :=
  match lines with
  | [] => (rev acc, [])
  | l :: r => if closes fc n l then (rev acc, r) else read_body fc n k r (drop_spaces k l :: acc)
  end.

Record fenced := Fenced { f_char : N; f_len : nat; f_info : str; f_body : list str }.

Definition read_open (l : str) : option (N * nat * nat * str) :=
  let k := run_len 32 l in
  if Nat.ltb 3 k then None else
  match skipn k l with
  | c :: _ =>
      if (c =? 96) || (c =? 126) then
        let t := skipn k l in
        let n := run_len c t in
        if Nat.ltb n 3 then None else
        let info := trim (skipn n t) in
        if (c =? 96) && existsb (N.eqb 96) info then None else Some (c, n, k, info)
      else None
  | [] => None
  end.

(* read a fenced code block at the head of [lines]: the block and the lines after it *)
Definition read_fenced (lines : list str) : option (fenced * list str) :=
  match lines with
  | l :: r =>
      match read_open l with
      | Some (c, n, k, info) =>
          let '(body, rest) := read_body c n k r [] in
          Some (Fenced c n info body, rest)
      | None => None
      end
  | [] => None
  end.
