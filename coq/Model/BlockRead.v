(* Specification (not a model of flowmark code): how a CommonMark reader reads a fenced code block
   (CommonMark 0.31 section 4.5) from a list of lines.  The opening line has at most three spaces of
   indentation, then at least three backticks or tildes, then the info string (trimmed of spaces and
   tabs; no backtick allowed in it after a backtick fence).  The block ends at the first line with at
   most three spaces of indentation, a run of the same character at least as long as the opening
   run, and nothing but spaces or tabs after it; without such a line it runs to the end.  Content
   lines lose as many leading spaces as the opening fence was indented.
   Used by Proofs/FenceProofs.v.  Definitions only. *)
From Coq Require Import List NArith Bool Arith.
Import ListNotations.
From Base Require Import PyStr.
Local Open Scope N_scope.

Definition is_sptab (c : N) : bool := (c =? 32) || (c =? 9).
Definition trim (s : str) : str := rstrip_chars is_sptab (lstrip_chars is_sptab s).

Definition closes (fc : N) (n : nat) (l : str) : bool :=
  let k := run_len 32 l in
  let t := skipn k l in
  let m := run_len fc t in
  Nat.leb k 3 && Nat.leb n m && forallb is_sptab (skipn m t).

Fixpoint drop_spaces (k : nat) (l : str) : str :=
  match k, l with
  | S k', 32 :: r => drop_spaces k' r
  | _, _ => l
  end.

Fixpoint read_body (fc : N) (n k : nat) (lines : list str) (acc : list str) : list str * list str :=
  match lines with
  | [] => (rev acc, [])
  | l :: r => if closes fc n l then (rev acc, r) else read_body fc n k r (drop_spaces k l :: acc)
  end.

Record fenced := Fenced { f_char : N; f_len : nat; f_info : str; f_body : list str }.

Definition read_open (l : str) : option (N * nat * nat * str) :=
  let k := run_len 32 l in
  if Nat.ltb 3 k then None else
  match skipn k l with
  | c :: _ =>
      if (c =? 96) || (c =? 126) then
        let t := skipn k l in
        let n := run_len c t in
        if Nat.ltb n 3 then None else
        let info := trim (skipn n t) in
        if (c =? 96) && existsb (N.eqb 96) info then None else Some (c, n, k, info)
      else None
  | [] => None
  end.

(* read a fenced code block at the head of [lines]: the block and the lines after it *)
Definition read_fenced (lines : list str) : option (fenced * list str) :=
  match lines with
  | l :: r =>
      match read_open l with
      | Some (c, n, k, info) =>
          let '(body, rest) := read_body c n k r [] in
          Some (Fenced c n info body, rest)
      | None => None
      end
  | [] => None
  end.

(* ---- ATX heading (CommonMark 0.31 section 4.2) ----
   Up to three spaces, one to six '#', then the end of the line or a space or tab.  The content is the
   rest of the line trimmed of spaces and tabs, minus an optional closing sequence: a run of '#' that
   makes up all of the content or is preceded by a space or tab. *)
Definition strip_closing (c : str) : str :=
  let r := rev c in
  let n := run_len 35 r in
  match n with
  | O => c
  | _ => match skipn n r with
         | [] => []
         | x :: _ => if is_sptab x then trim (rev (skipn n r)) else c
         end
  end.

Definition read_atx (l : str) : option (nat * str) :=
  let k := run_len 32 l in
  if Nat.ltb 3 k then None else
  let t := skipn k l in
  let n := run_len 35 t in
  if Nat.ltb n 1 || Nat.ltb 6 n then None else
  match skipn n t with
  | [] => Some (n, [])
  | x :: _ => if is_sptab x then Some (n, strip_closing (trim (skipn n t))) else None
  end.

(* ---- ordered list marker (CommonMark 0.31 section 5.2) ----
   One to nine ASCII digits, '.' or ')', then a space: the start number and the width of the marker
   (which is the column at which the item's content, and every continuation line, begins). *)
Fixpoint digits_of (s : str) : str :=
  match s with c :: r => if is_ascii_digit c then c :: digits_of r else [] | [] => [] end.
Fixpoint parse_dec (s : str) (acc : N) : N :=
  match s with [] => acc | c :: r => parse_dec r (acc * 10 + (c - 48)) end.
Definition read_ol_marker (l : str) : option (N * nat) :=
  let ds := digits_of l in
  let n := length ds in
  if Nat.eqb n 0 || Nat.ltb 9 n then None else
  match skipn n l with
  | c :: 32 :: _ => if (c =? 46) || (c =? 41) then Some (parse_dec ds 0, (n + 2)%nat) else None
  | _ => None
  end.

(* ---- GFM table rows (GFM spec 4.10) ----
   A row is split into cells at every pipe that is not preceded by a backslash; in the cell content a
   backslash-pipe stands for a pipe; cells are trimmed; the pipes at both ends of the row are optional
   (the renderer always writes them).  In the delimiter row a leading / trailing colon gives the
   column's alignment. *)
Fixpoint split_cells (s : str) (cur : str) : list str :=
  match s with
  | [] => [rev cur]
  | c :: r =>
      if c =? 92 then
        match r with
        | 124 :: r' => split_cells r' (124 :: cur)
        | _ => split_cells r (92 :: cur)
        end
      else if c =? 124 then rev cur :: split_cells r []
      else split_cells r (c :: cur)
  end.
Definition read_row (l : str) : option (list str) :=
  match l with
  | 124 :: r => Some (map trim (removelast (split_cells r [])))
  | _ => None
  end.
Definition alignment (d : str) : bool * bool := (startswith d [58], endswith d [58]).
