(* Model of flowmark/linewrapping/block_heuristics.py and tag_handling.py. Definitions only. *)
From Coq Require Import List NArith ZArith Bool Arith.
Import ListNotations.
From Base Require Import PyStr Regex.
From Gen Require Import Consts Regexes.
Local Open Scope N_scope.

(* ---- block_heuristics ---- *)
Definition line_is_table_row (line : str) : bool := startswith (lstrip line) [124].

Definition is_sp_tab (c : N) : bool := (c =? 32) || (c =? 9).
Definition is_bullet (c : N) : bool := (c =? 45) || (c =? 42) || (c =? 43).

(* after the first digit: up to 8 further digits, then [.)] and a space/tab *)
Fixpoint ordered_tail (n : nat) (s : str) : bool :=
  match s with
  | [] => false
  | c :: s' =>
      match n with
      | S n' => if is_pydigit c then ordered_tail n' s'
                else ((c =? 46) || (c =? 41)) && match s' with d :: _ => is_sp_tab d | [] => false end
      | O => ((c =? 46) || (c =? 41)) && match s' with d :: _ => is_sp_tab d | [] => false end
      end
  end.

Definition line_is_list_item (line : str) : bool :=
  match lstrip line with
  | [] => false
  | c :: r =>
      if is_bullet c then match r with d :: _ => is_sp_tab d | [] => false end
      else if is_pydigit c then ordered_tail 8 r
      else false
  end.

Definition line_is_block_content (line : str) : bool :=
  line_is_table_row line || line_is_list_item line.

(* ---- tag line predicates ---- *)
Definition starts_any (s : str) (ps : list str) : bool := existsb (startswith s) ps.
Definition ends_any (s : str) (ps : list str) : bool := existsb (endswith s) ps.

Definition line_ends_with_tag (line : str) : bool :=
  let s := rstrip line in negb (is_nil s) && ends_any s tag_close_delims.
Definition line_starts_with_tag (line : str) : bool :=
  let s := lstrip line in negb (is_nil s) && starts_any s tag_open_delims.
Definition is_unindented_tag_line (line : str) : bool :=
  match line with
  | [] => false
  | c :: _ => if is_space c then false else line_starts_with_tag line
  end.
Definition is_tag_only_line (line : str) : bool :=
  match line with
  | c :: _ => if is_space c then false else
      let s := strip line in
      negb (is_nil s) && starts_any s tag_open_delims && ends_any s tag_close_delims
  | [] => false
  end.
Definition is_closing_tag (line : str) : bool := starts_any (lstrip line) closing_tag_prefixes.

Definition blank (line : str) : bool := is_nil (strip line).

(* ---- preprocess_tag_block_spacing ---- *)
(* [inb]: a list or table has begun since the last empty line or tag line (its last item may go on over further lines) *)
Definition next_in_block (inb : bool) (line : str) : bool :=
  if blank line || is_tag_only_line line then false
  else if line_is_block_content line then true else inb.

Fixpoint preprocess_lines (prev : option str) (inb : bool) (lines : list str) : list str :=
  match lines with
  | [] => []
  | line :: rest =>
      let ins :=
        match prev with
        | None => []
        | Some pl =>
            let pe := blank pl in
            (if negb pe && is_tag_only_line pl && line_is_block_content line then [[]] else [])
            ++ (if negb pe && inb && is_tag_only_line line then [[]] else [])
        end in
      ins ++ line :: preprocess_lines (Some line) (next_in_block inb line) rest
  end.

Definition preprocess_tag_block_spacing (text : str) : str :=
  let lines := split_on 10 text in
  if existsb is_tag_only_line lines then join [10] (preprocess_lines None false lines) else text.

(* ---- normalize / denormalize adjacent tags ---- *)
Fixpoint first_pair (mm : mmatch) (idxs : list nat) (sep : str) : M str :=
  match idxs with
  | [] => ret (m_text mm)
  | i :: rest =>
      match group mm i with
      | Some a =>
          match group mm (S i) with
          | Some b => ret (a ++ sep ++ b)
          | None => throw TypeError
          end
      | None => first_pair mm rest sep
      end
  end.

Fixpoint pair_idxs (k : nat) (i : nat) : list nat :=
  match k with O => [] | S k' => i :: pair_idxs k' (S (S i)) end.

(* re.sub with a callback that may raise *)
Definition re_subM (p : pattern) (f : mmatch -> M str) (s : str) : M str :=
  let dec := finditer_t p s in
  parts <- mapM (fun gm => r <- f (snd gm) ;; ret (fst gm ++ r)) (fst dec) ;;
  ret (concat parts ++ snd dec).

Definition ngroup_pairs (p : pattern) : list nat := pair_idxs (Nat.div2 (p_ngroups p - 1)) 1.

Definition normalize_adjacent_tags (text : str) : M str :=
  re_subM re_adjacent_tags (fun mm => first_pair mm (ngroup_pairs re_adjacent_tags) [32]) text.
Definition denormalize_adjacent_tags (text : str) : M str :=
  re_subM re_denormalize_tags (fun mm => first_pair mm (ngroup_pairs re_denormalize_tags) []) text.

(* ---- _fix_closing_tag_spacing ---- *)
Fixpoint fix_closing_lines (lines : list str) (fixed_rev : list str) (first : bool) : list str :=
  match lines with
  | [] => rev fixed_rev
  | line :: rest =>
      if is_closing_tag line then
        let stripped := lstrip line in
        let fixed_rev' :=
          match fixed_rev with
          | pl :: _ => if negb first && negb (blank pl) && line_is_block_content pl
                       then [] :: fixed_rev else fixed_rev
          | [] => fixed_rev
          end in
        fix_closing_lines rest (stripped :: fixed_rev') false
      else fix_closing_lines rest (line :: fixed_rev) false
  end.
Definition fix_closing_tag_spacing (text : str) : str :=
  join [10] (fix_closing_lines (split_on 10 text) [] true).

(* ---- _fix_multiline_opening_tag_with_closing ---- *)
Fixpoint first_set_group (mm : mmatch) (n i : nat) : option nat :=
  match n with
  | O => None
  | S n' => match group_start mm i with Some s => Some s | None => first_set_group mm n' (S i) end
  end.

Definition fix_ml_line (line : str) : list str :=
  let stripped := lstrip line in
  if starts_any stripped tag_open_delims then [line]
  else
    match re_search_t re_multiline_closing line with
    | None => [line]
    | Some mm =>
        match first_set_group mm (p_ngroups re_multiline_closing - 1) 1 with
        | Some sp => [rstrip (firstn sp line); lstrip (skipn sp line)]
        | None => []     (* Python: the line is dropped (loop falls through to continue) *)
        end
    end.

Definition fix_multiline_opening_tag_with_closing (text : str) : str :=
  if negb (contains_ch 10 text) then text
  else
    match split_on 10 text with
    | [] => text
    | l0 :: rest => join [10] (l0 :: concat (map fix_ml_line rest))
    end.

(* ---- add_tag_newline_handling ---- *)
Definition wrapper := str -> str -> str -> M str.

Fixpoint segment_lines (has_tags : bool) (prev : option str) (lines : list str)
  (cur_rev : list str) : list str :=
  match lines with
  | [] => match cur_rev with [] => [] | _ => [join [10] (rev cur_rev)] end
  | line :: rest =>
      let prev_ends := match prev with Some pl => line_ends_with_tag pl | None => false end in
      let curr_starts := is_unindented_tag_line line in
      let curr_block := has_tags && line_is_block_content line in
      let prev_block := has_tags && match prev with Some pl => line_is_block_content pl | None => false end in
      if prev_ends || curr_starts || curr_block || prev_block then
        match cur_rev with
        | [] => segment_lines has_tags (Some line) rest [line]
        | _ => join [10] (rev cur_rev) :: segment_lines has_tags (Some line) rest [line]
        end
      else segment_lines has_tags (Some line) rest (line :: cur_rev)
  end.

Definition seg_is_block (seg : str) : bool := existsb line_is_block_content (split_on 10 seg).
Definition seg_prev_is_tag (seg : str) : bool :=
  match seg with [] => false | _ => line_ends_with_tag (last (split_on 10 seg) []) end.
Definition seg_curr_is_tag (seg : str) : bool :=
  match seg with [] => false | _ => is_unindented_tag_line (hd [] (split_on 10 seg)) end.

Fixpoint rejoin_parts (prev_seg : str) (segs : list str) (wrapped : list str) : list str :=
  match segs, wrapped with
  | seg :: segs', w :: wrapped' =>
      (if (seg_prev_is_tag prev_seg && seg_is_block seg) || (seg_is_block prev_seg && seg_curr_is_tag seg)
       then [[]; w] else [w])
      ++ rejoin_parts seg segs' wrapped'
  | _, _ => []
  end.

Fixpoint wrap_segments (base : wrapper) (segs : list str) (first : bool) (i1 i2 : str) : M (list str) :=
  match segs with
  | [] => ret []
  | seg :: rest =>
      w <- base seg (if first then i1 else i2) i2 ;;
      ws <- wrap_segments base rest false i1 i2 ;;
      ret (w :: ws)
  end.

Definition add_tag_newline_handling (base : wrapper) : wrapper :=
  fun text i1 i2 =>
    let simple :=
      r <- base text i1 i2 ;; ret (fix_multiline_opening_tag_with_closing r) in
    if negb (contains_ch 10 text) then simple
    else
      let lines := split_on 10 text in
      let has_tags := existsb (fun l => line_ends_with_tag l || line_starts_with_tag l) lines in
      let segments := segment_lines has_tags None lines [] in
      match segments with
      | [_] => simple
      | [] => ret []     (* unreachable: split always yields a line *)
      | s0 :: srest =>
          wrapped <- wrap_segments base segments true i1 i2 ;;
          match wrapped with
          | [] => ret []
          | w0 :: wrest =>
              let parts := w0 :: rejoin_parts s0 srest wrest in
              let result := join [10] parts in
              ret (fix_multiline_opening_tag_with_closing (fix_closing_tag_spacing result))
          end
      end.
