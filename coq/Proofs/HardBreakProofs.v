(* C05: the hard-break layer of the Markdown line wrapper.  Each hard-break segment of the text is wrapped
   on its own and contributes exactly one piece of the output, in order; every piece but the last ends in the
   backslash of its hard break; no segment is dropped and none is invented - whatever the underlying
   wrapper does with a segment, for every width and indent. *)
From Coq Require Import List NArith ZArith Bool Arith Lia.
Import ListNotations.
From Base Require Import PyStr.
From Model Require Import Wrap Tags LineWrap.

Theorem hard_segments_kept (base : wrapper) : forall segs first i1 i2 ws,
  wrap_hard_segments base segs first i1 i2 = ret ws ->
  length ws = length segs /\
  (forall k w, (S k < length segs)%nat -> nth_error ws k = Some w -> exists body, w = body ++ [bsl]).
Proof.
  induction segs as [|seg rest IH]; intros first i1 i2 ws H.
  - cbn in H. injection H as <-. split; [reflexivity|]. intros k w Hk. cbn in Hk. lia.
  - destruct rest as [|seg2 rest2].
    + cbn [wrap_hard_segments] in H. unfold bind in H.
      destruct (base seg (if first then i1 else i2) i2) as [w0|e]; [|discriminate]. injection H as <-.
      split; [reflexivity|]. intros k w Hk. cbn in Hk. lia.
    + remember (seg2 :: rest2) as rest eqn:Er.
      assert (Hunf : wrap_hard_segments base (seg :: rest) first i1 i2 =
        bind (base seg (if first then i1 else i2) i2) (fun w =>
          let w := match w with [] => (if first then i1 else i2) | _ => if endswith w [nl] then w ++ i2 else w end in
          bind (wrap_hard_segments base rest false i1 i2) (fun ws => ret ((w ++ [bsl]) :: ws)))).
      { subst rest. reflexivity. }
      rewrite Hunf in H. clear Hunf. unfold bind in H.
      destruct (base seg (if first then i1 else i2) i2) as [w0|e]; [|discriminate].
      destruct (wrap_hard_segments base rest false i1 i2) as [ws'|e] eqn:E; [|discriminate].
      injection H as <-. destruct (IH false i1 i2 ws' E) as [Hl Hb].
      split; [cbn [length]; now rewrite Hl|].
      intros k w Hk Hn. destruct k as [|k'].
      * cbn in Hn. injection Hn as <-. eexists. reflexivity.
      * cbn [nth_error] in Hn. apply (Hb k' w); [cbn [length] in Hk; lia|exact Hn].
Qed.

(* the whole layer: with two or more segments the output is those pieces joined by newlines *)
Corollary hard_break_layer (base : wrapper) text i1 i2 out s1 s2 rest :
  split_markdown_hard_breaks text = s1 :: s2 :: rest ->
  add_markdown_hard_break_handling base text i1 i2 = ret out ->
  exists ws, out = join [nl] ws /\ length ws = length (s1 :: s2 :: rest) /\
    (forall k w, (S k < length (s1 :: s2 :: rest))%nat -> nth_error ws k = Some w -> exists body, w = body ++ [bsl]).
Proof.
  intros Hs H. unfold add_markdown_hard_break_handling in H. rewrite Hs in H. unfold bind in H.
  destruct (wrap_hard_segments base (s1 :: s2 :: rest) true i1 i2) as [ws|e] eqn:E; [|discriminate].
  injection H as <-. exists ws. split; [reflexivity|]. now apply (hard_segments_kept base _ true i1 i2).
Qed.
