(* C01: a table row as the renderer writes it ("| c1 | c2 |", pipes inside cells written as backslash-pipe)
   is split by a GFM reader (Model/BlockRead.v) into exactly the same cells, whatever characters the cells
   hold (pipes, backslashes), and the normalised delimiter row keeps every column's alignment. *)
From Coq Require Import List NArith Bool Arith Lia.
Import ListNotations.
From Base Require Import PyStr.
From Model Require Import Render BlockRead.
From Proofs Require Import WrapProofs RenderProofs FenceProofs DestProofs.
Local Open Scope N_scope.

Definition esc_cell (t : str) : str := str_replace [124] [bsl; 124] t.

Lemma split_bs x cur : match x with 124 :: _ => False | _ => True end ->
  split_cells (92 :: x) cur = split_cells x (92 :: cur).
Proof.
  intros H. cbn [split_cells]. change (92 =? 92) with true. cbv iota.
  destruct x as [|y ys]; [reflexivity|]. destruct y as [|p]; [reflexivity|].
  destruct (N.eqb_spec (N.pos p) 124) as [E|N124]; [injection E as ->; destruct H|].
  repeat (destruct p as [p|p|]; try reflexivity; try congruence).
Qed.

(* reading an escaped cell up to the next (unescaped) pipe; what follows the cell text does not start with a pipe *)
Lemma split_cells_cell t : forall cur tail,
  match tail with c :: _ => c <> 124 | [] => True end ->
  split_cells (flat_map (rep1 124 [92; 124]) t ++ tail) cur = split_cells tail (rev t ++ cur).
Proof.
  induction t as [|c r IH]; intros cur tail Ht; [reflexivity|].
  cbn [flat_map]. unfold rep1 at 1. destruct (N.eqb_spec c 124) as [->|Hc].
  - cbn [app split_cells]. change (92 =? 92) with true. cbv iota. rewrite IH by exact Ht.
    cbn [rev]. now rewrite <- app_assoc.
  - cbn [app]. destruct (N.eqb_spec c 92) as [->|H92].
    + (* a backslash of the cell: whatever follows in the written text is not a bare pipe *)
      rewrite split_bs.
      * rewrite IH by exact Ht. cbn [rev]. now rewrite <- app_assoc.
      * destruct r as [|d r']; cbn [flat_map app].
        -- destruct tail as [|x tl]; [exact I|]. destruct x as [|p]; [exact I|].
           destruct (N.eqb_spec (N.pos p) 124) as [E|_]; [congruence|].
           repeat (destruct p as [p|p|]; try exact I; try congruence).
        -- unfold rep1 at 1. destruct (N.eqb_spec d 124) as [->|Hd]; [exact I|]. cbn [app].
           destruct d as [|p]; [exact I|]. repeat (destruct p as [p|p|]; try exact I; try congruence).
    + cbn [split_cells]. apply N.eqb_neq in Hc, H92. rewrite H92, Hc. rewrite IH by exact Ht. cbn [rev]. now rewrite <- app_assoc.
Qed.

(* cells separated by " | ", the row closed by " |" *)
Fixpoint row_tail (ts : list str) : str :=
  match ts with
  | [] => []
  | [t] => esc_cell t ++ [32; 124]
  | t :: r => esc_cell t ++ [32; 124; 32] ++ row_tail r
  end.

Lemma split_row_tail ts : ts <> [] -> forall cur,
  exists first, split_cells (row_tail ts) cur = first :: map (fun t => [32] ++ t ++ [32]) (tl ts) ++ [[]]
                /\ first = rev cur ++ hd [] ts ++ [32].
Proof.
  induction ts as [|t r IH]; intros Hne cur; [congruence|].
  destruct r as [|t2 r2].
  - cbn [row_tail tl map app hd]. unfold esc_cell. rewrite str_replace_single.
    rewrite split_cells_cell by (cbn; discriminate).
    cbn [split_cells]. change (32 =? 92) with false. change (32 =? 124) with false. cbv iota.
    cbn [split_cells]. change (124 =? 92) with false. change (124 =? 124) with true. cbv iota.
    eexists. split; [reflexivity|]. cbn [rev]. rewrite rev_app_distr, rev_involutive. cbn [rev app]. now rewrite <- app_assoc.
  - change (row_tail (t :: t2 :: r2)) with (esc_cell t ++ [32; 124; 32] ++ row_tail (t2 :: r2)).
    unfold esc_cell at 1. rewrite str_replace_single.
    rewrite split_cells_cell by (cbn; discriminate).
    cbn [app split_cells]. change (32 =? 92) with false. change (32 =? 124) with false. cbv iota.
    cbn [split_cells]. change (124 =? 92) with false. change (124 =? 124) with true. cbv iota.
    cbn [split_cells]. change (32 =? 92) with false. change (32 =? 124) with false. cbv iota.
    destruct (IH ltac:(discriminate) [32]) as [f [Hf Ef]]. rewrite Hf.
    eexists. split; [|reflexivity].
    cbn [tl map hd] in *. subst f. cbn [rev app].
    rewrite rev_app_distr, rev_involutive. cbn [rev app]. rewrite <- app_assoc. reflexivity.
Qed.

Lemma trim_padded t : clean_ends t -> trim ([32] ++ t ++ [32]) = t.
Proof.
  intros [H1 H2]. unfold trim, rstrip_chars. cbn [app lstrip_chars]. change (is_sptab 32) with true. cbv iota.
  destruct t as [|c r].
  - reflexivity.
  - cbn [app lstrip_chars]. cbn in H1. rewrite H1.
    change (c :: r ++ [32]) with ((c :: r) ++ [32]). rewrite rev_app_distr. cbn [rev app lstrip_chars].
    change (is_sptab 32) with true. cbv iota.
    change (rev r ++ [c]) with (rev (c :: r)). rewrite (lstrip_chars_clean _ (rev (c :: r)) H2). apply rev_involutive.
Qed.

Theorem table_row_roundtrip ts : ts <> [] -> Forall clean_ends ts ->
  read_row ([124; 32] ++ row_tail ts) = Some ts.
Proof.
  intros Hne Hc. unfold read_row. cbn [app].
  change (32 :: row_tail ts) with ([32] ++ row_tail ts).
  destruct ts as [|t r]; [congruence|].
  assert (E : split_cells ([32] ++ row_tail (t :: r)) [] = map (fun t => [32] ++ t ++ [32]) (t :: r) ++ [[]]).
  { cbn [app split_cells]. change (32 =? 92) with false. change (32 =? 124) with false. cbv iota.
    destruct (split_row_tail (t :: r) ltac:(discriminate) [32]) as [f [Hf Ef]]. rewrite Hf. subst f. reflexivity. }
  rewrite E. rewrite removelast_last. f_equal.
  rewrite map_map. rewrite <- (map_id (t :: r)) at 2.
  apply map_ext_in. intros x Hx. rewrite Forall_forall in Hc. now apply trim_padded, Hc.
Qed.


(* the row exactly as render_row writes it *)
Lemma join_row ts : ts <> [] -> join bar_sep (map esc_cell ts) ++ [32; 124] = row_tail ts.
Proof.
  induction ts as [|t r IH]; intros Hne; [congruence|].
  destruct r as [|t2 r2]; [reflexivity|].
  change (join bar_sep (map esc_cell (t :: t2 :: r2))) with (esc_cell t ++ bar_sep ++ join bar_sep (map esc_cell (t2 :: r2))).
  change (row_tail (t :: t2 :: r2)) with (esc_cell t ++ [32; 124; 32] ++ row_tail (t2 :: r2)).
  rewrite <- (IH ltac:(discriminate)). unfold bar_sep. now rewrite <- !app_assoc.
Qed.

Theorem rendered_row_read_back ts : ts <> [] -> Forall clean_ends ts ->
  read_row ([124; 32] ++ join bar_sep (map esc_cell ts) ++ [32; 124]) = Some ts.
Proof. intros Hne Hc. rewrite join_row by exact Hne. now apply table_row_roundtrip. Qed.

(* the delimiter row keeps every column's alignment *)
Theorem delimiter_alignment d : alignment (delim_norm d) = alignment d.
Proof.
  unfold alignment, delim_norm.
  destruct (startswith d [58]) eqn:Es, (endswith d [58]) eqn:Ee; reflexivity.
Qed.

(* a cell that holds pipes and backslashes *)
Example row_with_pipes :
  read_row ([124; 32] ++ join bar_sep (map esc_cell [[97; 124; 98]; [92; 124]; [99; 92]]) ++ [32; 124])
  = Some [[97; 124; 98]; [92; 124]; [99; 92]].
Proof. vm_compute. reflexivity. Qed.
