(* C08: smart_quotes is a pointwise, quote-only, length-preserving rewrite that copies
   template tags.  The proof depends on the generated regexes only through boolean shape
   certificates (quote_shape, whole_group_shape), never on their concrete text. *)
From Coq Require Import List NArith Bool Arith Lia.
Import ListNotations.
From Base Require Import PyStr Regex.
From Gen Require Import Regexes.
From Model Require Import Tags Typography.
From Proofs Require Import RegexFacts RegexSem.
Local Open Scope N_scope.

(* ---- the pointwise relation ---- *)
Definition qrel (a b : N) : bool :=
  (a =? b) || ((a =? apos) && ((b =? lsq) || (b =? rsq))) || ((a =? dquote) && ((b =? ldq) || (b =? rdq))).
Definition pw (s t : str) : Prop := Forall2 (fun a b => qrel a b = true) s t.

Lemma qrel_refl a : qrel a a = true.
Proof. unfold qrel. now rewrite N.eqb_refl. Qed.

Lemma pw_refl s : pw s s.
Proof. induction s; constructor; [apply qrel_refl|assumption]. Qed.

Lemma pw_app a b c d : pw a b -> pw c d -> pw (a ++ c) (b ++ d).
Proof. apply Forall2_app. Qed.

Lemma pw_length s t : pw s t -> length s = length t.
Proof. induction 1; cbn; congruence. Qed.

Lemma qrel_trans a b c : qrel a b = true -> qrel b c = true -> qrel a c = true.
Proof.
  unfold qrel, apos, dquote, lsq, rsq, ldq, rdq.
  intros H1 H2.
  repeat (rewrite ?orb_true_iff, ?andb_true_iff, ?N.eqb_eq in *).
  intuition (subst; try discriminate; auto 10).
Qed.

Lemma pw_trans s t u : pw s t -> pw t u -> pw s u.
Proof.
  intros H. revert u. induction H as [|a b s t Hab Hst IH]; intros u Hu; inversion Hu; subst; constructor.
  - eapply qrel_trans; eauto.
  - now apply IH.
Qed.

Lemma pw_concat (l1 l2 : list str) : Forall2 pw l1 l2 -> pw (concat l1) (concat l2).
Proof. induction 1; cbn; [constructor|now apply pw_app]. Qed.

(* ---- captures ---- *)
Definition cap_of (st : mstate) (i : nat) : option (nat * str) := nth i (caps st) None.

Lemma nth_set_nth_same {A} (l : list A) i x d : (i < length l)%nat -> nth i (set_nth i x l) d = x.
Proof. revert i; induction l as [|h l IH]; intros [|i] H; cbn in *; try lia; auto. apply IH. lia. Qed.
Lemma nth_set_nth_other {A} (l : list A) i j x d : i <> j -> nth j (set_nth i x l) d = nth j l d.
Proof.
  revert i j; induction l as [|h l IH]; intros [|i] [|j] H; cbn; try reflexivity; try congruence.
  apply IH. congruence.
Qed.
Lemma set_nth_length {A} (l : list A) i x : length (set_nth i x l) = length l.
Proof. revert i; induction l as [|h l IH]; intros [|i]; cbn; auto. Qed.

Lemma matches_caps_length :
  (forall r st st', Matches r st st' -> length (caps st') = length (caps st)) /\
  (forall r st st', MatchesRep r st st' -> length (caps st') = length (caps st)) /\
  (forall t st st', LitAdv t st st' -> length (caps st') = length (caps st)).
Proof.
  apply Matches_mutind; intros; cbn; try reflexivity; try congruence.
  all: try (rewrite set_nth_length; assumption).
  all: try exact H.
Qed.

(* a capturing group around a group-free body records exactly the text its body consumed *)
Lemma group_capture i r st st1 : no_groups r = true -> Matches (RGroup i r) st st1 ->
  (i < length (caps st))%nat ->
  exists t, adv t st st1 /\ cap_of st1 i = Some (pos st, t) /\
            (forall j, j <> i -> cap_of st1 j = cap_of st j) /\ length (caps st1) = length (caps st).
Proof.
  intros N M L.
  inversion M as [? ? ? ? ? Hc| | | | | |? ? ? inner Hin| | | | |]; subst; [cbn in Hc; discriminate|].
  destruct (proj1 matches_adv _ _ _ Hin) as [t A].
  pose proof (proj1 no_groups_caps _ _ _ Hin N) as C.
  exists t. split; [now apply adv_set_cap|].
  unfold cap_of, set_cap. cbn [caps]. rewrite C. split; [|split].
  - rewrite nth_set_nth_same by assumption. f_equal. f_equal. symmetry. now apply adv_text.
  - intros j Hj. apply nth_set_nth_other. congruence.
  - now rewrite set_nth_length.
Qed.

Lemma lit_match c st st1 : Matches (RLit c) st st1 ->
  adv [c] st st1 /\ caps st1 = caps st.
Proof.
  intros M. inversion M as [? ? ? ? ? Hc Hr Hp| | | | | | | | | | |]; subst. cbn in Hc. injection Hc as <-.
  apply N.eqb_eq in Hp. subst. split; [split; [assumption|cbn; lia]|reflexivity].
Qed.

(* a positive look-ahead with a group-free body consumes nothing and sets no group *)
Lemma look_match d st st1 : no_groups d = true -> Matches (RLook false d) st st1 ->
  adv [] st st1 /\ caps st1 = caps st.
Proof.
  intros N M.
  inversion M as [? ? ? ? ? Hc| | | | | | | |? ? inner Hin| | |]; subst; [cbn in Hc; discriminate|].
  pose proof (proj1 no_groups_caps _ _ _ Hin N) as C.
  unfold with_caps. cbn [caps]. split; [|exact C]. split; [reflexivity|cbn; lia].
Qed.

(* ---- QUOTE_PATTERN: shape certificate and what a match looks like ---- *)
Definition quote_parts (r : regex) : option (regex * regex * regex * regex) :=
  match r with
  | RCat (RGroup 1 a)
      (RCat (RAlt (RCat (RLit 34) (RCat (RGroup 2 b) (RLit 34)))
                  (RCat (RLit 39) (RCat (RGroup 3 c) (RLit 39))))
            (RLook false d)) => Some (a, b, c, d)
  | _ => None
  end.

Definition quote_shape (r : regex) : bool :=
  match quote_parts r with
  | Some (a, b, c, d) => no_groups a && no_groups b && no_groups c && no_groups d
  | None => false
  end.

Lemma quote_parts_eq r a b c d : quote_parts r = Some (a, b, c, d) ->
  r = RCat (RGroup 1 a)
        (RCat (RAlt (RCat (RLit 34) (RCat (RGroup 2 b) (RLit 34)))
                    (RCat (RLit 39) (RCat (RGroup 3 c) (RLit 39))))
              (RLook false d)).
Proof.
  unfold quote_parts.
  repeat match goal with
  | |- match ?x with _ => _ end = _ -> _ => destruct x; try discriminate
  end.
  intros [= <- <- <- <-]. reflexivity.
Qed.

Lemma quote_match r st0 st1 : quote_shape r = true ->
  Matches r st0 st1 -> (4 <= length (caps st0))%nat ->
  cap_of st0 2%nat = None -> cap_of st0 3%nat = None ->
  exists g1 q c,
    adv (g1 ++ [q] ++ c ++ [q]) st0 st1 /\
    (exists s, cap_of st1 1%nat = Some (s, g1)) /\
    ((q = dquote /\ (exists s, cap_of st1 2%nat = Some (s, c))) \/
     (q = apos /\ cap_of st1 2%nat = None /\ (exists s, cap_of st1 3%nat = Some (s, c)))).
Proof.
  intros S M L C2 C3. unfold quote_shape in S.
  destruct (quote_parts r) as [[[[a b] c] d]|] eqn:QP; [|discriminate].
  apply quote_parts_eq in QP. subst r.
  apply andb_true_iff in S as [S Nd]. apply andb_true_iff in S as [S Nc]. apply andb_true_iff in S as [Na Nb].
  inversion M as [| |? ? ? sA ? MA MX| | | | | | | | |]; subst; [cbn in *; discriminate|].
  destruct (group_capture _ _ _ _ Na MA ltac:(lia)) as [g1 [A1 [K1 [O1 L1]]]].
  inversion MX as [| |? ? ? sB ? MAlt MD| | | | | | | | |]; subst; [cbn in *; discriminate|].
  destruct (look_match _ _ _ Nd MD) as [Ad Cd].
  inversion MAlt as [| | |? ? ? ? ML|? ? ? ? MR| | | | | | |]; subst; [cbn in *; discriminate| |].
  - (* double quotes *)
    inversion ML as [| |? ? ? s1 ? Mq1 Mrest| | | | | | | | |]; subst; [cbn in *; discriminate|].
    destruct (lit_match _ _ _ Mq1) as [Aq1 Cq1].
    inversion Mrest as [| |? ? ? s2 ? Mb Mq2| | | | | | | | |]; subst; [cbn in *; discriminate|].
    assert (L2 : (2 < length (caps s1))%nat) by (rewrite Cq1; lia).
    destruct (group_capture _ _ _ _ Nb Mb L2) as [cc [Ab [Kb [Ob Lb]]]].
    destruct (lit_match _ _ _ Mq2) as [Aq2 Cq2].
    exists g1, dquote, cc. split; [|split].
    + replace (g1 ++ [dquote] ++ cc ++ [dquote]) with (g1 ++ [dquote] ++ cc ++ [dquote] ++ []) by now rewrite app_nil_r.
      eapply adv_trans; [exact A1|]. eapply adv_trans; [exact Aq1|]. eapply adv_trans; [exact Ab|].
      eapply adv_trans; [exact Aq2|exact Ad].
    + exists (pos st0). unfold cap_of. rewrite Cd, Cq2. fold (cap_of s2 1).
      rewrite Ob by lia. unfold cap_of. rewrite Cq1. exact K1.
    + left. split; [reflexivity|]. exists (pos s1). unfold cap_of. rewrite Cd, Cq2. exact Kb.
  - (* single quotes *)
    inversion MR as [| |? ? ? s1 ? Mq1 Mrest| | | | | | | | |]; subst; [cbn in *; discriminate|].
    destruct (lit_match _ _ _ Mq1) as [Aq1 Cq1].
    inversion Mrest as [| |? ? ? s2 ? Mb Mq2| | | | | | | | |]; subst; [cbn in *; discriminate|].
    assert (L3 : (3 < length (caps s1))%nat) by (rewrite Cq1; lia).
    destruct (group_capture _ _ _ _ Nc Mb L3) as [cc [Ab [Kb [Ob Lb]]]].
    destruct (lit_match _ _ _ Mq2) as [Aq2 Cq2].
    exists g1, apos, cc. split; [|split].
    + replace (g1 ++ [apos] ++ cc ++ [apos]) with (g1 ++ [apos] ++ cc ++ [apos] ++ []) by now rewrite app_nil_r.
      eapply adv_trans; [exact A1|]. eapply adv_trans; [exact Aq1|]. eapply adv_trans; [exact Ab|].
      eapply adv_trans; [exact Aq2|exact Ad].
    + exists (pos st0). unfold cap_of. rewrite Cd, Cq2. fold (cap_of s2 1).
      rewrite Ob by lia. unfold cap_of. rewrite Cq1. exact K1.
    + right. split; [reflexivity|]. split.
      * unfold cap_of. rewrite Cd, Cq2. fold (cap_of s2 2). rewrite Ob by lia.
        unfold cap_of. rewrite Cq1. fold (cap_of sA 2). rewrite O1 by lia. exact C2.
      * exists (pos s1). unfold cap_of. rewrite Cd, Cq2. exact Kb.
Qed.

(* ---- generic lifting through mapM / re_subM ---- *)
Lemma mapM_inl {A B} (f : A -> M B) l ys : mapM f l = inl ys -> Forall2 (fun x y => f x = inl y) l ys.
Proof.
  revert ys; induction l as [|x l IH]; intros ys H; cbn in H.
  - injection H as <-. constructor.
  - unfold bind in H. destruct (f x) as [y|] eqn:E; [|discriminate].
    destruct (mapM f l) as [ys'|]; [|discriminate]. injection H as <-.
    constructor; [assumption|now apply IH].
Qed.

Lemma re_subM_pw p f s out :
  (forall st0 st1 r, Matches (p_re p) (with_caps st0 (repeat None (p_ngroups p))) st1 ->
     f (mk_match st0 st1) = inl r -> pw (m_text (mk_match st0 st1)) r) ->
  re_subM p f s = inl out -> pw s out.
Proof.
  intros HF H. unfold re_subM in H. cbv zeta in H.
  destruct (finditer_t_decomp p s) as [D FA].
  set (dec := finditer_t p s) in *. unfold bind in H.
  match type of H with match ?mm with _ => _ end = _ => destruct mm as [parts|] eqn:E end; [|discriminate].
  injection H as <-. rewrite <- D at 1. apply pw_app; [|apply pw_refl].
  apply mapM_inl in E. clear D. revert parts E.
  induction FA as [|gap st0 st1 l MM FA IH]; intros parts E; inversion E; subst; cbn; [constructor|].
  apply pw_app; [|now apply IH].
  cbn [fst snd] in *. unfold bind in H1. destruct (f (mk_match st0 st1)) as [r|] eqn:F; [|discriminate].
  injection H1 as <-. apply pw_app; [apply pw_refl|]. now apply HF.
Qed.

(* ---- the quote callback ---- *)
Lemma mk_match_group st0 st1 i : (1 <= i)%nat ->
  group (mk_match st0 st1) i = match cap_of st1 i with Some (_, t) => Some t | None => None end.
Proof. intros H. unfold group, mk_match, cap_of. cbn. destruct i; [lia|reflexivity]. Qed.

Lemma cap_of_repeat_none n i : nth i (repeat (@None (nat * str)) n) None = None.
Proof. revert i; induction n; intros [|i]; cbn; auto. Qed.

Lemma pw_quoted g1 c q l r : qrel q l = true -> qrel q r = true ->
  pw (g1 ++ [q] ++ c ++ [q]) (g1 ++ [l] ++ c ++ [r]).
Proof.
  intros Hl Hr. apply pw_app; [apply pw_refl|]. apply pw_app; [repeat constructor; assumption|].
  apply pw_app; [apply pw_refl|]. repeat constructor; assumption.
Qed.

Lemma replace_quotes_pw st0 st1 r :
  quote_shape (p_re re_quote) = true -> (4 <= p_ngroups re_quote)%nat ->
  Matches (p_re re_quote) (with_caps st0 (repeat None (p_ngroups re_quote))) st1 ->
  replace_quotes (mk_match st0 st1) = inl r -> pw (m_text (mk_match st0 st1)) r.
Proof.
  intros S N5 MM H.
  destruct (quote_match _ _ _ S MM) as [g1 [q [c [A [[s1 K1] K23]]]]].
  - unfold with_caps. cbn [caps]. now rewrite repeat_length.
  - unfold cap_of, with_caps. cbn [caps]. apply cap_of_repeat_none.
  - unfold cap_of, with_caps. cbn [caps]. apply cap_of_repeat_none.
  - assert (A' : adv (g1 ++ [q] ++ c ++ [q]) st0 st1) by (destruct A as [A1 A2]; split; assumption).
    destruct (mk_match_text _ _ _ A') as [T _].
    unfold replace_quotes in H.
    rewrite !mk_match_group in H by lia. rewrite K1 in H.
    rewrite T.
    destruct K23 as [[-> [s2 K2]]|[-> [K2 [s3 K3]]]].
    + rewrite K2 in H.
      destruct (is_multi_paragraph c).
      * injection H as <-. cbn [m_text mk_match]. rewrite <- (adv_text _ _ _ A'). apply pw_refl.
      * injection H as <-. apply (pw_quoted g1 c dquote ldq rdq); reflexivity.
    + rewrite K2, K3 in H.
      destruct (is_multi_paragraph c).
      * injection H as <-. cbn [m_text mk_match]. rewrite <- (adv_text _ _ _ A'). apply pw_refl.
      * injection H as <-. apply (pw_quoted g1 c apos lsq rsq); reflexivity.
Qed.

(* ---- re.split(r"(\s+)", ...): the pieces concatenate back ---- *)
Definition whole_group_shape (p : pattern) : bool :=
  match p_re p with
  | RGroup 1 r => no_groups r && Nat.eqb (p_ngroups p) 2
  | _ => false
  end.

Lemma split_pieces_concat p s : whole_group_shape p = true ->
  concat (map opt_str (re_split_t p s)) = s.
Proof.
  intros S. unfold whole_group_shape in S.
  destruct (p_re p) as [| | | | | | | | |i r| | | |] eqn:ER; try discriminate.
  destruct i as [|[|i]]; try discriminate.
  apply andb_true_iff in S as [Nr N2]. apply Nat.eqb_eq in N2.
  unfold re_split_t, re_split.
  pose proof (finditer_never_out_of_fuel p s) as NF.
  destruct (finditer p s) as [[l tl]|] eqn:E; [|congruence].
  destruct (finditer_decomp p s l tl E) as [D FA]. rewrite <- D.
  rewrite map_app, concat_app. cbn [map concat opt_str]. rewrite app_nil_r. f_equal.
  rewrite N2. cbn [Nat.sub seq_from map].
  clear D E NF. induction FA as [|gap st0 st1 l' MM FA IH]; [reflexivity|].
  cbn [map concat app fst snd opt_str]. rewrite IH.
  replace (opt_str (group (mk_match st0 st1) 1)) with (m_text (mk_match st0 st1)); [now rewrite <- app_assoc|].
  rewrite ER in MM.
  destruct (group_capture 1 r _ _ Nr MM) as [t [A [K _]]].
  { unfold with_caps. cbn [caps]. rewrite repeat_length. lia. }
  assert (A' : adv t st0 st1) by (destruct A as [A1 A2]; split; assumption).
  destruct (mk_match_text _ _ _ A') as [T _]. rewrite T.
  rewrite mk_match_group by lia. rewrite K. reflexivity.
Qed.

Lemma replace_ch_pw w : pw w (replace_ch apos rsq w).
Proof.
  induction w as [|c w IH]; [constructor|]. cbn. constructor; [|assumption].
  destruct (c =? apos) eqn:E; [|apply qrel_refl].
  apply N.eqb_eq in E. subst. reflexivity.
Qed.

Lemma fix_word_pw w : pw w (fix_word w).
Proof.
  unfold fix_word. destruct (py_isspace w); [apply pw_refl|].
  destruct (Nat.eqb (count_ch apos w) 1); [|apply pw_refl].
  destruct (has_match re_sq_contraction w); [apply replace_ch_pw|].
  destruct (has_match_start re_sq_possessive w); [apply replace_ch_pw|apply pw_refl].
Qed.

(* ---- the certificates over the generated patterns ---- *)
Definition typo_cert : bool :=
  quote_shape (p_re re_quote) && Nat.leb 4 (p_ngroups re_quote) && whole_group_shape re_sq_split.

Theorem apply_smart_quotes_pw text out : typo_cert = true ->
  apply_smart_quotes_to_text text = inl out -> pw text out.
Proof.
  intros C H. unfold typo_cert in C.
  apply andb_true_iff in C as [C C3]. apply andb_true_iff in C as [C1 C2]. apply Nat.leb_le in C2.
  unfold apply_smart_quotes_to_text, bind in H.
  destruct (re_subM re_quote replace_quotes text) as [result|] eqn:E; [|discriminate].
  injection H as <-.
  apply pw_trans with (t := result).
  - eapply re_subM_pw; [|exact E]. intros st0 st1 r MM F. now apply replace_quotes_pw.
  - rewrite <- (split_pieces_concat re_sq_split result C3) at 1.
    apply pw_concat. induction (re_split_t re_sq_split result) as [|o l IH]; [constructor|].
    cbn [map]. constructor; [|assumption]. destruct o; [apply fix_word_pw|apply pw_refl].
Qed.

(* C08.1 + C08.2: smart_quotes is pointwise / length preserving, and every template tag found
   by TEMPLATE_TAG_PATTERN.finditer is copied unchanged at the same position *)
Theorem smart_quotes_spec text out : typo_cert = true ->
  smart_quotes text = inl out ->
  pw text out /\
  exists gaps gaps' tags tl tl',
    map (fun gm => (fst gm, m_text (snd gm))) (fst (finditer_t re_template_tag text)) = combine gaps tags /\
    length gaps = length tags /\ length gaps' = length tags /\
    text = concat (map (fun gt => fst gt ++ snd gt) (combine gaps tags)) ++ tl /\
    out = concat (map (fun gt => fst gt ++ snd gt) (combine gaps' tags)) ++ tl' /\
    Forall2 pw gaps gaps' /\ pw tl tl'.
Proof.
  intros C H. unfold smart_quotes in H. cbv zeta in H.
  destruct (finditer_t_decomp re_template_tag text) as [D _].
  set (dec := finditer_t re_template_tag text) in *. unfold bind in H.
  match type of H with match ?mm with _ => _ end = _ => destruct mm as [parts|] eqn:E end; [|discriminate].
  match type of H with match ?mm with _ => _ end = _ => destruct mm as [tl'|] eqn:ET end; [|discriminate].
  injection H as <-.
  assert (PT : pw (snd dec) tl').
  { destruct (snd dec) as [|c g] eqn:S; [injection ET as <-; constructor|].
    now apply apply_smart_quotes_pw in ET. }
  apply mapM_inl in E.
  assert (G : exists gaps', length gaps' = length (fst dec) /\
            Forall2 pw (map fst (fst dec)) gaps' /\
            parts = map (fun gt => fst gt ++ snd gt) (combine gaps' (map (fun gm => m_text (snd gm)) (fst dec)))).
  { clear D ET PT. revert parts E. induction (fst dec) as [|gm l IH]; intros parts E; inversion E; subst.
    - exists []. repeat split; constructor.
    - destruct (IH _ H3) as [gs [L [F P]]]. unfold bind in H1.
      destruct gm as [g0 mm0]. cbn [fst snd] in *.
      match type of H1 with match ?mm with _ => _ end = _ => destruct mm as [b|] eqn:EB end; [|discriminate].
      injection H1 as <-. exists (b :: gs). cbn. repeat split; [now rewrite L| |now rewrite P].
      constructor; [|assumption].
      destruct g0 as [|c g]; [injection EB as <-; constructor|].
      now apply apply_smart_quotes_pw in EB. }
  destruct G as [gaps' [L [F P]]].
  assert (CM : forall (l : list (str * mmatch)),
     map (fun gm => (fst gm, m_text (snd gm))) l = combine (map fst l) (map (fun gm => m_text (snd gm)) l)).
  { induction l as [|x l IHl]; [reflexivity|]. cbn. now rewrite IHl. }
  assert (TXT : text = concat (map (fun gt => fst gt ++ snd gt)
                   (combine (map fst (fst dec)) (map (fun gm => m_text (snd gm)) (fst dec)))) ++ snd dec).
  { rewrite <- D at 1. f_equal. f_equal. rewrite <- CM, map_map. reflexivity. }
  split.
  - rewrite TXT at 1. rewrite P. apply pw_app; [|assumption]. apply pw_concat.
    clear - F. revert gaps' F. induction (fst dec) as [|gm l IH]; intros gaps' F; inversion F; subst; cbn; [constructor|].
    constructor; [|now apply IH]. cbn. apply pw_app; [assumption|apply pw_refl].
  - exists (map fst (fst dec)), gaps', (map (fun gm => m_text (snd gm)) (fst dec)), (snd dec), tl'.
    split; [apply CM|]. split; [now rewrite !map_length|]. split; [now rewrite map_length|].
    split; [exact TXT|]. split; [now rewrite P|]. split; assumption.
Qed.

(* ---- smart_quotes never raises (the TypeError sites of the callback are unreachable) ---- *)
Lemma mapM_total {A B} (f : A -> M B) (P : A -> Prop) l :
  Forall P l -> (forall x, P x -> exists y, f x = inl y) -> exists ys, mapM f l = inl ys.
Proof.
  intros HF HP. induction HF as [|x l Hx _ [ys IH]]; [exists []; reflexivity|].
  destruct (HP x Hx) as [y Hy]. exists (y :: ys). cbn. unfold bind. now rewrite Hy, IH.
Qed.

Lemma FoundAll_Forall p l : FoundAll p l ->
  Forall (fun gm => exists st0 st1, snd gm = mk_match st0 st1 /\
            Matches (p_re p) (with_caps st0 (repeat None (p_ngroups p))) st1) l.
Proof. induction 1; constructor; [exists st0, st1; auto|assumption]. Qed.

Lemma replace_quotes_total st0 st1 :
  quote_shape (p_re re_quote) = true -> (4 <= p_ngroups re_quote)%nat ->
  Matches (p_re re_quote) (with_caps st0 (repeat None (p_ngroups re_quote))) st1 ->
  exists r, replace_quotes (mk_match st0 st1) = inl r.
Proof.
  intros S N5 MM.
  destruct (quote_match _ _ _ S MM) as [g1 [q [c [A [[s1 K1] K23]]]]].
  - unfold with_caps. cbn [caps]. now rewrite repeat_length.
  - unfold cap_of, with_caps. cbn [caps]. apply cap_of_repeat_none.
  - unfold cap_of, with_caps. cbn [caps]. apply cap_of_repeat_none.
  - unfold replace_quotes. rewrite !mk_match_group by lia. rewrite K1.
    destruct K23 as [[-> [s2 K2]]|[-> [K2 [s3 K3]]]].
    + rewrite K2. destruct (is_multi_paragraph c); eexists; reflexivity.
    + rewrite K2, K3. destruct (is_multi_paragraph c); eexists; reflexivity.
Qed.

Theorem apply_smart_quotes_total text : typo_cert = true ->
  exists out, apply_smart_quotes_to_text text = inl out.
Proof.
  intros C. unfold typo_cert in C.
  apply andb_true_iff in C as [C C3]. apply andb_true_iff in C as [C1 C2]. apply Nat.leb_le in C2.
  unfold apply_smart_quotes_to_text, re_subM. cbv zeta.
  destruct (finditer_t_decomp re_quote text) as [_ FA]. apply FoundAll_Forall in FA.
  destruct (mapM_total (fun gm => r <- replace_quotes (snd gm) ;; ret (fst gm ++ r)) _ _ FA) as [parts HP].
  { intros [g mm0] [st0 [st1 [E MM]]]. cbn [fst snd] in *. subst mm0.
    destruct (replace_quotes_total st0 st1 C1 C2 MM) as [r Hr].
    exists (g ++ r). unfold bind. rewrite Hr. reflexivity. }
  unfold bind at 2. rewrite HP. cbn. eexists. reflexivity.
Qed.

Theorem smart_quotes_total text : typo_cert = true -> exists out, smart_quotes text = inl out.
Proof.
  intros C. unfold smart_quotes. cbv zeta.
  set (dec := finditer_t re_template_tag text).
  destruct (mapM_total (fun gm => b <- (match fst gm with [] => ret [] | g => apply_smart_quotes_to_text g end) ;;
                                  ret (b ++ m_text (snd gm))) (fun _ => True) (fst dec)) as [parts HP].
  { apply Forall_forall. auto. }
  { intros gm _. destruct (fst gm) as [|c g]; [eexists; reflexivity|].
    destruct (apply_smart_quotes_total (c :: g) C) as [b Hb]. exists (b ++ m_text (snd gm)).
    unfold bind. now rewrite Hb. }
  unfold bind at 1. rewrite HP.
  destruct (snd dec) as [|c g]; [eexists; reflexivity|].
  destruct (apply_smart_quotes_total (c :: g) C) as [b Hb]. unfold bind. rewrite Hb. eexists. reflexivity.
Qed.
