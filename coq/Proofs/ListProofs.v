(* C01: the marker of an ordered list item as the renderer writes it (the number in decimal, a period,
   a space) is read back by a CommonMark reader (Model/BlockRead.v) as the same number, and the width the
   reader assigns to the marker is the continuation indent the renderer uses for the item's further
   lines - for every number a list item can carry (below 10^9). *)
From Coq Require Import List NArith ZArith Bool Arith Lia.
Import ListNotations.
From Base Require Import PyStr.
From Model Require Import Render BlockRead.
From Proofs Require Import WrapProofs.
Local Open Scope N_scope.

Lemma dec_aux_acc fuel : forall n acc, dec_aux fuel n acc = dec_aux fuel n [] ++ acc.
Proof.
  induction fuel as [|f IH]; intros n acc; cbn [dec_aux]; [reflexivity|].
  destruct (n <? 10); [reflexivity|]. rewrite (IH (n / 10) (48 + n mod 10 :: acc)), (IH (n / 10) [48 + n mod 10]).
  now rewrite <- app_assoc.
Qed.

Lemma parse_dec_app x y a : parse_dec (x ++ y) a = parse_dec y (parse_dec x a).
Proof. revert a. induction x as [|c r IH]; intros a; cbn; [reflexivity|apply IH]. Qed.

Definition all_digits (s : str) : Prop := Forall (fun c => is_ascii_digit c = true) s.

Lemma digit_char d : d < 10 -> is_ascii_digit (48 + d) = true /\ 48 + d - 48 = d.
Proof. intros H. unfold is_ascii_digit. split; [apply andb_true_iff; split; apply N.leb_le; lia|lia]. Qed.

(* value, shape and length of the decimal spelling *)
Lemma dec_aux_spec fuel : forall n, (0 < fuel)%nat -> n < 10 ^ N.of_nat fuel ->
  parse_dec (dec_aux fuel n []) 0 = n /\ all_digits (dec_aux fuel n []) /\
  (1 <= length (dec_aux fuel n []) <= fuel)%nat.
Proof.
  induction fuel as [|f IH]; intros n Hf Hn; [lia|].
  cbn [dec_aux]. destruct (N.ltb_spec n 10) as [Hlt|Hge].
  - destruct (digit_char (n mod 10)) as [Hd Hv]; [apply N.mod_lt; lia|].
    rewrite N.mod_small in Hd, Hv by exact Hlt. rewrite (N.mod_small n 10) by exact Hlt.
    split; [cbn [parse_dec]; rewrite Hv; lia|]. split; [repeat constructor; exact Hd|cbn [length]; lia].
  - assert (Hq : n / 10 < 10 ^ N.of_nat f).
    { rewrite Nat2N.inj_succ, N.pow_succ_r' in Hn. apply N.div_lt_upper_bound; lia. }
    assert (Hf' : (0 < f)%nat).
    { destruct f; [|lia]. cbn in Hq. assert (n / 10 = 0) by lia. pose proof (N.div_mod n 10). pose proof (N.mod_lt n 10). lia. }
    destruct (IH (n / 10) Hf' Hq) as [Hval [Hdig Hlen]].
    destruct (digit_char (n mod 10)) as [Hd Hv]; [apply N.mod_lt; lia|].
    rewrite dec_aux_acc. split; [|split].
    + rewrite parse_dec_app, Hval. cbn [parse_dec]. rewrite Hv.
      pose proof (N.div_mod n 10). lia.
    + apply Forall_app. split; [exact Hdig|repeat constructor; exact Hd].
    + rewrite app_length. cbn [length]. lia.
Qed.

(* a number below 10^k is spelled with at most k digits *)
Lemma dec_length_bound k : forall fuel n, (k <= fuel)%nat -> n < 10 ^ N.of_nat k ->
  (length (dec_aux fuel n []) <= Nat.max k 1)%nat.
Proof.
  induction k as [|k IH]; intros fuel n Hk Hn.
  - cbn in Hn. assert (n = 0) by lia. subst. destruct fuel; cbn; lia.
  - destruct fuel as [|f]; [lia|]. cbn [dec_aux]. destruct (N.ltb_spec n 10) as [Hlt|Hge]; [cbn; lia|].
    rewrite dec_aux_acc, app_length. cbn [length].
    assert (Hq : n / 10 < 10 ^ N.of_nat k).
    { rewrite Nat2N.inj_succ, N.pow_succ_r' in Hn. apply N.div_lt_upper_bound; lia. }
    pose proof (IH f (n / 10) ltac:(lia) Hq) as B.
    destruct k as [|k'].
    + cbn in Hq. assert (n / 10 = 0) by lia. pose proof (N.div_mod n 10). lia.
    + lia.
Qed.

Lemma digits_of_app ds rest : all_digits ds ->
  match rest with c :: _ => is_ascii_digit c = false | [] => True end -> digits_of (ds ++ rest) = ds.
Proof.
  intros Hd Hr. induction Hd as [|c r Hc _ IH]; cbn [app digits_of].
  - destruct rest as [|c r]; [reflexivity|]. cbn. now rewrite Hr.
  - rewrite Hc. now rewrite IH.
Qed.

Theorem ol_marker_roundtrip (num : Z) rest : (0 <= num < 10 ^ 9)%Z ->
  read_ol_marker (zstr num ++ [46; 32] ++ rest) = Some (Z.to_N num, (length (zstr num) + 2)%nat).
Proof.
  intros Hn.
  assert (Hspec : parse_dec (zstr num) 0 = Z.to_N num /\ all_digits (zstr num) /\ (1 <= length (zstr num) <= 9)%nat).
  { destruct num as [|p|p]; [cbn; repeat split; try lia; repeat constructor| |lia].
    unfold zstr, dec_of_N.
    assert (Hlt : N.pos p < 10 ^ N.of_nat 40).
    { apply N.lt_le_trans with (10 ^ 9); [lia|]. apply N.pow_le_mono_r; lia. }
    destruct (dec_aux_spec 40 (N.pos p) ltac:(lia) Hlt) as [Hv [Hd [Hl1 _]]].
    split; [exact Hv|]. split; [exact Hd|]. split; [exact Hl1|].
    pose proof (dec_length_bound 9 40 (N.pos p) ltac:(lia) ltac:(cbn; lia)). lia. }
  destruct Hspec as [Hv [Hd [Hl1 Hl9]]].
  unfold read_ol_marker. cbv zeta.
  rewrite (digits_of_app (zstr num) ([46; 32] ++ rest) Hd) by reflexivity.
  replace (Nat.eqb (length (zstr num)) 0 || Nat.ltb 9 (length (zstr num))) with false
    by (symmetry; apply orb_false_iff; split; [apply Nat.eqb_neq; lia|apply Nat.ltb_ge; lia]).
  rewrite skipn_len_app. cbn [app]. change ((46 =? 46) || (46 =? 41)) with true. cbv iota.
  now rewrite Hv.
Qed.

(* the continuation indent of the item is exactly the marker width the reader computes *)
Corollary ol_continuation_indent_is_marker_width (num : Z) rest : (0 <= num < 10 ^ 9)%Z ->
  exists w, read_ol_marker (zstr num ++ [46; 32] ++ rest) = Some (Z.to_N num, w) /\
            repeat sp w = repeat sp (length (zstr num) + 2).
Proof. intros H. eexists. split; [now apply ol_marker_roundtrip|reflexivity]. Qed.

Example marker_9_10 : read_ol_marker (zstr 9 ++ [46; 32; 120]) = Some (9, 3%nat) /\ read_ol_marker (zstr 10 ++ [46; 32; 120]) = Some (10, 4%nat).
Proof. split; vm_compute; reflexivity. Qed.

(* the number the renderer writes for the i-th item of a list starting at [start] (capped at nine digits,
   fix 5811206) is always in the range of the theorem: no hypothesis on the size of the list or its start *)
Corollary rendered_item_marker_read_back (i start : Z) rest : (0 <= i + start)%Z ->
  let num := Z.min (i + start) 999999999 in
  read_ol_marker (zstr num ++ [46; 32] ++ rest) = Some (Z.to_N num, (length (zstr num) + 2)%nat).
Proof. intros H num. apply ol_marker_roundtrip. unfold num. lia. Qed.

(* without the cap the statement fails: the tenth digit (the defect repaired by 5811206) *)
Example ten_digits_are_no_marker : read_ol_marker (zstr 1000000000 ++ [46; 32; 120]) = None.
Proof. vm_compute. reflexivity. Qed.
