(* C13 proofs: with init-once cells as the only shared state, every call returns what it
   returns alone, for every history and every interleaving. *)
From Coq Require Import List Bool Lia.
Import ListNotations.
From Model Require Import Session.

Section Machine.
  Variables (K V In Out : Type).
  Variable K_eqb : K -> K -> bool.
  Hypothesis K_eqb_spec : forall a b, K_eqb a b = true <-> a = b.
  Variable init : K -> V.
  Variable result : In -> list V -> Out.
  Variable prog : In -> list K.

  Notation session := (session K V).
  Notation read := (read K V K_eqb init).
  Notation tstep := (tstep K V In K_eqb init).
  Notation run := (run K V In K_eqb init).
  Notation start := (start K V In prog).
  Notation pure_call := (pure_call K V In Out init result prog).

  (* session invariant: a cell is empty or holds its call-independent constant *)
  Definition sinv (s : session) : Prop := forall k v, s k = Some v -> v = init k.

  Lemma read_value s k : sinv s -> snd (read s k) = init k /\ sinv (fst (read s k)).
  Proof.
    intros I. unfold Session.read. destruct (s k) as [v|] eqn:E; cbn.
    - split; [now apply I|assumption].
    - split; [reflexivity|]. intros k' v'. destruct (K_eqb k' k) eqn:Q.
      + apply K_eqb_spec in Q. subst. now intros [= <-].
      + apply I.
  Qed.

  (* thread invariant: what it has read so far are the constants of the cells it has passed *)
  Definition tinv (t : thread K V In) : Prop :=
    exists done, prog (t_in _ _ _ t) = done ++ t_todo _ _ _ t /\ t_seen _ _ _ t = map init done.

  Lemma start_inv i : tinv (start i).
  Proof. exists []. split; reflexivity. Qed.

  Lemma tstep_inv s t : sinv s -> tinv t -> sinv (fst (tstep s t)) /\ tinv (snd (tstep s t)).
  Proof.
    intros Is [done [E1 E2]]. unfold Session.tstep. destruct (t_todo _ _ _ t) as [|k rest] eqn:Et.
    - cbn. split; [assumption|]. exists done. now rewrite Et.
    - destruct (read_value s k Is) as [Rv Rs]. destruct (read s k) as [s' v]. cbn in *.
      split; [assumption|]. exists (done ++ [k]). cbn. split.
      + now rewrite E1, <- app_assoc.
      + rewrite E2, map_app. cbn. now rewrite Rv.
  Qed.

  Lemma set_nth_Forall {A} (P : A -> Prop) n x l : Forall P l -> P x -> Forall P (Session.set_nth n x l).
  Proof.
    revert n; induction l as [|h l IH]; intros [|n] Hl Hx; cbn; try constructor;
      inversion Hl; subst; auto.
  Qed.

  Lemma run_inv sched : forall s ts, sinv s -> Forall tinv ts ->
    sinv (fst (run sched s ts)) /\ Forall tinv (snd (run sched s ts)).
  Proof.
    induction sched as [|i rest IH]; intros s ts Is It; cbn; [auto|].
    destruct (nth_error ts i) as [t|] eqn:E; [|now apply IH].
    assert (Ht : tinv t).
    { rewrite Forall_forall in It. apply It. eapply nth_error_In; eauto. }
    destruct (tstep_inv s t Is Ht) as [A B]. destruct (tstep s t) as [s' t']. cbn in *.
    apply IH; [assumption|]. now apply set_nth_Forall.
  Qed.

  (* a finished thread has produced exactly the stand-alone result *)
  Lemma finished_output t : tinv t -> finished _ _ _ t = true ->
    output _ _ _ _ result t = pure_call (t_in _ _ _ t).
  Proof.
    intros [done [E1 E2]] F. unfold finished in F. destruct (t_todo _ _ _ t) eqn:Et; [|discriminate].
    unfold output, Session.pure_call. rewrite E1, ?Et, app_nil_r, E2. reflexivity.
  Qed.

  (* C13: any number of calls, any interleaving (schedule), starting from any session that
     earlier calls may have left behind: each finished call returns its stand-alone result *)
  Theorem schedule_independence (s0 : session) inputs sched :
    sinv s0 ->
    let ts := snd (run sched s0 (map start inputs)) in
    Forall (fun t => finished _ _ _ t = true -> output _ _ _ _ result t = pure_call (t_in _ _ _ t)) ts.
  Proof.
    intros I ts. subst ts.
    assert (F : Forall tinv (map start inputs)).
    { apply Forall_forall. intros t Ht. apply in_map_iff in Ht as [i [<- _]]. apply start_inv. }
    destruct (run_inv sched s0 (map start inputs) I F) as [_ B].
    eapply Forall_impl; [|exact B]. intros t Ht. now apply finished_output.
  Qed.

  Lemma empty_inv : sinv (empty K V).
  Proof. intros k v H. discriminate. Qed.

  (* history independence: running calls one after the other (each to completion) from a
     fresh process gives each its stand-alone result, whatever ran before *)
  Fixpoint run_to_end (fuel : nat) (s : session) (t : thread K V In) : session * thread K V In :=
    match fuel with
    | O => (s, t)
    | S f => let '(s', t') := tstep s t in run_to_end f s' t'
    end.

  Lemma run_to_end_inv fuel : forall s t, sinv s -> tinv t ->
    sinv (fst (run_to_end fuel s t)) /\ tinv (snd (run_to_end fuel s t)).
  Proof.
    induction fuel as [|f IH]; intros s t Is It; cbn; [auto|].
    destruct (tstep_inv s t Is It) as [A B]. destruct (tstep s t) as [s' t']. now apply IH.
  Qed.

  Lemma run_to_end_finished fuel : forall s t, length (t_todo _ _ _ t) <= fuel ->
    finished _ _ _ (snd (run_to_end fuel s t)) = true.
  Proof.
    induction fuel as [|f IH]; intros s t L; cbn.
    - unfold finished. destruct (t_todo _ _ _ t); [reflexivity|cbn in L; lia].
    - unfold Session.tstep. destruct (t_todo _ _ _ t) as [|k rest] eqn:E.
      + apply IH. rewrite E. cbn. lia.
      + destruct (read s k) as [s' v]. apply IH. cbn. cbn in L. lia.
  Qed.

  Fixpoint run_seq (s : session) (inputs : list In) : list Out :=
    match inputs with
    | [] => []
    | i :: rest =>
        let '(s', t) := run_to_end (length (prog i)) s (start i) in
        output _ _ _ _ result t :: run_seq s' rest
    end.

  Lemma tstep_in s t : t_in _ _ _ (snd (tstep s t)) = t_in _ _ _ t.
  Proof.
    unfold Session.tstep. destruct (t_todo _ _ _ t); [reflexivity|]. destruct (read s k). reflexivity.
  Qed.

  Lemma run_to_end_in fuel : forall s t, t_in _ _ _ (snd (run_to_end fuel s t)) = t_in _ _ _ t.
  Proof.
    induction fuel as [|f IH]; intros s t; cbn; [reflexivity|].
    pose proof (tstep_in s t) as E. destruct (tstep s t) as [s' t']. cbn in E. now rewrite IH.
  Qed.

  Theorem history_independence inputs : forall s, sinv s -> run_seq s inputs = map pure_call inputs.
  Proof.
    induction inputs as [|i rest IH]; intros s Is; cbn [run_seq map]; [reflexivity|].
    destruct (run_to_end_inv (length (prog i)) s (start i) Is (start_inv i)) as [A B].
    pose proof (run_to_end_finished (length (prog i)) s (start i) (le_n _)) as F.
    pose proof (run_to_end_in (length (prog i)) s (start i)) as Ein.
    destruct (run_to_end (length (prog i)) s (start i)) as [s' t]. cbn in *.
    rewrite (finished_output t B F), IH by assumption. now rewrite Ein.
  Qed.
End Machine.
