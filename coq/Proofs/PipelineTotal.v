(* C12: the model of fill_markdown never raises - for every input text, every option set and every
   answer of the parser whose tables have a header row.  Composition of: the typography rewrites are
   total and smart_quotes keeps the length (so the assertion of the across-inlines rewrite holds), the
   tree rewrites are total and keep the tables, the line wrappers are total, the renderer is total. *)
From Coq Require Import List NArith ZArith Bool Arith Lia.
Import ListNotations.
From Base Require Import PyStr CliTypes Regex.
From Gen Require Import Regexes.
From Model Require Import Ast Tags LineWrap Typography Transforms Render Pipeline Frontmatter.
From Proofs Require Import TypoProofs EllProofs RenderProofs RewriteProofs SpacingProofs TotalProofs WrapperTotal.

Definition all_certs : bool := typo_cert && ell_cert && tags_cert.

Section PT.
  Hypothesis certs : all_certs = true.

  Let Ctypo : typo_cert = true.
  Proof. unfold all_certs in certs. apply andb_true_iff in certs as [H _]. now apply andb_true_iff in H as [H _]. Qed.
  Let Cell : ell_cert = true.
  Proof. unfold all_certs in certs. apply andb_true_iff in certs as [H _]. now apply andb_true_iff in H as [_ H]. Qed.
  Let Ctags : tags_cert = true.
  Proof. unfold all_certs in certs. now apply andb_true_iff in certs as [_ H]. Qed.

  (* ---- generic: mapM of total functions ---- *)
  Lemma mapM_tot {A B} (f : A -> M B) l : (forall x, total (f x)) -> total (mapM f l).
  Proof.
    intros H. induction l as [|x l IH]; cbn; [apply total_ret|].
    apply total_bind; [apply H|]. intros y. apply total_bind; [exact IH|intros; apply total_ret].
  Qed.

  (* ---- rewrite_text_content with a total function ---- *)
  Lemma rc_inl_total f : (forall s, total (f s)) -> forall e, total (rc_inl f e).
  Proof.
    intros F. induction e as [s|s|b|s|s|l|k c IH] using inl_ind'; cbn; try apply total_ret.
    - apply total_bind; [apply F|intros; apply total_ret].
    - destruct (ik_container k); [|apply total_ret].
      apply total_bind; [|intros; apply total_ret].
      induction IH as [|x r Hx _ IHr]; [apply total_ret|].
      apply total_bind; [exact Hx|]. intros a. apply total_bind; [exact IHr|intros; apply total_ret].
  Qed.

  Lemma rc_leaf_total f : (forall s, total (f s)) -> forall l, total (rc_leaf f l).
  Proof.
    intros F l. destruct l; cbn; try apply total_ret.
    - apply total_bind; [apply mapM_tot; now apply rc_inl_total|intros; apply total_ret].
    - apply total_bind; [apply mapM_tot; now apply rc_inl_total|intros; apply total_ret].
    - apply total_bind; [|intros; apply total_ret]. apply mapM_tot. intros row. apply mapM_tot. intros c. apply mapM_tot. now apply rc_inl_total.
  Qed.

  Lemma mapM_blk_total g : (forall l, total (g l)) -> forall b, total (mapM_blk g b).
  Proof.
    intros G. induction b as [l|k c IH] using blk_ind'; cbn.
    - apply total_bind; [apply G|intros; apply total_ret].
    - apply total_bind; [|intros; apply total_ret].
      induction IH as [|x r Hx _ IHr]; [apply total_ret|].
      apply total_bind; [exact Hx|]. intros a. apply total_bind; [exact IHr|intros; apply total_ret].
  Qed.

  (* ---- rewrite_text_across_inlines with smart_quotes: the length assertion cannot fail ---- *)
  Lemma across_scope_total c : total (across_scope smart_quotes c).
  Proof.
    unfold across_scope. destruct (segs_inls c) as [|sg rest]; [apply total_ret|].
    destruct (concat (map fst (sg :: rest))) as [|x comp] eqn:E; [apply total_ret|].
    destruct (smart_quotes_total (x :: comp) Ctypo) as [out Ho]. unfold bind. rewrite Ho.
    pose proof (proj1 (smart_quotes_spec _ _ Ctypo Ho)) as P. apply pw_length in P. rewrite <- P, Nat.eqb_refl.
    apply total_ret.
  Qed.

  Lemma across_leaf_total l : total (across_leaf smart_quotes l).
  Proof.
    destruct l; cbn; try apply total_ret.
    - apply total_bind; [apply across_scope_total|intros; apply total_ret].
    - apply total_bind; [apply across_scope_total|intros; apply total_ret].
    - apply total_bind; [|intros; apply total_ret]. apply mapM_tot. intros row. apply mapM_tot. intros c. apply across_scope_total.
  Qed.

  Lemma ellipses_total s : total (ellipses s).
  Proof. destruct (ellipses_confined s Cell) as [out [g [t [r [tl [H _]]]]]]. now exists out. Qed.

  (* ---- the tables survive the transforms ---- *)
  Lemma tables_ok_erase b : tables_ok (blk_erase b) <-> tables_ok b.
  Proof.
    induction b as [l|k c IH] using blk_ind'.
    - destruct l; cbn; try tauto. destruct rows; cbn; tauto.
    - unfold blk_erase in *. cbn [map_blk tables_ok]. induction IH as [|x r Hx _ IHr]; cbn; [tauto|]. rewrite Hx, IHr. tauto.
  Qed.

  Lemma tables_ok_map_blk f b : (forall l, leaf_has_rows (f l) <-> leaf_has_rows l) -> (tables_ok (map_blk f b) <-> tables_ok b).
  Proof.
    intros F. induction b as [l|k c IH] using blk_ind'; [apply F|].
    cbn [map_blk tables_ok]. induction IH as [|x r Hx _ IHr]; cbn; [tauto|]. rewrite Hx, IHr. tauto.
  Qed.

  Lemma co_leaf_rows l : leaf_has_rows (co_leaf l) <-> leaf_has_rows l.
  Proof. destruct l; cbn; try tauto. destruct rows; cbn; tauto. Qed.
  Lemma unbold_leaf_rows l : leaf_has_rows (unbold_leaf l) <-> leaf_has_rows l.
  Proof.
    destruct l; cbn [unbold_leaf]; cbn; tauto.
  Qed.

  Lemma Forall_tables_erase bs bs' : map blk_erase bs' = map blk_erase bs -> Forall tables_ok bs -> Forall tables_ok bs'.
  Proof.
    revert bs'. induction bs as [|b bs IH]; intros [|b' bs'] E H; try discriminate; [constructor|].
    cbn in E. injection E as E1 E2. inversion H; subst. constructor; [|now apply IH].
    apply tables_ok_erase. rewrite E1. now apply tables_ok_erase.
  Qed.

  Lemma Forall_tables_map f bs : (forall l, leaf_has_rows (f l) <-> leaf_has_rows l) ->
    Forall tables_ok bs -> Forall tables_ok (map (map_blk f) bs).
  Proof. intros F H. induction H; cbn; constructor; [now apply tables_ok_map_blk|assumption]. Qed.

  Theorem transform_doc_total o bs : Forall tables_ok bs ->
    exists bs', transform_doc o bs = ret bs' /\ Forall tables_ok bs'.
  Proof.
    intros W. unfold transform_doc.
    set (b0 := if o_cleanups o then doc_cleanups bs else bs).
    assert (W0 : Forall tables_ok b0).
    { subst b0. destruct (o_cleanups o); [|exact W]. unfold doc_cleanups. apply Forall_tables_map; [apply unbold_leaf_rows|exact W]. }
    assert (S1 : exists b1, (if o_smartquotes o then rewrite_text_across_inlines smart_quotes b0 else ret b0) = ret b1 /\ Forall tables_ok b1).
    { destruct (o_smartquotes o); [|exists b0; split; [reflexivity|exact W0]].
      assert (T : total (rewrite_text_across_inlines smart_quotes b0)).
      { unfold rewrite_text_across_inlines. apply mapM_tot. intros b. apply mapM_blk_total. apply across_leaf_total. }
      destruct T as [b1 Hb1]. exists b1. split; [exact Hb1|].
      pose proof (rewrite_text_across_inlines_erase _ _ _ Hb1) as E.
      eapply Forall_tables_erase; [exact E|]. unfold coalesce_doc. apply Forall_tables_map; [apply co_leaf_rows|exact W0]. }
    destruct S1 as [b1 [H1 W1]]. unfold bind. rewrite H1.
    destruct (o_ellipses o); [|exists b1; split; [reflexivity|exact W1]].
    assert (T : total (rewrite_text_content ellipses true b1)).
    { unfold rewrite_text_content. apply mapM_tot. intros b. apply mapM_blk_total. apply rc_leaf_total. apply ellipses_total. }
    destruct T as [b2 Hb2]. exists b2. split; [exact Hb2|].
    pose proof (rewrite_text_content_erase _ _ _ _ Hb2) as E. cbn in E.
    eapply Forall_tables_erase; [exact E|]. unfold coalesce_doc. apply Forall_tables_map; [apply co_leaf_rows|exact W1].
  Qed.

  Theorem md_wrapper_total o : forall t i1 i2, exists r, md_wrapper o t i1 i2 = ret r.
  Proof.
    unfold md_wrapper. destruct (o_semantic o); intros t i1 i2;
      [apply (line_wrap_by_sentence_total Ctags)|apply (line_wrap_to_width_total Ctags)].
  Qed.

  Theorem render_parsed_total o d : Forall tables_ok (d_blocks d) -> exists t, render_parsed o d = ret t.
  Proof.
    intros W. unfold render_parsed. destruct (transform_doc_total o _ W) as [bs' [H W']].
    unfold bind. rewrite H. apply render_doc_total; [apply md_wrapper_total|exact W'].
  Qed.

  (* the whole function, with the parser as an arbitrary function that returns documents with well-formed tables *)
  Theorem fill_markdown_total PARSE o text : (forall s, Forall tables_ok (d_blocks (PARSE s))) ->
    exists out, fill_markdown PARSE o text = ret out.
  Proof.
    intros HP. unfold fill_markdown, fill_body.
    destruct (split_frontmatter text) as [fm content]. destruct fm as [|c fm].
    - apply render_parsed_total. apply HP.
    - destruct (_ && _); [eexists; reflexivity|].
      destruct (render_parsed_total o (PARSE (prepare_body content)) (HP _)) as [b Hb]. unfold bind. rewrite Hb. eexists. reflexivity.
  Qed.
End PT.
