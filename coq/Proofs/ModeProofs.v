(* The list-spacing modes are re-labellings of the tightness every list was authored with: rendering a
   tree under any mode is rendering, under preserve, the tree whose lists carry the tightness that
   mode decides ([retight]).  preserve re-labels nothing, loose marks every list loose, tight marks a
   list tight exactly when each of its items holds at most one block - and nothing else of the tree,
   of the renderer state or of the output depends on the mode. *)
From Coq Require Import List NArith ZArith Bool Lia.
Import ListNotations.
From Base Require Import PyStr CliTypes.
From Model Require Import Ast Render.
From Proofs Require Import RenderProofs SpacingProofs.

Definition single_block_items (c : list blk) : bool :=
  forallb (fun it => match it with BNode KItem cs => Nat.leb (length cs) 1 | _ => true end) c.

Definition eff_tight (mode : lsp) (authored : bool) (c : list blk) : bool :=
  match mode with LPreserve => authored | LTight => single_block_items c | LLoose => false end.

Fixpoint retight (mode : lsp) (b : blk) : blk :=
  match b with
  | BLeaf l => BLeaf l
  | BNode k c =>
      let c' := map (retight mode) c in
      match k with
      | KList o bu s t => BNode (KList o bu s (eff_tight mode t c)) c'
      | _ => BNode k c'
      end
  end.

Section Mode.
  Variable wrapper : str -> str -> str -> M str.
  Variable refdefs : list (str * (str * option str)).
  Variable mode : lsp.

  Notation rb m := (render_blk wrapper m refdefs).

  Definition blk_same (b : blk) : Prop := forall st, rb mode b st = rb LPreserve (retight mode b) st.

  Lemma kids_same c : Forall blk_same c ->
    forall st, kidsf wrapper refdefs mode c st = kidsf wrapper refdefs LPreserve (map (retight mode) c) st.
  Proof.
    induction 1 as [|x c Hx _ IH]; intros st; [reflexivity|].
    cbn [kidsf map]. rewrite Hx. unfold bind. destruct (rb LPreserve (retight mode x) st) as [[t st']|e]; [|reflexivity].
    cbn [snd fst]. rewrite IH. reflexivity.
  Qed.

  Lemma items_same o bu s c : Forall blk_same c ->
    forall i st, itemsf wrapper refdefs mode o bu s c i st =
                 itemsf wrapper refdefs LPreserve o bu s (map (retight mode) c) i st.
  Proof.
    induction 1 as [|x c Hx _ IH]; intros i st; [reflexivity|].
    cbn [itemsf map]. cbv zeta. rewrite Hx. unfold bind.
    match goal with |- match ?X with _ => _ end = _ => destruct X as [[t st']|e] end; [|reflexivity].
    cbn [snd fst]. rewrite IH. reflexivity.
  Qed.

  Theorem mode_is_relabelling b : blk_same b.
  Proof.
    induction b as [l|k c IH] using blk_ind'; intros st; [reflexivity|].
    pose proof (kids_same c IH) as K.
    destruct k as [o bu s t| | |atype|label].
    - cbn [retight]. cbn [render_blk]. cbv zeta.
      fold (itemsf wrapper refdefs mode o bu s). fold (itemsf wrapper refdefs LPreserve o bu s).
      rewrite (items_same o bu s c IH).
      replace (match mode with
               | LPreserve => t
               | LTight => forallb (fun it => match it with BNode KItem cs => Nat.leb (length cs) 1 | _ => true end) c
               | LLoose => false end) with (eff_tight mode t c) by (destruct mode; reflexivity).
      reflexivity.
    - cbn [retight]. cbn [render_blk]. fold (kidsf wrapper refdefs mode). fold (kidsf wrapper refdefs LPreserve).
      destruct c as [|c0 cs]; [reflexivity|].
      cbn [map]. change (retight mode c0 :: map (retight mode) cs) with (map (retight mode) (c0 :: cs)).
      destruct (r_tight st); [|destruct (r_suppress st)]; cbv iota beta; rewrite K; reflexivity.
    - cbn [retight]. cbn [render_blk]. fold (kidsf wrapper refdefs mode). fold (kidsf wrapper refdefs LPreserve).
      cbv zeta. rewrite K. reflexivity.
    - cbn [retight]. cbn [render_blk]. fold (kidsf wrapper refdefs mode). fold (kidsf wrapper refdefs LPreserve).
      cbv zeta. rewrite K. reflexivity.
    - cbn [retight]. cbn [render_blk]. fold (kidsf wrapper refdefs mode). fold (kidsf wrapper refdefs LPreserve).
      cbv zeta. rewrite K. reflexivity.
  Qed.

  Theorem mode_is_relabelling_doc blocks :
    render_doc wrapper mode refdefs blocks = render_doc wrapper LPreserve refdefs (map (retight mode) blocks).
  Proof.
    unfold render_doc. generalize init_rst.
    assert (H : forall st, render_blocks wrapper mode refdefs blocks st =
                           render_blocks wrapper LPreserve refdefs (map (retight mode) blocks) st).
    { induction blocks as [|x r IH]; intros st; [reflexivity|].
      cbn [render_blocks map]. rewrite (mode_is_relabelling x st). unfold bind.
      destruct (rb LPreserve (retight mode x) st) as [[t st']|e]; [|reflexivity]. rewrite IH. reflexivity. }
    intros st. rewrite H. reflexivity.
  Qed.
End Mode.

(* what the re-labelling is, mode by mode *)
Lemma retight_preserve b : retight LPreserve b = b.
Proof.
  induction b as [l|k c IH] using blk_ind'; [reflexivity|].
  assert (E : map (retight LPreserve) c = c).
  { induction IH as [|x r Hx _ IHr]; [reflexivity|]. cbn [map]. now rewrite Hx, IHr. }
  cbn [retight]. rewrite E. destruct k; reflexivity.
Qed.

(* every list of the re-labelled tree carries the tightness the mode decides, at any depth *)
Fixpoint lists_labelled (P : bool -> list blk -> Prop) (b : blk) : Prop :=
  match b with
  | BLeaf _ => True
  | BNode k c =>
      (match k with KList _ _ _ t => P t c | _ => True end) /\
      (fix all (l : list blk) : Prop := match l with [] => True | x :: r => lists_labelled P x /\ all r end) c
  end.

Lemma single_block_items_retight mode c : single_block_items (map (retight mode) c) = single_block_items c.
Proof.
  unfold single_block_items. induction c as [|x r IH]; [reflexivity|]. cbn [map forallb]. rewrite IH. f_equal.
  destruct x as [l|k cs]; [reflexivity|]. cbn [retight]. destruct k; try reflexivity. now rewrite map_length.
Qed.

Lemma retight_loose_labels b : lists_labelled (fun t _ => t = false) (retight LLoose b).
Proof.
  induction b as [l|k c IH] using blk_ind'; [exact I|].
  assert (A : (fix all (l : list blk) : Prop := match l with [] => True | x :: r => lists_labelled (fun t _ => t = false) x /\ all r end)
                (map (retight LLoose) c)).
  { induction IH as [|x r Hx _ IHr]; [exact I|]. cbn [map]. split; assumption. }
  cbn [retight]. destruct k; cbn [lists_labelled]; (split; [try exact I; reflexivity|exact A]).
Qed.

Lemma retight_tight_labels b : lists_labelled (fun t c => t = single_block_items c) (retight LTight b).
Proof.
  induction b as [l|k c IH] using blk_ind'; [exact I|].
  assert (A : (fix all (l : list blk) : Prop := match l with [] => True | x :: r => lists_labelled (fun t c => t = single_block_items c) x /\ all r end)
                (map (retight LTight) c)).
  { induction IH as [|x r Hx _ IHr]; [exact I|]. cbn [map]. split; assumption. }
  cbn [retight]. destruct k; cbn [lists_labelled]; (split; [try exact I|exact A]).
  cbn [eff_tight]. symmetry. apply single_block_items_retight.
Qed.

(* choosing a mode twice is choosing it once *)
Lemma retight_idem mode b : retight mode (retight mode b) = retight mode b.
Proof.
  induction b as [l|k c IH] using blk_ind'; [reflexivity|].
  assert (E : map (retight mode) (map (retight mode) c) = map (retight mode) c).
  { induction IH as [|x r Hx _ IHr]; [reflexivity|]. cbn [map]. now rewrite Hx, IHr. }
  cbn [retight]. destruct k as [o bu s t| | |atype|label]; cbn [retight]; rewrite E; try reflexivity.
  f_equal. f_equal. destruct mode; cbn [eff_tight]; try reflexivity. apply single_block_items_retight.
Qed.
