(* Certificates over the generated tables (finite data: vm_compute decides them). *)
From Coq Require Import List Bool String.
Import ListNotations.
From Gen Require Import Wiring.
From Model Require Import Cli.
Local Open Scope string_scope.

Definition subset (a b : list string) : bool := forallb (fun x => mem x b) a.
Definition same_set (a b : list string) : bool := subset a b && subset b a.

Definition pair_mem (x : string * bool) (l : list (string * bool)) : bool :=
  existsb (fun y => String.eqb (fst x) (fst y) && Bool.eqb (snd x) (snd y)) l.

(* --auto is exactly --inplace --nobackup --semantic --cleanups --smartquotes --ellipses *)
Definition auto_expected : list (string * bool) :=
  [("inplace", true); ("nobackup", true); ("semantic", true); ("cleanups", true);
   ("smartquotes", true); ("ellipses", true)].
Definition cert_auto : bool :=
  forallb (fun x => pair_mem x auto_sets) auto_expected && forallb (fun x => pair_mem x auto_expected) auto_sets.

(* every setting available both as flag and as config key is in the explicit-flag table *)
Definition dual_settings : list string := filter (fun k => mem k options_fields) config_fields.
Definition cert_tracked_complete : bool := subset dual_settings (map snd tracked_flags).

(* each tracked destination exists in both parsers with identical flag spellings *)
Definition lookup_parser (d : string) (t : list (string * list string * string * string)) :=
  find (fun r => String.eqb (fst (fst (fst r))) d) t.
Definition flags_of (r : string * list string * string * string) : list string := snd (fst (fst r)).
Definition cert_sentinel : bool :=
  forallb (fun kv =>
    match lookup_parser (fst kv) main_parser, lookup_parser (fst kv) sentinel_parser with
    | Some a, Some b => same_set (flags_of a) (flags_of b)
    | _, _ => false
    end) tracked_flags.

(* --auto locks exactly the formatting switches among the config keys *)
Definition cert_locked : bool :=
  same_set (filter (fun k => mem k auto_locked) config_fields)
           ["semantic"; "cleanups"; "smartquotes"; "ellipses"].

(* every key a config file accepts has a field to land in *)
Definition cert_keys_effective : bool := subset config_fields options_fields.
Definition cert_keys_effective_except (skip : list string) : bool :=
  subset (filter (fun k => negb (mem k skip)) config_fields) options_fields.

(* the options that reach the file resolver come straight from the options record *)
Definition discovery_settings : list string :=
  ["extend_include"; "exclude"; "extend_exclude"; "respect_gitignore"; "force_exclude"; "files_max_size"].
Definition cert_resolver : bool := same_set resolver_params_from_options discovery_settings.

Definition cert_filenames : bool :=
  match config_filenames with
  | [".flowmark.toml"; "flowmark.toml"; "pyproject.toml"] => true
  | _ => false
  end.

Definition cert_fill_params : bool :=
  same_set markdown_params ["width"; "semantic"; "cleanups"; "smartquotes"; "ellipses"; "list_spacing"]
  && same_set plain_params ["width"].

Lemma cert_auto_ok : cert_auto = true. Proof. vm_compute. reflexivity. Qed.
Lemma cert_tracked_complete_ok : cert_tracked_complete = true. Proof. vm_compute. reflexivity. Qed.
Lemma cert_sentinel_ok : cert_sentinel = true. Proof. vm_compute. reflexivity. Qed.
Lemma cert_locked_ok : cert_locked = true. Proof. vm_compute. reflexivity. Qed.
Lemma cert_resolver_ok : cert_resolver = true. Proof. vm_compute. reflexivity. Qed.
Lemma cert_filenames_ok : cert_filenames = true. Proof. vm_compute. reflexivity. Qed.
Lemma cert_fill_params_ok : cert_fill_params = true. Proof. vm_compute. reflexivity. Qed.
Lemma cert_keys_effective_partial_ok : cert_keys_effective_except ["include"] = true.
Proof. vm_compute. reflexivity. Qed.
