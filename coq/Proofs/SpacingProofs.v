(* C10, list spacing: rendering the same document under two list-spacing modes gives outputs that
   differ only in lines that are empty up to quote markers and indentation - for every document
   tree, every wrapper, every pair of modes.  The proof is a simulation: the two runs keep renderer
   states that agree on everything except the item-break flag and the current tightness, and those
   two fields influence nothing but the separator line in front of a list item. *)
From Coq Require Import List NArith ZArith Bool Lia.
Import ListNotations.
From Base Require Import PyStr CliTypes.
From Model Require Import Ast Render.
From Proofs Require Import PyStrFacts RenderProofs.
Local Open Scope N_scope.

(* ---- lines, and lines that are empty up to quote markers and indentation ---- *)
Definition pchar (c : N) : bool := (c =? 32) || (c =? 62).
Definition is_blank (l : str) : bool := forallb pchar l.
Definition unblank (s : str) : list str := filter (fun l => negb (is_blank l)) (split_on nlc s).

Lemma split_on_aux_app_sep d a b : forall cur,
  split_on_aux d (a ++ d :: b) cur = split_on_aux d a cur ++ split_on d b.
Proof.
  induction a as [|c a IH]; intros cur; cbn.
  - now rewrite N.eqb_refl.
  - destruct (c =? d); [cbn; now rewrite IH|apply IH].
Qed.
Lemma split_on_app_sep d a b : split_on d (a ++ d :: b) = split_on d a ++ split_on d b.
Proof. apply split_on_aux_app_sep. Qed.

Lemma split_on_aux_no_sep d m : forall cur, ~ In d m -> split_on_aux d m cur = [rev cur ++ m].
Proof.
  induction m as [|c m IH]; intros cur H; cbn; [now rewrite app_nil_r|].
  destruct (N.eqb_spec c d) as [->|Hc]; [exfalso; apply H; now left|].
  rewrite IH by (intro; apply H; now right). cbn. now rewrite <- app_assoc.
Qed.
Lemma split_on_no_sep d m : ~ In d m -> split_on d m = [m].
Proof. intros H. unfold split_on. now rewrite split_on_aux_no_sep. Qed.

Lemma blank_no_nl m : is_blank m = true -> ~ In nlc m.
Proof.
  unfold is_blank. rewrite forallb_forall. intros H Hin. apply H in Hin. vm_compute in Hin. discriminate.
Qed.

Lemma unblank_nil : unblank [] = [].
Proof. reflexivity. Qed.

Lemma unblank_app t u : ends_nl t -> unblank (t ++ u) = unblank t ++ unblank u.
Proof.
  intros [->|[a ->]]; [reflexivity|]. unfold unblank.
  rewrite <- app_assoc. cbn [app]. rewrite !split_on_app_sep, !filter_app. cbn. now rewrite app_nil_r.
Qed.

Lemma unblank_blank_line m : is_blank m = true -> unblank (m ++ [nlc]) = [].
Proof.
  intros H. unfold unblank. rewrite split_on_app_sep, split_on_no_sep by now apply blank_no_nl.
  cbn. now rewrite H.
Qed.

Lemma unblank_blank_prefix m x : is_blank m = true -> unblank ((m ++ [nlc]) ++ x) = unblank x.
Proof.
  intros H. rewrite unblank_app by (right; now exists m). now rewrite unblank_blank_line.
Qed.

Lemma is_blank_app a b : is_blank (a ++ b) = is_blank a && is_blank b.
Proof. apply forallb_app. Qed.

Lemma is_blank_rstrip p : is_blank p = true -> is_blank (rstrip p) = true.
Proof.
  intros H. destruct (rstrip_decomp p) as [t [_ E]]. rewrite E, is_blank_app in H.
  now apply andb_true_iff in H as [H _].
Qed.

(* ---- the post-processing of quotes, alerts and footnotes keeps the non-blank lines ---- *)
Lemma lstrip_chars_decomp p s : exists pre, forallb p pre = true /\ s = pre ++ lstrip_chars p s.
Proof.
  induction s as [|c s [pre [H1 H2]]]; [exists []; split; reflexivity|]. cbn.
  destruct (p c) eqn:E.
  - exists (c :: pre). cbn. rewrite E, H1. split; [reflexivity|]. now f_equal.
  - exists []. split; reflexivity.
Qed.

Lemma all_nl_repeat pre : forallb (N.eqb 10) pre = true -> pre = repeat nlc (length pre).
Proof.
  induction pre as [|c r IH]; [reflexivity|]. cbn [forallb length repeat]. intros H. apply andb_true_iff in H as [Hc Hr].
  apply N.eqb_eq in Hc. subst c. f_equal. now apply IH.
Qed.

Lemma rev_repeat {A} (x : A) k : rev (repeat x k) = repeat x k.
Proof.
  induction k; [reflexivity|]. cbn. rewrite IHk. clear. induction k; [reflexivity|]. cbn. now f_equal.
Qed.

Lemma rstrip_nl_decomp x : exists k, x = rstrip_nl x ++ repeat nlc k.
Proof.
  unfold rstrip_nl, rstrip_chars. destruct (lstrip_chars_decomp (N.eqb 10) (rev x)) as [pre [H1 H2]].
  exists (length pre). apply (f_equal (@rev N)) in H2. rewrite rev_involutive, rev_app_distr in H2.
  rewrite H2 at 1. f_equal. rewrite (all_nl_repeat pre H1) at 1. apply rev_repeat.
Qed.

Lemma unblank_repeat_nl k : unblank (repeat nlc k) = [].
Proof.
  induction k as [|k IH]; [reflexivity|]. change (repeat nlc (S k)) with ([] ++ nlc :: repeat nlc k).
  unfold unblank in *. rewrite split_on_app_sep, filter_app, IH. reflexivity.
Qed.

Lemma unblank_trailing_nls r k : unblank (r ++ repeat nlc k) = unblank r.
Proof.
  destruct k as [|k]; [now rewrite app_nil_r|]. cbn [repeat]. unfold unblank.
  rewrite split_on_app_sep, filter_app. fold (unblank (repeat nlc k)). rewrite unblank_repeat_nl. apply app_nil_r.
Qed.

Lemma unblank_rstrip_nl x : unblank (rstrip_nl x) = unblank x.
Proof. destruct (rstrip_nl_decomp x) as [k E]. rewrite E at 2. now rewrite unblank_trailing_nls. Qed.

Lemma split_on_aux_elems d s : forall cur, ~ In d cur -> Forall (fun l => ~ In d l) (split_on_aux d s cur).
Proof.
  induction s as [|c s IH]; intros cur H; cbn.
  - constructor; [|constructor]. now rewrite <- in_rev.
  - destruct (N.eqb_spec c d) as [->|Hc].
    + constructor; [now rewrite <- in_rev|]. apply IH. intros [].
    + apply IH. intros [E|Hin]; [congruence|contradiction].
Qed.
Lemma split_on_elems d s : Forall (fun l => ~ In d l) (split_on d s).
Proof. apply split_on_aux_elems. intros []. Qed.

Lemma split_on_join d Ls : Forall (fun l => ~ In d l) Ls -> Ls <> [] -> split_on d (join [d] Ls) = Ls.
Proof.
  induction Ls as [|x r IH]; intros H Hne; [congruence|]. inversion H as [|? ? Hx Hr]; subst.
  destruct r as [|y r].
  - cbn. now apply split_on_no_sep.
  - change (join [d] (x :: y :: r)) with (x ++ d :: join [d] (y :: r)).
    rewrite split_on_app_sep, split_on_no_sep by assumption. rewrite IH; [reflexivity|assumption|discriminate].
Qed.

Lemma split_on_nonempty d s : split_on d s <> [].
Proof.
  unfold split_on. generalize (@nil N). induction s as [|c s IH]; intros cur; cbn; [discriminate|].
  destruct (c =? d); [discriminate|apply IH].
Qed.

Lemma split_mark m r : is_blank m = true ->
  split_on nlc (mark_empty_lines m r) = map (fun l => match l with [] => m | _ => l end) (split_on nlc r).
Proof.
  intros Hm. unfold mark_empty_lines. apply split_on_join.
  - pose proof (split_on_elems nlc r) as H. induction H as [|l ls Hl _ IH]; cbn; constructor; [|exact IH].
    destruct l; cbn; [now apply blank_no_nl|exact Hl].
  - pose proof (split_on_nonempty nlc r). destruct (split_on nlc r); [congruence|discriminate].
Qed.

Lemma unblank_mark_empty m r : is_blank m = true ->
  unblank (mark_empty_lines m r ++ [nlc]) = unblank r.
Proof.
  intros Hm. unfold unblank. rewrite split_on_app_sep, split_mark, filter_app by assumption.
  cbn [split_on split_on_aux rev filter is_blank forallb negb]. rewrite app_nil_r.
  induction (split_on nlc r) as [|l ls IH]; [reflexivity|]. cbn [map filter]. rewrite IH.
  destruct l; [now rewrite Hm|reflexivity].
Qed.

Lemma unblank_quote_post m x : is_blank m = true ->
  unblank (mark_empty_lines m (rstrip_nl x) ++ [nlc]) = unblank x.
Proof. intros H. rewrite unblank_mark_empty by assumption. apply unblank_rstrip_nl. Qed.

Lemma unblank_footnote_post x : unblank (rstrip_nl x ++ [nlc; nlc]) = unblank x.
Proof.
  change [nlc; nlc] with (repeat nlc 2). rewrite unblank_trailing_nls. apply unblank_rstrip_nl.
Qed.

(* ---- the simulation ---- *)
Definition R (a b : rst) : Prop :=
  r_prefix a = r_prefix b /\ r_prefix2 a = r_prefix2 b /\ r_skip a = r_skip b /\ r_cur a = r_cur b.
Definition Pfx (st : rst) : Prop := is_blank (r_prefix2 st) = true.

Definition sim (ra rb : M (str * rst)) : Prop :=
  match ra, rb with
  | Datatypes.inl (t1, s1), Datatypes.inl (t2, s2) => unblank t1 = unblank t2 /\ R s1 s2 /\ Pfx s1
  | Datatypes.inr e1, Datatypes.inr e2 => e1 = e2
  | _, _ => False
  end.

Lemma R_refl st : R st st. Proof. repeat split. Qed.
Lemma R_Pfx a b : R a b -> Pfx a -> Pfx b.
Proof. intros [_ [H _]] P. unfold Pfx in *. now rewrite <- H. Qed.

Lemma is_blank_spaces n : is_blank (spaces n) = true.
Proof. unfold spaces. induction n; [reflexivity|]. cbn. exact IHn. Qed.

(* a separator: nothing, or one blank line *)
Definition sep_ok (pre : str) : Prop := pre = [] \/ exists m, is_blank m = true /\ pre = m ++ [nlc].
Lemma unblank_sep pre x : sep_ok pre -> unblank (pre ++ x) = unblank x.
Proof. intros [->|[m [Hm ->]]]; [reflexivity|now apply unblank_blank_prefix]. Qed.

Section Sim.
  Variable wrapper : str -> str -> str -> M str.
  Variable refdefs : list (str * (str * option str)).
  Variables s1 s2 : lsp.

  Lemma leaf_sim l a b : R a b -> Pfx a ->
    sim (render_leaf wrapper refdefs l a) (render_leaf wrapper refdefs l b).
  Proof.
    intros [E1 [E2 [E3 E4]]] P. destruct a as [p p2 su sk cu ti], b as [p' p2' su' sk' cu' ti'].
    cbn in E1, E2, E3, E4. subst p' p2' sk' cu'. unfold Pfx in P. cbn in P.
    destruct l; cbn [render_leaf].
    - (* paragraph *)
      destruct (render_inls refdefs false c []) as [t cx]. cbn. unfold bind.
      destruct (wrapper _ p p2) as [w|e]; cbn; [|reflexivity]. repeat split; exact P.
    - (* heading *)
      destruct (render_inls refdefs true c []) as [t0 cx]. cbn.
      destruct (endswith _ _); cbn; repeat split; exact P.
    - (* code *)
      unfold render_code. cbn. repeat split; exact P.
    - cbn. repeat split; exact P.
    - (* blank line *)
      cbn. destruct sk; cbn; [repeat split; exact P|]. repeat split; exact P.
    - cbn. repeat split; exact P.
    - (* table *)
      cbv zeta. destruct rows as [|head body]; cbn; [reflexivity|].
      destruct (render_row refdefs head cu) as [h c1]. destruct (render_rows refdefs body c1) as [bb c2].
      cbn. repeat split; exact P.
    - cbn. repeat split; exact P.
  Qed.
End Sim.

Lemma wf_children k c : wf_blk (BNode k c) -> Forall wf_blk c.
Proof. cbn. induction c as [|x c IH]; constructor; [tauto|apply IH; tauto]. Qed.

Section BlockSim.
  Variable wrapper : str -> str -> str -> M str.
  Variable refdefs : list (str * (str * option str)).
  Variables s1 s2 : lsp.

  Notation rb mode := (render_blk wrapper mode refdefs).

  Definition kidsf (mode : lsp) :=
    fix kids (l : list blk) (st : rst) : M (str * rst) :=
      match l with
      | [] => ret ([], st)
      | x :: r => a <- rb mode x st ;; b <- kids r (snd a) ;; ret (fst a ++ fst b, snd b)
      end.

  Definition itemsf (mode : lsp) (ordered : bool) (bullet : str) (start : Z) :=
    fix items (l : list blk) (i : Z) (st : rst) : M (str * rst) :=
      match l with
      | [] => ret ([], st)
      | child :: rest =>
          let num := Z.min (i + start) 999999999 in
          let pfx := if ordered then zstr num ++ [46; 32]%N else bullet ++ [sp] in
          let sub := if ordered then spaces (length (zstr num) + 2) else [sp; sp] in
          let p := r_prefix st in let p2 := r_prefix2 st in
          a <- rb mode child (set_prefixes (p ++ pfx) (p2 ++ sub) st) ;;
          b <- items rest (i + 1)%Z (next_prefix (set_prefixes p p2 (snd a))) ;;
          ret (fst a ++ fst b, snd b)
      end.

  Definition blk_sim (b : blk) : Prop := forall a c, R a c -> Pfx a -> sim (rb s1 b a) (rb s2 b c).

  Lemma kids_sim c : Forall wf_blk c -> Forall blk_sim c ->
    forall a b, R a b -> Pfx a -> sim (kidsf s1 c a) (kidsf s2 c b).
  Proof.
    induction c as [|x c IH]; intros W S a b HR HP.
    - cbn. repeat split; try apply HR. exact HP.
    - inversion W as [|? ? Wx Wc]; subst. inversion S as [|? ? Sx Sc]; subst.
      cbn [kidsf]. unfold bind. specialize (Sx a b HR HP). unfold sim in Sx.
      destruct (rb s1 x a) as [[ta sa]|e1] eqn:E1; destruct (rb s2 x b) as [[tb sb]|e2] eqn:E2; try contradiction; [|exact Sx].
      destruct Sx as [U [HR' HP']]. cbn [snd fst].
      specialize (IH Wc Sc sa sb HR' HP'). unfold sim in IH. fold (kidsf s1) in *. fold (kidsf s2) in *.
      destruct (kidsf s1 c sa) as [[tr1 sr1]|e1]; destruct (kidsf s2 c sb) as [[tr2 sr2]|e2]; try contradiction; [|exact IH].
      destruct IH as [U2 [HR2 HP2]]. cbn. split; [|split; assumption].
      rewrite !unblank_app; [congruence| |].
      + eapply render_blk_ends; eauto.
      + eapply render_blk_ends; eauto.
  Qed.

  Lemma items_sim o bu st0 c : Forall wf_blk c -> Forall blk_sim c ->
    forall i a b, R a b -> Pfx a -> sim (itemsf s1 o bu st0 c i a) (itemsf s2 o bu st0 c i b).
  Proof.
    induction c as [|x c IH]; intros W S i a b HR HP.
    - cbn. repeat split; try apply HR. exact HP.
    - inversion W as [|? ? Wx Wc]; subst. inversion S as [|? ? Sx Sc]; subst.
      destruct HR as [E1 [E2 [E3 E4]]]. destruct a as [p p2 su sk cu ti], b as [p' p2' su' sk' cu' ti'].
      cbn in E1, E2, E3, E4. subst p' p2' sk' cu'. unfold Pfx in HP. cbn [r_prefix2] in HP.
      cbn [itemsf]. cbv zeta. unfold bind. cbn [r_prefix r_prefix2].
      set (pfx := if o then zstr (Z.min (i + st0) 999999999) ++ [46; 32] else bu ++ [sp]).
      set (sub := if o then spaces (length (zstr (Z.min (i + st0) 999999999)) + 2) else [sp; sp]).
      assert (HRa : R (set_prefixes (p ++ pfx) (p2 ++ sub) (RS p p2 su sk cu ti)) (set_prefixes (p ++ pfx) (p2 ++ sub) (RS p p2 su' sk cu ti'))).
      { repeat split. }
      assert (HPa : Pfx (set_prefixes (p ++ pfx) (p2 ++ sub) (RS p p2 su sk cu ti))).
      { unfold Pfx. cbn [r_prefix2 set_prefixes]. rewrite is_blank_app. rewrite HP. cbn [andb].
        subst sub. destruct o; [apply is_blank_spaces|reflexivity]. }
      specialize (Sx _ _ HRa HPa). unfold sim in Sx.
      destruct (rb s1 x _) as [[ta sa]|e1] eqn:Ea; destruct (rb s2 x _) as [[tb sb]|e2] eqn:Eb; try contradiction; [|exact Sx].
      destruct Sx as [U [[F1 [F2 [F3 F4]]] HP']]. cbn [snd fst].
      assert (HRn : R (next_prefix (set_prefixes p p2 sa)) (next_prefix (set_prefixes p p2 sb))).
      { unfold R. cbn. rewrite F3, F4. auto. }
      assert (HPn : Pfx (next_prefix (set_prefixes p p2 sa))) by exact HP.
      specialize (IH Wc Sc (i + 1)%Z _ _ HRn HPn). unfold sim in IH. fold (itemsf s1 o bu st0) in *. fold (itemsf s2 o bu st0) in *.
      destruct (itemsf s1 o bu st0 c (i + 1) _) as [[tr1 sr1]|e1]; destruct (itemsf s2 o bu st0 c (i + 1) _) as [[tr2 sr2]|e2]; try contradiction; [|exact IH].
      destruct IH as [U2 [HR2 HP2]]. cbn. split; [|split; assumption].
      rewrite !unblank_app; [congruence| |].
      + eapply render_blk_ends; eauto.
      + eapply render_blk_ends; eauto.
  Qed.

  Ltac use_sim H :=
    unfold sim in H;
    match type of H with
    | match ?x with _ => _ end => destruct x as [[?tr1 ?sr1]|?e1]
    end;
    match type of H with
    | match ?y with _ => _ end => destruct y as [[?tr2 ?sr2]|?e2]
    end; try contradiction.

  Theorem spacing_sim b : wf_blk b -> blk_sim b.
  Proof.
    induction b as [l|k c IH] using blk_ind'; intros W a0 b0 HR HP.
    - cbn [render_blk]. now apply leaf_sim.
    - pose proof (wf_children _ _ W) as Wc.
      assert (Sc : Forall blk_sim c).
      { clear - IH Wc. induction IH as [|x l Hx _ IHl]; [constructor|]. inversion Wc; subst. constructor; auto. }
      clear IH W.
      cbn [render_blk]. fold (kidsf s1). fold (kidsf s2).
      destruct HR as [E1 [E2 [E3 E4]]]. destruct a0 as [p p2 su sk cu ti], b0 as [p' p2' su' sk' cu' ti'].
      cbn in E1, E2, E3, E4. subst p' p2' sk' cu'. unfold Pfx in HP. cbn [r_prefix2] in HP.
      destruct k as [ordered bullet start tight| | |atype|label].
      + (* list *)
        cbv zeta. fold (itemsf s1 ordered bullet start). fold (itemsf s2 ordered bullet start).
        cbn [set_skip r_prefix r_prefix2 r_suppress r_skip r_cur r_tight]. unfold bind.
        match goal with |- sim (match itemsf s1 _ _ _ c 0%Z ?A with _ => _ end) (match itemsf s2 _ _ _ c 0%Z ?B with _ => _ end) =>
          assert (HRi : R A B) by (destruct (str_eqb p p2); repeat split);
          assert (HPi : Pfx A) by (destruct (str_eqb p p2); exact HP);
          pose proof (items_sim ordered bullet start c Wc Sc 0%Z A B HRi HPi) as H
        end.
        use_sim H; [|exact H]. destruct H as [U [[F1 [F2 [F3 F4]]] HP']].
        cbn. split; [exact U|]. split; [repeat split; assumption|exact HP'].
      + (* item *)
        assert (SEP : forall (pre : str) (st : rst), (pre, st) = (if ti then ([], RS p p2 su sk cu ti) else if su then ([], set_suppress false (RS p p2 su sk cu ti)) else (rstrip p2 ++ [nlc], RS p p2 su sk cu ti)) -> sep_ok pre) by
          (intros pre st E; destruct ti; [injection E as -> _; now left|]; destruct su; [injection E as -> _; now left|];
           injection E as -> _; right; exists (rstrip p2); split; [now apply is_blank_rstrip|reflexivity]).
        assert (SEP' : forall (pre : str) (st : rst), (pre, st) = (if ti' then ([], RS p p2 su' sk cu ti') else if su' then ([], set_suppress false (RS p p2 su' sk cu ti')) else (rstrip p2 ++ [nlc], RS p p2 su' sk cu ti')) -> sep_ok pre) by
          (intros pre st E; destruct ti'; [injection E as -> _; now left|]; destruct su'; [injection E as -> _; now left|];
           injection E as -> _; right; exists (rstrip p2); split; [now apply is_blank_rstrip|reflexivity]).
        cbn [r_tight r_suppress r_prefix2].
        remember (if ti then ([], RS p p2 su sk cu ti) else if su then ([], set_suppress false (RS p p2 su sk cu ti)) else (rstrip p2 ++ [nlc], RS p p2 su sk cu ti)) as X1 eqn:EX1.
        remember (if ti' then ([], RS p p2 su' sk cu ti') else if su' then ([], set_suppress false (RS p p2 su' sk cu ti')) else (rstrip p2 ++ [nlc], RS p p2 su' sk cu ti')) as X2 eqn:EX2.
        destruct X1 as [pre1 st1], X2 as [pre2 st2].
        pose proof (SEP _ _ EX1) as Q1. pose proof (SEP' _ _ EX2) as Q2.
        assert (HRs : R st1 st2 /\ Pfx st1 /\ r_prefix st1 = p).
        { destruct ti, ti', su, su'; injection EX1 as _ ->; injection EX2 as _ ->; repeat split; exact HP. }
        destruct HRs as [HRs [HPs Ep]]. clear EX1 EX2 SEP SEP'.
        destruct c as [|c0 cs].
        * assert (Ep2 : r_prefix st2 = p) by (destruct HRs as [G _]; rewrite <- G; exact Ep).
          unfold sim, ret. rewrite Ep, Ep2.
          split; [now rewrite (unblank_sep pre1 _ Q1), (unblank_sep pre2 _ Q2)|]. split; [|exact HPs].
          destruct HRs as [G1 [G2 [G3 G4]]]. unfold R. cbn. auto.
        * pose proof (kids_sim (c0 :: cs) Wc Sc st1 st2 HRs HPs) as H. unfold bind.
          use_sim H; [|exact H]. destruct H as [U [HR' HP']].
          cbn. split; [rewrite (unblank_sep pre1 _ Q1), (unblank_sep pre2 _ Q2); exact U|]. split; assumption.
      + (* quote *)
        cbv zeta. cbn [set_skip set_suppress r_prefix r_prefix2 r_suppress r_skip r_cur r_tight]. unfold bind.
        match goal with |- sim (match kidsf s1 c ?A with _ => _ end) (match kidsf s2 c ?B with _ => _ end) =>
          assert (HRi : R A B) by (repeat split);
          assert (HPi : Pfx A) by (unfold Pfx; cbn [r_prefix2 set_prefixes]; rewrite is_blank_app, HP; reflexivity);
          pose proof (kids_sim c Wc Sc A B HRi HPi) as H
        end.
        use_sim H; [|exact H]. destruct H as [U [[F1 [F2 [F3 F4]]] HP']].
        cbn [fst snd]. split; [|split].
        * rewrite !unblank_quote_post; [exact U| |].
          -- apply is_blank_rstrip. rewrite <- F2. exact HP'.
          -- apply is_blank_rstrip. exact HP'.
        * unfold R. cbn. rewrite F4. auto.
        * exact HP.
      + (* alert *)
        cbv zeta. cbn [set_skip set_suppress next_prefix set_prefix r_prefix r_prefix2 r_suppress r_skip r_cur r_tight]. unfold bind.
        match goal with |- sim (match kidsf s1 c ?A with _ => _ end) (match kidsf s2 c ?B with _ => _ end) =>
          assert (HRi : R A B) by (repeat split);
          assert (HPi : Pfx A) by (unfold Pfx; cbn [r_prefix2 set_prefixes]; rewrite is_blank_app, HP; reflexivity);
          pose proof (kids_sim c Wc Sc A B HRi HPi) as H
        end.
        use_sim H; [|exact H]. destruct H as [U [[F1 [F2 [F3 F4]]] HP']].
        cbn [fst snd]. split; [|split].
        * assert (EH : ends_nl (p ++ [62; 32; 91; 33] ++ atype ++ [93; 10])).
          { right. exists (p ++ [62; 32; 91; 33] ++ atype ++ [93]). now rewrite <- !app_assoc. }
          rewrite !(unblank_app _ _ EH). f_equal.
          rewrite !unblank_quote_post; [exact U| |].
          -- apply is_blank_rstrip. rewrite <- F2. exact HP'.
          -- apply is_blank_rstrip. exact HP'.
        * unfold R. cbn. rewrite F4. auto.
        * exact HP.
      + (* footnote definition *)
        cbv zeta. cbn [r_prefix r_prefix2]. unfold bind.
        match goal with |- sim (match kidsf s1 c ?A with _ => _ end) (match kidsf s2 c ?B with _ => _ end) =>
          assert (HRi : R A B) by (repeat split);
          assert (HPi : Pfx A) by (unfold Pfx; cbn [r_prefix2 set_prefixes]; rewrite is_blank_app, HP; apply is_blank_spaces);
          pose proof (kids_sim c Wc Sc A B HRi HPi) as H
        end.
        use_sim H; [|exact H]. destruct H as [U [[F1 [F2 [F3 F4]]] HP']].
        cbn [fst snd]. split; [|split].
        * now rewrite !unblank_footnote_post.
        * unfold R. cbn. rewrite F3, F4. auto.
        * exact HP.
  Qed.

  (* whole documents *)
  Theorem spacing_changes_blank_lines_only blocks t1 t2 :
    Forall wf_blk blocks ->
    render_doc wrapper s1 refdefs blocks = ret t1 ->
    render_doc wrapper s2 refdefs blocks = ret t2 ->
    unblank t1 = unblank t2.
  Proof.
    intros W H1 H2. unfold render_doc, bind in *.
    assert (Sc : Forall blk_sim blocks) by (eapply Forall_impl; [|exact W]; apply spacing_sim).
    assert (K : forall l, render_blocks wrapper s1 refdefs l = kidsf s1 l /\ render_blocks wrapper s2 refdefs l = kidsf s2 l).
    { induction l as [|x l [I1 I2]]; [split; reflexivity|]. split; cbn; unfold bind; [now rewrite I1|now rewrite I2]. }
    destruct (K blocks) as [K1 K2]. rewrite K1 in H1. rewrite K2 in H2.
    pose proof (kids_sim blocks W Sc init_rst init_rst (R_refl _) eq_refl) as H.
    unfold sim in H.
    destruct (kidsf s1 blocks init_rst) as [[a sa]|]; [|discriminate].
    destruct (kidsf s2 blocks init_rst) as [[b sb]|]; [|discriminate].
    injection H1 as <-. injection H2 as <-. cbn. apply H.
  Qed.
End BlockSim.
