(* C06: structural facts about tag preprocessing and the word splitter. *)
From Coq Require Import List NArith Bool Arith Lia.
Import ListNotations.
From Base Require Import PyStr Regex.
From Gen Require Import Consts Regexes.
From Model Require Import Wrap Tags LineWrap.
From Proofs Require Import PyStrFacts WrapProofs.

(* ---- preprocess_tag_block_spacing only inserts empty lines ---- *)
Inductive ins_blanks : list str -> list str -> Prop :=
| ib_nil : ins_blanks [] []
| ib_keep l a b : ins_blanks a b -> ins_blanks (l :: a) (l :: b)
| ib_ins a b : ins_blanks a b -> ins_blanks ([] :: a) b.

Lemma ins_blanks_app_l pre a b : Forall (fun l => l = []) pre -> ins_blanks a b -> ins_blanks (pre ++ a) b.
Proof. induction 1 as [|x pre Hx _ IH]; intros H; cbn; [assumption|]. subst x. constructor. now apply IH. Qed.

Theorem preprocess_lines_only_inserts lines : forall prev inb, ins_blanks (preprocess_lines prev inb lines) lines.
Proof.
  induction lines as [|line rest IH]; intros prev inb; cbn [preprocess_lines]; [constructor|].
  apply ins_blanks_app_l.
  - destruct prev as [pl|]; [|constructor].
    apply Forall_app. split; match goal with |- Forall _ (if ?c then _ else _) => destruct c end; repeat constructor.
  - constructor. apply IH.
Qed.

(* after preprocessing no non-blank tag-only line touches a block-content line *)
Definition bad_pair (x y : str) : bool :=
  negb (blank x) && ((is_tag_only_line x && line_is_block_content y) || (line_is_block_content x && is_tag_only_line y)).

Fixpoint adjacent_ok (prev : option str) (ls : list str) : bool :=
  match ls with
  | [] => true
  | l :: r => (match prev with Some p => negb (bad_pair p l) | None => true end) && adjacent_ok (Some l) r
  end.

Lemma nil_not_tag_only : is_tag_only_line [] = false. Proof. reflexivity. Qed.
Lemma nil_not_block : line_is_block_content [] = false. Proof. reflexivity. Qed.
Lemma nil_blank : blank [] = true. Proof. reflexivity. Qed.

Lemma bad_pair_nil_r x : bad_pair x [] = false.
Proof. unfold bad_pair. rewrite nil_not_tag_only, nil_not_block. destruct (blank x), (is_tag_only_line x), (line_is_block_content x); reflexivity. Qed.
Lemma bad_pair_nil_l y : bad_pair [] y = false.
Proof. unfold bad_pair. now rewrite nil_blank. Qed.

(* a tag line is not a list or table line: every tag opener of the source (Gen/Consts.v, re-evaluated on each run) begins with a
   character that is neither a space, a pipe, a bullet nor a digit *)
Definition open_delims_cert : bool :=
  forallb (fun d => match d with
                    | c :: _ => negb (is_space c || (c =? 124)%N || is_bullet c || is_pydigit c)
                    | [] => false
                    end) tag_open_delims.

Lemma startswith_head s d : startswith s d = true -> d <> [] -> exists c t, s = c :: t /\ hd 0%N d = c.
Proof.
  destruct d as [|x d']; [congruence|]. destruct s as [|c t]; [discriminate|]. cbn [startswith hd].
  intros H _. destruct (N.eqb_spec c x) as [->|Hn]; [exists x, t; auto|].
  cbn in H. apply N.eqb_neq in Hn. rewrite N.eqb_sym in Hn. rewrite Hn in H. discriminate.
Qed.

Lemma tag_only_not_block l : open_delims_cert = true -> is_tag_only_line l = true -> line_is_block_content l = false.
Proof.
  intros C H. unfold is_tag_only_line in H. destruct l as [|c r]; [discriminate|].
  destruct (is_space c) eqn:Es; [discriminate|].
  apply andb_true_iff in H as [H _]. apply andb_true_iff in H as [_ Hs].
  (* strip keeps the first character, which is not a space *)
  assert (Hstrip : exists t, strip (c :: r) = c :: t).
  { unfold strip. cbn [lstrip]. rewrite Es. unfold rstrip.
    destruct (rstrip_decomp (c :: r)) as [w [_ Ew]]. unfold rstrip in Ew.
    destruct (rev (lstrip (rev (c :: r)))) as [|c' t'] eqn:E.
    - exfalso. rewrite app_nil_l in Ew. subst w.
      assert (A : all_space (c :: r) = true) by (destruct (rstrip_decomp (c :: r)) as [w' [Hw' E']]; unfold rstrip in E'; rewrite E in E'; cbn in E'; now subst w').
      cbn in A. rewrite Es in A. discriminate.
    - cbn in Ew. injection Ew as -> _. now exists t'. }
  destruct Hstrip as [t Et]. rewrite Et in Hs.
  unfold starts_any in Hs. apply existsb_exists in Hs as [d [Hd Hst]].
  unfold open_delims_cert in C. rewrite forallb_forall in C. specialize (C d Hd).
  destruct d as [|x d']; [discriminate|].
  destruct (startswith_head (c :: t) (x :: d') Hst ltac:(discriminate)) as [c2 [t2 [E2 Eh]]].
  injection E2 as <- _. cbn [hd] in Eh. subst x.
  apply negb_true_iff in C. apply orb_false_iff in C as [C Cd]. apply orb_false_iff in C as [C Cb]. apply orb_false_iff in C as [_ Cp].
  unfold line_is_block_content, line_is_table_row, line_is_list_item. cbn [lstrip]. rewrite Es.
  cbn [startswith]. rewrite N.eqb_sym in Cp. rewrite Cp. cbn [andb orb]. rewrite Cb, Cd. reflexivity.
Qed.

(* the flag is set whenever the previous line is a (non-tag) list or table line *)
Definition flag_ok (prev : option str) (inb : bool) : Prop :=
  match prev with
  | Some pl => line_is_block_content pl = true -> blank pl = false -> is_tag_only_line pl = false -> inb = true
  | None => True
  end.

Lemma next_flag_ok inb line : flag_ok (Some line) (next_in_block inb line).
Proof.
  unfold flag_ok, next_in_block. intros Hb Hbl Ht. rewrite Hbl, Ht, Hb. reflexivity.
Qed.

Theorem preprocess_lines_separates_gen (C : open_delims_cert = true) lines : forall prev inb, flag_ok prev inb ->
  adjacent_ok prev (preprocess_lines prev inb lines) = true.
Proof.
  induction lines as [|line rest IH]; intros prev inb F; cbn [preprocess_lines]; [reflexivity|].
  pose proof (IH (Some line) (next_in_block inb line) (next_flag_ok inb line)) as IH'.
  destruct prev as [pl|]; cbn [app adjacent_ok]; [|exact IH'].
  destruct (negb (blank pl) && is_tag_only_line pl && line_is_block_content line) eqn:E1;
  destruct (negb (blank pl) && inb && is_tag_only_line line) eqn:E2;
    cbn [app adjacent_ok]; rewrite ?bad_pair_nil_r, ?bad_pair_nil_l; cbn [negb andb]; try exact IH'.
  (* no blank line inserted: the pair itself is fine *)
  rewrite IH', andb_true_r. unfold bad_pair.
  destruct (blank pl) eqn:Eb; cbn [negb andb] in *; [reflexivity|].
  rewrite E1. cbn [orb].
  destruct (line_is_block_content pl) eqn:Ebc; [|reflexivity]. cbn [andb].
  destruct (is_tag_only_line line) eqn:Et; [|reflexivity].
  (* pl is a list/table line and the next line a tag line: the flag must have been set, so a blank line was inserted *)
  destruct (is_tag_only_line pl) eqn:Etp.
  - rewrite (tag_only_not_block pl C Etp) in Ebc. discriminate.
  - cbn [flag_ok] in F. rewrite (F Ebc Eb Etp) in E2. discriminate.
Qed.

Theorem preprocess_lines_separates lines :
  adjacent_ok None (preprocess_lines None false lines) = true.
Proof. apply preprocess_lines_separates_gen; [vm_compute; reflexivity|exact I]. Qed.

(* the case the repair c8c087c was made for: the last item of the list goes on over a second line *)
Example continued_item_separated :
  preprocess_lines None false [[123;37;32;102;32;37;125]; [45;32;97]; [32;32;98]; [123;37;32;47;102;32;37;125]]%N
  = [[123;37;32;102;32;37;125]; []; [45;32;97]; [32;32;98]; []; [123;37;32;47;102;32;37;125]]%N.
Proof. vm_compute. reflexivity. Qed.

(* ---- a whitespace-free piece (a placeholder) ends up inside exactly one token ---- *)
Definition infix (w s : str) : Prop := exists a b, s = a ++ w ++ b.

Lemma first_token_from_cur s : forall cur0, cur0 <> [] ->
  exists t post q, split_ws_aux s cur0 = t :: post /\ t = rev cur0 ++ q.
Proof.
  induction s as [|x s IH]; intros cur0 Hc.
  - cbn. destruct cur0; [congruence|]. exists (rev (n :: cur0)), [], []. now rewrite app_nil_r.
  - cbn. destruct (is_space x).
    + destruct cur0; [congruence|]. eexists _, _, []. split; [reflexivity|]. now rewrite app_nil_r.
    + destruct (IH (x :: cur0)) as [t [post [q [E T]]]]; [discriminate|].
      exists t, post, ([x] ++ q). split; [assumption|]. rewrite T. cbn [rev]. now rewrite <- app_assoc.
Qed.

Theorem piece_in_one_token w : nows w -> w <> [] -> forall a b cur,
  exists pre t post, split_ws_aux (a ++ w ++ b) cur = pre ++ t :: post /\ infix w t.
Proof.
  intros Hw Hne a. induction a as [|c a IH]; intros b cur.
  - cbn [app]. rewrite split_ws_aux_word by assumption.
    destruct (first_token_from_cur b (rev w ++ cur)) as [t [post [q [E T]]]].
    { destruct w; [congruence|]. cbn. destruct (rev w); discriminate. }
    exists [], t, post. split; [exact E|].
    rewrite T, rev_app_distr, rev_involutive. exists (rev cur), q. now rewrite <- app_assoc.
  - cbn [app split_ws_aux]. destruct (is_space c).
    + destruct cur as [|x cur'].
      * apply IH.
      * destruct (IH b []) as [pre [t [post [E I]]]]. exists (rev (x :: cur') :: pre), t, post.
        split; [now rewrite E|assumption].
    + apply IH.
Qed.

(* the placeholders are whitespace free (so the theorem applies to them) *)
Lemma placeholder_affixes_nows : nows placeholder_prefix /\ nows placeholder_suffix.
Proof. split; vm_compute; reflexivity. Qed.

(* ---- every word sits on exactly one output line (C05 lossless, restated for C06) ---- *)
Theorem words_on_lines esc ws width c0 c1 md :
  exists Lo, concat Lo = ws /\ wrap_words esc ws width c0 c1 md = esc_lines esc md true Lo.
Proof.
  destruct (wrap_lossless esc ws width c0 c1 md) as [Lo [H1 [_ H3]]]. eauto.
Qed.
