(* C06: structural facts about tag preprocessing and the word splitter. *)
From Coq Require Import List NArith Bool Arith Lia.
Import ListNotations.
From Base Require Import PyStr Regex.
From Gen Require Import Consts Regexes.
From Model Require Import Wrap Tags LineWrap.
From Proofs Require Import PyStrFacts WrapProofs.

(* ---- preprocess_tag_block_spacing only inserts empty lines ---- *)
Inductive ins_blanks : list str -> list str -> Prop :=
| ib_nil : ins_blanks [] []
| ib_keep l a b : ins_blanks a b -> ins_blanks (l :: a) (l :: b)
| ib_ins a b : ins_blanks a b -> ins_blanks ([] :: a) b.

Lemma ins_blanks_app_l pre a b : Forall (fun l => l = []) pre -> ins_blanks a b -> ins_blanks (pre ++ a) b.
Proof. induction 1 as [|x pre Hx _ IH]; intros H; cbn; [assumption|]. subst x. constructor. now apply IH. Qed.

Theorem preprocess_lines_only_inserts lines : forall prev, ins_blanks (preprocess_lines prev lines) lines.
Proof.
  induction lines as [|line rest IH]; intros prev; cbn [preprocess_lines]; [constructor|].
  apply ins_blanks_app_l.
  - destruct prev as [pl|]; [|constructor].
    apply Forall_app. split; match goal with |- Forall _ (if ?c then _ else _) => destruct c end; repeat constructor.
  - constructor. apply IH.
Qed.

(* after preprocessing no non-blank tag-only line touches a block-content line *)
Definition bad_pair (x y : str) : bool :=
  negb (blank x) && ((is_tag_only_line x && line_is_block_content y) || (line_is_block_content x && is_tag_only_line y)).

Fixpoint adjacent_ok (prev : option str) (ls : list str) : bool :=
  match ls with
  | [] => true
  | l :: r => (match prev with Some p => negb (bad_pair p l) | None => true end) && adjacent_ok (Some l) r
  end.

Lemma nil_not_tag_only : is_tag_only_line [] = false. Proof. reflexivity. Qed.
Lemma nil_not_block : line_is_block_content [] = false. Proof. reflexivity. Qed.
Lemma nil_blank : blank [] = true. Proof. reflexivity. Qed.

Lemma bad_pair_nil_r x : bad_pair x [] = false.
Proof. unfold bad_pair. rewrite nil_not_tag_only, nil_not_block. destruct (blank x), (is_tag_only_line x), (line_is_block_content x); reflexivity. Qed.
Lemma bad_pair_nil_l y : bad_pair [] y = false.
Proof. unfold bad_pair. now rewrite nil_blank. Qed.

Theorem preprocess_lines_separates lines : forall prev,
  adjacent_ok prev (preprocess_lines prev lines) = true.
Proof.
  induction lines as [|line rest IH]; intros prev; cbn [preprocess_lines]; [reflexivity|].
  destruct prev as [pl|]; cbn [app adjacent_ok]; [|apply IH].
  destruct (negb (blank pl) && is_tag_only_line pl && line_is_block_content line) eqn:E1;
  destruct (negb (blank pl) && line_is_block_content pl && is_tag_only_line line) eqn:E2;
    cbn [app adjacent_ok]; rewrite ?bad_pair_nil_r, ?bad_pair_nil_l; cbn [negb andb]; try apply IH.
  (* no blank line inserted: the pair itself is fine *)
  rewrite IH, andb_true_r. unfold bad_pair.
  destruct (blank pl); cbn [negb andb] in *; [reflexivity|].
  rewrite E1, E2. reflexivity.
Qed.

(* ---- a whitespace-free piece (a placeholder) ends up inside exactly one token ---- *)
Definition infix (w s : str) : Prop := exists a b, s = a ++ w ++ b.

Lemma first_token_from_cur s : forall cur0, cur0 <> [] ->
  exists t post q, split_ws_aux s cur0 = t :: post /\ t = rev cur0 ++ q.
Proof.
  induction s as [|x s IH]; intros cur0 Hc.
  - cbn. destruct cur0; [congruence|]. exists (rev (n :: cur0)), [], []. now rewrite app_nil_r.
  - cbn. destruct (is_space x).
    + destruct cur0; [congruence|]. eexists _, _, []. split; [reflexivity|]. now rewrite app_nil_r.
    + destruct (IH (x :: cur0)) as [t [post [q [E T]]]]; [discriminate|].
      exists t, post, ([x] ++ q). split; [assumption|]. rewrite T. cbn [rev]. now rewrite <- app_assoc.
Qed.

Theorem piece_in_one_token w : nows w -> w <> [] -> forall a b cur,
  exists pre t post, split_ws_aux (a ++ w ++ b) cur = pre ++ t :: post /\ infix w t.
Proof.
  intros Hw Hne a. induction a as [|c a IH]; intros b cur.
  - cbn [app]. rewrite split_ws_aux_word by assumption.
    destruct (first_token_from_cur b (rev w ++ cur)) as [t [post [q [E T]]]].
    { destruct w; [congruence|]. cbn. destruct (rev w); discriminate. }
    exists [], t, post. split; [exact E|].
    rewrite T, rev_app_distr, rev_involutive. exists (rev cur), q. now rewrite <- app_assoc.
  - cbn [app split_ws_aux]. destruct (is_space c).
    + destruct cur as [|x cur'].
      * apply IH.
      * destruct (IH b []) as [pre [t [post [E I]]]]. exists (rev (x :: cur') :: pre), t, post.
        split; [now rewrite E|assumption].
    + apply IH.
Qed.

(* the placeholders are whitespace free (so the theorem applies to them) *)
Lemma placeholder_affixes_nows : nows placeholder_prefix /\ nows placeholder_suffix.
Proof. split; vm_compute; reflexivity. Qed.

(* ---- every word sits on exactly one output line (C05 lossless, restated for C06) ---- *)
Theorem words_on_lines esc ws width c0 c1 md :
  exists Lo, concat Lo = ws /\ wrap_words esc ws width c0 c1 md = esc_lines esc md true Lo.
Proof.
  destruct (wrap_lossless esc ws width c0 c1 md) as [Lo [H1 [_ H3]]]. eauto.
Qed.
