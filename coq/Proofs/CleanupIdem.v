(* The heading cleanup reaches its fixed point in one application (after fix b925259): what the bold rule
   leaves is not bold around everything, and what the bold-italic rule leaves is not italics around bold. *)
From Coq Require Import List NArith Bool.
Import ListNotations.
From Base Require Import PyStr.
From Model Require Import Ast Transforms.
From Proofs Require Import RenderProofs.

(* the content of the innermost sole-child bold span is not itself a sole bold span *)
Lemma unwrap_strong_not_bold e : forall cs, e = INode KStrong cs -> strip_bold (unwrap_strong e) = None.
Proof.
  induction e as [s|s|b|s|s|s|k c IH] using inl_ind'; intros cs E; try discriminate E.
  injection E as -> ->.
  destruct cs as [|x [|y r]].
  - reflexivity.
  - destruct x as [s|s|b|s|s|s|k c]; try reflexivity.
    destruct k; try reflexivity.
    inversion IH as [|? ? Hx _]; subst.
    change (unwrap_strong (INode KStrong [INode KStrong c])) with (unwrap_strong (INode KStrong c)).
    apply (Hx c). reflexivity.
  - destruct x as [s|s|b|s|s|s|k c]; try reflexivity. destruct k; reflexivity.
Qed.

Lemma strip_bold_some c x : strip_bold c = Some x -> strip_bold x = None.
Proof.
  destruct c as [|[s|s|b|s|s|s|k inner] [|e2 r]]; try discriminate; destruct k; try discriminate.
  intros E. pose proof (unwrap_strong_not_bold _ inner eq_refl) as H.
  replace x with (unwrap_strong (INode KStrong inner)); [exact H|]. injection E as E. exact E.
Qed.

Lemma strip_bold_in_italics_some c x : strip_bold_in_italics c = Some x ->
  strip_bold x = None /\ strip_bold_in_italics x = None.
Proof.
  destruct c as [|[s|s|b|s|s|s|k inner] [|e2 r]]; try discriminate; destruct k; try discriminate.
  cbn [strip_bold_in_italics]. destruct (strip_bold inner) as [y|] eqn:E; [|discriminate].
  intros H. injection H as <-. split; [reflexivity|].
  cbn [strip_bold_in_italics]. now rewrite (strip_bold_some _ _ E).
Qed.

Lemma unbold_outer_idem c : unbold_outer (unbold_outer c) = unbold_outer c.
Proof.
  rewrite (unbold_outer_spec c). destruct (strip_bold c) as [x|] eqn:E.
  - rewrite unbold_outer_spec, (strip_bold_some _ _ E). reflexivity.
  - rewrite unbold_outer_spec, E. reflexivity.
Qed.

Theorem unbold_leaf_idem l : unbold_leaf (unbold_leaf l) = unbold_leaf l.
Proof.
  destruct l; try reflexivity. cbn [unbold_leaf]. f_equal.
  set (c1 := unbold_outer c).
  assert (H1 : strip_bold c1 = None \/ exists c0, strip_bold c0 = Some c1).
  { unfold c1. rewrite unbold_outer_spec. destruct (strip_bold c) as [x|] eqn:E; [right; now exists c|now left]. }
  assert (N1 : strip_bold c1 = None) by (destruct H1 as [H|[c0 H]]; [exact H|exact (strip_bold_some _ _ H)]).
  rewrite (unbold_inner_spec c1). destruct (strip_bold_in_italics c1) as [x|] eqn:E.
  - destruct (strip_bold_in_italics_some _ _ E) as [A B].
    rewrite unbold_outer_spec, A, unbold_inner_spec, B. reflexivity.
  - rewrite unbold_outer_spec, N1, unbold_inner_spec, E. reflexivity.
Qed.

Lemma map_blk_idem f : (forall l, f (f l) = f l) -> forall b, map_blk f (map_blk f b) = map_blk f b.
Proof.
  intros Hf. induction b as [l|k c IH] using blk_ind'; cbn [map_blk]; [now rewrite Hf|].
  f_equal. rewrite map_map. induction IH as [|x r Hx _ IHr]; [reflexivity|]. cbn [map]. now rewrite Hx, IHr.
Qed.

Theorem doc_cleanups_idem bs : doc_cleanups (doc_cleanups bs) = doc_cleanups bs.
Proof.
  unfold doc_cleanups. rewrite map_map. apply map_ext. intros b. apply map_blk_idem. exact unbold_leaf_idem.
Qed.
