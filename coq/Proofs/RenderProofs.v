(* Theorems about the transforms and the renderer model (C04, C08, C10, C12). *)
From Coq Require Import List NArith ZArith Bool Arith Lia.
Import ListNotations.
From Base Require Import PyStr CliTypes.
From Model Require Import Ast Transforms Render.
From Proofs Require Import PyStrFacts.

(* ---- induction principles for the nested trees ---- *)
Section BlkInd.
  Variable P : blk -> Prop.
  Hypothesis Hleaf : forall l, P (BLeaf l).
  Hypothesis Hnode : forall k c, Forall P c -> P (BNode k c).
  Fixpoint blk_ind' (b : blk) : P b :=
    match b with
    | BLeaf l => Hleaf l
    | BNode k c => Hnode k c ((fix go (l : list blk) : Forall P l :=
                                 match l with [] => Forall_nil _ | x :: r => Forall_cons _ (blk_ind' x) (go r) end) c)
    end.
End BlkInd.

Section InlInd.
  Variable P : inl -> Prop.
  Hypothesis Hraw : forall s, P (IRaw s).
  Hypothesis Hcode : forall s, P (ICode s).
  Hypothesis Hbreak : forall b, P (IBreak b).
  Hypothesis Hlit : forall s, P (ILit s).
  Hypothesis Hhtml : forall s, P (IHtml s).
  Hypothesis Hfoot : forall s, P (IFootRef s).
  Hypothesis Hnode : forall k c, Forall P c -> P (INode k c).
  Fixpoint inl_ind' (e : inl) : P e :=
    match e with
    | IRaw s => Hraw s | ICode s => Hcode s | IBreak b => Hbreak b | ILit s => Hlit s
    | IHtml s => Hhtml s | IFootRef s => Hfoot s
    | INode k c => Hnode k c ((fix go (l : list inl) : Forall P l :=
                                 match l with [] => Forall_nil _ | x :: r => Forall_cons _ (inl_ind' x) (go r) end) c)
    end.
End InlInd.

(* ---- C10.1: the cleanup touches exactly the wholly-bold ATX headings ---- *)
(* [wholly_bold l]: l is a heading whose entire content is bold (Some: the heading without it), where bold
   directly inside bold counts as bold, and what is left is treated again when it is italics around bold *)
Definition strip_bold (c : list inl) : option (list inl) :=
  match c with
  | [INode KStrong _ as e] => Some (unwrap_strong e)
  | _ => None
  end.
Definition strip_bold_in_italics (c : list inl) : option (list inl) :=
  match c with
  | [INode KEmph inner] => match strip_bold inner with Some x => Some [INode KEmph x] | None => None end
  | _ => None
  end.
Definition wholly_bold (l : leaf) : option leaf :=
  match l with
  | LHeading sx lv c =>
      match strip_bold c with
      | Some c1 => Some (LHeading sx lv (match strip_bold_in_italics c1 with Some c2 => c2 | None => c1 end))
      | None => match strip_bold_in_italics c with Some c2 => Some (LHeading sx lv c2) | None => None end
      end
  | _ => None
  end.

Lemma unbold_outer_spec c : unbold_outer c = match strip_bold c with Some x => x | None => c end.
Proof.
  destruct c as [|[?|?|?|?|?|?|k inner] [|e2 r]]; try reflexivity; destruct k; reflexivity.
Qed.
Lemma unbold_inner_spec c : unbold_inner c = match strip_bold_in_italics c with Some x => x | None => c end.
Proof.
  destruct c as [|[?|?|?|?|?|?|k inner] [|e2 r]]; try reflexivity; destruct k; try reflexivity.
  all: destruct inner as [|[?|?|?|?|?|?|k2 c2] [|e3 r3]]; try reflexivity; destruct k2; reflexivity.
Qed.

Theorem unbold_spec l :
  unbold_leaf l = match wholly_bold l with Some l' => l' | None => l end.
Proof.
  destruct l; try reflexivity. unfold unbold_leaf, wholly_bold.
  rewrite unbold_outer_spec. destruct (strip_bold _) as [c1|]; rewrite unbold_inner_spec; [reflexivity|].
  destruct (strip_bold_in_italics _); reflexivity.
Qed.

(* everything that is not such a heading is untouched, at any nesting depth *)
Fixpoint blk_leaves (b : blk) : list leaf :=
  match b with
  | BLeaf l => [l]
  | BNode _ c => concat (map blk_leaves c)
  end.

Fixpoint blk_shape (b : blk) : blk :=
  match b with
  | BLeaf _ => BLeaf LThematic
  | BNode k c => BNode k (map blk_shape c)
  end.

Lemma map_blk_shape f b : blk_shape (map_blk f b) = blk_shape b.
Proof.
  induction b as [l|k c IH] using blk_ind'; [reflexivity|].
  cbn. f_equal. rewrite map_map. induction IH as [|x c Hx _ IHc]; [reflexivity|].
  cbn. f_equal; assumption.
Qed.

Lemma map_blk_leaves f b : blk_leaves (map_blk f b) = map f (blk_leaves b).
Proof.
  induction b as [l|k c IH] using blk_ind'; [reflexivity|].
  cbn. rewrite map_map, concat_map, map_map. f_equal.
  induction IH as [|x c Hx _ IHc]; [reflexivity|]. cbn. f_equal; assumption.
Qed.

Theorem cleanups_spec bs :
  map blk_shape (doc_cleanups bs) = map blk_shape bs /\
  concat (map blk_leaves (doc_cleanups bs)) =
    map (fun l => match wholly_bold l with Some l' => l' | None => l end) (concat (map blk_leaves bs)).
Proof.
  unfold doc_cleanups. split.
  - rewrite map_map. apply map_ext. intros b. apply map_blk_shape.
  - rewrite map_map, concat_map, map_map. f_equal. apply map_ext. intros b.
    rewrite map_blk_leaves. apply map_ext. intros l. apply unbold_spec.
Qed.

(* ---- C04.2 / C08.4 / C09.3: text rewrites change RawText strings only ---- *)
Fixpoint inl_erase (e : inl) : inl :=
  match e with
  | IRaw _ => IRaw []
  | INode k c => INode k (map inl_erase c)
  | x => x
  end.

Section RcShape.
  Variable f : str -> M str.

  Lemma rc_inl_erase e : forall e', rc_inl f e = ret e' -> inl_erase e' = inl_erase e.
  Proof.
    induction e as [s|s|b|s|s|l|k c IH] using inl_ind'; intros e' H; cbn in H;
      try (injection H as <-; reflexivity).
    - unfold bind in H. destruct (f s); [|discriminate]. injection H as <-. reflexivity.
    - destruct (ik_container k); [|injection H as <-; reflexivity].
      unfold bind in H.
      match type of H with match ?g c with _ => _ end = _ => destruct (g c) as [c'|] eqn:E end; [|discriminate].
      injection H as <-. cbn. f_equal.
      revert c' E. induction IH as [|x c Hx _ IHc]; intros c' E.
      + cbn in E. injection E as <-. reflexivity.
      + cbn in E. unfold bind in E.
        destruct (rc_inl f x) as [x'|] eqn:Ex; [|discriminate].
        match type of E with match ?g with _ => _ end = _ => destruct g as [r'|] eqn:Er end; [|discriminate].
        injection E as <-. cbn. f_equal; [apply Hx; reflexivity|apply IHc; reflexivity].
  Qed.
End RcShape.

(* write-back of a converted composite text changes RawText strings only *)
Lemma wb_inl_erase e : forall conv, inl_erase (fst (wb_inl e conv)) = inl_erase e.
Proof.
  induction e as [s|s|b|s|s|l|k c IH] using inl_ind'; intros conv; try reflexivity.
  destruct k as [| | |dest title|dest title|dest|dest]; try reflexivity;
  cbn [wb_inl];
  set (go := (fix go (l : list inl) (conv : str) : list inl * str :=
           match l with
           | [] => ([], conv)
           | x :: r => let '(a, c1) := wb_inl x conv in let '(b, c2) := go r c1 in (a :: b, c2)
           end)).
  all: assert (G : forall cv, map inl_erase (fst (go c cv)) = map inl_erase c) by
    (induction IH as [|x l Hx _ IHl]; intros cv; [reflexivity|];
     cbn; destruct (wb_inl x cv) as [a c1] eqn:Ea; destruct (go l c1) as [b c2] eqn:Eb; cbn;
     f_equal; [pose proof (Hx cv) as Q; now rewrite Ea in Q|pose proof (IHl c1) as Q; now rewrite Eb in Q]).
  all: specialize (G conv); destruct (go c conv) as [c' rest]; cbn in *; now f_equal.
Qed.

(* across-inlines rewrite: only RawText strings can change, the tree shape and every literal
   (code span, HTML, escape, link destination/title, footnote label) stay *)
Lemma wb_inls_erase l : forall conv, map inl_erase (fst (wb_inls l conv)) = map inl_erase l.
Proof.
  induction l as [|x l IH]; intros conv; [reflexivity|].
  cbn. destruct (wb_inl x conv) as [a c1] eqn:Ea. destruct (wb_inls l c1) as [b c2] eqn:Eb. cbn.
  f_equal.
  - pose proof (wb_inl_erase x conv) as Q. now rewrite Ea in Q.
  - pose proof (IH c1) as Q. now rewrite Eb in Q.
Qed.

Theorem across_scope_erase f c c' : across_scope f c = ret c' -> map inl_erase c' = map inl_erase c.
Proof.
  unfold across_scope. destruct (segs_inls c); [intros [= <-]; reflexivity|].
  destruct (concat _); [intros [= <-]; reflexivity|].
  unfold bind. destruct (f _) as [conv|]; [|discriminate].
  destruct (Nat.eqb _ _); [|discriminate]. intros [= <-]. apply wb_inls_erase.
Qed.

(* ---- C04 / C01.6: the fence chosen for a code block is longer than every fence-like run
   at the start of a content line, and at least as long as the original fence ---- *)
Lemma fold_max_ge (g : str -> nat) l : forall acc x, In x l ->
  g x <= fold_left (fun a y => Nat.max a (g y)) l acc.
Proof.
  induction l as [|y l IH]; intros acc x H; [contradiction|]. cbn.
  destruct H as [<-|H].
  - clear IH. assert (M : forall l0 a, a <= fold_left (fun a0 y0 => Nat.max a0 (g y0)) l0 a).
    { induction l0 as [|z l0 IH0]; intros a; cbn; [lia|]. etransitivity; [|apply IH0]. lia. }
    etransitivity; [|apply M]. lia.
  - now apply IH.
Qed.

Theorem fence_adequate content fc flen line :
  In line (split_on 10%N content) ->
  fence_run_at_line_start fc line < Nat.max flen (min_fence_length content fc) /\
  flen <= Nat.max flen (min_fence_length content fc).
Proof.
  intros H. split; [|lia]. unfold min_fence_length, nlc. cbv zeta.
  pose proof (fold_max_ge (fence_run_at_line_start fc) (split_on 10%N content) O line H) as Q.
  set (m := fold_left _ _ _) in *. lia.
Qed.

(* ---- C12.2: every rendered block is empty or ends in a newline ---- *)
Definition ends_nl (s : str) : Prop := s = [] \/ exists t, s = t ++ [10%N].

Lemma ends_nl_app a b : ends_nl a -> ends_nl b -> ends_nl (a ++ b).
Proof.
  intros Ha [->|[t ->]]; [now rewrite app_nil_r|]. right. exists (a ++ t). now rewrite app_assoc.
Qed.
Lemma ends_nl_snoc t : ends_nl (t ++ [10%N]).
Proof. right. eauto. Qed.
Lemma ends_nl_snoc2 t : ends_nl (t ++ [10%N; 10%N]).
Proof. right. exists (t ++ [10%N]). now rewrite <- app_assoc. Qed.

Definition ends_strict (s : str) : Prop := exists t, s = t ++ [10%N].
Lemma es_base : ends_strict [10%N]. Proof. exists []. reflexivity. Qed.
Lemma es_snoc x : ends_strict (x ++ [10%N]). Proof. exists x. reflexivity. Qed.
Lemma es_snoc2 x : ends_strict (x ++ [10%N; 10%N]). Proof. exists (x ++ [10%N]). now rewrite <- app_assoc. Qed.
Lemma es_snoc3 x a b : ends_strict (x ++ [a; b; 10%N]). Proof. exists (x ++ [a; b]). now rewrite <- app_assoc. Qed.
Lemma es_app a b : ends_strict b -> ends_strict (a ++ b).
Proof. intros [t ->]. exists (a ++ t). now rewrite app_assoc. Qed.
Lemma es_cons c b : ends_strict b -> ends_strict (c :: b).
Proof. intros [t ->]. exists (c :: t). reflexivity. Qed.
Lemma es_ends s : ends_strict s -> ends_nl s. Proof. intros H. now right. Qed.
Ltac ends := apply es_ends; repeat first [apply es_base | apply es_snoc | apply es_snoc2 | apply es_snoc3 | apply es_app | apply es_cons].

Section RenderFacts.
  Variable wrapper : str -> str -> str -> M str.
  Variable spacing : lsp.
  Variable refdefs : list (str * (str * option str)).

  Definition no_html (l : leaf) : Prop := match l with LHtml _ => False | _ => True end.
  Fixpoint wf_blk (b : blk) : Prop :=
    match b with
    | BLeaf l => no_html l
    | BNode _ c => (fix go (l : list blk) : Prop := match l with [] => True | x :: r => wf_blk x /\ go r end) c
    end.

  Lemma render_row_ends cells cur : ends_nl (fst (render_row refdefs cells cur)).
  Proof.
    unfold render_row. destruct (render_cells refdefs cells cur) as [ts c']. cbn [fst]. ends.
  Qed.

  Lemma render_rows_ends rows : forall cur, ends_nl (fst (render_rows refdefs rows cur)).
  Proof.
    induction rows as [|r rows IH]; intros cur; cbn; [now left|].
    pose proof (render_row_ends r cur) as Hr. destruct (render_row refdefs r cur) as [t c1]. cbn in Hr.
    pose proof (IH c1) as Hs. destruct (render_rows refdefs rows c1) as [ts c2]. cbn in *.
    now apply ends_nl_app.
  Qed.

  Lemma render_leaf_ends l st t st' : no_html l ->
    render_leaf wrapper refdefs l st = ret (t, st') -> ends_nl t.
  Proof.
    intros W H. destruct l; cbn [render_leaf] in H.
    - destruct (render_inls refdefs false c []) as [tx cx]. unfold bind in H.
      destruct (wrapper _ _ _); [|discriminate]. injection H as <- _. ends.
    - destruct (render_inls refdefs true c []) as [tx0 cx]. set (tx := escape_closing_hashes _) in *.
      destruct (endswith tx [bsl]); injection H as <- _.
      + ends.
      + ends.
    - unfold render_code in H. injection H as <- _. ends.
    - injection H as <- _. apply es_ends. apply es_app. exists [42; 32; 42; 32; 42]%N. reflexivity.
    - destruct (r_skip st); injection H as <- _; [now left|].
      destruct (strip (r_prefix st)); ends.
    - injection H as <- _. ends.
    - cbv zeta in H. destruct rows as [|head body]; [discriminate|].
      destruct (render_row refdefs head _) as [h c1].
      destruct (render_rows refdefs body c1) as [b c2].
      injection H as <- _.
      destruct (removelast _) as [|l0 rest]; [now left|].
      apply ends_nl_app; [ends|].
      induction rest as [|x rest IHr]; [now left|]. cbn [map concat]. apply ends_nl_app; [ends|exact IHr].
    - contradiction.
  Qed.

  Theorem render_blk_ends b : wf_blk b -> forall st t st',
    render_blk wrapper spacing refdefs b st = ret (t, st') -> ends_nl t.
  Proof.
    induction b as [l|k c IH] using blk_ind'; intros W st t st' H.
    - cbn in H. eapply render_leaf_ends; eauto.
    - cbn [render_blk] in H.
      set (kids := (fix kids (l : list blk) (st : rst) : M (str * rst) :=
             match l with
             | [] => ret ([], st)
             | x :: r => a <- render_blk wrapper spacing refdefs x st ;; b <- kids r (snd a) ;; ret (fst a ++ fst b, snd b)
             end)) in *.
      assert (WF : Forall wf_blk c).
      { clear - W. cbn in W. induction c as [|x c IHc]; constructor; [tauto|apply IHc; tauto]. }
      assert (IH' : Forall (fun b => forall st t st', render_blk wrapper spacing refdefs b st = ret (t, st') -> ends_nl t) c).
      { clear - IH WF. induction IH as [|x l Hx _ IHl]; [constructor|]. inversion WF as [|? ? W1 W2]; subst. constructor; [exact (Hx W1)|exact (IHl W2)]. }
      clear IH W WF.
      assert (K : forall st0 r, kids c st0 = ret r -> ends_nl (fst r)).
      { clear H. induction IH' as [|x l Hx _ IHl]; intros st0 r E; cbn in E.
        - injection E as <-. now left.
        - unfold bind in E. destruct (render_blk wrapper spacing refdefs x st0) as [[ta sa]|] eqn:Ea; [|discriminate].
          destruct (kids l (snd (ta, sa))) as [rb|] eqn:Eb; [|discriminate]. injection E as <-. cbn [fst].
          apply ends_nl_app; [eapply Hx; eauto|eapply IHl; eauto]. }
      destruct k.
      + (* list *)
        unfold bind in H.
        match type of H with match ?g with _ => _ end = _ => destruct g as [r|] eqn:E end; [|discriminate].
        injection H as <- _.
        revert E.
        match goal with |- ?f c ?z ?s = _ -> _ => generalize z; generalize s end.
        clear K. revert r. induction IH' as [|x l Hx _ IHl]; intros r s0 z E; cbn in E.
        * injection E as <-. now left.
        * unfold bind in E.
          match type of E with match ?g with _ => _ end = _ => destruct g as [[ta sa]|] eqn:Ea end; [|discriminate].
          match type of E with match ?g with _ => _ end = _ => destruct g as [rb|] eqn:Eb end; [|discriminate].
          injection E as <-. cbn [fst].
          apply ends_nl_app; [eapply Hx; eauto|eapply IHl; eauto].
      + (* item *)
        destruct c as [|c0 cs].
        { destruct (r_tight st); [|destruct (r_suppress st)]; injection H as <- _; cbn [app]; ends. }
        destruct (r_tight st); [|destruct (r_suppress st)]; unfold bind in H;
          match type of H with match ?g with _ => _ end = _ => destruct g as [r|] eqn:E end; try discriminate;
          injection H as <- _; apply K in E; auto; cbn [app]; try assumption.
        apply ends_nl_app; [ends|assumption].
      + unfold bind in H. match type of H with match ?g with _ => _ end = _ => destruct g as [r|] eqn:E end; [|discriminate].
        injection H as <- _. ends.
      + unfold bind in H. match type of H with match ?g with _ => _ end = _ => destruct g as [r|] eqn:E end; [|discriminate].
        injection H as <- _. ends.
      + unfold bind in H. match type of H with match ?g with _ => _ end = _ => destruct g as [r|] eqn:E end; [|discriminate].
        injection H as <- _. ends.
  Qed.
End RenderFacts.

Theorem render_doc_ends wrapper spacing refdefs blocks t :
  Forall wf_blk blocks -> render_doc wrapper spacing refdefs blocks = ret t -> ends_nl t.
Proof.
  intros W. unfold render_doc, bind.
  destruct (render_blocks wrapper spacing refdefs blocks init_rst) as [[t0 s0]|] eqn:E; [|discriminate].
  intros [= <-]. cbn [fst]. revert t0 s0 E. generalize init_rst.
  induction W as [|b bs Wb _ IH]; intros st t0 s0 E; cbn in E.
  - injection E as <- _. now left.
  - unfold bind in E. destruct (render_blk wrapper spacing refdefs b st) as [[ta sa]|] eqn:Ea; [|discriminate].
    destruct (render_blocks wrapper spacing refdefs bs (snd (ta, sa))) as [[tb sb]|] eqn:Eb; [|discriminate].
    injection E as <- _. cbn [fst]. apply ends_nl_app; [eapply render_blk_ends; eauto|eapply IH; eauto].
Qed.

(* ---- code spans: the delimiter is one backtick longer than the longest run inside, and the
   content is reproduced verbatim between optional one-space padding ---- *)
Theorem code_span_shape s :
  exists pad, (pad = [] \/ pad = [sp]) /\
    render_code_span s = repeat bq (S (longest_run bq s)) ++ pad ++ s ++ pad ++ repeat bq (S (longest_run bq s)).
Proof.
  unfold render_code_span. destruct s as [|c r].
  - exists []. split; [now left|]. reflexivity.
  - destruct (_ || _).
    + exists [sp]. split; [now right|]. reflexivity.
    + exists []. split; [now left|]. reflexivity.
Qed.
