(* C17: the traversal returns exactly the wanted files; the result of resolve is sorted,
   duplicate-free, the union of what the arguments give, and independent of the order of the
   arguments and of the listing order of every directory. *)
From Coq Require Import List NArith Bool Arith Lia Permutation Sorted.
Import ListNotations.
From Base Require Import PyStr.
From Model Require Import Resolver.
Local Open Scope N_scope.

(* ---- induction principle for the nested tree ---- *)
Section NodeInd.
  Variable P : node -> Prop.
  Hypothesis Hf : forall sz, P (NFile sz).
  Hypothesis Hl : P NLink.
  Hypothesis Hd : forall es, Forall (fun e => P (snd e)) es -> P (NDir es).
  Fixpoint node_ind' (n : node) : P n :=
    match n with
    | NFile sz => Hf sz
    | NLink => Hl
    | NDir es => Hd es ((fix go (l : list (str * node)) : Forall (fun e => P (snd e)) l :=
                           match l with [] => Forall_nil _ | e :: r => Forall_cons _ (node_ind' (snd e)) (go r) end) es)
    end.
End NodeInd.

Section WalkFacts.
  Variable inc : str -> bool.
  Variable exc : str -> bool.
  Variable tool : option (str -> bool).
  Variable gi : list str -> option (str -> option bool).
  Variable respect : bool.
  Variable maxsize : N.

  Notation walk := (walk inc exc tool gi respect maxsize).
  Notation file_ok := (file_ok inc tool maxsize).
  Notation gchain := (list (list str * (str -> option bool))).
  Notation dir_excluded := (dir_excluded exc tool).
  Notation chain_of := (chain_of gi respect).

  (* the specification, written without recursion over the listing order: a file is wanted when it
     is a regular file that passes the per-file tests and every directory on the way down from the
     root is a real directory (never a link) that is not excluded *)
  Inductive Wanted : list str -> gchain -> node -> list str -> Prop :=
  | W_file rel chain0 es name sz :
      In (name, NFile sz) es -> file_ok (chain_of rel chain0) rel name sz = true ->
      Wanted rel chain0 (NDir es) (rel ++ [name])
  | W_dir rel chain0 es name sub p :
      In (name, NDir sub) es -> dir_excluded (chain_of rel chain0) rel name = false ->
      Wanted (rel ++ [name]) (chain_of rel chain0) (NDir sub) p ->
      Wanted rel chain0 (NDir es) p.

  Theorem walk_sound_complete n : forall rel chain0 p,
    In p (walk rel chain0 n) <-> Wanted rel chain0 n p.
  Proof.
    induction n as [sz| |es IH] using node_ind'; intros rel chain0 p.
    - cbn. split; [tauto|intros H; inversion H].
    - cbn. split; [tauto|intros H; inversion H].
    - cbn [Resolver.walk]. set (chain := chain_of rel chain0).
      set (go := (fix go (l : list (str * node)) : list (list str) :=
           match l with
           | [] => []
           | (name, NFile sz) :: r => (if file_ok chain rel name sz then [rel ++ [name]] else []) ++ go r
           | (name, (NDir _ as sub)) :: r =>
               (if dir_excluded chain rel name then [] else walk (rel ++ [name]) chain sub) ++ go r
           | (_, NLink) :: r => go r
           end)).
      (* characterise [go] over any sub-list of the entries *)
      assert (G : forall l, Forall (fun e => forall rel chain0 p, In p (walk rel chain0 (snd e)) <-> Wanted rel chain0 (snd e) p) l ->
                  forall q, In q (go l) <->
                    (exists name sz, In (name, NFile sz) l /\ file_ok chain rel name sz = true /\ q = rel ++ [name]) \/
                    (exists name sub, In (name, NDir sub) l /\ dir_excluded chain rel name = false /\
                                      Wanted (rel ++ [name]) chain (NDir sub) q)).
      { induction l as [|[name nd] r IHr]; intros HF q.
        - cbn. split; [tauto|]. intros [[? [? [[] _]]]|[? [? [[] _]]]].
        - inversion HF as [|? ? Hhd Htl]; subst. specialize (IHr Htl q). cbn [snd] in Hhd.
          destruct nd as [sz|es'|].
          + cbn [go]. rewrite in_app_iff, IHr. split.
            * intros [H|[H|H]].
              -- destruct (file_ok chain rel name sz) eqn:E; [|destruct H].
                 destruct H as [<-|[]]. left. exists name, sz. split; [now left|auto].
              -- destruct H as [n0 [s0 [Hin H]]]. left. exists n0, s0. split; [now right|exact H].
              -- destruct H as [n0 [s0 [Hin H]]]. right. exists n0, s0. split; [now right|exact H].
            * intros [[n0 [s0 [[Heq|Hin] [Hok ->]]]]|[n0 [s0 [[Heq|Hin] H]]]].
              -- injection Heq as -> ->. left. rewrite Hok. now left.
              -- right. left. exists n0, s0. auto.
              -- discriminate Heq.
              -- right. right. exists n0, s0. auto.
          + cbn [go]. rewrite in_app_iff, IHr. split.
            * intros [H|[H|H]].
              -- destruct (dir_excluded chain rel name) eqn:E; [destruct H|].
                 apply Hhd in H. right. exists name, es'. split; [now left|auto].
              -- destruct H as [n0 [s0 [Hin H]]]. left. exists n0, s0. split; [now right|exact H].
              -- destruct H as [n0 [s0 [Hin H]]]. right. exists n0, s0. split; [now right|exact H].
            * intros [[n0 [s0 [[Heq|Hin] H]]]|[n0 [s0 [[Heq|Hin] [Hex Hw]]]]].
              -- discriminate Heq.
              -- right. left. exists n0, s0. auto.
              -- injection Heq as -> ->. left. rewrite Hex. now apply Hhd.
              -- right. right. exists n0, s0. auto.
          + cbn [go]. rewrite IHr. split.
            * intros [[n0 [s0 [Hin H]]]|[n0 [s0 [Hin H]]]]; [left|right]; exists n0, s0; (split; [now right|exact H]).
            * intros [[n0 [s0 [[Heq|Hin] H]]]|[n0 [s0 [[Heq|Hin] H]]]]; try discriminate Heq;
                [left|right]; exists n0, s0; auto. }
      rewrite (G es IH p). split.
      + intros [[name [sz [Hin [Hok ->]]]]|[name [sub [Hin [Hex Hw]]]]].
        * now apply W_file with (sz := sz).
        * now apply W_dir with (name := name) (sub := sub).
      + intros H. inversion H; subst.
        * left. eauto.
        * right. eauto.
  Qed.

  (* nothing is reached through a link: the first step of every result below a directory goes
     through an entry that is a regular file or a real directory *)
  Lemma wanted_prefix rel chain0 n p : Wanted rel chain0 n p -> exists t, p = rel ++ t.
  Proof.
    induction 1 as [rel chain0 es name sz _ _|rel chain0 es name sub p _ _ _ [t ->]].
    - exists [name]. reflexivity.
    - exists (name :: t). now rewrite <- app_assoc.
  Qed.

  Theorem walk_never_through_link rel chain0 es p :
    In p (walk rel chain0 (NDir es)) ->
    exists name t n, p = rel ++ name :: t /\ In (name, n) es /\ n <> NLink.
  Proof.
    intros H. apply walk_sound_complete in H. inversion H as [? ? ? name sz Hin Hok|? ? ? name sub ? Hin Hex Hw]; subst.
    - exists name, [], (NFile sz). repeat split; [assumption|discriminate].
    - destruct (wanted_prefix _ _ _ _ Hw) as [t ->]. exists name, t, (NDir sub).
      rewrite <- app_assoc. repeat split; [assumption|discriminate].
  Qed.

  (* the listing order of a directory (at any depth) does not matter: trees that have the same
     entries up to order give the same set of files *)
  Inductive same_entries : node -> node -> Prop :=
  | SE_file sz : same_entries (NFile sz) (NFile sz)
  | SE_link : same_entries NLink NLink
  | SE_dir es es' :
      (forall name n, In (name, n) es -> exists n', In (name, n') es' /\ same_entries n n') ->
      (forall name n', In (name, n') es' -> exists n, In (name, n) es /\ same_entries n n') ->
      same_entries (NDir es) (NDir es').

  Lemma wanted_same_entries rel chain0 n p : Wanted rel chain0 n p ->
    forall n', same_entries n n' -> Wanted rel chain0 n' p.
  Proof.
    induction 1 as [rel chain0 es name sz Hin Hok|rel chain0 es name sub p Hin Hex Hw IH]; intros n' S;
      inversion S as [| |? es' F B]; subst.
    - destruct (F _ _ Hin) as [m [Hm Sm]]. inversion Sm; subst. now apply W_file with (sz := sz).
    - destruct (F _ _ Hin) as [m [Hm Sm]]. inversion Sm as [| |? es2 F2 B2]; subst.
      apply W_dir with (name := name) (sub := es2); auto.
  Qed.

  Theorem walk_listing_order_irrelevant rel chain0 n n' p :
    same_entries n n' -> In p (walk rel chain0 n) -> In p (walk rel chain0 n').
  Proof. intros S H. apply walk_sound_complete. apply walk_sound_complete in H. eapply wanted_same_entries; eauto. Qed.

  (* a glob selects among the traversal's files *)
  Theorem glob_subset_of_walk sel root p :
    In p (expand_glob inc exc tool gi respect maxsize sel root) -> In p (walk [] [] root) /\ sel p = true.
  Proof. unfold expand_glob. rewrite filter_In. tauto. Qed.

  (* explicitly named files bypass exclusion and ignore rules unless force_exclude, never the size limit *)
  Theorem explicit_bypass parts sz :
    include_explicit exc maxsize false parts sz = negb (exceeds maxsize sz).
  Proof. reflexivity. Qed.
  Theorem explicit_size_limit force parts sz :
    exceeds maxsize sz = true -> include_explicit exc maxsize force parts sz = false.
  Proof. intros H. unfold include_explicit. rewrite H. now rewrite andb_false_r. Qed.
End WalkFacts.

(* ---- resolve: sorted, duplicate-free, the union of the arguments, order independent ---- *)
Section SortFacts.
  Context {A : Type}.
  Variable eqb : A -> A -> bool.
  Variable leb : A -> A -> bool.
  Hypothesis eqb_spec : forall x y, eqb x y = true <-> x = y.
  Hypothesis leb_total : forall x y, leb x y = true \/ leb y x = true.
  Hypothesis leb_trans : forall x y z, leb x y = true -> leb y z = true -> leb x z = true.
  Hypothesis leb_antisym : forall x y, leb x y = true -> leb y x = true -> x = y.

  Notation insert := (insert leb).
  Notation isort := (isort leb).
  Notation dedup := (dedup eqb).
  Notation le := (fun x y => leb x y = true).

  Lemma insert_in x l y : In y (insert x l) <-> y = x \/ In y l.
  Proof.
    induction l as [|z r IH]; cbn; [intuition|].
    destruct (leb x z); cbn; [intuition|]. rewrite IH. intuition.
  Qed.
  Lemma isort_in l y : In y (isort l) <-> In y l.
  Proof. induction l as [|x r IH]; cbn; [tauto|]. rewrite insert_in, IH. intuition. Qed.

  Lemma insert_sorted x l : Sorted le l -> Sorted le (insert x l).
  Proof.
    induction 1 as [|z r Hs IH Hh]; cbn; [repeat constructor|].
    destruct (leb x z) eqn:E.
    - constructor; [now constructor|now constructor].
    - constructor; [exact IH|].
      assert (Hzx : leb z x = true) by (destruct (leb_total x z); congruence).
      destruct r as [|w r]; cbn; [now constructor|].
      destruct (leb x w); constructor; [exact Hzx|]. inversion Hh; assumption.
  Qed.
  Theorem isort_sorted l : Sorted le (isort l).
  Proof. induction l; cbn; [constructor|now apply insert_sorted]. Qed.

  Lemma insert_nodup x l : ~ In x l -> NoDup l -> NoDup (insert x l).
  Proof.
    induction l as [|z r IH]; intros Hn Hd; cbn; [repeat constructor; auto|].
    destruct (leb x z); [now constructor|]. inversion Hd; subst. constructor.
    - rewrite insert_in. intros [->|H]; [apply Hn; now left|auto].
    - apply IH; auto. intro. apply Hn. now right.
  Qed.
  Lemma isort_nodup l : NoDup l -> NoDup (isort l).
  Proof.
    induction 1 as [|x r Hn Hd IH]; cbn; [constructor|]. apply insert_nodup; [now rewrite isort_in|exact IH].
  Qed.

  Lemma existsb_eqb x seen : existsb (eqb x) seen = true <-> In x seen.
  Proof.
    rewrite existsb_exists. split.
    - intros [y [Hy E]]. apply eqb_spec in E. now subst.
    - intros H. exists x. split; [exact H|now apply eqb_spec].
  Qed.

  Lemma dedup_in l : forall seen y, In y (dedup seen l) <-> In y l /\ ~ In y seen.
  Proof.
    induction l as [|x r IH]; intros seen y; cbn; [tauto|].
    destruct (existsb (eqb x) seen) eqn:E.
    - apply existsb_eqb in E. rewrite IH. split; [intuition|]. intros [[->|H] Hn]; [contradiction|auto].
    - assert (Hx : ~ In x seen) by (intro H; apply existsb_eqb in H; congruence).
      cbn. rewrite IH. cbn. split.
      + intros [->|[H Hn]]; [auto|]. split; [now right|]. intro. apply Hn. now right.
      + intros [[->|H] Hn]; [now left|]. destruct (eqb x y) eqn:Exy.
        * apply eqb_spec in Exy. now left.
        * right. split; [exact H|]. intros [->|Hs]; [|contradiction].
          assert (eqb y y = true) by now apply eqb_spec. congruence.
  Qed.
  Lemma dedup_nodup l : forall seen, NoDup (dedup seen l).
  Proof.
    induction l as [|x r IH]; intros seen; cbn; [constructor|].
    destruct (existsb (eqb x) seen); [apply IH|]. constructor; [|apply IH].
    rewrite dedup_in. intros [_ H]. apply H. now left.
  Qed.

  (* two sorted duplicate-free lists with the same elements are equal *)
  Lemma sorted_head_le x l : Sorted le (x :: l) -> forall y, In y l -> leb x y = true.
  Proof.
    revert x. induction l as [|z r IH]; intros x H y Hy; [destruct Hy|].
    inversion H as [|? ? Hs Hh]; subst. inversion Hh; subst.
    destruct Hy as [->|Hy]; [assumption|].
    eapply leb_trans; [eassumption|]. now apply IH.
  Qed.
  Lemma sorted_unique l1 : forall l2, Sorted le l1 -> Sorted le l2 -> NoDup l1 -> NoDup l2 ->
    (forall y, In y l1 <-> In y l2) -> l1 = l2.
  Proof.
    induction l1 as [|x r IH]; intros l2 S1 S2 D1 D2 E.
    - destruct l2 as [|y ?]; [reflexivity|]. exfalso. apply (E y). now left.
    - destruct l2 as [|y r2]; [exfalso; apply (E x); now left|].
      assert (x = y).
      { assert (Hx : In x (y :: r2)) by (apply E; now left).
        assert (Hy : In y (x :: r)) by (apply E; now left).
        destruct Hx as [->|Hx]; [reflexivity|]. destruct Hy as [->|Hy]; [reflexivity|].
        apply leb_antisym; [now apply (sorted_head_le x r)|now apply (sorted_head_le y r2)]. }
      subst y. f_equal. inversion D1; subst. inversion D2; subst.
      apply IH; auto.
      + now inversion S1.
      + now inversion S2.
      + intros z. split; intros Hz.
        * assert (In z (x :: r2)) by (apply E; now right). destruct H as [->|]; [contradiction|assumption].
        * assert (In z (x :: r)) by (apply E; now right). destruct H as [->|]; [contradiction|assumption].
  Qed.

  Notation resolve := (resolve eqb leb).

  Theorem resolve_sorted per_arg : Sorted le (resolve per_arg).
  Proof. apply isort_sorted. Qed.
  Theorem resolve_nodup per_arg : NoDup (resolve per_arg).
  Proof. apply isort_nodup, dedup_nodup. Qed.
  Theorem resolve_in per_arg y : In y (resolve per_arg) <-> exists l, In l per_arg /\ In y l.
  Proof.
    unfold Resolver.resolve. rewrite isort_in, dedup_in, in_concat. split.
    - intros [[l [H1 H2]] _]. eauto.
    - intros [l [H1 H2]]. split; [eauto|intros []].
  Qed.

  (* the result depends only on the SET of files the arguments give: permuting or repeating
     arguments, or listing a directory in another order, changes nothing *)
  Theorem resolve_set_determined a b :
    (forall y, (exists l, In l a /\ In y l) <-> (exists l, In l b /\ In y l)) -> resolve a = resolve b.
  Proof.
    intros H. apply sorted_unique; try apply resolve_sorted; try apply resolve_nodup.
    intros y. rewrite !resolve_in. apply H.
  Qed.
  Corollary resolve_permutation a b : Permutation a b -> resolve a = resolve b.
  Proof.
    intros P. apply resolve_set_determined. intros y. split; intros [l [H1 H2]]; exists l; split; auto.
    - eapply Permutation_in; eauto.
    - eapply Permutation_in; [apply Permutation_sym|]; eauto.
  Qed.
End SortFacts.

(* ---- C18: the gitignore part ---- *)
Section GitIgnoreFacts.
  Variable inc : str -> bool.
  Variable exc : str -> bool.
  Variable tool : option (str -> bool).
  Variable maxsize : N.

  (* git's rule as the model implements it: no file -> not ignored; a deeper .gitignore that has an
     opinion about the path overrides everything above it, one that has none changes nothing *)
  Lemma gitignored_nil path is_dir : gitignored [] path is_dir = false.
  Proof. reflexivity. Qed.

  Lemma gitignored_snoc chain d s path is_dir :
    gitignored (chain ++ [(d, s)]) path is_dir =
    match s (path_str (skipn (length d) path) ++ (if is_dir then [slash] else [])) with
    | Some b => b
    | None => gitignored chain path is_dir
    end.
  Proof. unfold gitignored. rewrite fold_left_app. reflexivity. Qed.

  (* with respect_gitignore off the .gitignore files have no influence at all *)
  Theorem walk_respect_off gi gi' n : forall rel chain0,
    walk inc exc tool gi false maxsize rel chain0 n = walk inc exc tool gi' false maxsize rel chain0 n.
  Proof.
    (* respect = false: the gitignore oracle does not occur in the (reduced) body of the traversal at all *)
    intros rel chain0. reflexivity.
  Qed.

  (* a directory that git ignores is pruned: nothing below it is listed *)
  Theorem ignored_directory_contributes_nothing gi respect rel chain0 es name sub :
    gitignored (chain_of gi respect rel chain0) (rel ++ [name]) true = true ->
    NoDup (map fst es) -> In (name, NDir sub) es ->
    forall t, ~ In (rel ++ name :: t) (walk inc exc tool gi respect maxsize rel chain0 (NDir es)).
  Proof.
    intros G ND Hin t H. apply walk_sound_complete in H.
    remember (rel ++ name :: t) as p eqn:Ep.
    inversion H as [? ? ? name0 sz Hin0 Hok|? ? ? name0 sub0 ? Hin0 Hex Hw]; subst.
    - (* a file called [name]: impossible, names are unique and [name] is a directory *)
      match goal with E : _ ++ [name0] = _ ++ name :: t |- _ => apply app_inv_head in E; injection E as -> _ end.
      assert (NFile sz = NDir sub); [|discriminate].
      clear - ND Hin Hin0. induction es as [|[k v] r IHr]; [destruct Hin|]. cbn in ND. inversion ND as [|? ? Hn Hd]; subst.
      destruct Hin as [E1|H1]; destruct Hin0 as [E2|H2].
      + congruence.
      + injection E1 as -> ->. exfalso. apply Hn. apply in_map_iff. exists (name, NFile sz). auto.
      + injection E2 as -> ->. exfalso. apply Hn. apply in_map_iff. exists (name, NDir sub). auto.
      + auto.
    - destruct (wanted_prefix inc exc tool gi respect maxsize _ _ _ _ Hw) as [t' E].
      rewrite <- app_assoc in E. apply app_inv_head in E. cbn in E. injection E as -> _.
      unfold dir_excluded in Hex. rewrite G in Hex. rewrite !orb_true_r in Hex. cbn in Hex.
      rewrite ?orb_true_r in Hex. discriminate.
  Qed.
End GitIgnoreFacts.
