(* C08: quotes are only paired within one paragraph.  The across-inlines rewrite calls the rewrite
   function once per inline scope (paragraph, heading, table cell) with that scope's text alone:
   every leaf of the result is the rewrite of the corresponding leaf of the (coalesced) input by
   itself, whatever the other blocks of the document hold. *)
From Coq Require Import List NArith Bool.
Import ListNotations.
From Base Require Import PyStr CliTypes.
From Model Require Import Ast Transforms.
From Proofs Require Import RenderProofs RewriteProofs.

Lemma Forall2_app_inv {A B} (P : A -> B -> Prop) l1 l1' l2 l2' :
  Forall2 P l1 l1' -> Forall2 P l2 l2' -> Forall2 P (l1 ++ l2) (l1' ++ l2').
Proof. induction 1; cbn; auto. Qed.

Section Leaves.
  Variable g : leaf -> M leaf.

  Lemma mapM_blk_leaves b : forall b', mapM_blk g b = ret b' ->
    Forall2 (fun l l' => g l = ret l') (blk_leaves b) (blk_leaves b').
  Proof.
    induction b as [l|k c IH] using blk_ind'; intros b' H; cbn in H.
    - unfold bind in H. destruct (g l) as [l'|] eqn:E; [|discriminate]. injection H as <-.
      cbn. constructor; [exact E|constructor].
    - unfold bind in H.
      match type of H with match ?go c with _ => _ end = _ => destruct (go c) as [c'|] eqn:E end; [|discriminate].
      injection H as <-. cbn [blk_leaves].
      revert c' E. induction IH as [|x r Hx _ IHr]; intros c' E; cbn in E.
      + injection E as <-. constructor.
      + unfold bind in E. destruct (mapM_blk g x) as [x'|] eqn:Ex; [|discriminate].
        match type of E with match ?t with _ => _ end = _ => destruct t as [r'|] eqn:Er end; [|discriminate].
        injection E as <-. cbn [map concat]. apply Forall2_app_inv; [exact (Hx x' eq_refl)|exact (IHr r' eq_refl)].
  Qed.

  Lemma mapM_doc_leaves bs : forall bs', mapM (mapM_blk g) bs = ret bs' ->
    Forall2 (fun l l' => g l = ret l') (concat (map blk_leaves bs)) (concat (map blk_leaves bs')).
  Proof.
    intros bs' H. apply mapM_ret in H. induction H as [|x y l l' Hxy _ IH]; cbn; [constructor|].
    apply Forall2_app_inv; [now apply mapM_blk_leaves|exact IH].
  Qed.
End Leaves.

Theorem across_inlines_leafwise f bs bs' :
  rewrite_text_across_inlines f bs = ret bs' ->
  Forall2 (fun l l' => across_leaf f l = ret l')
          (concat (map blk_leaves (coalesce_doc bs))) (concat (map blk_leaves bs')).
Proof. unfold rewrite_text_across_inlines. apply mapM_doc_leaves. Qed.

(* a paragraph's new content is a function of that paragraph's content only *)
Corollary paragraph_rewritten_alone f bs bs' ch c l' :
  rewrite_text_across_inlines f bs = ret bs' ->
  Forall2 (fun l l' => across_leaf f l = ret l')
          (concat (map blk_leaves (coalesce_doc bs))) (concat (map blk_leaves bs')) /\
  (across_leaf f (LPara ch c) = ret l' -> exists c', l' = LPara ch c' /\ across_scope f c = ret c').
Proof.
  intros H. split; [now apply across_inlines_leafwise|].
  cbn. unfold bind. destruct (across_scope f c) as [c'|] eqn:E; [|discriminate].
  intros [= <-]. now exists c'.
Qed.

(* ---- a text without a straight quote character is left exactly as it is ---- *)
From Proofs Require Import TypoProofs.
From Model Require Import Typography.
Lemma pw_no_quotes s t : pw s t -> (forall c, In c s -> c <> apos /\ c <> dquote) -> t = s.
Proof.
  unfold pw. induction 1 as [|a b s t Hq _ IH]; intros N; [reflexivity|].
  destruct (N a (or_introl eq_refl)) as [Na Nd]. apply N.eqb_neq in Na, Nd.
  unfold qrel in Hq. rewrite Na, Nd in Hq. cbn [andb orb] in Hq. rewrite !orb_false_r in Hq.
  apply N.eqb_eq in Hq. subst b. f_equal. apply IH. intros c Hc. apply N. now right.
Qed.
