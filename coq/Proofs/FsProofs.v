(* C14: every prefix of every run keeps each target either old, new, or (with backup)
   absent with the old content at the backup name. *)
From Coq Require Import List NArith Bool Arith Lia.
Import ListNotations.
From Base Require Import PyStr.
From Model Require Import FsOps.
From Proofs Require Import PyStrFacts.

Lemma str_eqb_neq a b : a <> b -> str_eqb a b = false.
Proof.
  intros H. destruct (str_eqb a b) eqn:E; [|reflexivity]. apply str_eqb_eq in E. contradiction.
Qed.

Lemma upd_eq p v f : upd p v f p = v.
Proof. unfold upd. now rewrite str_eqb_refl. Qed.
Lemma upd_neq p q v f : q <> p -> upd p v f q = f q.
Proof. intros H. unfold upd. now rewrite str_eqb_neq. Qed.

Lemma exec_app a b f : exec (a ++ b) f = exec b (exec a f).
Proof. unfold exec. apply fold_left_app. Qed.

Lemma exec_appends tmp chunks : forall f acc, f tmp = Some acc ->
  (exec (map (Append tmp) chunks) f) tmp = Some (acc ++ concat chunks) /\
  (forall q, q <> tmp -> exec (map (Append tmp) chunks) f q = f q).
Proof.
  induction chunks as [|c cs IH]; intros f acc H.
  - cbn. rewrite app_nil_r. auto.
  - cbn [map exec fold_left step]. rewrite H.
    destruct (IH (upd tmp (Some (acc ++ c)) f) (acc ++ c) (upd_eq _ _ _)) as [I1 I2].
    split.
    + unfold exec in I1. rewrite I1. cbn [concat]. now rewrite app_assoc.
    + intros q Hq. unfold exec in I2. rewrite I2 by assumption. now apply upd_neq.
Qed.

Lemma app_neq_self (a s : str) : s <> [] -> a ++ s <> a.
Proof.
  intros Hs E. apply (f_equal (@length _)) in E. rewrite app_length in E.
  destruct s; [congruence|]. cbn in E. lia.
Qed.

Lemma orig_neq_dst j : j_orig j <> j_dst j.
Proof. unfold j_orig. apply app_neq_self. discriminate. Qed.

(* names of one job do not collide *)
Definition job_wf (j : job) : Prop := j_tmp j <> j_dst j /\ j_tmp j <> j_orig j.

(* ---- one job: every prefix ---- *)
Theorem job_prefix_ok j f0 k : job_wf j ->
  let f := exec (firstn k (job_prog j)) f0 in
  target_ok j f0 f /\
  (forall q, q <> j_dst j -> q <> j_tmp j -> q <> j_orig j -> f q = f0 q) /\
  (j_backup j = false -> f (j_orig j) = f0 (j_orig j)).
Proof.
  intros [Htd Hto] f. subst f. pose proof (orig_neq_dst j) as Hod.
  unfold job_prog, target_ok.
  destruct k as [|k]; [cbn; auto|].
  cbn [firstn app]. change (exec (?o :: ?l) ?f) with (exec l (step f o)). cbn [step].
  set (f1 := upd (j_tmp j) (Some []) f0).
  rewrite firstn_app, exec_app, firstn_map, map_length.
  set (cs := firstn k (j_chunks j)).
  destruct (exec_appends (j_tmp j) cs f1 [] (upd_eq _ _ _)) as [A1 A2]. cbn [app] in A1.
  set (fA := exec (map (Append (j_tmp j)) cs) f1) in *.
  assert (AD : fA (j_dst j) = f0 (j_dst j)).
  { rewrite A2 by congruence. unfold f1. apply upd_neq. congruence. }
  assert (AO : fA (j_orig j) = f0 (j_orig j)).
  { rewrite A2 by congruence. unfold f1. apply upd_neq. congruence. }
  assert (AQ : forall q, q <> j_tmp j -> fA q = f0 q).
  { intros q Hq. rewrite A2 by assumption. unfold f1. now apply upd_neq. }
  destruct (Nat.le_gt_cases (length (j_chunks j)) k) as [Hk|Hk].
  2:{ (* still writing the temporary file *)
      replace (k - length (j_chunks j)) with 0 by lia. cbn [firstn exec fold_left].
      repeat split; auto. }
  assert (Ecs : cs = j_chunks j) by (unfold cs; now apply firstn_all2).
  rewrite Ecs in A1. fold (j_new j) in A1.
  remember (k - length (j_chunks j)) as m.
  destruct (j_backup j) eqn:Eb.
  - (* with backup *)
    cbn [app]. destruct m as [|[|m]].
    + cbn. repeat split; auto; try discriminate.
    + cbn [firstn exec fold_left step].
      destruct (fA (j_dst j)) as [old|] eqn:ED.
      * repeat split.
        -- right. right. repeat split.
           ++ rewrite upd_neq by congruence. apply upd_eq.
           ++ rewrite upd_eq. congruence.
        -- intros q Q1 Q2 Q3. rewrite !upd_neq by assumption. now apply AQ.
        -- discriminate.
      * repeat split; auto; try discriminate.
    + cbn [firstn exec fold_left step].
      destruct (fA (j_dst j)) as [old|] eqn:ED.
      * set (fB := upd (j_orig j) (Some old) (upd (j_dst j) None fA)).
        assert (BT : fB (j_tmp j) = Some (j_new j)).
        { unfold fB. rewrite !upd_neq by congruence. exact A1. }
        replace (firstn m []) with (@nil op) by (destruct m; reflexivity).
        rewrite BT. cbn [fold_left]. repeat split.
        -- right. left. apply upd_eq.
        -- intros q Q1 Q2 Q3. unfold fB. rewrite !upd_neq by assumption. now apply AQ.
        -- discriminate.
      * replace (firstn m []) with (@nil op) by (destruct m; reflexivity).
        rewrite A1. cbn [fold_left]. repeat split.
        -- right. left. apply upd_eq.
        -- intros q Q1 Q2 Q3. rewrite !upd_neq by assumption. now apply AQ.
        -- discriminate.
  - (* without backup *)
    cbn [app]. destruct m as [|m].
    + cbn. repeat split; auto.
    + cbn [firstn exec fold_left step].
      replace (firstn m []) with (@nil op) by (destruct m; reflexivity).
      rewrite A1. cbn [fold_left]. repeat split.
      * right. left. apply upd_eq.
      * intros q Q1 Q2 Q3. rewrite !upd_neq by assumption. now apply AQ.
      * intros _. rewrite !upd_neq by congruence. exact AO.
Qed.

(* with backups the old content is always recoverable from the target or the backup *)
Theorem backup_recoverable j f0 k old : job_wf j -> j_backup j = true ->
  f0 (j_dst j) = Some old -> old <> j_new j ->
  let f := exec (firstn k (job_prog j)) f0 in
  f (j_dst j) = Some old \/ f (j_orig j) = Some old \/ f (j_dst j) = Some (j_new j).
Proof.
  intros W B O N f. destruct (job_prefix_ok j f0 k W) as [[H|[H|[_ [H1 H2]]]] _]; fold f in H || idtac.
  - left. congruence.
  - right. right. exact H.
  - right. left. fold f in H2. congruence.
Qed.

(* the complete job ends with the new content in place *)
Theorem job_complete j f0 : job_wf j ->
  exec (job_prog j) f0 (j_dst j) = Some (j_new j).
Proof.
  intros W. pose proof (orig_neq_dst j) as Hod. destruct W as [Htd Hto].
  unfold job_prog. change (exec (?o :: ?l) ?f) with (exec l (step f o)). cbn [step].
  rewrite exec_app.
  destruct (exec_appends (j_tmp j) (j_chunks j) (upd (j_tmp j) (Some []) f0) [] (upd_eq _ _ _)) as [A1 A2].
  cbn [app] in A1. set (fA := exec (map (Append (j_tmp j)) (j_chunks j)) _) in *.
  destruct (j_backup j); cbn [app exec fold_left step].
  - destruct (fA (j_dst j)) as [old|].
    + rewrite !upd_neq by congruence. rewrite A1. apply upd_eq.
    + rewrite A1. apply upd_eq.
  - rewrite A1. apply upd_eq.
Qed.

(* ---- several files ---- *)
Definition disjoint_jobs (j1 j2 : job) : Prop :=
  forall p q, In p (job_paths j1) -> In q (job_paths j2) -> p <> q.

Lemma step_frame f o q :
  (match o with
   | Create p => q <> p | Append p _ => q <> p
   | BackupMove a b => q <> a /\ q <> b | Rename a b => q <> a /\ q <> b end) ->
  step f o q = f q.
Proof.
  destruct o; cbn.
  - intros H. now apply upd_neq.
  - intros H. destruct (f p); [now apply upd_neq|reflexivity].
  - intros [H1 H2]. destruct (f a); [rewrite !upd_neq by assumption|]; reflexivity.
  - intros [H1 H2]. destruct (f a); [rewrite !upd_neq by assumption|]; reflexivity.
Qed.

Definition touches (o : op) : list path :=
  match o with
  | Create p => [p] | Append p _ => [p] | BackupMove a b => [a; b] | Rename a b => [a; b]
  end.

Lemma exec_frame ops : forall f q, (forall o, In o ops -> ~ In q (touches o)) -> exec ops f q = f q.
Proof.
  induction ops as [|o ops IH]; intros f q H; [reflexivity|].
  change (exec (o :: ops) f) with (exec ops (step f o)).
  rewrite IH by (intros o' Ho'; apply H; now right).
  apply step_frame. specialize (H o (or_introl eq_refl)).
  destruct o; cbn in H; intuition congruence.
Qed.

Lemma job_prog_touches j o : In o (job_prog j) -> forall q, In q (touches o) -> In q (job_paths j).
Proof.
  unfold job_prog, job_paths. intros H q Hq. cbn in H. destruct H as [<-|H].
  - cbn in Hq. cbn. tauto.
  - apply in_app_or in H as [H|H].
    + apply in_map_iff in H as [c [<- _]]. cbn in Hq. cbn. tauto.
    + apply in_app_or in H as [H|H].
      * destruct (j_backup j); [|contradiction]. cbn in H. destruct H as [<-|[]]. cbn in Hq. cbn. tauto.
      * cbn in H. destruct H as [<-|[]]. cbn in Hq. cbn. tauto.
Qed.

Lemma firstn_In {A} (l : list A) : forall k x, In x (firstn k l) -> In x l.
Proof.
  induction l as [|a l IH]; intros [|k] x H; cbn in H; try contradiction.
  destruct H as [->|H]; [now left|right; eapply IH; eauto].
Qed.

(* all-or-nothing over several files: after any prefix of the run, every target is old, new,
   or in the backup window, and targets of jobs not yet started are untouched *)
Theorem run_prefix_ok js f0 k :
  Forall job_wf js ->
  ForallOrdPairs disjoint_jobs js ->
  let f := exec (firstn k (run_prog js)) f0 in
  Forall (fun j => target_ok j f0 f) js.
Proof.
  intros W D f. subst f. unfold run_prog.
  revert f0 k. induction js as [|j js IH]; intros f0 k; [constructor|].
  inversion W as [|? ? Wj Wjs]; subst. inversion D as [|? ? Dj Djs]; subst.
  cbn [map concat]. rewrite firstn_app, exec_app.
  set (fj := exec (firstn k (job_prog j)) f0).
  set (rest := firstn (k - length (job_prog j)) (concat (map job_prog js))).
  (* the rest of the run does not touch j's paths; j's program does not touch the others' *)
  assert (FR : forall q, In q (job_paths j) -> exec rest fj q = fj q).
  { intros q Hq. apply exec_frame. intros o Ho Hin.
    assert (Ho' : In o (concat (map job_prog js))) by (unfold rest in Ho; eapply firstn_In; eauto).
    apply in_concat in Ho' as [l [Hl Hol]]. apply in_map_iff in Hl as [j2 [<- Hj2]].
    pose proof (job_prog_touches j2 o Hol q Hin) as Hq2.
    rewrite Forall_forall in Dj. exact (Dj j2 Hj2 q q Hq Hq2 eq_refl). }
  constructor.
  - destruct (job_prefix_ok j f0 k Wj) as [T _]. fold fj in T.
    unfold target_ok in *. rewrite !FR by (unfold job_paths; cbn; tauto). exact T.
  - (* other jobs: j's prefix does not touch them, then induction *)
    specialize (IH Wjs Djs fj (k - length (job_prog j))). fold rest in IH.
    rewrite Forall_forall in *. intros j2 Hj2. specialize (IH j2 Hj2).
    assert (E : forall q, In q (job_paths j2) -> fj q = f0 q).
    { intros q Hq. unfold fj. apply exec_frame. intros o Ho Hin.
      assert (Ho' : In o (job_prog j)) by (eapply firstn_In; eauto).
      pose proof (job_prog_touches j o Ho' q Hin) as Hq1.
      exact (Dj j2 Hj2 q q Hq1 Hq eq_refl). }
    unfold target_ok in *. rewrite <- !E by (unfold job_paths; cbn; tauto). exact IH.
Qed.

(* ---- boolean form of target_ok for use on observed directory states ---- *)
Lemma opt_eqb_eq a b : opt_eqb a b = true <-> a = b.
Proof.
  destruct a, b; cbn; split; intros H; try discriminate; try reflexivity.
  - apply str_eqb_eq in H. now subst.
  - injection H as ->. apply str_eqb_refl.
Qed.

Theorem target_okb_spec j f0 f :
  target_okb (j_backup j) (j_new j) (f0 (j_dst j)) (f (j_dst j)) (f (j_orig j)) = true <->
  target_ok j f0 f.
Proof.
  unfold target_okb, target_ok.
  rewrite !orb_true_iff, !andb_true_iff, !opt_eqb_eq. tauto.
Qed.
