(* C15 / C16 proofs. *)
From Coq Require Import List ZArith Bool String Lia.
Import ListNotations.
From Base Require Import PyStr CliTypes.
From Gen Require Import Wiring.
From Model Require Import Cli.
From Proofs Require Import PyStrFacts.
Local Open Scope list_scope.

(* ---- wiring: every generated layer is the identity on the option record ---- *)
Theorem wiring_identity o :
  w_options o = o /\ w_main_files o = o /\ w_files_file_stdin o = o /\ w_files_file_loop o = o /\
  w_file_text o = o /\ w_text_markdown o = o /\ w_text_plain o = o.
Proof. destruct o. repeat split; reflexivity. Qed.

Lemma text_level_id o : text_level o = o.
Proof. unfold text_level. destruct (wiring_identity o) as [_ [_ [_ [_ [_ [A B]]]]]]. destruct (f_plaintext o); assumption. Qed.

Section Flow.
  Variable fmt : fo -> str -> str.
  Variable read : str -> option str.
  Variable stdin : str.

  Definition src_text (f : str) : option str := if is_dash f then Some stdin else read f.

  (* the one action reformat_file performs for source f when it succeeds *)
  Definition act_of (f : str) (output : option str) (o : fo) (text : str) : action :=
    let result := fmt o text in
    if f_inplace o then AAtomicWrite f result (negb (f_nobackup o))
    else match nonempty_output output with
         | Some p => if is_dash p then AWriteStdout result else AAtomicWrite p result false
         | None => AWriteStdout result
         end.

  Lemma reformat_file_spec f output o :
    reformat_file fmt read stdin f output o =
    if f_inplace o && is_dash f then ([], ErrValue)
    else match src_text f with
         | None => ([], ErrOther)
         | Some text => ([act_of f output o text], Done)
         end.
  Proof.
    unfold reformat_file, act_of, src_text.
    destruct (f_inplace o && is_dash f) eqn:E; [reflexivity|].
    destruct (if is_dash f then Some stdin else read f) as [text|]; [|reflexivity].
    destruct (wiring_identity o) as [_ [_ [_ [_ [W _]]]]]. rewrite W, text_level_id.
    destruct (f_inplace o); [reflexivity|].
    destruct (nonempty_output output) as [p|]; [|reflexivity].
    destruct (is_dash p); reflexivity.
  Qed.

  (* the multi-file loop: processes a prefix of the files, one action per processed file,
     each carrying exactly reformat_text(text of that file, the options) *)
  Lemma files_loop_spec files o : forall acts oc,
    files_loop fmt read stdin files o = (acts, oc) ->
    exists done rest, files = done ++ rest /\
      Forall2 (fun f a => exists text, src_text f = Some text /\
                 a = act_of f (if f_inplace o then None else Some dash) o text) done acts /\
      (oc = Done -> rest = []) /\
      (oc <> Done -> exists f r, rest = f :: r /\
          ((oc = ErrValue /\ f_inplace o = true /\ is_dash f = true) \/ (oc = ErrOther /\ src_text f = None))).
  Proof.
    induction files as [|f files IH]; intros acts oc H; cbn [files_loop] in H.
    - injection H as <- <-. exists [], []. repeat split; auto. congruence.
    - destruct (wiring_identity o) as [_ [_ [_ [W _]]]]. rewrite W in H.
      rewrite reformat_file_spec in H.
      destruct (f_inplace o && is_dash f) eqn:E.
      + injection H as <- <-. exists [], (f :: files). repeat split; auto; try discriminate.
        intros _. exists f, files. split; [reflexivity|]. left. apply andb_true_iff in E. tauto.
      + destruct (src_text f) as [text|] eqn:S.
        * destruct (files_loop fmt read stdin files o) as [acts' oc'] eqn:L.
          injection H as <- <-. destruct (IH acts' oc' eq_refl) as [d [r [E1 [E2 [E3 E4]]]]].
          exists (f :: d), r. repeat split; auto.
          -- cbn. now rewrite E1.
          -- cbn [app]. constructor; [exists text; auto|assumption].
        * injection H as <- <-. exists [], (f :: files). repeat split; auto; try discriminate.
          intros _. exists f, files. split; [reflexivity|]. right. auto.
  Qed.

  (* C15.2 entry points agree: every byte string delivered by a CLI run is reformat_text of the
     corresponding input under the options of the command line *)
  Theorem entry_points_agree files output o acts oc :
    main_run fmt read stdin files output o = (acts, oc) ->
    Forall (fun a => exists f text, In f files /\ src_text f = Some text /\
              match a with AWriteStdout b => b = fmt o text | AAtomicWrite _ b _ => b = fmt o text end) acts.
  Proof.
    unfold main_run. destruct (wiring_identity o) as [_ [W [Ws _]]]. rewrite W.
    intros H.
    assert (LOOP : forall acts oc, files_loop fmt read stdin files o = (acts, oc) ->
      Forall (fun a => exists f text, In f files /\ src_text f = Some text /\
              match a with AWriteStdout b => b = fmt o text | AAtomicWrite _ b _ => b = fmt o text end) acts).
    { intros acts0 oc0 L. apply files_loop_spec in L as [d [r [E1 [E2 _]]]]. subst files.
      clear H. induction E2 as [|f a d' acts' [text [S A]] _ IH]; constructor.
      - exists f, text. split; [now left|]. split; [assumption|]. subst a. unfold act_of.
        destruct (f_inplace o); [reflexivity|]. cbn. reflexivity.
      - eapply Forall_impl; [|exact IH]. intros a0 [f0 [t0 [I0 R0]]]. exists f0, t0. split; [now right|assumption]. }
    assert (MULTI : forall acts oc, multi_files fmt read stdin files output o = (acts, oc) ->
      Forall (fun a => exists f text, In f files /\ src_text f = Some text /\
              match a with AWriteStdout b => b = fmt o text | AAtomicWrite _ b _ => b = fmt o text end) acts).
    { intros acts0 oc0 M. unfold multi_files in M.
      destruct (f_inplace o && existsb is_dash files); [injection M as <- <-; constructor|].
      destruct (nonempty_output output) as [p|]; [destruct (negb (f_inplace o) && negb (is_dash p))|];
        try (injection M as <- <-; constructor); eapply LOOP; eassumption. }
    unfold reformat_files in H.
    destruct files as [|f [|f2 files]]; try (eapply MULTI; eassumption).
    destruct (is_dash f) eqn:D; [|eapply MULTI; eassumption].
    rewrite Ws, reformat_file_spec in H.
    destruct (f_inplace o && is_dash f); [injection H as <- <-; constructor|].
    destruct (src_text f) as [text|] eqn:S; injection H as <- <-; constructor; [|constructor].
    exists f, text. split; [now left|]. split; [assumption|]. unfold act_of.
    destruct (f_inplace o); [reflexivity|]. destruct (nonempty_output output) as [p|]; [destruct (is_dash p)|]; reflexivity.
  Qed.

  (* C15.4 each file alone: in a multi-file run the action for a file is the action of the
     single-file run *)
  Theorem each_file_alone f o text : is_dash f = false -> src_text f = Some text ->
    files_loop fmt read stdin [f] o =
      ([act_of f (if f_inplace o then None else Some dash) o text], Done).
  Proof.
    intros D S. cbn [files_loop]. destruct (wiring_identity o) as [_ [_ [_ [W _]]]]. rewrite W.
    rewrite reformat_file_spec, D, andb_false_r, S. reflexivity.
  Qed.

  (* C15.5 usage errors write nothing *)
  Theorem usage_error_stdin_inplace files output o : f_inplace o = true -> In dash files ->
    main_run fmt read stdin files output o = ([], ErrValue).
  Proof.
    intros I Hin. unfold main_run, reformat_files. destruct (wiring_identity o) as [_ [W [Ws _]]]. rewrite W.
    assert (E : existsb is_dash files = true).
    { apply existsb_exists. exists dash. split; [assumption|reflexivity]. }
    assert (M : multi_files fmt read stdin files output o = ([], ErrValue)).
    { unfold multi_files. now rewrite I, E. }
    destruct files as [|f [|f2 fs]]; try exact M.
    destruct (is_dash f) eqn:D; [|exact M].
    rewrite Ws, reformat_file_spec, I, D. reflexivity.
  Qed.

  Theorem usage_error_output_multi files p o : f_inplace o = false -> p <> [] -> is_dash p = false ->
    files <> [dash] ->
    main_run fmt read stdin files (Some p) o = ([], ErrValue).
  Proof.
    intros I Pn Pd F. unfold main_run, reformat_files. destruct (wiring_identity o) as [_ [W _]]. rewrite W.
    assert (N : nonempty_output (Some p) = Some p) by (destruct p; [congruence|reflexivity]).
    assert (M : multi_files fmt read stdin files (Some p) o = ([], ErrValue)).
    { unfold multi_files. rewrite I, N, Pd. reflexivity. }
    destruct files as [|f [|f2 fs]]; try exact M.
    destruct (is_dash f) eqn:D; [|exact M].
    exfalso. apply F. f_equal. unfold is_dash in D. now apply str_eqb_eq in D.
  Qed.
End Flow.

(* ---- C16: merge precedence ---- *)
Section Merge.
  Variable V : Type.

  Lemma set_field_same n v (s : settings V) : set_field V n v s n = Some v.
  Proof. unfold set_field. now rewrite String.eqb_refl. Qed.
  Lemma set_field_other n m v (s : settings V) : m <> n -> set_field V n v s m = s m.
  Proof. intros H. unfold set_field. apply String.eqb_neq in H. now rewrite H. Qed.

  Lemma mem_In x l : mem x l = true <-> In x l.
  Proof.
    unfold mem. rewrite existsb_exists. split.
    - intros [y [H E]]. apply String.eqb_eq in E. now subst.
    - intros H. exists x. split; [assumption|apply String.eqb_refl].
  Qed.

  Lemma mem_cons x a l : mem x (a :: l) = String.eqb x a || mem x l.
  Proof. reflexivity. Qed.

  Definition effective (cli cfg : settings V) (is_auto : bool) (explicit locked : list string) (n : string)
    : option V :=
    match cfg n with
    | None => cli n
    | Some v =>
        if mem n explicit then cli n
        else if is_auto && mem n locked then cli n
        else match cli n with Some _ => Some v | None => None end
    end.

  Definition merge_one (f : string) (cli cfg : settings V) (is_auto : bool) (explicit locked : list string)
    : settings V :=
    match cfg f with
    | None => cli
    | Some v =>
        if mem f explicit then cli
        else if is_auto && mem f locked then cli
        else match cli f with Some _ => set_field V f v cli | None => cli end
    end.

  Lemma merge_one_other f cli cfg is_auto explicit locked m : m <> f ->
    merge_one f cli cfg is_auto explicit locked m = cli m.
  Proof.
    intros Hm. unfold merge_one. destruct (cfg f); [|reflexivity]. destruct (mem f explicit); [reflexivity|].
    destruct (is_auto && mem f locked); [reflexivity|]. destruct (cli f); [now apply set_field_other|reflexivity].
  Qed.

  Lemma merge_one_same f cli cfg is_auto explicit locked :
    merge_one f cli cfg is_auto explicit locked f = effective cli cfg is_auto explicit locked f.
  Proof.
    unfold merge_one, effective. destruct (cfg f); [|reflexivity]. destruct (mem f explicit); [reflexivity|].
    destruct (is_auto && mem f locked); [reflexivity|]. destruct (cli f) eqn:C; [apply set_field_same|exact C].
  Qed.

  Theorem merge_precedence fields : NoDup fields ->
    forall cli cfg is_auto explicit locked n,
    merge_fields V fields cli cfg is_auto explicit locked n =
    if mem n fields then effective cli cfg is_auto explicit locked n else cli n.
  Proof.
    induction 1 as [|f fields Hnin Hnd IH]; intros cli cfg is_auto explicit locked n; [reflexivity|].
    change (merge_fields V (f :: fields) cli cfg is_auto explicit locked) with
      (merge_fields V fields (merge_one f cli cfg is_auto explicit locked) cfg is_auto explicit locked).
    rewrite IH, (mem_cons n f fields).
    destruct (String.eqb n f) eqn:E.
    - apply String.eqb_eq in E. subst n.
      assert (M : mem f fields = false).
      { destruct (mem f fields) eqn:M; [|reflexivity]. apply mem_In in M. contradiction. }
      rewrite M. cbn [orb]. apply merge_one_same.
    - apply String.eqb_neq in E. cbn [orb].
      destruct (mem n fields); [|now apply merge_one_other].
      unfold effective. rewrite !(merge_one_other f cli cfg is_auto explicit locked n E). reflexivity.
  Qed.
End Merge.

(* ---- C16: find_config_file returns the nearest qualifying file ---- *)
Theorem find_config_nearest dirs : forall depth d n,
  find_config dirs depth = Some (d, n) ->
  exists k, d = (depth + k)%nat /\
    (forall i, (i < k)%nat -> first_in_dir (nth i dirs []) = None) /\
    first_in_dir (nth k dirs []) = Some n.
Proof.
  induction dirs as [|dir up IH]; intros depth d n H; [discriminate|].
  cbn [find_config] in H. destruct (first_in_dir dir) as [m|] eqn:E.
  - injection H as <- <-. exists 0%nat. repeat split; [lia| |exact E]. intros i Hi. lia.
  - apply IH in H as [k [H1 [H2 H3]]]. exists (S k). repeat split; [lia| |exact H3].
    intros [|i] Hi; [exact E|]. apply H2. lia.
Qed.

(* within a directory: the first existing candidate in order, a pyproject.toml only with section *)
Theorem first_in_dir_spec cands n : first_in_dir cands = Some n ->
  exists pre st post, cands = pre ++ (n, st) :: post /\ is_file st = true /\
    (n = "pyproject.toml"%string -> has_section st = true) /\
    Forall (fun c => is_file (snd c) = false \/ (fst c = "pyproject.toml"%string /\ has_section (snd c) = false)) pre.
Proof.
  induction cands as [|[name st] rest IH]; intros H; [discriminate|].
  cbn [first_in_dir] in H.
  destruct (is_file st) eqn:F.
  - destruct (String.eqb name "pyproject.toml") eqn:P.
    + destruct (has_section st) eqn:S.
      * injection H as <-. exists [], st, rest. repeat split; auto.
      * apply IH in H as [pre [st' [post [E1 [E2 [E3 E4]]]]]].
        exists ((name, st) :: pre), st', post. split; [now rewrite E1|].
        split; [assumption|]. split; [assumption|].
        constructor; [|assumption]. right. apply String.eqb_eq in P. auto.
    + injection H as <-. exists [], st, rest. split; [reflexivity|]. split; [assumption|].
      split; [|constructor]. intros ->. rewrite String.eqb_refl in P. discriminate.
  - apply IH in H as [pre [st' [post [E1 [E2 [E3 E4]]]]]].
    exists ((name, st) :: pre), st', post. split; [now rewrite E1|].
    split; [assumption|]. split; [assumption|].
    constructor; [|assumption]. now left.
Qed.
