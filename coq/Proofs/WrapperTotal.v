(* C12: the line wrappers never raise.  The only raise site of the wrapper stack is the callback of
   normalize / denormalize_adjacent_tags (None + str when the second group of a pair is unset); the
   shape of the two translated patterns - an alternation of pairs (group i)(group i+1) - excludes it.
   Everything else is a composition of total functions.  With TotalProofs.render_doc_total and the
   totality of the typography rewrites this gives: the model of fill_markdown's body never raises. *)
From Coq Require Import List NArith ZArith Bool Arith Lia.
Import ListNotations.
From Base Require Import PyStr CliTypes Regex.
From Gen Require Import Regexes.
From Model Require Import Tags LineWrap.
From Proofs Require Import RegexFacts RegexSem TypoProofs.

Definition total {A} (m : M A) : Prop := exists r, m = ret r.

Lemma total_bind {A B} (m : M A) (f : A -> M B) : total m -> (forall a, total (f a)) -> total (bind m f).
Proof. intros [a ->] H. cbn. apply H. Qed.
Lemma total_ret {A} (a : A) : total (ret a). Proof. now exists a. Qed.

(* ---- pairs of groups ---- *)
Definition pair_shape (r : regex) (i : nat) : bool :=
  match r with
  | RCat (RGroup j a) (RGroup k b) => Nat.eqb j i && Nat.eqb k (S i) && no_groups a && no_groups b
  | RCat (RGroup j a) (RCat m (RGroup k b)) => Nat.eqb j i && Nat.eqb k (S i) && no_groups a && no_groups m && no_groups b
  | _ => false
  end.

Fixpoint alts_shape (r : regex) (i : nat) : bool :=
  match r with
  | RAlt p rest => pair_shape p i && alts_shape rest (S (S i))
  | p => pair_shape p i
  end.

(* "if the first group of a pair is set, so is the second", for the pairs i, i+2, i+4 ... *)
Definition pairs_ok (st : mstate) (i : nat) : Prop :=
  forall k, cap_of st (i + 2 * k) <> None -> cap_of st (S (i + 2 * k)) <> None.

Lemma pair_match r i st st1 : pair_shape r i = true -> Matches r st st1 -> (S i < length (caps st))%nat ->
  cap_of st1 i <> None /\ cap_of st1 (S i) <> None /\ (forall j, j <> i -> j <> S i -> cap_of st1 j = cap_of st j).
Proof.
  intros S M L. destruct r as [| | | | | |a b| | | | | | |]; try discriminate.
  destruct a as [| | | | | | | | |j a| | | |]; try discriminate.
  inversion M as [| |? ? ? sA ? MA MB| | | | | | | | |]; subst; [cbn in *; discriminate|].
  destruct b as [| | | | | |m g| | |k b| | | |]; try discriminate.
  - (* group, middle, group *)
    destruct g as [| | | | | | | | |k b| | | |]; try discriminate.
    cbn in S. apply andb_true_iff in S as [S Nb]. apply andb_true_iff in S as [S Nm]. apply andb_true_iff in S as [S Na].
    apply andb_true_iff in S as [Sj Sk]. apply Nat.eqb_eq in Sj. apply Nat.eqb_eq in Sk. subst j k.
    destruct (group_capture _ _ _ _ Na MA ltac:(lia)) as [t1 [A1 [K1 [O1 L1]]]].
    inversion MB as [| |? ? ? sM ? MM MG| | | | | | | | |]; subst; [cbn in *; discriminate|].
    pose proof (proj1 no_groups_caps _ _ _ MM Nm) as CM.
    assert (LM : (Datatypes.S i < length (caps sM))%nat) by (rewrite CM, L1; lia).
    destruct (group_capture _ _ _ _ Nb MG LM) as [t2 [A2 [K2 [O2 L2]]]].
    split; [|split].
    + rewrite O2 by lia. unfold cap_of. rewrite CM. fold (cap_of sA i). rewrite K1. discriminate.
    + rewrite K2. discriminate.
    + intros x Hx1 Hx2. rewrite O2 by assumption. unfold cap_of. rewrite CM. fold (cap_of sA x). now apply O1.
  - (* group, group *)
    cbn in S. apply andb_true_iff in S as [S Nb]. apply andb_true_iff in S as [S Na].
    apply andb_true_iff in S as [Sj Sk]. apply Nat.eqb_eq in Sj. apply Nat.eqb_eq in Sk. subst j k.
    destruct (group_capture _ _ _ _ Na MA ltac:(lia)) as [t1 [A1 [K1 [O1 L1]]]].
    assert (LM : (Datatypes.S i < length (caps sA))%nat) by (rewrite L1; lia).
    destruct (group_capture _ _ _ _ Nb MB LM) as [t2 [A2 [K2 [O2 L2]]]].
    split; [|split].
    + rewrite O2 by lia. rewrite K1. discriminate.
    + rewrite K2. discriminate.
    + intros x Hx1 Hx2. rewrite O2 by assumption. now apply O1.
Qed.

Lemma pairs_ok_after_pair r i st st1 n : pair_shape r (i + 2 * n) = true -> Matches r st st1 ->
  (S (i + 2 * n) < length (caps st))%nat -> pairs_ok st i -> pairs_ok st1 i.
Proof.
  intros S M L P k H. destruct (pair_match _ _ _ _ S M L) as [C1 [C2 O]].
  destruct (Nat.eq_dec k n) as [->|Hk]; [exact C2|].
  assert (N1 : i + 2 * k <> i + 2 * n) by lia. assert (N2 : i + 2 * k <> Datatypes.S (i + 2 * n)) by lia.
  assert (N3 : Datatypes.S (i + 2 * k) <> i + 2 * n) by lia. assert (N4 : Datatypes.S (i + 2 * k) <> Datatypes.S (i + 2 * n)) by lia.
  rewrite (O _ N3 N4). rewrite (O _ N1 N2) in H. now apply P.
Qed.

(* the capture vector is long enough for every pair of the alternation *)
Fixpoint alts_last (r : regex) (i : nat) : nat :=
  match r with RAlt _ rest => alts_last rest (S (S i)) | _ => S i end.

Lemma alts_last_ge r : forall k, (S k <= alts_last r k)%nat.
Proof. induction r; intros k; cbn; try lia. specialize (IHr2 (S (S k))). lia. Qed.

Lemma alts_pairs_ok r : forall nn base st st1, alts_shape r (base + 2 * nn) = true -> Matches r st st1 ->
  (alts_last r (base + 2 * nn) < length (caps st))%nat -> pairs_ok st base -> pairs_ok st1 base.
Proof.
  induction r as [| | | | | | |p _ rest IH| | | | | |]; intros nn base st st1 S M L P;
    try (cbn [alts_shape] in S; cbn [alts_last] in L; eapply pairs_ok_after_pair; eauto; lia).
  cbn [alts_shape] in S. apply andb_true_iff in S as [Sp Sr]. cbn [alts_last] in L.
  inversion M as [| | |? ? ? ? ML|? ? ? ? MR| | | | | | |]; subst; [cbn in *; discriminate| |].
  - eapply pairs_ok_after_pair; eauto.
    pose proof (alts_last_ge rest (Datatypes.S (Datatypes.S (base + 2 * nn)))). lia.
  - replace (Datatypes.S (Datatypes.S (base + 2 * nn))) with (base + 2 * (Datatypes.S nn)) in * by lia.
    eapply IH; eauto.
Qed.

(* ---- the callback ---- *)
Lemma first_pair_total mm idxs sep :
  (forall i, In i idxs -> group mm i <> None -> group mm (S i) <> None) -> total (first_pair mm idxs sep).
Proof.
  induction idxs as [|i rest IH]; intros H; cbn [first_pair]; [apply total_ret|].
  destruct (group mm i) as [a|] eqn:Ga.
  - destruct (group mm (S i)) as [b|] eqn:Gb; [apply total_ret|].
    exfalso. apply (H i (or_introl eq_refl)); [rewrite Ga; discriminate|exact Gb].
  - apply IH. intros j Hj. apply H. now right.
Qed.

Lemma pair_idxs_form k : forall i j, In j (pair_idxs k i) -> exists m, j = i + 2 * m.
Proof.
  induction k as [|k IH]; intros i j H; [destruct H|]. cbn in H. destruct H as [<-|H].
  - exists 0. lia.
  - destruct (IH _ _ H) as [m ->]. exists (S m). lia.
Qed.

Definition pairs_cert (p : pattern) : bool :=
  alts_shape (p_re p) 1 && Nat.ltb (alts_last (p_re p) 1) (p_ngroups p).

Lemma callback_total p sep st0 st1 : pairs_cert p = true ->
  Matches (p_re p) (with_caps st0 (repeat None (p_ngroups p))) st1 ->
  total (first_pair (mk_match st0 st1) (ngroup_pairs p) sep).
Proof.
  intros C M. unfold pairs_cert in C. apply andb_true_iff in C as [C1 C2]. apply Nat.ltb_lt in C2.
  assert (P : pairs_ok st1 1).
  { apply (alts_pairs_ok (p_re p) 0 1 _ _ C1 M).
    - unfold with_caps. cbn [caps]. rewrite repeat_length. exact C2.
    - intros k H. exfalso. apply H. unfold cap_of, with_caps. cbn [caps]. apply cap_of_repeat_none. }
  apply first_pair_total. intros i Hi G1. unfold ngroup_pairs in Hi.
  destruct (pair_idxs_form _ _ _ Hi) as [m ->].
  rewrite mk_match_group in G1 by lia. rewrite mk_match_group by lia.
  specialize (P m). destruct (cap_of st1 (1 + 2 * m)) as [[s t]|] eqn:E1; [|congruence].
  destruct (cap_of st1 (S (1 + 2 * m))) as [[s' t']|] eqn:E2; [discriminate|].
  exfalso. apply P; [discriminate|reflexivity].
Qed.

Lemma re_subM_total p f s :
  (forall st0 st1, Matches (p_re p) (with_caps st0 (repeat None (p_ngroups p))) st1 -> total (f (mk_match st0 st1))) ->
  total (Tags.re_subM p f s).
Proof.
  intros H. unfold Tags.re_subM. cbv zeta.
  destruct (finditer_t_decomp p s) as [_ FA]. apply FoundAll_Forall in FA.
  destruct (mapM_total (fun gm => r <- f (snd gm) ;; ret (fst gm ++ r)) _ _ FA) as [parts HP].
  { intros [g mm0] [st0 [st1 [E MM]]]. cbn [fst snd] in *. subst mm0.
    destruct (H st0 st1 MM) as [r Hr]. exists (g ++ r). unfold bind. now rewrite Hr. }
  apply total_bind; [exists parts; exact HP|intros; apply total_ret].
Qed.

Definition tags_cert : bool := pairs_cert re_adjacent_tags && pairs_cert re_denormalize_tags.

Section Wrappers.
  Hypothesis cert : tags_cert = true.

  Lemma normalize_total text : total (normalize_adjacent_tags text).
  Proof.
    unfold tags_cert in cert. apply andb_true_iff in cert as [C _].
    apply re_subM_total. intros st0 st1 M. now apply callback_total.
  Qed.
  Lemma denormalize_total text : total (denormalize_adjacent_tags text).
  Proof.
    unfold tags_cert in cert. apply andb_true_iff in cert as [_ C].
    apply re_subM_total. intros st0 st1 M. now apply callback_total.
  Qed.

  Lemma splitter_total text : total (html_md_word_splitter text).
  Proof. unfold html_md_word_splitter. apply total_bind; [apply normalize_total|intros; apply total_ret]. Qed.

  Lemma wpl_total text width c0 c1 rw dw md : total (wrap_paragraph_lines_md text width c0 c1 rw dw md).
  Proof.
    unfold wrap_paragraph_lines_md. destruct (width <=? 0)%Z; [apply total_ret|].
    apply total_bind; [apply splitter_total|intros; apply total_ret].
  Qed.

  Lemma wrap_paragraph_total text width i1 i2 ic rw dw md : total (wrap_paragraph text width i1 i2 ic rw dw md).
  Proof. unfold wrap_paragraph. apply total_bind; [apply wpl_total|intros; apply denormalize_total]. Qed.

  Definition wrapper_total (w : wrapper) : Prop := forall t i1 i2, total (w t i1 i2).

  Lemma wrap_segments_total base segs : wrapper_total base -> forall first i1 i2, total (wrap_segments base segs first i1 i2).
  Proof.
    intros B. induction segs as [|s r IH]; intros first i1 i2; cbn; [apply total_ret|].
    apply total_bind; [apply B|]. intros w. apply total_bind; [apply IH|intros; apply total_ret].
  Qed.

  Lemma tag_handling_total base : wrapper_total base -> wrapper_total (add_tag_newline_handling base).
  Proof.
    intros B t i1 i2. unfold add_tag_newline_handling. cbv zeta.
    assert (S : total (r <- base t i1 i2 ;; ret (fix_multiline_opening_tag_with_closing r))) by
      (apply total_bind; [apply B|intros; apply total_ret]).
    destruct (negb (contains_ch 10 t)); [exact S|].
    destruct (segment_lines _ None (split_on 10 t) []) as [|s0 [|s1 sr]]; [apply total_ret|exact S|].
    apply total_bind; [now apply wrap_segments_total|]. intros [|w0 wr]; apply total_ret.
  Qed.

  Lemma hard_segments_total base segs : wrapper_total base -> forall first i1 i2, total (wrap_hard_segments base segs first i1 i2).
  Proof.
    intros B. induction segs as [|s r IH]; intros first i1 i2; [apply total_ret|].
    destruct r as [|s2 r].
    - cbn. apply total_bind; [apply B|intros; apply total_ret].
    - pose proof (IH false i1 i2) as T. cbn [wrap_hard_segments] in T |- *.
      apply total_bind; [apply B|]. intros w. cbv zeta.
      apply total_bind; [exact T|intros; apply total_ret].
  Qed.

  Lemma hard_break_total base : wrapper_total base -> wrapper_total (add_markdown_hard_break_handling base).
  Proof.
    intros B t i1 i2. unfold add_markdown_hard_break_handling. cbv zeta.
    destruct (split_markdown_hard_breaks t) as [|s0 [|s1 sr]]; [apply total_ret|apply B|].
    apply total_bind; [now apply hard_segments_total|intros; apply total_ret].
  Qed.

  Theorem line_wrap_to_width_total width md : wrapper_total (line_wrap_to_width width md).
  Proof.
    unfold line_wrap_to_width. cbv zeta.
    assert (L : wrapper_total (fun text i1 i2 => wrap_paragraph text width i1 i2 0 true true md)) by (intros t i1 i2; apply wrap_paragraph_total).
    destruct md; [|exact L]. apply hard_break_total. now apply tag_handling_total.
  Qed.

  Lemma sentence_loop_total wrapf width mll c1 c2 : (forall s col, total (wrapf s col)) ->
    forall sentences lines_rev first, total (sentence_loop wrapf width mll c1 c2 sentences lines_rev first).
  Proof.
    intros W. induction sentences as [|s r IH]; intros lr first; cbn [sentence_loop]; [apply total_ret|].
    apply total_bind; [|intros; apply IH].
    unfold sentence_step. cbv zeta. apply total_bind; [apply W|intros; apply total_ret].
  Qed.

  Theorem line_wrap_by_sentence_total width mll md : wrapper_total (line_wrap_by_sentence width mll md).
  Proof.
    unfold line_wrap_by_sentence. cbv zeta.
    assert (L : wrapper_total (line_wrap_by_sentence_base width mll md)).
    { intros t i1 i2. unfold line_wrap_by_sentence_base. cbv zeta. destruct (width <=? 0)%Z; [apply total_ret|].
      apply total_bind; [apply sentence_loop_total; intros; apply wpl_total|intros; apply denormalize_total]. }
    destruct md; [|exact L]. apply hard_break_total. now apply tag_handling_total.
  Qed.
End Wrappers.
