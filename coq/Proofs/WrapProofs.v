(* Theorems about the greedy fill model (C05). *)
From Coq Require Import List NArith ZArith Bool Lia.
Import ListNotations.
From Base Require Import PyStr.
From Model Require Import Wrap.
From Proofs Require Import PyStrFacts.
Local Open Scope Z_scope.

Lemma llen_single w : llen [w] = wlen w.
Proof. unfold llen; simpl. lia. Qed.

Lemma sumlen_app a b :
  fold_right (fun w acc => wlen w + acc) 0 (a ++ b) =
  fold_right (fun w acc => wlen w + acc) 0 a + fold_right (fun w acc => wlen w + acc) 0 b.
Proof. induction a as [|x a IH]; simpl; lia. Qed.

Lemma llen_snoc cur w : cur <> [] -> llen (cur ++ [w]) = llen cur + 1 + wlen w.
Proof.
  intros _. unfold llen. rewrite sumlen_app, app_length. simpl. lia.
Qed.

Lemma esc_head_snoc esc md l w : l <> [] -> esc_head esc md (l ++ [w]) = esc_head esc md l ++ [w].
Proof. destruct l; [congruence|reflexivity]. Qed.

Lemma esc_head_length esc md l : length (esc_head esc md l) = length l.
Proof. destruct l; reflexivity. Qed.

Lemma firstn_len_app {A} (a b : list A) : firstn (length a) (a ++ b) = a.
Proof. induction a; simpl; congruence. Qed.
Lemma skipn_len_app {A} (a b : list A) : skipn (length a) (a ++ b) = b.
Proof. induction a; simpl; congruence. Qed.

Section FillFacts.
  Variable esc : word -> word.
  Variables (width c1 : Z) (md : bool).

  Lemma chk_cons (first : bool) scol (l : list word) L ws orig rest :
    l <> [] -> ws = orig ++ rest -> length orig = length l ->
    l = (if first then orig else esc_head esc md orig) ->
    (scol + llen l <= width \/ length l = 1%nat) ->
    match rest with [] => True | h :: _ => width < scol + llen l + 1 + wlen h end ->
    chk_lines esc width c1 md false c1 L rest = true ->
    chk_lines esc width c1 md first scol (l :: L) ws = true.
  Proof.
    intros Hne -> Hlen Hl Hw Hm Hr. cbn [chk_lines].
    rewrite <- Hlen, firstn_len_app, skipn_len_app, Hr.
    repeat (apply andb_true_iff; split); try reflexivity.
    - destruct l; [congruence|reflexivity].
    - apply Nat.eqb_refl.
    - apply strs_eqb_of_eq. exact Hl.
    - apply orb_true_iff. destruct Hw as [Hw|Hw];
        [left; now apply Z.leb_le|right; apply Nat.eqb_eq; congruence].
    - destruct rest; [reflexivity|now apply Z.ltb_lt].
  Qed.

  (* Main invariant: from any state reached with a non-empty current line, the rest
     of the loop produces lines accepted by the specification checker. *)
  Lemma fill_chk : forall (ws cur curo : list word) scol (first : bool),
    cur <> [] ->
    cur = (if first then curo else esc_head esc md curo) ->
    (scol + llen cur <= width \/ length cur = 1%nat) ->
    chk_lines esc width c1 md first scol
      (fill esc width c1 md ws cur (scol + llen cur) first) (curo ++ ws) = true.
  Proof.
    induction ws as [|w ws IH]; intros cur curo scol first Hne Hcur Hw;
      assert (Hlen : length curo = length cur)
        by (subst cur; destruct first; [reflexivity|now rewrite esc_head_length]).
    - assert (Hf : fill esc width c1 md [] cur (scol + llen cur) first = [cur])
        by (destruct cur; [congruence|reflexivity]).
      rewrite Hf. apply chk_cons with (orig := curo) (rest := []); auto; try exact I.
    - assert (Hneo : curo <> []).
      { intro E. subst curo. destruct cur; [congruence|discriminate]. }
      assert (Hf : fill esc width c1 md (w :: ws) cur (scol + llen cur) first =
                   if scol + llen cur + wlen w + 1 <=? width
                   then fill esc width c1 md ws (cur ++ [w]) (scol + llen cur + wlen w + 1) first
                   else cur :: fill esc width c1 md ws [if md then esc w else w]
                                 (c1 + wlen (if md then esc w else w)) false)
        by (destruct cur; [congruence|reflexivity]).
      rewrite Hf. clear Hf.
      destruct (scol + llen cur + wlen w + 1 <=? width) eqn:Efit.
      + (* the word fits: the line grows *)
        apply Z.leb_le in Efit.
        replace (scol + llen cur + wlen w + 1) with (scol + llen (cur ++ [w]))
          by (rewrite llen_snoc by assumption; lia).
        replace (curo ++ w :: ws) with ((curo ++ [w]) ++ ws) by (now rewrite <- app_assoc).
        apply IH.
        * destruct cur; [congruence|discriminate].
        * rewrite Hcur. destruct first; [reflexivity|]. now rewrite esc_head_snoc.
        * left. rewrite llen_snoc by assumption. lia.
      + (* the word does not fit: flush the line *)
        apply Z.leb_gt in Efit.
        apply chk_cons with (orig := curo) (rest := w :: ws); auto; [lia|].
        set (ew := if md then esc w else w).
        replace (c1 + wlen ew) with (c1 + llen [ew]) by (now rewrite llen_single).
        change (w :: ws) with ([w] ++ ws).
        apply IH; [discriminate|reflexivity|now right].
  Qed.

  Theorem wrap_words_ok ws c0 : wrap_ok esc ws width c0 c1 md (wrap_words esc ws width c0 c1 md) = true.
  Proof.
    unfold wrap_ok, wrap_words. destruct ws as [|w ws]; [reflexivity|].
    cbn [fill scol0]. rewrite Z.add_0_r. cbn [negb andb]. rewrite andb_false_r.
    destruct (c0 + wlen w <=? width) eqn:Efit.
    - replace (c0 + wlen w) with (c0 + llen [w]) by (now rewrite llen_single).
      apply (fill_chk ws [w] [w] c0 true); [discriminate|reflexivity|now right].
    - replace (c1 + wlen w) with (c1 + llen [w]) by (now rewrite llen_single).
      apply (fill_chk ws [w] [w] c1 true); [discriminate|reflexivity|now right].
  Qed.

  (* ---- what the checker means (holds for ANY list of lines it accepts, hence also
     for implementation outputs that pass the extracted checker) ---- *)

  Fixpoint esc_lines (first : bool) (Lo : list (list word)) : list (list word) :=
    match Lo with
    | [] => []
    | l :: r => (if first then l else esc_head esc md l) :: esc_lines false r
    end.

  Definition col_at (scol : Z) (i : nat) : Z := match i with O => scol | S _ => c1 end.

  Lemma chk_sound : forall L first scol ws,
    chk_lines esc width c1 md first scol L ws = true ->
    exists Lo,
      concat Lo = ws /\ L = esc_lines first Lo /\ Forall (fun l => l <> []) Lo /\
      (forall i l, nth_error L i = Some l ->
         col_at scol i + llen l <= width \/ length l = 1%nat) /\
      (forall i l h t, nth_error L i = Some l -> nth_error Lo (S i) = Some (h :: t) ->
         width < col_at scol i + llen l + 1 + wlen h).
  Proof.
    induction L as [|l L IH]; intros first scol ws H.
    - cbn [chk_lines] in H. destruct ws; [|discriminate].
      exists []. repeat split; auto.
      + intros [|i] l Hn; discriminate.
      + intros [|i] l h t Hn; discriminate.
    - cbn [chk_lines] in H.
      repeat (apply andb_true_iff in H; destruct H as [H ?]).
      match goal with Hr : chk_lines _ _ _ _ false c1 L _ = true |- _ => apply IH in Hr;
        destruct Hr as [Lo [Hcat [HL [Hne [Hwid Hmax]]]]] end.
      set (n := length l) in *. set (orig := firstn n ws) in *. set (rest := skipn n ws) in *.
      match goal with Hs : strs_eqb l _ = true |- _ => apply strs_eqb_eq in Hs; rename Hs into Hl end.
      match goal with Hs : negb (is_nil l) = true |- _ => rename Hs into Hnil end.
      exists (orig :: Lo). repeat split.
      + cbn [concat]. rewrite Hcat. apply firstn_skipn.
      + cbn [esc_lines]. f_equal; [exact Hl | exact HL].
      + constructor; [|assumption]. intro E. rewrite E in Hl.
        destruct first; cbn in Hl; subst l; discriminate.
      + intros [|i] l0 Hn.
        * cbn in Hn. injection Hn as <-. cbn [col_at].
          match goal with Hs : (_ <=? _) || _ = true |- _ => apply orb_true_iff in Hs; destruct Hs as [Hs|Hs] end;
            [left; now apply Z.leb_le | right; now apply Nat.eqb_eq].
        * cbn in Hn. cbn [col_at]. specialize (Hwid i l0 Hn). destruct i; exact Hwid.
      + intros [|i] l0 h t Hn Ho.
        * cbn in Hn. injection Hn as <-. cbn in Ho. cbn [col_at].
          destruct Lo as [|lo Lo']; [discriminate|]. cbn in Ho. injection Ho as ->.
          cbn [concat] in Hcat. cbn [app] in Hcat.
          match goal with Hs : match rest with [] => true | _ => _ end = true |- _ => rewrite <- Hcat in Hs; now apply Z.ltb_lt in Hs end.
        * cbn in Hn. cbn in Ho. cbn [col_at].
          specialize (Hmax i l0 h t Hn Ho). destruct i; exact Hmax.
  Qed.

End FillFacts.

(* ---- C05 statements at the level of the wrap loop (for any escape function) ---- *)

(* Lossless: the output lines are the input words in order; line 0 is verbatim, the
   head of every later line has been passed through the escape function when md,
   nothing else. *)
Theorem wrap_lossless esc ws width c0 c1 md :
  exists Lo, concat Lo = ws /\ Forall (fun l => l <> []) Lo /\
             wrap_words esc ws width c0 c1 md = esc_lines esc md true Lo.
Proof.
  destruct (chk_sound esc width c1 md _ _ _ _ (wrap_words_ok esc width c1 md ws c0))
    as [Lo [H1 [H2 [H3 _]]]].
  exists Lo; auto.
Qed.

Lemma esc_lines_plain esc first Lo : esc_lines esc false first Lo = Lo.
Proof.
  revert first; induction Lo as [|l r IH]; intros first; [reflexivity|].
  cbn [esc_lines]. rewrite IH. destruct first; [reflexivity|]. destruct l; reflexivity.
Qed.

Corollary wrap_lossless_plain esc ws width c0 c1 :
  concat (wrap_words esc ws width c0 c1 false) = ws.
Proof.
  destruct (wrap_lossless esc ws width c0 c1 false) as [Lo [H1 [_ H3]]].
  now rewrite H3, esc_lines_plain.
Qed.

Theorem wrap_no_empty_line esc ws width c0 c1 md :
  Forall (fun l => l <> []) (wrap_words esc ws width c0 c1 md).
Proof.
  destruct (wrap_lossless esc ws width c0 c1 md) as [Lo [_ [H2 H3]]]. rewrite H3.
  clear H3. generalize true. induction H2 as [|l r Hl Hr IH]; intros b; constructor.
  - destruct b; [assumption|]. destruct l; [congruence|discriminate].
  - apply IH.
Qed.

(* Width bound, exact form: line i starts at column scol0 (i = 0) or c1 (i > 0). *)
Theorem wrap_width_exact esc ws width c0 c1 md i l :
  nth_error (wrap_words esc ws width c0 c1 md) i = Some l ->
  col_at c1 (scol0 ws width c0 c1) i + llen l <= width \/ length l = 1%nat.
Proof.
  destruct (chk_sound esc width c1 md _ _ _ _ (wrap_words_ok esc width c1 md ws c0))
    as [Lo [_ [_ [_ [H4 _]]]]].
  apply H4.
Qed.

(* Width bound as the property states it (line 0 measured from c0): holds whenever the
   first word fits at c0 or the first-line column does not exceed the continuation offset. *)
Theorem wrap_width_partial esc ws width c0 c1 md i l :
  (c0 <= c1 \/ match ws with w :: _ => c0 + wlen w <= width | [] => True end) ->
  nth_error (wrap_words esc ws width c0 c1 md) i = Some l ->
  col_at c1 c0 i + llen l <= width \/ length l = 1%nat.
Proof.
  intros G H. pose proof (wrap_width_exact _ _ _ _ _ _ _ _ H) as E.
  destruct i; [|exact E]. cbn [col_at] in *.
  destruct ws as [|w ws]; [exact E|]. cbn [scol0] in E.
  destruct (c0 + wlen w <=? width) eqn:F; [exact E|].
  apply Z.leb_gt in F. destruct G as [G|G]; [|lia].
  destruct E as [E|E]; [left; lia|now right].
Qed.

(* Maximality: the (unescaped) first word of the next line would not have fit. *)
Theorem wrap_maximal esc ws width c0 c1 md :
  exists Lo, concat Lo = ws /\ wrap_words esc ws width c0 c1 md = esc_lines esc md true Lo /\
    forall i l h t,
      nth_error (wrap_words esc ws width c0 c1 md) i = Some l ->
      nth_error Lo (S i) = Some (h :: t) ->
      width < col_at c1 (scol0 ws width c0 c1) i + llen l + 1 + wlen h.
Proof.
  destruct (chk_sound esc width c1 md _ _ _ _ (wrap_words_ok esc width c1 md ws c0))
    as [Lo [H1 [H2 [_ [_ H5]]]]].
  exists Lo; auto.
Qed.

(* ---- string level: wrap_paragraph_lines with str.split as splitter ---- *)

Lemma goodword_escape w : goodword w -> goodword (escape_word w).
Proof.
  intros [Hne Hw]. unfold escape_word.
  destruct (dollar numeral_core w).
  - destruct (rev w) as [|c r] eqn:E; [split; assumption|].
    assert (Hr : nows (c :: r)) by (rewrite <- E; now apply nows_rev).
    apply nows_cons in Hr as [Hc Hr]. split.
    + destruct (rev r); discriminate.
    + apply nows_app. split; [now apply nows_rev|].
      apply nows_cons; split; [apply bsl_not_space|]. apply nows_cons; split; [assumption|apply nows_nil].
  - destruct (dollar specials_core w); [|split; assumption].
    destruct (forallb _ w).
    + split.
      * destruct w as [|c r]; [congruence|discriminate].
      * clear Hne. induction w as [|c r IH]; [apply nows_nil|].
        apply nows_cons in Hw as [Hc Hr]. cbn [flat_map app].
        apply nows_cons; split; [apply bsl_not_space|]. apply nows_cons; split; [assumption|]. now apply IH.
    + split; [discriminate|]. apply nows_cons; split; [apply bsl_not_space|assumption].
Qed.

Lemma Forall_concat_inv {A} (P : A -> Prop) (Lo : list (list A)) :
  Forall P (concat Lo) -> Forall (Forall P) Lo.
Proof.
  induction Lo as [|l r IH]; intros H; constructor.
  - cbn in H. apply Forall_app in H. tauto.
  - apply IH. cbn in H. apply Forall_app in H. tauto.
Qed.

(* With width > 0, whitespace normalisation on: re-reading the output lines as words
   gives exactly the input words (no word dropped, invented, merged or split), plain text. *)
Theorem wrap_text_lossless_plain esc text width c0 c1 : 0 < width ->
  concat (map split_ws (wrap_paragraph_lines esc split_ws text width c0 c1 true true false))
  = split_ws text.
Proof.
  intros Hw. unfold wrap_paragraph_lines, maybe.
  destruct (width <=? 0) eqn:E; [apply Z.leb_le in E; lia|].
  rewrite split_ws_collapse.
  destruct (wrap_lossless esc (split_ws text) width c0 c1 false) as [Lo [H1 [H2 H3]]].
  rewrite H3, esc_lines_plain, map_map.
  assert (G : Forall (Forall goodword) Lo).
  { apply Forall_concat_inv. pose proof (split_ws_good text) as G0. rewrite <- H1 in G0. exact G0. }
  rewrite <- H1. clear H1 H3. induction Lo as [|l r IH]; [reflexivity|].
  inversion G; subst. inversion H2; subst. cbn [map concat].
  rewrite strip_join, split_ws_join by assumption. f_equal. now apply IH.
Qed.

(* width <= 0: exactly one line (none for blank text) carrying the same words. *)
Theorem wrap_nowrap esc splitter text width c0 c1 md : width <= 0 ->
  let out := wrap_paragraph_lines esc splitter text width c0 c1 true true md in
  (length out <= 1)%nat /\ concat (map split_ws out) = split_ws text /\
  (out = [] <-> split_ws text = []).
Proof.
  intros Hw out. subst out. unfold wrap_paragraph_lines, maybe.
  apply Z.leb_le in Hw. rewrite Hw.
  pose proof (split_ws_strip (collapse_ws text)) as E. rewrite split_ws_collapse in E.
  pose proof (strip_nil_iff (collapse_ws text)) as N.
  rewrite <- split_ws_nil_iff, split_ws_collapse in N.
  destruct (strip (collapse_ws text)) as [|c t] eqn:S.
  - cbn. rewrite <- E. repeat split; auto.
  - cbn [length map concat]. rewrite app_nil_r. repeat split; auto; try discriminate.
    intros F. apply N in F. discriminate.
Qed.
