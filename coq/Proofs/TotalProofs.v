(* C12: the renderer is total.  If the line wrapper never raises, rendering never raises, for every
   document tree in which every table has at least its header row (Marko's tables always do), every
   option and every state.  Together with the totality of the typography rewrites (TypoProofs,
   EllProofs) and of the regex matcher (RegexFacts) this covers every `raise` site of the model of
   fill_markdown except those inside the line wrapper. *)
From Coq Require Import List NArith ZArith Bool Lia.
Import ListNotations.
From Base Require Import PyStr CliTypes.
From Model Require Import Ast Render.
From Proofs Require Import RenderProofs SpacingProofs.

Definition leaf_has_rows (l : leaf) : Prop := match l with LTable _ [] => False | _ => True end.
Fixpoint tables_ok (b : blk) : Prop :=
  match b with
  | BLeaf l => leaf_has_rows l
  | BNode _ c => (fix go (l : list blk) : Prop := match l with [] => True | x :: r => tables_ok x /\ go r end) c
  end.

Lemma tables_ok_children k c : tables_ok (BNode k c) -> Forall tables_ok c.
Proof. cbn. induction c as [|x c IH]; constructor; [tauto|apply IH; tauto]. Qed.

Section Total.
  Variable wrapper : str -> str -> str -> M str.
  Variable refdefs : list (str * (str * option str)).
  Variable mode : lsp.
  Hypothesis wrapper_total : forall t i1 i2, exists r, wrapper t i1 i2 = ret r.

  Notation rb := (render_blk wrapper mode refdefs).

  Lemma leaf_total l st : leaf_has_rows l -> exists r, render_leaf wrapper refdefs l st = ret r.
  Proof.
    intros H. destruct l; cbn [render_leaf].
    - destruct (render_inls refdefs false c []) as [t cx]. unfold bind.
      match goal with |- exists r, match wrapper ?A ?B ?C with _ => _ end = _ => destruct (wrapper_total A B C) as [w Hw]; unfold ret in Hw; rewrite Hw end.
      eexists. reflexivity.
    - destruct (render_inls refdefs true c []) as [t0 cx]. destruct (endswith _ _); eexists; reflexivity.
    - eexists. reflexivity.
    - eexists. reflexivity.
    - destruct (r_skip st); eexists; reflexivity.
    - eexists. reflexivity.
    - cbv zeta. destruct rows as [|head body]; [destruct H|].
      destruct (render_row refdefs head _) as [h c1]. destruct (render_rows refdefs body c1) as [b c2].
      eexists. reflexivity.
    - eexists. reflexivity.
  Qed.

  Definition blk_total (b : blk) : Prop := forall st, exists r, rb b st = ret r.

  Lemma kids_total c : Forall blk_total c -> forall st, exists r, kidsf wrapper refdefs mode c st = ret r.
  Proof.
    induction 1 as [|x c Hx _ IH]; intros st; cbn [kidsf]; [eexists; reflexivity|].
    unfold bind. destruct (Hx st) as [[ta sa] Ea]. unfold ret in Ea. rewrite Ea. cbn [snd fst].
    fold (kidsf wrapper refdefs mode). destruct (IH sa) as [[tb sb] Eb]. unfold ret in Eb. rewrite Eb. eexists. reflexivity.
  Qed.

  Lemma items_total o bu st0 c : Forall blk_total c -> forall i st, exists r, itemsf wrapper refdefs mode o bu st0 c i st = ret r.
  Proof.
    induction 1 as [|x c Hx _ IH]; intros i st; cbn [itemsf]; [eexists; reflexivity|].
    cbv zeta. unfold bind.
    match goal with |- exists r, match rb x ?S with _ => _ end = _ => destruct (Hx S) as [[ta sa] Ea]; unfold ret in Ea; rewrite Ea end.
    cbn [snd fst]. fold (itemsf wrapper refdefs mode o bu st0).
    match goal with |- exists r, match itemsf _ _ _ _ _ _ c ?I ?S with _ => _ end = _ => destruct (IH I S) as [[tb sb] Eb]; unfold ret in Eb; rewrite Eb end.
    eexists. reflexivity.
  Qed.

  Theorem render_blk_total b : tables_ok b -> blk_total b.
  Proof.
    induction b as [l|k c IH] using blk_ind'; intros W st.
    - cbn [render_blk]. now apply leaf_total.
    - pose proof (tables_ok_children _ _ W) as Wc.
      assert (Tc : Forall blk_total c).
      { clear - IH Wc. induction IH as [|x l Hx _ IHl]; [constructor|]. inversion Wc; subst. constructor; auto. }
      clear IH W Wc.
      cbn [render_blk]. fold (kidsf wrapper refdefs mode).
      destruct k as [ordered bullet start tight| | |atype|label].
      + cbv zeta. fold (itemsf wrapper refdefs mode ordered bullet start). unfold bind.
        match goal with |- exists r, match itemsf _ _ _ _ _ _ c ?I ?S with _ => _ end = _ => destruct (items_total ordered bullet start c Tc I S) as [[tb sb] Eb]; unfold ret in Eb; rewrite Eb end.
        eexists. reflexivity.
      + destruct (if r_tight st then _ else _) as [pre st'].
        destruct c as [|c0 cs]; [eexists; reflexivity|].
        unfold bind. destruct (kids_total (c0 :: cs) Tc st') as [[tb sb] Eb]. unfold ret in Eb. rewrite Eb. eexists. reflexivity.
      + cbv zeta. unfold bind.
        match goal with |- exists r, match kidsf _ _ _ c ?S with _ => _ end = _ => destruct (kids_total c Tc S) as [[tb sb] Eb]; unfold ret in Eb; rewrite Eb end.
        eexists. reflexivity.
      + cbv zeta. unfold bind.
        match goal with |- exists r, match kidsf _ _ _ c ?S with _ => _ end = _ => destruct (kids_total c Tc S) as [[tb sb] Eb]; unfold ret in Eb; rewrite Eb end.
        eexists. reflexivity.
      + cbv zeta. unfold bind.
        match goal with |- exists r, match kidsf _ _ _ c ?S with _ => _ end = _ => destruct (kids_total c Tc S) as [[tb sb] Eb]; unfold ret in Eb; rewrite Eb end.
        eexists. reflexivity.
  Qed.

  Theorem render_doc_total blocks : Forall tables_ok blocks -> exists t, render_doc wrapper mode refdefs blocks = ret t.
  Proof.
    intros W. unfold render_doc, bind.
    assert (K : forall l st, render_blocks wrapper mode refdefs l st = kidsf wrapper refdefs mode l st).
    { induction l as [|x l IHl]; intros st; [reflexivity|]. cbn. unfold bind. destruct (rb x st) as [[ta sa]|]; [|reflexivity].
      cbn [snd fst]. now rewrite IHl. }
    rewrite K.
    assert (Tc : Forall blk_total blocks) by (eapply Forall_impl; [|exact W]; apply render_blk_total).
    destruct (kids_total blocks Tc init_rst) as [[t s] E]. unfold ret in E. rewrite E. eexists. reflexivity.
  Qed.
End Total.
