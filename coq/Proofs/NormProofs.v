(* strip (collapse_ws s) is the words of s joined by single spaces: the whitespace-normal form of a
   text is a function of its word sequence.  Used to extend the C02 / C03 paragraph theorems to
   widths <= 0 (no wrapping). *)
From Coq Require Import List NArith ZArith Bool Lia.
Import ListNotations.
From Base Require Import PyStr.
From Proofs Require Import PyStrFacts.

Lemma rev_nonnil {A} (l : list A) : l <> [] -> rev l <> [].
Proof. intros H E. apply H. apply (f_equal (@rev A)) in E. now rewrite rev_involutive in E. Qed.

Lemma lstrip_app_keep x y : lstrip x <> [] -> lstrip (x ++ y) = lstrip x ++ y.
Proof.
  induction x as [|c x IH]; intros H; [cbn in H; congruence|]. cbn in *.
  destruct (is_space c); [now apply IH|reflexivity].
Qed.

Lemma rstrip_app_keep a b : rstrip b <> [] -> rstrip (a ++ b) = a ++ rstrip b.
Proof.
  unfold rstrip. intros H. rewrite rev_app_distr.
  rewrite lstrip_app_keep; [now rewrite rev_app_distr, rev_involutive|].
  intro E. apply H. now rewrite E.
Qed.

Lemma rstrip_nows_nonempty w : w <> [] -> nows w -> rstrip w = w.
Proof.
  intros Hne Hw. unfold rstrip.
  destruct (goodword_last w (conj Hne Hw)) as [c [t [E Hc]]]. rewrite E. cbn. rewrite Hc.
  rewrite <- E. apply rev_involutive.
Qed.

Lemma rstrip_snoc_space a : rstrip (a ++ [sp]) = rstrip a.
Proof. unfold rstrip. rewrite rev_app_distr. cbn. now rewrite space_is_space. Qed.

Lemma collapse_true_no_lead s : lstrip (collapse_ws_aux s true) = collapse_ws_aux s true.
Proof.
  induction s as [|c s IH]; [reflexivity|]. cbn. destruct (is_space c) eqn:E; [exact IH|].
  cbn. now rewrite E.
Qed.

Lemma collapse_true_allspace s : all_space s = true -> collapse_ws_aux s true = [].
Proof.
  induction s as [|c s IH]; [reflexivity|]. cbn. intros H. apply andb_true_iff in H as [Hc Hs].
  rewrite Hc. now apply IH.
Qed.

Lemma lstrip_collapse s : lstrip (collapse_ws s) = collapse_ws_aux s true.
Proof.
  unfold collapse_ws. destruct s as [|c s]; [reflexivity|]. cbn.
  destruct (is_space c) eqn:E.
  - cbn. rewrite space_is_space. apply collapse_true_no_lead.
  - cbn. now rewrite E.
Qed.

Lemma join_cons_nonempty (w : str) (l : list str) : join [sp] (w :: l) = match l with [] => w | _ => w ++ sp :: join [sp] l end.
Proof. destruct l; reflexivity. Qed.

Lemma norm_aux s :
  (forall cur, cur <> [] -> nows cur -> rstrip (rev cur ++ collapse_ws_aux s false) = join [sp] (split_ws_aux s cur)) /\
  rstrip (collapse_ws_aux s true) = join [sp] (split_ws_aux s []).
Proof.
  induction s as [|c s [IH1 IH2]]; split.
  - intros cur Hne Hw. cbn. rewrite app_nil_r. destruct cur; [congruence|].
    apply rstrip_nows_nonempty; [apply rev_nonnil; discriminate|now apply nows_rev].
  - reflexivity.
  - intros cur Hne Hw. cbn [collapse_ws_aux split_ws_aux]. destruct (is_space c) eqn:Ec.
    + destruct cur as [|x cur']; [congruence|]. rewrite join_cons_nonempty.
      destruct (split_ws_aux s []) as [|w ws] eqn:Es.
      * assert (A : all_space s = true) by (apply split_ws_nil_iff; exact Es).
        rewrite (collapse_true_allspace s A). rewrite rstrip_snoc_space.
        apply rstrip_nows_nonempty; [apply rev_nonnil; discriminate|now apply nows_rev].
      * change (rev (x :: cur') ++ sp :: collapse_ws_aux s true) with (rev (x :: cur') ++ [sp] ++ collapse_ws_aux s true).
        rewrite app_assoc. rewrite rstrip_app_keep.
        -- rewrite IH2. now rewrite <- app_assoc.
        -- rewrite IH2. destruct ws; cbn; [|destruct w; discriminate].
           pose proof (split_ws_aux_good s [] nows_nil) as G. rewrite Es in G. inversion G as [|? ? [Hn _] _]; subst. exact Hn.
    + change (rev cur ++ c :: collapse_ws_aux s false) with (rev cur ++ [c] ++ collapse_ws_aux s false).
      rewrite app_assoc. change (rev cur ++ [c]) with (rev (c :: cur)).
      apply IH1; [discriminate|]. apply nows_cons. auto.
  - cbn [collapse_ws_aux split_ws_aux]. destruct (is_space c) eqn:Ec; [exact IH2|].
    change (c :: collapse_ws_aux s false) with (rev [c] ++ collapse_ws_aux s false).
    apply IH1; [discriminate|]. apply nows_cons. split; [exact Ec|apply nows_nil].
Qed.

Theorem strip_collapse_is_join s : strip (collapse_ws s) = join [sp] (split_ws s).
Proof. unfold strip. rewrite lstrip_collapse. apply (proj2 (norm_aux s)). Qed.
