(* Meta-theory of the regex engine:
   - the matcher never runs out of fuel (so the *_t total variants never take their
     default branch);
   - continuation inversion: a successful match calls its continuation on a state that
     is further along the same input. *)
From Coq Require Import List NArith Bool Arith Lia.
Import ListNotations.
From Base Require Import PyStr Regex.

Definition good (N : nat) (st : mstate) : Prop :=
  rem st = length (rest st) /\ pos st + length (rest st) = N.
Definition le_st (st' st : mstate) : Prop := length (rest st') <= length (rest st).
Definition kgood (N : nat) (st : mstate) (k : mstate -> res) : Prop :=
  forall st', good N st' -> le_st st' st -> k st' <> Oof.

Lemma kgood_weaken N st st1 k : kgood N st k -> le_st st1 st -> kgood N st1 k.
Proof. unfold kgood, le_st. intros H L st' G L'. apply H; [assumption|lia]. Qed.

Lemma good_step N st c r :
  good N st -> rest st = c :: r ->
  good N (MS r (Some c) (S (pos st)) (Nat.pred (rem st)) (caps st)) /\
  le_st (MS r (Some c) (S (pos st)) (Nat.pred (rem st)) (caps st)) st.
Proof.
  unfold good, le_st. intros [H1 H2] E. rewrite E in *. simpl in *. repeat split; lia.
Qed.

Lemma step1_no_oof N st p k : good N st -> kgood N st k -> step1 st p k <> Oof.
Proof.
  intros G K. unfold step1. destruct (rest st) as [|c r] eqn:E; [discriminate|].
  destruct (p c); [|discriminate]. destruct (good_step N st c r G E). apply K; assumption.
Qed.

Lemma match_lit_no_oof t : forall N st k, good N st -> kgood N st k -> match_lit t st k <> Oof.
Proof.
  induction t as [|c t IH]; intros N st k G K; simpl.
  - apply K; [assumption|unfold le_st; lia].
  - apply step1_no_oof with (N := N); [assumption|].
    intros st' G' L'. apply IH with (N := N); [assumption|]. eapply kgood_weaken; eassumption.
Qed.

Definition body_no_oof (N : nat) (body : mstate -> (mstate -> res) -> res) : Prop :=
  forall st k, good N st -> kgood N st k -> body st k <> Oof.

Lemma pos_lt N st st' : good N st -> good N st' -> le_st st' st -> pos st' <> pos st ->
  length (rest st') < length (rest st).
Proof. unfold good, le_st. intros [_ A] [_ B] L P. lia. Qed.

Lemma shape_no_oof (a : unit -> res) (kst : res) (b1 g : bool) :
  a tt <> Oof -> kst <> Oof ->
  (if b1 then a tt
   else if g then match a tt with Fail => kst | Oof => Oof | Ok y => Ok y end
        else match kst with Fail => a tt | Oof => Oof | Ok y => Ok y end) <> Oof.
Proof.
  intros HA HK. destruct b1; [exact HA|]. destruct g.
  - destruct (a tt); [exact HK|congruence|discriminate].
  - destruct kst; [exact HA|congruence|discriminate].
Qed.

Lemma rep_loop_no_oof N body mn mx g : body_no_oof N body ->
  forall fuel n st k, good N st -> length (rest st) < fuel -> kgood N st k ->
  rep_loop body mn mx g fuel n st k <> Oof.
Proof.
  intros HB. induction fuel as [|f IH]; intros n st k G F K; [lia|].
  cbn [rep_loop]. cbv zeta.
  apply (shape_no_oof (fun _ : unit =>
     if match mx with None => true | Some x => Nat.ltb n x end
     then body st (fun st' => if Nat.eqb (pos st') (pos st) then Fail
                              else rep_loop body mn mx g f (S n) st' k)
     else Fail)).
  - destruct (match mx with None => true | Some x => Nat.ltb n x end); [|discriminate].
    apply HB; [assumption|]. intros st' G' L'.
    destruct (Nat.eqb (pos st') (pos st)) eqn:EP; [discriminate|].
    apply Nat.eqb_neq in EP. apply IH; [assumption| |eapply kgood_weaken; eassumption].
    pose proof (pos_lt N st st' G G' L' EP). lia.
  - apply K; [assumption|unfold le_st; lia].
Qed.

Lemma good_set_cap N i st st' : good N st' -> good N (set_cap i st st').
Proof. unfold good, set_cap. simpl. tauto. Qed.
Lemma good_with_caps N st c : good N st -> good N (with_caps st c).
Proof. unfold good, with_caps. simpl. tauto. Qed.

Theorem m_no_oof r : forall N st k, good N st -> kgood N st k -> m r st k <> Oof.
Proof.
  induction r; intros N st k G K; cbn [m];
    try (apply step1_no_oof with (N := N); assumption).
  - (* REps *) apply K; [assumption|unfold le_st; lia].
  - (* RFail *) discriminate.
  - (* RCat *) apply IHr1 with (N := N); [assumption|].
    intros st' G' L'. apply IHr2 with (N := N); [assumption|eapply kgood_weaken; eassumption].
  - (* RAlt *)
    destruct (m r1 st k) eqn:E; [apply IHr2 with (N := N); assumption| |discriminate].
    exfalso. revert E. apply IHr1 with (N := N); assumption.
  - (* RRep *)
    apply rep_loop_no_oof with (N := N); [|assumption| |assumption].
    + intros st0 k0. apply IHr.
    + destruct G as [G1 _]. rewrite G1. lia.
  - (* RGroup *)
    apply IHr with (N := N); [assumption|]. intros st' G' L'.
    apply K; [now apply good_set_cap|exact L'].
  - (* RRef *)
    destruct (nth i (caps st) None) as [[s0 t]|]; [|discriminate].
    apply match_lit_no_oof with (N := N); assumption.
  - (* RLook *)
    destruct (m r st (fun st' => Ok st')) eqn:E.
    + destruct neg; [apply K; [assumption|unfold le_st; lia]|discriminate].
    + exfalso. revert E. apply IHr with (N := N); [assumption|]. intros st' _ _. discriminate.
    + destruct neg; [discriminate|]. apply K; [now apply good_with_caps|unfold le_st, with_caps; simpl; lia].
  - (* RBehind1 *)
    match goal with |- (if ?c then _ else _) <> _ => destruct c end; [|discriminate].
    apply K; [assumption|unfold le_st; lia].
  - (* RAt *)
    destruct (anchor_ok a st); [|discriminate]. apply K; [assumption|unfold le_st; lia].
Qed.

(* ---- continuation inversion ---- *)
Lemma step1_ok_inv N st p k x : good N st -> step1 st p k = Ok x ->
  exists st', good N st' /\ le_st st' st /\ k st' = Ok x.
Proof.
  intros G H. unfold step1 in H. destruct (rest st) as [|c r] eqn:E; [discriminate|].
  destruct (p c); [|discriminate]. destruct (good_step N st c r G E). eauto.
Qed.

Lemma match_lit_ok_inv t : forall N st k x, good N st -> match_lit t st k = Ok x ->
  exists st', good N st' /\ le_st st' st /\ k st' = Ok x.
Proof.
  induction t as [|c t IH]; intros N st k x G H; simpl in H.
  - exists st; split; [assumption|]; split; [unfold le_st; lia|assumption].
  - apply step1_ok_inv with (N := N) in H; [|assumption]. destruct H as [st1 [G1 [L1 H1]]].
    apply IH with (N := N) in H1; [|assumption]. destruct H1 as [st2 [G2 [L2 H2]]].
    exists st2; split; [assumption|]; split; [unfold le_st in *; lia|assumption].
Qed.

Definition body_ok_inv (N : nat) (body : mstate -> (mstate -> res) -> res) : Prop :=
  forall st k x, good N st -> body st k = Ok x ->
    exists st', good N st' /\ le_st st' st /\ k st' = Ok x.

Lemma shape_ok (a : unit -> res) (kst : res) (b1 g : bool) (x : mstate) (P : Prop) :
  (a tt = Ok x -> P) -> (kst = Ok x -> P) ->
  (if b1 then a tt
   else if g then match a tt with Fail => kst | Oof => Oof | Ok y => Ok y end
        else match kst with Fail => a tt | Oof => Oof | Ok y => Ok y end) = Ok x -> P.
Proof.
  intros HA HK. destruct b1; [exact HA|]. destruct g.
  - destruct (a tt) eqn:E; [exact HK|discriminate|]. intros H. apply HA. exact H.
  - destruct kst eqn:E; [exact HA|discriminate|]. intros H. apply HK. exact H.
Qed.

Lemma rep_loop_ok_inv N body mn mx g : body_ok_inv N body ->
  forall fuel n st k x, good N st -> rep_loop body mn mx g fuel n st k = Ok x ->
  exists st', good N st' /\ le_st st' st /\ k st' = Ok x.
Proof.
  intros HB. induction fuel as [|f IH]; intros n st k x G H; [discriminate|].
  cbn [rep_loop] in H. cbv zeta in H. revert H.
  apply (shape_ok (fun _ : unit =>
     if match mx with None => true | Some x => Nat.ltb n x end
     then body st (fun st' => if Nat.eqb (pos st') (pos st) then Fail
                              else rep_loop body mn mx g f (S n) st' k)
     else Fail)).
  - destruct (match mx with None => true | Some x0 => Nat.ltb n x0 end); [|discriminate].
    intros E. apply HB in E; [|assumption]. destruct E as [st1 [G1 [L1 E1]]].
    destruct (Nat.eqb (pos st1) (pos st)); [discriminate|].
    apply IH in E1; [|assumption]. destruct E1 as [st2 [G2 [L2 E2]]].
    exists st2; split; [assumption|]; split; [unfold le_st in *; lia|assumption].
  - intros E. exists st; split; [assumption|]; split; [unfold le_st; lia|assumption].
Qed.

Theorem m_ok_inv r : forall N st k x, good N st -> m r st k = Ok x ->
  exists st', good N st' /\ le_st st' st /\ k st' = Ok x.
Proof.
  induction r; intros N st k x G H; cbn [m] in H;
    try (apply step1_ok_inv with (N := N) in H; assumption).
  - exists st; split; [assumption|]; split; [unfold le_st; lia|assumption].
  - discriminate.
  - apply IHr1 with (N := N) in H; [|assumption]. destruct H as [st1 [G1 [L1 H1]]].
    apply IHr2 with (N := N) in H1; [|assumption]. destruct H1 as [st2 [G2 [L2 H2]]].
    exists st2; split; [assumption|]; split; [unfold le_st in *; lia|assumption].
  - destruct (m r1 st k) eqn:E.
    + apply IHr2 with (N := N) in H; assumption.
    + discriminate.
    + apply IHr1 with (N := N) in E; [|assumption]. rewrite <- H. exact E.
  - apply rep_loop_ok_inv with (N := N) in H; [assumption| |assumption].
    intros st0 k0 x0. apply IHr.
  - apply IHr with (N := N) in H; [|assumption]. destruct H as [st1 [G1 [L1 H1]]].
    exists (set_cap i st st1). split; [now apply good_set_cap|]. split; [exact L1|exact H1].
  - destruct (nth i (caps st) None) as [[s0 t]|]; [|discriminate].
    apply match_lit_ok_inv with (N := N) in H; assumption.
  - destruct (m r st (fun st' => Ok st')) eqn:E.
    + destruct neg; [|discriminate]. exists st; split; [assumption|]; split; [unfold le_st; lia|assumption].
    + discriminate.
    + destruct neg; [discriminate|]. exists (with_caps st (caps st0)).
      split; [now apply good_with_caps|]. split; [unfold le_st, with_caps; simpl; lia|exact H].
  - match type of H with (if ?c then _ else _) = _ => destruct c end; [|discriminate].
    exists st; split; [assumption|]; split; [unfold le_st; lia|assumption].
  - destruct (anchor_ok a st); [|discriminate]. exists st; split; [assumption|]; split; [unfold le_st; lia|assumption].
Qed.

(* ---- top level ---- *)
Lemma try_at_no_oof p st must : rem st = length (rest st) -> try_at p st must <> Oof.
Proof.
  intros R. unfold try_at.
  apply m_no_oof with (N := pos st + length (rest st)).
  - unfold good, with_caps; simpl. auto.
  - intros st' _ _. destruct (must && Nat.eqb (pos st') (pos st)); discriminate.
Qed.

Lemma try_at_ok p st must st1 : rem st = length (rest st) -> try_at p st must = Ok st1 ->
  rem st1 = length (rest st1) /\ length (rest st1) <= length (rest st) /\
  pos st1 + length (rest st1) = pos st + length (rest st) /\
  (must = true -> pos st1 <> pos st).
Proof.
  intros R H. unfold try_at in H.
  apply m_ok_inv with (N := pos st + length (rest st)) in H.
  2:{ unfold good, with_caps; simpl. auto. }
  destruct H as [st' [[G1 G2] [L H]]]. unfold le_st, with_caps in *. simpl in *.
  destruct (must && Nat.eqb (pos st') (pos st)) eqn:E; [discriminate|].
  injection H as <-. repeat split; auto.
  intros ->. simpl in E. now apply Nat.eqb_neq in E.
Qed.

Lemma search_from_no_oof p s : forall pv ps rm must sk, rm = length s ->
  search_from p s pv ps rm must sk <> SOof.
Proof.
  induction s as [|c s IH]; intros pv ps rm must sk R; cbn [search_from].
  - destruct (try_at p (MS [] pv ps rm []) must) eqn:E; try discriminate.
    exfalso. revert E. apply try_at_no_oof. simpl. exact R.
  - destruct (try_at p (MS (c :: s) pv ps rm []) must) eqn:E; try discriminate.
    + apply IH. simpl in R. lia.
    + exfalso. revert E. apply try_at_no_oof. simpl. exact R.
Qed.

Lemma search_from_found p s : forall pv ps rm must sk0 sk st0 st1, rm = length s ->
  search_from p s pv ps rm must sk0 = SFound sk st0 st1 ->
  exists d, length (rest st0) + d = length s /\
    rem st1 = length (rest st1) /\ length (rest st1) <= length (rest st0) /\
    pos st1 + length (rest st1) = pos st0 + length (rest st0) /\
    ((d = 0 /\ must = true) -> pos st1 <> pos st0).
Proof.
  induction s as [|c s IH]; intros pv ps rm must sk0 sk st0 st1 R H; cbn [search_from] in H.
  - destruct (try_at p (MS [] pv ps rm []) must) eqn:E; try discriminate.
    injection H as <- <- <-. apply try_at_ok in E; [|simpl; exact R].
    destruct E as [E1 [E2 [E3 E4]]]. exists 0. simpl in *. repeat split; auto; try lia; try tauto.
  - destruct (try_at p (MS (c :: s) pv ps rm []) must) eqn:E; try discriminate.
    + apply IH in H; [|simpl in R; lia]. destruct H as [d [H1 [H2 [H3 [H4 H5]]]]].
      exists (S d). simpl. repeat split; auto; try lia; try (intros [F _]; discriminate).
    + injection H as <- <- <-. apply try_at_ok in E; [|simpl; exact R].
      destruct E as [E1 [E2 [E3 E4]]]. exists 0. simpl in *. repeat split; auto; try lia; try tauto.
Qed.

Lemma finditer_loop_some p : forall fuel s pv ps rm (must : bool), rm = length s ->
  2 * length s + (if must then 0 else 1) < fuel ->
  finditer_loop p fuel s pv ps rm must <> None.
Proof.
  induction fuel as [|f IH]; intros s pv ps rm must R F; [lia|].
  cbn [finditer_loop].
  destruct (search_from p s pv ps rm must []) eqn:E.
  - discriminate.
  - apply search_from_found in E; [|exact R].
    destruct E as [d [H1 [H2 [H3 [H4 H5]]]]].
    destruct (finditer_loop p f (rest st1) (prev st1) (pos st1) (rem st1)
                (Nat.eqb (pos st1) (pos st0))) as [[l tl]|] eqn:E2; [discriminate|].
    exfalso. revert E2. apply IH; [exact H2|].
    destruct (Nat.eqb (pos st1) (pos st0)) eqn:EP.
    + apply Nat.eqb_eq in EP.
      destruct d as [|d]; [|lia].
      destruct must; [exfalso; apply H5; auto|lia].
    + apply Nat.eqb_neq in EP. lia.
  - exfalso. revert E. apply search_from_no_oof. exact R.
Qed.

Theorem finditer_never_out_of_fuel p s : finditer p s <> None.
Proof. unfold finditer. apply finditer_loop_some; [reflexivity|lia]. Qed.

Theorem re_search_never_out_of_fuel p s : re_search p s <> None.
Proof.
  unfold re_search. destruct (search_from p s None 0 (length s) false []) eqn:E; try discriminate.
  exfalso. revert E. now apply search_from_no_oof.
Qed.

Theorem re_match_never_out_of_fuel p s : re_match p s <> None.
Proof.
  unfold re_match. destruct (try_at p (MS s None 0 (length s) []) false) eqn:E; try discriminate.
  exfalso. revert E. now apply try_at_no_oof.
Qed.

Theorem re_split_never_out_of_fuel p s : re_split p s <> None.
Proof.
  unfold re_split. pose proof (finditer_never_out_of_fuel p s).
  destruct (finditer p s) as [[l tl]|]; [discriminate|congruence].
Qed.

Theorem re_sub_never_out_of_fuel p f s : re_sub p f s <> None.
Proof.
  unfold re_sub. pose proof (finditer_never_out_of_fuel p s).
  destruct (finditer p s) as [[l tl]|]; [discriminate|congruence].
Qed.

(* finditer is a decomposition of the input: gaps and matched texts concatenate back *)
Lemma firstn_sub_app {A} (a b : list A) : firstn (length (a ++ b) - length b) (a ++ b) = a.
Proof.
  rewrite app_length. replace (length a + length b - length b) with (length a) by lia.
  induction a; simpl; [destruct b; reflexivity|congruence].
Qed.
