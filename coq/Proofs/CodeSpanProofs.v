(* C04: a code span written by the renderer is read back as the same content by a CommonMark reader
   (Model/InlineRead.v), for every non-empty content except the one shape the renderer does not pad:
   content that begins and ends with a space without being all spaces (finding D-49, refuted below
   the theorem by a witness). *)
From Coq Require Import List NArith Bool Arith Lia.
Import ListNotations.
From Base Require Import PyStr.
From Model Require Import Render InlineRead.
From Proofs Require Import WrapProofs RenderProofs SpacingProofs.
Local Open Scope N_scope.

(* ---- longest_run_aux ---- *)
Lemma lra_ge_best c s : forall cur best, (best <= longest_run_aux c s cur best)%nat.
Proof.
  induction s as [|x s IH]; intros cur best; cbn; [lia|].
  destruct (x =? c); [apply IH|]. etransitivity; [|apply IH]. lia.
Qed.
Lemma lra_ge_cur c s : forall cur best, (cur <= longest_run_aux c s cur best)%nat.
Proof.
  induction s as [|x s IH]; intros cur best; cbn; [lia|].
  destruct (x =? c).
  - etransitivity; [|apply IH]. lia.
  - etransitivity; [|apply lra_ge_best]. lia.
Qed.
Lemma lra_mono c s : forall cur b1 b2, (b1 <= b2)%nat -> (longest_run_aux c s cur b1 <= longest_run_aux c s cur b2)%nat.
Proof.
  induction s as [|x s IH]; intros cur b1 b2 H; cbn; [lia|].
  destruct (x =? c); [now apply IH|]. apply IH. lia.
Qed.
Lemma lra_mono_cur c s : forall c1 c2 best, (c1 <= c2)%nat -> (longest_run_aux c s c1 best <= longest_run_aux c s c2 best)%nat.
Proof.
  induction s as [|x s IH]; intros c1 c2 best H; cbn; [lia|].
  destruct (x =? c); [apply IH; lia|]. apply lra_mono. lia.
Qed.

Lemma repeat_snoc {A} (x : A) k l : repeat x (S k) ++ l = repeat x k ++ x :: l.
Proof. induction k; cbn in *; [reflexivity|]. now f_equal. Qed.

(* ---- scanning ---- *)
Lemma scan_run n k : forall x cur acc, scan_close n (repeat bq k ++ x) cur acc = scan_close n x (cur + k) acc.
Proof.
  induction k as [|k IH]; intros x cur acc; cbn [repeat app]; [now rewrite Nat.add_0_r|].
  cbn [scan_close]. rewrite N.eqb_refl. rewrite IH. f_equal. lia.
Qed.

Definition no_bq_head (t : str) : Prop := match t with c :: _ => c <> bq | [] => True end.

Lemma scan_closer n tail acc : (0 < n)%nat -> no_bq_head tail ->
  scan_close n (repeat bq n ++ tail) 0 acc = Some (rev acc, tail).
Proof.
  intros Hn Ht. rewrite scan_run. cbn [Nat.add]. destruct tail as [|d r]; cbn [scan_close].
  - rewrite Nat.eqb_refl. destruct n; [lia|reflexivity].
  - cbn in Ht. apply N.eqb_neq in Ht. rewrite Ht, Nat.eqb_refl. destruct n; [lia|reflexivity].
Qed.

(* content whose backtick runs are all shorter than n and that does not end in a backtick *)
Lemma scan_content n tail : (0 < n)%nat -> no_bq_head tail -> forall c cur acc,
  match rev c with [] => cur = O | l :: _ => l <> bq end ->
  (longest_run_aux bq c cur 0 < n)%nat ->
  scan_close n (c ++ repeat bq n ++ tail) cur acc = Some (rev acc ++ repeat bq cur ++ c, tail).
Proof.
  intros Hn Ht. induction c as [|d c IH]; intros cur acc Hl Hr.
  - cbn in Hl. subst cur. cbn [app]. rewrite scan_closer by assumption. now rewrite app_nil_r.
  - cbn [app scan_close]. cbn [longest_run_aux] in Hr.
    assert (Hl' : forall cur', (c = [] -> cur' = O) -> match rev c with [] => cur' = O | l :: _ => l <> bq end).
    { intros cur' H0. destruct (rev c) as [|l m] eqn:E.
      - apply H0. apply (f_equal (@rev N)) in E. now rewrite rev_involutive in E.
      - cbn [rev] in Hl. rewrite E in Hl. cbn in Hl. exact Hl. }
    destruct (d =? bq) eqn:Ed.
    + apply N.eqb_eq in Ed. subst d.
      rewrite IH.
      * now rewrite repeat_snoc.
      * apply Hl'. intros ->. cbn in Hl. congruence.
      * exact Hr.
    + assert (Hc : (cur < n)%nat).
      { eapply Nat.le_lt_trans; [|exact Hr]. etransitivity; [|apply lra_ge_best]. lia. }
      replace (Nat.eqb cur n) with false by (symmetry; apply Nat.eqb_neq; lia). cbn [andb].
      rewrite IH.
      * cbn [rev repeat app]. rewrite rev_app_distr, rev_repeat. now rewrite <- !app_assoc.
      * apply Hl'. reflexivity.
      * eapply Nat.le_lt_trans; [|exact Hr]. apply lra_mono. lia.
Qed.

(* ---- padding does not create longer runs ---- *)
Lemma lra_app_nonbq c s d : forall cur best, d <> c ->
  longest_run_aux c (s ++ [d]) cur best = longest_run_aux c s cur best.
Proof.
  induction s as [|x s IH]; intros cur best H; cbn.
  - apply N.eqb_neq in H. rewrite H. cbn. lia.
  - destruct (x =? c); now apply IH.
Qed.

Definition starts_with (c : N) (s : str) : bool := match s with x :: _ => x =? c | [] => false end.
Definition ends_with (c : N) (s : str) : bool := starts_with c (rev s).

(* the one shape that does not survive: content with a space at both ends that is not all spaces *)
Definition needs_padding (s : str) : bool :=
  starts_with 32 s && ends_with 32 s && negb (forallb (N.eqb 32) s).

Lemma last_ch_rev s : last_ch s = match rev s with x :: _ => Some x | [] => None end.
Proof.
  unfold last_ch. reflexivity.
Qed.

Lemma run_len_repeat_head n x : no_bq_head x -> run_len bq (repeat bq n ++ x) = n.
Proof.
  intros H. induction n as [|n IH]; cbn [repeat app run_len].
  - destruct x as [|d r]; [reflexivity|]. cbn in H. apply N.eqb_neq in H. cbn [run_len]. now rewrite H.
  - rewrite N.eqb_refl. now rewrite IH.
Qed.

(* a delimited span: n backticks, content c (runs shorter than n, no backtick at either end), n backticks *)
Lemma read_delimited n c tail : (0 < n)%nat -> c <> [] -> no_bq_head c ->
  match rev c with l :: _ => l <> bq | [] => True end ->
  (longest_run_aux bq c 0 0 < n)%nat -> no_bq_head tail ->
  read_code_span (repeat bq n ++ c ++ repeat bq n ++ tail) = Some (strip_one_space c, tail).
Proof.
  intros Hn Hne Hh Hl Hr Ht. unfold read_code_span.
  assert (Hh' : no_bq_head (c ++ repeat bq n ++ tail)) by (destruct c; [congruence|exact Hh]).
  rewrite (run_len_repeat_head n _ Hh').
  destruct n as [|n0] eqn:En; [lia|]. rewrite <- En in *.
  replace (skipn n (repeat bq n ++ c ++ repeat bq n ++ tail)) with (c ++ repeat bq n ++ tail)
    by (symmetry; rewrite <- (repeat_length bq n) at 1; apply skipn_len_app).
  rewrite (scan_content n tail Hn Ht c 0 []).
  - reflexivity.
  - destruct (rev c) as [|l m] eqn:E; [|exact Hl]. exfalso. apply Hne.
    apply (f_equal (@rev N)) in E. now rewrite rev_involutive in E.
  - exact Hr.
Qed.

Lemma strip_padded s : forallb (N.eqb 32) s = false -> strip_one_space (32 :: s ++ [32]) = s.
Proof.
  intros F. unfold strip_one_space. rewrite rev_app_distr. cbn [rev app].
  cbn [forallb]. rewrite forallb_app, F. cbn [N.eqb Pos.eqb andb]. now rewrite rev_involutive.
Qed.

Lemma strip_id s : needs_padding s = false -> strip_one_space s = s.
Proof.
  intros Hp. destruct s as [|c0 r]; [reflexivity|].
  destruct (N.eqb_spec c0 32) as [E32|N32].
  - subst c0. unfold strip_one_space.
    unfold needs_padding, ends_with, starts_with in Hp. cbn [rev] in Hp.
    destruct (rev r) as [|l m] eqn:Er; [reflexivity|].
    cbn [app] in Hp. rewrite N.eqb_refl in Hp. cbn [andb] in Hp.
    destruct (N.eqb_spec l 32) as [El|Nl].
    + subst l. cbn [andb] in Hp. apply negb_false_iff in Hp. now rewrite Hp.
    + destruct l as [|q]; [reflexivity|].
      repeat (destruct q as [q|q|]; try reflexivity; try congruence).
  - unfold strip_one_space. destruct c0 as [|p]; [reflexivity|].
    repeat (destruct p as [p|p|]; try reflexivity; try congruence).
Qed.

Theorem code_span_roundtrip s tail :
  s <> [] -> needs_padding s = false -> no_bq_head tail ->
  read_code_span (render_code_span s ++ tail) = Some (s, tail).
Proof.
  intros Hne Hp Ht. destruct s as [|c0 r]; [congruence|].
  unfold render_code_span.
  set (s := c0 :: r) in *. set (N0 := S (longest_run bq s)).
  assert (HN : (0 < N0)%nat) by (unfold N0; lia).
  assert (Hruns : (longest_run_aux bq s 0 0 < N0)%nat) by (unfold N0, longest_run; lia).
  destruct ((c0 =? bq) || match last_ch s with Some l => l =? bq | None => false end) eqn:Epad.
  - (* padded with one space on both sides *)
    replace ((repeat bq N0 ++ [sp] ++ s ++ [sp] ++ repeat bq N0) ++ tail)
      with (repeat bq N0 ++ ([sp] ++ s ++ [sp]) ++ repeat bq N0 ++ tail) by (now rewrite <- !app_assoc).
    rewrite read_delimited; try assumption.
    + f_equal. f_equal.
      (* strip_one_space (sp :: s ++ [sp]) = s, because s holds a backtick *)
      change ([sp] ++ s ++ [sp]) with (32 :: (s ++ [32])). apply strip_padded.
      apply orb_true_iff in Epad as [E|E].
      * apply N.eqb_eq in E. subst c0. subst s. reflexivity.
      * rewrite last_ch_rev in E. destruct (rev s) as [|l m] eqn:Er; [discriminate|]. apply N.eqb_eq in E. subst l.
        assert (Hin : In bq s) by (apply in_rev; rewrite Er; now left).
        destruct (forallb (N.eqb 32) s) eqn:F; [|reflexivity]. rewrite forallb_forall in F. apply F in Hin. vm_compute in Hin. discriminate.
    + discriminate.
    + cbn. discriminate.
    + rewrite !rev_app_distr. cbn. discriminate.
    + cbn [app longest_run_aux]. replace (sp =? bq) with false by reflexivity. cbn [Nat.max].
      rewrite lra_app_nonbq by discriminate. exact Hruns.
  - (* no padding: the content neither starts nor ends with a backtick *)
    apply orb_false_iff in Epad as [E0 El]. apply N.eqb_neq in E0.
    replace ((repeat bq N0 ++ s ++ repeat bq N0) ++ tail) with (repeat bq N0 ++ s ++ repeat bq N0 ++ tail) by (now rewrite <- !app_assoc).
    rewrite read_delimited; try assumption.
    + f_equal. f_equal.
      (* strip_one_space s = s by the hypothesis on s *)
      apply strip_id. exact Hp.
    + rewrite last_ch_rev in El. destruct (rev s) as [|l m]; [exact I|]. now apply N.eqb_neq in El.
Qed.

(* the hypotheses are met by ordinary content, including content that needs the padded form *)
Example roundtrip_plain : read_code_span (render_code_span [97; 96; 96; 98] ++ [32; 120]) = Some ([97; 96; 96; 98], [32; 120]).
Proof. apply code_span_roundtrip; [discriminate|reflexivity|cbn; discriminate]. Qed.
Example roundtrip_padded : read_code_span (render_code_span [96; 97] ++ []) = Some ([96; 97], []).
Proof. apply code_span_roundtrip; [discriminate|reflexivity|exact I]. Qed.
(* all-space content survives as well *)
Example roundtrip_spaces : needs_padding [32; 32] = false.
Proof. reflexivity. Qed.

(* finding D-49: without the hypothesis the statement is false *)
Lemma code_span_roundtrip_refuted :
  exists s, s <> [] /\ needs_padding s = true /\ read_code_span (render_code_span s ++ []) <> Some (s, []).
Proof. exists [32; 97; 32]. split; [discriminate|]. split; [reflexivity|]. vm_compute. discriminate. Qed.
