(* C09: the ellipsis rewrite touches only three-dot runs: a text that holds no run of three dots comes back
   unchanged (a consequence of the confinement theorem: every replaced piece contains the three dots). *)
From Coq Require Import List NArith Bool Arith Lia.
Import ListNotations.
From Base Require Import PyStr Regex.
From Model Require Import Typography.
From Proofs Require Import RegexSem TypoProofs EllProofs.

Definition has_dots (s : str) : Prop := exists a b, s = a ++ dots3 ++ b.

Lemma pieces_equal : forall (gaps ts rs : list str) pre tl text,
  length gaps = length ts -> length rs = length ts -> Forall2 ell_rel ts rs ->
  text = pre ++ concat (map (fun gt => fst gt ++ snd gt) (combine gaps ts)) ++ tl ->
  ~ has_dots text -> rs = ts.
Proof.
  induction gaps as [|g gaps IH]; intros ts rs pre tl text Lg Lr F E N.
  - destruct ts; [|discriminate]. destruct rs; [reflexivity|discriminate].
  - destruct ts as [|t ts]; [discriminate|]. destruct rs as [|r rs']; [discriminate|].
    assert (HF : ell_rel t r /\ Forall2 ell_rel ts rs') by (inversion F; auto). destruct HF as [Hr Frest]. clear F.
    cbn [length] in Lg, Lr. injection Lg as Lg. injection Lr as Lr.
    cbn [combine map concat fst snd] in E.
    assert (Er : r = t).
    { destruct Hr as [->|[g1 [g2 [g4 [g5 [g2' [g5' [Et _]]]]]]]]; [reflexivity|].
      exfalso. apply N. subst t. exists (pre ++ g ++ g1 ++ g2), (g4 ++ g5 ++ concat (map (fun gt => fst gt ++ snd gt) (combine gaps ts)) ++ tl).
      rewrite E. now rewrite <- !app_assoc. }
    subst r. f_equal.
    apply (IH ts rs' (pre ++ g ++ t) tl text Lg Lr Frest); [|exact N].
    rewrite E. now rewrite <- !app_assoc.
Qed.

Theorem ellipses_without_dots_is_identity text : ell_cert = true -> ~ has_dots text -> ellipses text = inl text.
Proof.
  intros C N. destruct (ellipses_confined text C) as [out [gaps [ts [rs [tl [E [Lg [Lr [Et [Eo F]]]]]]]]]].
  assert (R : rs = ts) by (apply (pieces_equal gaps ts rs [] tl text Lg Lr F); [exact Et|exact N]).
  subst rs. rewrite E. f_equal. now rewrite Eo, Et.
Qed.
