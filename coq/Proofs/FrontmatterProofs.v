(* C07: frontmatter splitting. *)
From Coq Require Import List NArith ZArith Bool Lia.
Import ListNotations.
From Base Require Import PyStr.
From Model Require Import Frontmatter.
From Proofs Require Import PyStrFacts.

(* a line without CR or LF *)
Definition clean_line (l : str) : Prop :=
  forallb (fun c => negb (N.eqb c 10) && negb (N.eqb c 13)) l = true.

Lemma clean_cons c l : clean_line (c :: l) <-> (c <> 10%N /\ c <> 13%N) /\ clean_line l.
Proof.
  unfold clean_line. cbn [forallb]. rewrite !andb_true_iff, !negb_true_iff, !N.eqb_neq. tauto.
Qed.

(* CRLF normalisation leaves clean lines joined by LF alone ... *)
Lemma crlf_line l s : clean_line l -> crlf_to_lf (l ++ s) = l ++ crlf_to_lf s.
Proof.
  induction l as [|c l IH]; intros H; [reflexivity|].
  apply clean_cons in H as [[H1 H2] H]. cbn [app].
  assert (E : crlf_to_lf (c :: l ++ s) = c :: crlf_to_lf (l ++ s)).
  { cbn [crlf_to_lf]. destruct c as [|p]; [reflexivity|].
    do 4 (destruct p as [p|p|]; try reflexivity). congruence. }
  rewrite E, IH by assumption. reflexivity.
Qed.

Lemma crlf_join_lf ls : Forall clean_line ls -> crlf_to_lf (join [nl] ls) = join [nl] ls.
Proof.
  induction 1 as [|l ls Hl _ IH]; [reflexivity|].
  destruct ls as [|l2 ls].
  - cbn [join]. rewrite <- (app_nil_r l) at 1. rewrite crlf_line by assumption. cbn. now rewrite app_nil_r.
  - change (join [nl] (l :: l2 :: ls)) with (l ++ [nl] ++ join [nl] (l2 :: ls)).
    rewrite crlf_line by assumption. cbn [app crlf_to_lf]. unfold nl at 1. now rewrite IH.
Qed.

(* ... and turns the same lines joined by CRLF into the LF-joined text: CRLF -> LF is the
   only thing line splitting changes *)
Lemma crlf_join_crlf ls : Forall clean_line ls ->
  crlf_to_lf (join [13; 10]%N ls) = join [nl] ls.
Proof.
  induction 1 as [|l ls Hl _ IH]; [reflexivity|].
  destruct ls as [|l2 ls].
  - cbn [join]. rewrite <- (app_nil_r l) at 1. rewrite crlf_line by assumption. cbn. now rewrite app_nil_r.
  - change (join [13; 10]%N (l :: l2 :: ls)) with (l ++ [13; 10]%N ++ join [13; 10]%N (l2 :: ls)).
    rewrite crlf_line by assumption. cbn [app crlf_to_lf]. now rewrite IH.
Qed.

Lemma split_on_aux_line l : clean_line l -> forall s cur,
  split_on_aux nl (l ++ nl :: s) cur = (rev cur ++ l) :: split_on_aux nl s [].
Proof.
  induction l as [|c l IH]; intros H s cur.
  - cbn. now rewrite app_nil_r.
  - apply clean_cons in H as [[H1 _] H]. cbn [app split_on_aux].
    apply N.eqb_neq in H1. unfold nl at 1. rewrite H1. rewrite IH by assumption.
    cbn [rev]. now rewrite <- app_assoc.
Qed.

Lemma split_on_aux_last l : clean_line l -> forall cur, split_on_aux nl l cur = [rev cur ++ l].
Proof.
  induction l as [|c l IH]; intros H cur.
  - cbn. now rewrite app_nil_r.
  - apply clean_cons in H as [[H1 _] H]. cbn [split_on_aux].
    apply N.eqb_neq in H1. unfold nl at 1. rewrite H1. rewrite IH by assumption.
    cbn [rev]. now rewrite <- app_assoc.
Qed.

Lemma split_on_join ls : ls <> [] -> Forall clean_line ls -> split_on nl (join [nl] ls) = ls.
Proof.
  unfold split_on. intros Hne H. induction H as [|l ls Hl _ IH]; [congruence|].
  destruct ls as [|l2 ls].
  - cbn [join]. now rewrite split_on_aux_last.
  - change (join [nl] (l :: l2 :: ls)) with (l ++ nl :: join [nl] (l2 :: ls)).
    rewrite split_on_aux_line by assumption. cbn [rev app]. now rewrite IH.
Qed.

(* dropping one trailing empty line, recursively *)
Fixpoint drop_last_empty (ls : list str) : list str :=
  match ls with
  | [] => []
  | [l] => match l with [] => [] | _ => [l] end
  | l :: r => l :: drop_last_empty r
  end.

Lemma dle_cons l r : r <> [] -> drop_last_empty (l :: r) = l :: drop_last_empty r.
Proof. destruct r; [congruence|reflexivity]. Qed.

Lemma dle_app a b : b <> [] -> drop_last_empty (a ++ b) = a ++ drop_last_empty b.
Proof.
  intros Hb. induction a as [|x a IH]; [reflexivity|].
  cbn [app]. rewrite dle_cons, IH; [reflexivity|]. destruct a; [assumption|discriminate].
Qed.

Lemma pop_is_dle ls : pop_last_empty ls = drop_last_empty ls.
Proof.
  unfold pop_last_empty. destruct ls as [|x ls _] using rev_ind; [reflexivity|].
  rewrite rev_app_distr. cbn [rev app]. rewrite dle_app by discriminate.
  destruct x; cbn; [now rewrite rev_involutive, app_nil_r|reflexivity].
Qed.

Lemma fm_lines_join ls : Forall clean_line ls -> fm_lines (join [nl] ls) = drop_last_empty ls.
Proof.
  intros H. unfold fm_lines. rewrite crlf_join_lf, pop_is_dle by assumption.
  destruct ls; [reflexivity|]. now rewrite split_on_join.
Qed.

(* C07: a CRLF document splits exactly like its LF twin *)
Theorem fm_lines_crlf ls : Forall clean_line ls ->
  fm_lines (join [13; 10]%N ls) = fm_lines (join [nl] ls).
Proof. intros H. unfold fm_lines. now rewrite crlf_join_crlf, crlf_join_lf. Qed.

(* ---- skip_blank / find_close on structured input ---- *)
Definition blank_line (l : str) : Prop := strip l = [].

Lemma skip_blank_app B rest : Forall blank_line B ->
  skip_blank (B ++ rest) = skip_blank rest.
Proof.
  induction 1 as [|b B Hb _ IH]; [reflexivity|]. cbn [app skip_blank]. now rewrite Hb.
Qed.

Lemma delim_not_blank l : is_delim l = true -> is_nil (strip l) = false.
Proof. unfold is_delim. destruct (strip l); [discriminate|reflexivity]. Qed.

Lemma find_close_app mid lc after : Forall (fun l => is_delim l = false) mid -> is_delim lc = true ->
  forall acc, find_close (mid ++ lc :: after) acc = Some (rev acc ++ mid ++ [lc], after).
Proof.
  intros Hm Hc. induction Hm as [|m mid Hm _ IH]; intros acc.
  - cbn. rewrite Hc. reflexivity.
  - cbn [app find_close]. rewrite Hm, IH. cbn [rev]. now rewrite <- app_assoc.
Qed.

Lemma find_close_none ls : Forall (fun l => is_delim l = false) ls -> forall acc, find_close ls acc = None.
Proof. induction 1 as [|m ls Hm _ IH]; intros acc; cbn; [reflexivity|]. now rewrite Hm. Qed.

(* ---- C07.1 exactness (guarded: no exotic line-boundary characters) ---- *)
Lemma delim_nonempty l : is_delim l = true -> l <> [].
Proof. intros H E. subst l. revert H. vm_compute. discriminate. Qed.

Lemma dle_closed B l0 mid lc after : lc <> [] ->
  drop_last_empty (B ++ l0 :: mid ++ lc :: after) = B ++ l0 :: mid ++ lc :: drop_last_empty after.
Proof.
  intros Hlc. rewrite dle_app by discriminate. f_equal.
  rewrite dle_cons by (destruct mid; discriminate). f_equal.
  rewrite dle_app by discriminate. f_equal.
  destruct after as [|a after]; [|now rewrite dle_cons by discriminate].
  cbn. destruct lc; [congruence|reflexivity].
Qed.

Theorem split_closed B l0 mid lc after :
  Forall clean_line (B ++ l0 :: mid ++ lc :: after) ->
  Forall blank_line B -> is_delim l0 = true ->
  Forall (fun l => is_delim l = false) mid -> is_delim lc = true ->
  split_frontmatter (join [nl] (B ++ l0 :: mid ++ lc :: after)) =
  (join [nl] (l0 :: mid ++ [lc]) ++ [nl], join [nl] (drop_last_empty after)).
Proof.
  intros Hc HB H0 Hm Hlc. unfold split_frontmatter.
  rewrite fm_lines_join by assumption.
  rewrite dle_closed by (now apply delim_nonempty).
  rewrite skip_blank_app by assumption. cbn [skip_blank].
  rewrite (delim_not_blank _ H0), H0, find_close_app by assumption. reflexivity.
Qed.

(* the frontmatter returned is, character for character, the text of the delimiter lines and
   everything between them followed by one newline: a literal piece of the input *)
Corollary frontmatter_is_substring B l0 mid lc after :
  Forall clean_line (B ++ l0 :: mid ++ lc :: after) ->
  Forall blank_line B -> is_delim l0 = true ->
  Forall (fun l => is_delim l = false) mid -> is_delim lc = true ->
  after <> [] ->
  exists pre post,
    join [nl] (B ++ l0 :: mid ++ lc :: after) =
      pre ++ fst (split_frontmatter (join [nl] (B ++ l0 :: mid ++ lc :: after))) ++ post.
Proof.
  intros Hc HB H0 Hm Hlc Ha1. rewrite split_closed by assumption. cbn [fst].
  assert (J : forall a b, b <> [] -> join [nl] (a ++ b) =
            match a with [] => join [nl] b | _ => join [nl] a ++ [nl] ++ join [nl] b end).
  { induction a as [|x a IH]; intros b Hb; [reflexivity|].
    destruct a as [|y a].
    - cbn [app]. destruct b; [congruence|reflexivity].
    - change ((x :: y :: a) ++ b) with (x :: (y :: a) ++ b).
      change (join [nl] (x :: (y :: a) ++ b)) with (x ++ [nl] ++ join [nl] ((y :: a) ++ b)).
      rewrite IH by assumption. cbn [join]. now rewrite <- !app_assoc. }
  replace (B ++ l0 :: mid ++ lc :: after) with (B ++ (l0 :: mid ++ [lc]) ++ after)
    by (cbn; now rewrite <- app_assoc).
  exists (match B with [] => [] | _ => join [nl] B ++ [nl] end), (join [nl] after).
  rewrite J by (destruct mid; discriminate).
  rewrite (J (l0 :: mid ++ [lc]) after) by assumption.
  destruct B; cbn [app]; rewrite <- ?app_assoc; reflexivity.
Qed.

(* ---- C07.2 independence, for every parser/renderer (BODY abstract) ---- *)
Lemma join_snoc_empty ls : ls <> [] -> join [nl] (ls ++ [[]]) = join [nl] ls ++ [nl].
Proof.
  induction ls as [|l ls IH]; [congruence|]. intros _.
  destruct ls as [|l2 ls]; [cbn; reflexivity|].
  change ((l :: l2 :: ls) ++ [[]]) with (l :: (l2 :: ls) ++ [[]]).
  change (join [nl] (l :: (l2 :: ls) ++ [[]])) with (l ++ [nl] ++ join [nl] ((l2 :: ls) ++ [[]])).
  rewrite IH by discriminate. cbn [join]. now rewrite <- !app_assoc.
Qed.

Lemma clean_nil : clean_line []. Proof. reflexivity. Qed.

Lemma count_delims_closed l0 mid lc :
  Forall clean_line (l0 :: mid ++ [lc]) -> is_delim l0 = true -> is_delim lc = true ->
  Nat.ltb (count_delims (join [nl] (l0 :: mid ++ [lc]) ++ [nl])) 2 = false.
Proof.
  intros Hc H0 Hlc. unfold count_delims.
  rewrite <- join_snoc_empty by discriminate.
  rewrite split_on_join; [|discriminate|].
  2:{ apply Forall_app. split; [assumption|constructor; [apply clean_nil|constructor]]. }
  cbn [app filter]. rewrite H0. rewrite <- app_assoc, filter_app. cbn [app filter]. rewrite Hlc.
  cbn [length]. rewrite app_length. cbn [length]. apply Nat.ltb_ge. lia.
Qed.

Theorem fill_closed O (BODY : O -> str -> str) o B l0 mid lc after :
  Forall clean_line (B ++ l0 :: mid ++ lc :: after) ->
  Forall blank_line B -> is_delim l0 = true ->
  Forall (fun l => is_delim l = false) mid -> is_delim lc = true ->
  fill_markdown_fm O BODY o (join [nl] (B ++ l0 :: mid ++ lc :: after)) =
  (join [nl] (l0 :: mid ++ [lc]) ++ [nl]) ++ BODY o (join [nl] (drop_last_empty after)).
Proof.
  intros Hc HB H0 Hm Hlc. unfold fill_markdown_fm. rewrite split_closed by assumption.
  assert (Hc' : Forall clean_line (l0 :: mid ++ [lc])).
  { apply Forall_app in Hc as [_ Hc]. inversion Hc as [|? ? C0 Hc2]; subst.
    apply Forall_app in Hc2 as [Cm Hc3]. inversion Hc3; subst.
    constructor; [assumption|]. apply Forall_app. split; [assumption|]. constructor; [assumption|constructor]. }
  rewrite (count_delims_closed l0 mid lc Hc' H0 Hlc), andb_false_r.
  destruct (join [nl] (l0 :: mid ++ [lc]) ++ [nl]) eqn:E; [|reflexivity].
  destruct (join [nl] (l0 :: mid ++ [lc])); discriminate.
Qed.

(* the frontmatter part never depends on the options *)
Theorem fm_no_options O (BODY : O -> str -> str) text :
  exists F, (forall o, fill_markdown_fm O BODY o text = F) \/
            (exists Bd, forall o, fill_markdown_fm O BODY o text = F ++ BODY o Bd).
Proof.
  unfold fill_markdown_fm. destruct (split_frontmatter text) as [fm content].
  destruct fm as [|c fm]; [exists []; right; exists text; reflexivity|].
  destruct (is_nil content && Nat.ltb (count_delims (c :: fm)) 2).
  - eexists. left. reflexivity.
  - exists (c :: fm). right. exists content. reflexivity.
Qed.

(* no frontmatter: the text is handed to BODY untouched *)
Theorem fill_no_frontmatter O (BODY : O -> str -> str) o text :
  fst (split_frontmatter text) = [] -> fill_markdown_fm O BODY o text = BODY o text.
Proof.
  unfold fill_markdown_fm. destruct (split_frontmatter text) as [fm content]. cbn. now intros ->.
Qed.

(* ---- C07.3 unclosed frontmatter ---- *)
Lemma dle_all_nondelim rest : Forall (fun l => is_delim l = false) rest ->
  Forall (fun l => is_delim l = false) (drop_last_empty rest).
Proof.
  induction 1 as [|l r Hl Hr IH]; [constructor|].
  destruct r as [|l2 r]; [cbn; destruct l; constructor; auto|].
  rewrite dle_cons by discriminate. constructor; assumption.
Qed.

Theorem split_unclosed B l0 rest :
  Forall clean_line (B ++ l0 :: rest) -> Forall blank_line B -> is_delim l0 = true ->
  Forall (fun l => is_delim l = false) rest ->
  split_frontmatter (join [nl] (B ++ l0 :: rest)) = (join [nl] (B ++ l0 :: rest), []).
Proof.
  intros Hc HB H0 Hr. unfold split_frontmatter. rewrite fm_lines_join by assumption.
  rewrite dle_app by discriminate.
  assert (E : drop_last_empty (l0 :: rest) = l0 :: drop_last_empty rest).
  { destruct rest; [|now rewrite dle_cons by discriminate].
    cbn. pose proof (delim_nonempty _ H0). destruct l0; [congruence|reflexivity]. }
  rewrite E, skip_blank_app by assumption. cbn [skip_blank].
  rewrite (delim_not_blank _ H0), H0, find_close_none by (now apply dle_all_nondelim). reflexivity.
Qed.

Lemma filter_nondelim ls : Forall (fun l => is_delim l = false) ls -> filter is_delim ls = [].
Proof. induction 1 as [|l r Hl _ IH]; [reflexivity|]. cbn. now rewrite Hl. Qed.

Lemma blank_not_delim l : blank_line l -> is_delim l = false.
Proof. unfold blank_line, is_delim. now intros ->. Qed.

Lemma count_delims_unclosed B l0 rest :
  Forall clean_line (B ++ l0 :: rest) -> Forall blank_line B -> is_delim l0 = true ->
  Forall (fun l => is_delim l = false) rest ->
  count_delims (join [nl] (B ++ l0 :: rest)) = 1%nat.
Proof.
  intros Hc HB H0 Hr. unfold count_delims.
  rewrite split_on_join; [|destruct B; discriminate|assumption].
  rewrite filter_app. cbn [filter]. rewrite H0, (filter_nondelim rest Hr).
  rewrite filter_nondelim; [reflexivity|].
  eapply Forall_impl; [|exact HB]. apply blank_not_delim.
Qed.

Definition ensure_nl (s : str) : str := if endswith s [nl] then s else s ++ [nl].

Theorem fill_unclosed O (BODY : O -> str -> str) o B l0 rest :
  Forall clean_line (B ++ l0 :: rest) -> Forall blank_line B -> is_delim l0 = true ->
  Forall (fun l => is_delim l = false) rest ->
  fill_markdown_fm O BODY o (join [nl] (B ++ l0 :: rest)) = ensure_nl (join [nl] (B ++ l0 :: rest)).
Proof.
  intros Hc HB H0 Hr. unfold fill_markdown_fm. rewrite split_unclosed by assumption.
  rewrite count_delims_unclosed by assumption. cbn [is_nil andb Nat.ltb Nat.leb].
  destruct (join [nl] (B ++ l0 :: rest)) eqn:E; [|reflexivity].
  exfalso. destruct B; cbn in E.
  - pose proof (delim_nonempty _ H0). destruct l0; [congruence|]. destruct rest; discriminate.
  - destruct (B ++ l0 :: rest) eqn:F; [destruct B; discriminate|].
    destruct s; [|discriminate]. discriminate.
Qed.

Lemma endswith_snoc s c : endswith (s ++ [c]) [c] = true.
Proof. unfold endswith. rewrite rev_app_distr. cbn [rev app startswith]. rewrite N.eqb_refl. destruct (rev s); reflexivity. Qed.

(* however often it is formatted *)
Theorem fill_unclosed_fixpoint O (BODY : O -> str -> str) o B l0 rest :
  Forall clean_line (B ++ l0 :: rest) -> Forall blank_line B -> is_delim l0 = true ->
  Forall (fun l => is_delim l = false) rest ->
  let x := join [nl] (B ++ l0 :: rest) in
  fill_markdown_fm O BODY o (fill_markdown_fm O BODY o x) = fill_markdown_fm O BODY o x.
Proof.
  intros Hc HB H0 Hr x. subst x.
  pose proof (fill_unclosed O BODY o B l0 rest Hc HB H0 Hr) as F1. rewrite F1.
  unfold ensure_nl. destruct (endswith (join [nl] (B ++ l0 :: rest)) [nl]) eqn:E.
  - rewrite F1. unfold ensure_nl. now rewrite E.
  - assert (J : join [nl] (B ++ l0 :: rest) ++ [nl] = join [nl] (B ++ l0 :: (rest ++ [[]]))).
    { replace (B ++ l0 :: rest ++ [[]]) with ((B ++ l0 :: rest) ++ [[]]) by (now rewrite <- app_assoc).
      now rewrite join_snoc_empty by (destruct B; discriminate). }
    rewrite J. rewrite fill_unclosed.
    + unfold ensure_nl. rewrite <- J. now rewrite endswith_snoc.
    + replace (B ++ l0 :: rest ++ [[]]) with ((B ++ l0 :: rest) ++ [[]]) by (now rewrite <- app_assoc).
      apply Forall_app. split; [assumption|constructor; [apply clean_nil|constructor]].
    + assumption.
    + assumption.
    + apply Forall_app. split; [assumption|]. constructor; [reflexivity|constructor].
Qed.
