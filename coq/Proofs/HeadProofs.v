(* C01 (fix aeff3ee): the head of fill_markdown drops only whitespace-only lines from the start of the text;
   what remains begins at the start of a line of the text, indentation included. *)
From Coq Require Import List NArith Bool Arith Lia.
Import ListNotations.
From Base Require Import PyStr.
From Model Require Import Pipeline.
Local Open Scope N_scope.

(* [dlb s ls]: ls is a suffix of the text that begins at a line start, s the part of it still to be scanned *)
Lemma dlb_split : forall s ls mid, ls = mid ++ s -> forallb is_space mid = true -> ~ In 10 mid ->
  exists pre, ls = pre ++ dlb s ls /\ forallb is_space pre = true /\
              (pre = [] \/ exists p, pre = p ++ [10]).
Proof.
  induction s as [|c r IH]; intros ls mid E Hm Hn.
  - cbn [dlb]. exists []. split; [reflexivity|]. split; [reflexivity|now left].
  - cbn [dlb]. destruct (N.eqb_spec c 10) as [->|Hc].
    + (* a whitespace-only line ends here: it is dropped, scanning goes on from the next line *)
      destruct (IH r [] eq_refl eq_refl (fun H => H)) as [pre [E1 [S1 L1]]].
      exists (mid ++ 10 :: pre). split; [|split].
      * rewrite E. rewrite <- app_assoc. cbn [app]. now rewrite <- E1.
      * rewrite forallb_app. cbn [forallb]. rewrite Hm, S1. reflexivity.
      * right. destruct L1 as [->|[p ->]]; [exists mid; reflexivity|exists (mid ++ 10 :: p); now rewrite <- app_assoc].
    + destruct (is_space c) eqn:Es.
      * assert (E2 : ls = (mid ++ [c]) ++ r) by (rewrite E; now rewrite <- app_assoc).
        assert (S2 : forallb is_space (mid ++ [c]) = true) by (rewrite forallb_app; cbn [forallb]; now rewrite Hm, Es).
        assert (N2 : ~ In 10 (mid ++ [c])).
        { intros Hin. apply in_app_or in Hin as [Hin|[Hin|[]]]; [now apply Hn|congruence]. }
        exact (IH ls (mid ++ [c]) E2 S2 N2).
      * exists []. split; [reflexivity|]. split; [reflexivity|now left].
Qed.

Theorem leading_blank_lines_only s :
  exists pre, s = pre ++ drop_leading_blank_lines s /\ forallb is_space pre = true /\
              (pre = [] \/ exists p, pre = p ++ [10]).
Proof. unfold drop_leading_blank_lines. apply (dlb_split s s []); [reflexivity|reflexivity|intros []]. Qed.

(* the case the repair was made for: the four spaces of an indented code block on the first line stay *)
Example first_line_indentation_kept :
  drop_leading_blank_lines [10; 32; 10; 32; 32; 32; 32; 99; 10; 10; 102] = [32; 32; 32; 32; 99; 10; 10; 102].
Proof. vm_compute. reflexivity. Qed.
