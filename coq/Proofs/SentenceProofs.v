(* C11: sentence splitting and the sentence-per-line loop.  Everything is generic in the
   sentence-end heuristic, the minimum lengths, the width and the per-sentence wrapper. *)
From Coq Require Import List NArith ZArith Bool Lia.
Import ListNotations.
From Base Require Import PyStr.
From Model Require Import Wrap LineWrap.
Local Open Scope Z_scope.

(* ------------------------------------------------------------------------------ *)
(* split_sentences_regex                                                          *)
(* ------------------------------------------------------------------------------ *)
Lemma app_snoc_inv {A} (a b l : list A) (x w : A) :
  l ++ [w] = a ++ x :: b ->
  (exists b', l = a ++ x :: b' /\ b = b' ++ [w]) \/ (l = a /\ x = w /\ b = []).
Proof.
  destruct b as [|y b0 _] using rev_ind; intros H.
  - right. change (a ++ [x]) with (a ++ [x]) in H. apply app_inj_tail in H as [-> ->]. auto.
  - left. replace (a ++ x :: b0 ++ [y]) with ((a ++ x :: b0) ++ [y]) in H
      by (rewrite <- app_assoc; reflexivity).
    apply app_inj_tail in H as [-> ->]. eauto.
Qed.

Section Split.
  Variable heur : str -> bool.
  Variable ml : Z.

  Definition sumlen (l : list str) : Z := fold_right (fun w a => len w + a) 0 l.
  (* length of " ".join(l) for non-empty l *)
  Definition slen (l : list str) : Z := sumlen l + Z.of_nat (length l) - 1.

  Lemma sumlen_app a b : sumlen (a ++ b) = sumlen a + sumlen b.
  Proof. induction a; simpl; lia. Qed.
  Lemma sumlen_rev a : sumlen (rev a) = sumlen a.
  Proof. induction a; simpl; [reflexivity|]. rewrite sumlen_app. simpl. lia. Qed.

  (* partition: the sentences are the words, in order *)
  Lemma ssl_concat ws : forall sr wl,
    concat (split_sentences_loop heur ml ws sr wl) = rev sr ++ ws.
  Proof.
    induction ws as [|w ws IH]; intros sr wl; cbn [split_sentences_loop].
    - destruct sr; [reflexivity|]. cbn. now rewrite app_nil_r.
    - destruct (heur w && (ml <=? _)).
      + cbn [concat]. rewrite IH. cbn. now rewrite <- app_assoc.
      + rewrite IH. cbn. now rewrite <- app_assoc.
  Qed.

  (* a sentence end: the word passes the heuristic and the sentence so far is long enough *)
  Definition is_end (pre : list str) (w : str) : bool :=
    heur w && (ml <=? slen (pre ++ [w])).

  (* every sentence: no word before its last is a sentence end; every sentence except
     possibly the final one ends at a sentence end *)
  Inductive sentence_ok (final : bool) : list str -> Prop :=
  | s_ok pre w :
      (forall a x b, pre = a ++ x :: b -> is_end a x = false) ->
      (final = false -> is_end pre w = true) ->
      sentence_ok final (pre ++ [w]).

  Fixpoint all_ok (L : list (list str)) : Prop :=
    match L with
    | [] => True
    | [s] => sentence_ok true s \/ sentence_ok false s
    | s :: r => sentence_ok false s /\ all_ok r
    end.

  Lemma ssl_ok ws : forall sr wl,
    wl = sumlen sr ->
    (forall a x b, rev sr = a ++ x :: b -> is_end a x = false) ->
    all_ok (split_sentences_loop heur ml ws sr wl).
  Proof.
    induction ws as [|w ws IH]; intros sr wl Hwl Hpre; cbn [split_sentences_loop].
    - destruct sr as [|x sr]; [exact I|]. cbn [all_ok]. left.
      cbn [rev]. constructor.
      + intros a y b E. apply (Hpre a y (b ++ [x])). cbn [rev]. rewrite E. now rewrite <- app_assoc.
      + discriminate.
    - assert (Hlen : wl + len w + Z.of_nat (length (w :: sr)) - 1 = slen (rev sr ++ [w])).
      { unfold slen. rewrite sumlen_app, sumlen_rev, app_length, rev_length. cbn. lia. }
      rewrite Hlen.
      destruct (heur w && (ml <=? slen (rev sr ++ [w]))) eqn:E.
      + assert (S : sentence_ok false (rev (w :: sr))).
        { cbn [rev]. constructor; [exact Hpre|]. intros _. exact E. }
        specialize (IH [] 0 eq_refl).
        assert (IH' : all_ok (split_sentences_loop heur ml ws [] 0)).
        { apply IH. intros a x b F. destruct a; discriminate. }
        destruct (split_sentences_loop heur ml ws [] 0) as [|s2 r2] eqn:R.
        * cbn [all_ok]. now right.
        * cbn [all_ok]. split; assumption.
      + apply IH.
        * subst wl. unfold sumlen. cbn [fold_right]. lia.
        * intros a x b F. cbn [rev] in F.
          destruct (app_snoc_inv a b (rev sr) x w F) as [[b' [E1 E2]]|[E1 [E2 E3]]].
          -- apply (Hpre a x b'). exact E1.
          -- subst a x. exact E.
  Qed.
End Split.

(* ------------------------------------------------------------------------------ *)
(* line_wrap_by_sentence: the loop over sentences                                 *)
(* ------------------------------------------------------------------------------ *)
Section Loop.
  Variable wrapf : str -> Z -> M (list str).
  Variables (width mll i1len i2len : Z).

  Notation step := (sentence_step wrapf width mll i1len i2len).
  Notation loop := (sentence_loop wrapf width mll i1len i2len).

  (* the state-returning fold *)
  Fixpoint sl_fold (ss : list str) (lr : list str) (first : bool) : M (list str * bool) :=
    match ss with
    | [] => ret (lr, first)
    | s :: r => lr' <- step s lr first ;; sl_fold r lr' false
    end.

  Lemma loop_fold ss : forall lr f,
    loop ss lr f = (x <- sl_fold ss lr f ;; ret (rev (fst x))).
  Proof.
    induction ss as [|s r IH]; intros lr f; cbn [sentence_loop sl_fold]; [reflexivity|].
    unfold bind at 1 3. destruct (step s lr f); [apply IH|reflexivity].
  Qed.

  Lemma fold_app P Q : forall lr f,
    sl_fold (P ++ Q) lr f =
    (x <- sl_fold P lr f ;; sl_fold Q (fst x) (match P with [] => snd x | _ => false end)).
  Proof.
    induction P as [|s r IH]; intros lr f; cbn [app sl_fold]; [reflexivity|].
    unfold bind at 1 3. destruct (step s lr f) as [lr'|e]; [|reflexivity].
    rewrite IH. destruct r as [|s2 r2]; [reflexivity|].
    unfold bind. destruct (sl_fold (s2 :: r2) lr' false) as [[a b]|]; reflexivity.
  Qed.

  Lemma fold_first_false P : P <> [] -> forall lr f x, sl_fold P lr f = inl x -> snd x = false.
  Proof.
    induction P as [|s r IH]; intros Hne lr f x H; [congruence|].
    cbn [sl_fold] in H. unfold bind in H. destruct (step s lr f) as [lr'|]; [|discriminate].
    destruct r as [|s2 r]; [cbn in H; injection H as <-; reflexivity|].
    eapply IH; [discriminate|exact H].
  Qed.

  (* one step only touches the last line: everything before it stays *)
  Definition suffix {A} (a b : list A) : Prop := exists X, b = X ++ a.

  Lemma step_tail s lr f lr' : step s lr f = inl lr' -> suffix (tl lr) (tl lr') /\ (lr' = [] -> lr = []).
  Proof.
    unfold sentence_step, bind. destruct (wrapf s _) as [wrapped|]; [|discriminate].
    intros H. injection H as <-.
    destruct lr as [|last lr0].
    - split; [exists (tl (rev wrapped ++ [])); symmetry; apply app_nil_r|auto].
    - destruct wrapped as [|w0 wr].
      + cbn. split; [exists []; reflexivity|discriminate].
      + destruct ((len last <? mll) && (len last + 1 + len w0 <=? width)).
        * split.
          -- cbn [tl]. destruct (rev wr) as [|a X]; [exists []; reflexivity|].
             cbn. exists (X ++ [last ++ [sp] ++ w0]). now rewrite <- app_assoc.
          -- destruct (rev wr); discriminate.
        * split.
          -- cbn [tl rev]. destruct (rev wr ++ [w0]) as [|a X] eqn:E.
             ++ destruct (rev wr); discriminate.
             ++ cbn. exists (X ++ [last]). now rewrite <- app_assoc.
          -- cbn [rev]. destruct (rev wr); discriminate.
  Qed.

  Lemma suffix_trans {A} (a b c : list A) : suffix a b -> suffix b c -> suffix a c.
  Proof. intros [X ->] [Y ->]. exists (Y ++ X). now rewrite app_assoc. Qed.

  Lemma fold_tail ss : forall lr f x, sl_fold ss lr f = inl x -> suffix (tl lr) (tl (fst x)).
  Proof.
    induction ss as [|s r IH]; intros lr f x H; cbn [sl_fold] in H.
    - injection H as <-. exists []. reflexivity.
    - unfold bind in H. destruct (step s lr f) as [lr'|] eqn:E; [|discriminate].
      apply step_tail in E as [E _]. eapply suffix_trans; [exact E|]. eapply IH. exact H.
  Qed.

  Lemma rev_tl_removelast {A} (l : list A) : rev (tl l) = removelast (rev l).
  Proof.
    destruct l as [|a l]; [reflexivity|]. cbn [tl rev].
    now rewrite removelast_last.
  Qed.

  Definition prefix {A} (a b : list A) : Prop := exists X, b = a ++ X.

  (* C11.3 prefix stability: appending sentences can only change the last line *)
  Theorem prefix_stable P Q LP L :
    loop P [] true = inl LP -> loop (P ++ Q) [] true = inl L ->
    prefix (removelast LP) L.
  Proof.
    rewrite !loop_fold, fold_app. unfold bind.
    destruct (sl_fold P [] true) as [[lrP fP]|] eqn:EP; [|discriminate].
    intros H; injection H as <-. cbn [fst snd].
    destruct (sl_fold Q lrP _) as [[lrQ fQ]|] eqn:EQ; [|discriminate].
    intros H; injection H as <-. cbn [fst].
    apply fold_tail in EQ. cbn [fst] in EQ. destruct EQ as [X EX].
    rewrite <- rev_tl_removelast.
    destruct lrQ as [|a lrQ']; cbn [tl] in EX.
    - destruct X; [|discriminate]. cbn in EX. rewrite <- EX. exists []. cbn. reflexivity.
    - exists (rev X ++ [a]). cbn [rev]. rewrite EX, rev_app_distr. now rewrite <- app_assoc.
  Qed.

  (* C11.4 resynchronisation: once the last line has reached the minimum length, what
     follows is laid out independently of everything before *)
  Lemma step_resync s X l rest0 : mll <= len l ->
    step s (X ++ l :: rest0) false =
    (x <- step s X false ;; ret (x ++ l :: rest0)).
  Proof.
    intros Hl. unfold sentence_step, bind.
    destruct X as [|x X'].
    - cbn [app]. assert (E : (len l <? mll) = false) by (apply Z.ltb_ge; lia). rewrite E.
      destruct (wrapf s i2len) as [wrapped|]; [|reflexivity].
      cbn [andb]. destruct wrapped; cbn; rewrite ?app_nil_r; try reflexivity;
        now rewrite <- ?app_assoc.
    - cbn [app]. destruct (wrapf s _) as [wrapped|]; [|reflexivity].
      destruct wrapped as [|w0 wr]; [reflexivity|].
      destruct ((len x <? mll) && (len x + 1 + len w0 <=? width)); cbn [ret];
        now rewrite <- ?app_assoc.
  Qed.

  Lemma fold_resync Q : forall X l rest0, mll <= len l ->
    sl_fold Q (X ++ l :: rest0) false =
    (x <- sl_fold Q X false ;; ret (fst x ++ l :: rest0, snd x)).
  Proof.
    induction Q as [|s r IH]; intros X l rest0 Hl; cbn [sl_fold]; [reflexivity|].
    rewrite step_resync by assumption. unfold bind at 1 2 4.
    destruct (step s X false) as [X'|]; [|reflexivity]. cbn [ret]. now apply IH.
  Qed.

  Theorem resync P Q LP : P <> [] ->
    loop P [] true = inl LP -> mll <= len (last LP []) -> LP <> [] ->
    loop (P ++ Q) [] true = (LQ <- loop Q [] false ;; ret (LP ++ LQ)).
  Proof.
    intros Hne HP Hlast HLP. rewrite !loop_fold, fold_app in *. unfold bind in *.
    destruct (sl_fold P [] true) as [[lrP fP]|] eqn:EP; [|discriminate].
    injection HP as <-. cbn [fst snd] in *.
    pose proof (fold_first_false P Hne _ _ _ EP) as F. cbn in F. subst fP.
    replace (match P with [] => false | _ => false end) with false by (destruct P; reflexivity).
    destruct lrP as [|l rest0]; [cbn in HLP; congruence|].
    assert (Hl : mll <= len l).
    { cbn [rev] in Hlast. now rewrite last_last in Hlast. }
    pose proof (fold_resync Q [] l rest0 Hl) as R. cbn [app] in R. rewrite R. unfold bind.
    destruct (sl_fold Q [] false) as [[lrQ fQ]|]; [|reflexivity].
    cbn [fst ret]. now rewrite rev_app_distr.
  Qed.

  (* C11.2 provenance of lines: every output line is a wrapped line of one sentence,
     possibly prefixed by merged lines each of which was shorter than the minimum
     length at the time of the merge (so: a sentence end is followed by a line break
     unless the line so far is shorter than the minimum). *)
  Inductive line_from (ss : list str) : str -> Prop :=
  | lf_w s col ws w : In s ss -> wrapf s col = inl ws -> In w ws -> line_from ss w
  | lf_merge l s col w0 wr :
      line_from ss l -> len l < mll -> In s ss -> wrapf s col = inl (w0 :: wr) ->
      len l + 1 + len w0 <= width ->
      line_from ss (l ++ [sp] ++ w0).

  Lemma line_from_mono ss ss' l : (forall s, In s ss -> In s ss') -> line_from ss l -> line_from ss' l.
  Proof.
    intros Hi H. induction H.
    - eapply lf_w; eauto.
    - eapply lf_merge; eauto.
  Qed.

  Lemma step_lines ss s lr f lr' : In s ss -> Forall (line_from ss) lr ->
    step s lr f = inl lr' -> Forall (line_from ss) lr'.
  Proof.
    intros Hs Hlr. unfold sentence_step, bind.
    destruct (wrapf s _) as [wrapped|] eqn:W; [|discriminate].
    intros H. injection H as <-.
    assert (HW : Forall (line_from ss) (rev wrapped)).
    { apply Forall_rev. apply Forall_forall. intros w Hw. eapply lf_w; eauto. }
    destruct lr as [|last lr0]; [apply Forall_app; split; assumption|].
    destruct wrapped as [|w0 wr]; [apply Forall_app; split; assumption|].
    destruct ((len last <? mll) && (len last + 1 + len w0 <=? width)) eqn:E.
    - apply andb_true_iff in E as [E1 E2]. apply Z.ltb_lt in E1. apply Z.leb_le in E2.
      inversion Hlr; subst. apply Forall_app. split.
      + cbn [rev] in HW. apply Forall_app in HW. tauto.
      + constructor; [|assumption]. eapply lf_merge; eauto.
    - apply Forall_app; split; assumption.
  Qed.

  Lemma fold_lines ss0 ss : forall lr f x, (forall s, In s ss -> In s ss0) ->
    Forall (line_from ss0) lr -> sl_fold ss lr f = inl x -> Forall (line_from ss0) (fst x).
  Proof.
    induction ss as [|s r IH]; intros lr f x Hin Hlr H; cbn [sl_fold] in H.
    - injection H as <-. exact Hlr.
    - unfold bind in H. destruct (step s lr f) as [lr'|] eqn:E; [|discriminate].
      eapply IH; [| |exact H].
      + intros s0 H0. apply Hin. now right.
      + eapply step_lines; [|exact Hlr|exact E]. apply Hin. now left.
  Qed.

  Theorem lines_provenance ss L : loop ss [] true = inl L -> Forall (line_from ss) L.
  Proof.
    rewrite loop_fold. unfold bind. destruct (sl_fold ss [] true) as [[lr f]|] eqn:E; [|discriminate].
    intros H; injection H as <-. apply Forall_rev. cbn [fst].
    eapply (fold_lines ss ss) in E; [exact E|auto|constructor].
  Qed.
End Loop.

Theorem edit_locality wrapf width mll i1len i2len A X X' B LA L L' :
  sentence_loop wrapf width mll i1len i2len A [] true = inl LA ->
  sentence_loop wrapf width mll i1len i2len (A ++ X ++ B) [] true = inl L ->
  sentence_loop wrapf width mll i1len i2len (A ++ X' ++ B) [] true = inl L' ->
  prefix (removelast LA) L /\ prefix (removelast LA) L' /\
  (forall LX LX',
     A ++ X <> [] -> A ++ X' <> [] ->
     sentence_loop wrapf width mll i1len i2len (A ++ X) [] true = inl LX ->
     sentence_loop wrapf width mll i1len i2len (A ++ X') [] true = inl LX' ->
     mll <= len (last LX []) -> mll <= len (last LX' []) -> LX <> [] -> LX' <> [] ->
     exists LB, L = LX ++ LB /\ L' = LX' ++ LB).
Proof.
  intros HA HL HL'. split; [|split].
  - eapply prefix_stable; eassumption.
  - eapply prefix_stable; eassumption.
  - intros LX LX' N N' HX HX' M M' E E'.
    rewrite app_assoc in HL, HL'.
    rewrite (resync _ _ _ _ _ _ B LX N HX M E) in HL.
    rewrite (resync _ _ _ _ _ _ B LX' N' HX' M' E') in HL'.
    unfold bind in *.
    destruct (sentence_loop wrapf width mll i1len i2len B [] false) as [LB|]; [|discriminate].
    injection HL as <-. injection HL' as <-. exists LB. auto.
Qed.
