(* Lemmas about the Python string model. *)
From Coq Require Import List NArith ZArith Bool Lia.
Import ListNotations.
From Base Require Import PyStr.

(* ---- boolean equality ---- *)
Lemma str_eqb_refl s : str_eqb s s = true.
Proof. induction s as [|c s IH]; simpl; [reflexivity|]. now rewrite N.eqb_refl, IH. Qed.

Lemma str_eqb_eq a b : str_eqb a b = true -> a = b.
Proof.
  revert b; induction a as [|x a IH]; intros [|y b] H; simpl in H; try discriminate; auto.
  apply andb_true_iff in H as [H1 H2]. apply N.eqb_eq in H1. f_equal; auto.
Qed.

Lemma strs_eqb_refl l : strs_eqb l l = true.
Proof. induction l as [|c s IH]; simpl; [reflexivity|]. now rewrite str_eqb_refl, IH. Qed.

Lemma strs_eqb_of_eq a b : a = b -> strs_eqb a b = true.
Proof. intros ->. apply strs_eqb_refl. Qed.

Lemma strs_eqb_eq a b : strs_eqb a b = true -> a = b.
Proof.
  revert b; induction a as [|x a IH]; intros [|y b] H; simpl in H; try discriminate; auto.
  apply andb_true_iff in H as [H1 H2]. apply str_eqb_eq in H1. f_equal; auto.
Qed.

(* ---- table facts (checked by computation against the generated table) ---- *)
Lemma space_is_space : is_space sp = true.  Proof. vm_compute. reflexivity. Qed.
Lemma nl_is_space : is_space nl = true.     Proof. vm_compute. reflexivity. Qed.
Lemma bsl_not_space : is_space bsl = false. Proof. vm_compute. reflexivity. Qed.
Lemma nul_not_space : is_space 0%N = false. Proof. vm_compute. reflexivity. Qed.

(* ---- words ---- *)
Definition nows (w : str) : Prop := forallb (fun c => negb (is_space c)) w = true.
Definition goodword (w : str) : Prop := w <> [] /\ nows w.

Lemma nows_nil : nows []. Proof. reflexivity. Qed.
Lemma nows_cons c w : nows (c :: w) <-> is_space c = false /\ nows w.
Proof.
  unfold nows; simpl. rewrite andb_true_iff, negb_true_iff. tauto.
Qed.
Lemma nows_app a b : nows (a ++ b) <-> nows a /\ nows b.
Proof. unfold nows. rewrite forallb_app, andb_true_iff. tauto. Qed.
Lemma nows_rev a : nows (rev a) <-> nows a.
Proof.
  induction a as [|c a IH]; simpl; [tauto|].
  rewrite nows_app, !nows_cons, IH. pose proof nows_nil. tauto.
Qed.

Lemma split_ws_aux_good s : forall cur, nows cur ->
  Forall goodword (split_ws_aux s cur).
Proof.
  induction s as [|c s IH]; intros cur Hc; simpl.
  - destruct cur as [|x cur]; constructor; [|constructor].
    split; [|now apply nows_rev].
    intro E. apply (f_equal (@length _)) in E. rewrite rev_length in E. discriminate.
  - destruct (is_space c) eqn:Ec.
    + destruct cur as [|x cur]; [apply IH, nows_nil|].
      constructor; [|apply IH, nows_nil].
      split; [|now apply nows_rev].
      intro E. apply (f_equal (@length _)) in E. rewrite rev_length in E. discriminate.
    + apply IH. apply nows_cons; auto.
Qed.

Lemma split_ws_good s : Forall goodword (split_ws s).
Proof. apply split_ws_aux_good, nows_nil. Qed.

Lemma split_ws_aux_word w : nows w -> forall s cur,
  split_ws_aux (w ++ s) cur = split_ws_aux s (rev w ++ cur).
Proof.
  induction w as [|c w IH]; intros Hw s cur; simpl; [reflexivity|].
  apply nows_cons in Hw as [Hc Hw]. rewrite Hc, IH by assumption.
  now rewrite <- app_assoc.
Qed.

Lemma split_ws_aux_join l : Forall goodword l -> forall cur, nows cur ->
  split_ws_aux (join [sp] l) cur =
  match l with
  | [] => match cur with [] => [] | _ => [rev cur] end
  | w :: l' => (rev cur ++ w) :: l'
  end.
Proof.
  induction l as [|w l IH]; intros Hl cur Hc; [reflexivity|].
  inversion Hl as [|? ? [Hne Hw] Hl']; subst.
  destruct l as [|w2 l].
  - simpl. rewrite <- (app_nil_r w) at 1. rewrite split_ws_aux_word by assumption. simpl.
    destruct (rev w ++ cur) eqn:E.
    + destruct w; [congruence|]. simpl in E. destruct (rev w); discriminate.
    + rewrite <- E, rev_app_distr, rev_involutive. reflexivity.
  - change (join [sp] (w :: w2 :: l)) with (w ++ [sp] ++ join [sp] (w2 :: l)).
    rewrite split_ws_aux_word by assumption. cbn [split_ws_aux app]. rewrite space_is_space.
    destruct (rev w ++ cur) eqn:E.
    + destruct w; [congruence|]. simpl in E. destruct (rev w); discriminate.
    + rewrite <- E, rev_app_distr, rev_involutive.
      rewrite (IH Hl' [] nows_nil). reflexivity.
Qed.

Lemma split_ws_join l : Forall goodword l -> split_ws (join [sp] l) = l.
Proof.
  intros H. unfold split_ws. rewrite (split_ws_aux_join l H [] nows_nil).
  destruct l; reflexivity.
Qed.

(* collapse_ws does not change the words *)
Lemma split_ws_collapse_aux s : forall b cur, (b = true -> cur = []) ->
  split_ws_aux (collapse_ws_aux s b) cur = split_ws_aux s cur.
Proof.
  induction s as [|c s IH]; intros b cur Hb; simpl; [reflexivity|].
  destruct (is_space c) eqn:Ec.
  - destruct b.
    + rewrite (Hb eq_refl). apply IH; auto.
    + cbn [split_ws_aux]. rewrite space_is_space. destruct cur; [apply IH; auto|].
      f_equal. apply IH; auto.
  - simpl. rewrite Ec. apply IH. discriminate.
Qed.

Lemma split_ws_collapse s : split_ws (collapse_ws s) = split_ws s.
Proof. apply split_ws_collapse_aux. discriminate. Qed.

(* strip does not change the words *)
Lemma split_ws_aux_allspace t : all_space t = true -> forall cur,
  split_ws_aux t cur = split_ws_aux [] cur.
Proof.
  induction t as [|c t IH]; intros H cur; [reflexivity|].
  simpl in H. apply andb_true_iff in H as [Hc Ht]. simpl. rewrite Hc.
  destruct cur; rewrite (IH Ht); reflexivity.
Qed.

Lemma split_ws_aux_app_allspace a t : all_space t = true -> forall cur,
  split_ws_aux (a ++ t) cur = split_ws_aux a cur.
Proof.
  intros Ht. induction a as [|c a IH]; intros cur; simpl.
  - now apply split_ws_aux_allspace.
  - destruct (is_space c); [destruct cur|]; now rewrite ?IH.
Qed.

Lemma lstrip_decomp s : exists t, all_space t = true /\ s = t ++ lstrip s.
Proof.
  induction s as [|c s [t [Ht E]]]; [exists []; auto|]. simpl.
  destruct (is_space c) eqn:Ec.
  - exists (c :: t). simpl. rewrite Ec, Ht. split; [reflexivity|]. now f_equal.
  - exists []. auto.
Qed.

Lemma all_space_rev t : all_space (rev t) = all_space t.
Proof.
  unfold all_space. induction t as [|c t IH]; [reflexivity|]. simpl.
  rewrite forallb_app, IH. simpl. now rewrite andb_true_r, andb_comm.
Qed.

Lemma rstrip_decomp s : exists t, all_space t = true /\ s = rstrip s ++ t.
Proof.
  unfold rstrip. destruct (lstrip_decomp (rev s)) as [t [Ht E]].
  exists (rev t). rewrite all_space_rev. split; [assumption|].
  rewrite <- rev_app_distr, <- E, rev_involutive. reflexivity.
Qed.

Lemma split_ws_lstrip s : split_ws (lstrip s) = split_ws s.
Proof.
  unfold split_ws. induction s as [|c s IH]; [reflexivity|]. simpl.
  destruct (is_space c) eqn:Ec; [auto | simpl; now rewrite Ec].
Qed.

Lemma split_ws_rstrip s : split_ws (rstrip s) = split_ws s.
Proof.
  destruct (rstrip_decomp s) as [t [Ht E]]. unfold split_ws.
  rewrite E at 2. now rewrite split_ws_aux_app_allspace.
Qed.

Lemma split_ws_strip s : split_ws (strip s) = split_ws s.
Proof. unfold strip. now rewrite split_ws_rstrip, split_ws_lstrip. Qed.

(* a joined line of good words has nothing to strip *)
Lemma lstrip_nonspace c s : is_space c = false -> lstrip (c :: s) = c :: s.
Proof. intros H. simpl. now rewrite H. Qed.

Lemma goodword_head w : goodword w -> exists c t, w = c :: t /\ is_space c = false.
Proof.
  intros [Hne Hw]. destruct w as [|c t]; [congruence|].
  apply nows_cons in Hw as [Hc _]. eauto.
Qed.

Lemma goodword_last w : goodword w -> exists c t, rev w = c :: t /\ is_space c = false.
Proof.
  intros [Hne Hw]. apply nows_rev in Hw.
  destruct (rev w) as [|c t] eqn:E.
  - apply (f_equal (@rev _)) in E. rewrite rev_involutive in E. simpl in E. congruence.
  - apply nows_cons in Hw as [Hc _]. eauto.
Qed.

Lemma join_cons_head w l : exists r, join [sp] (w :: l) = w ++ r.
Proof. destruct l; simpl; [exists []; now rewrite app_nil_r | eauto]. Qed.

Lemma join_last l : l <> [] -> exists r, join [sp] l = r ++ last l [].
Proof.
  induction l as [|w l IH]; [congruence|]. intros _.
  destruct l as [|w2 l]; [exists []; reflexivity|].
  destruct IH as [r Hr]; [discriminate|].
  exists (w ++ [sp] ++ r). change (join [sp] (w :: w2 :: l)) with (w ++ [sp] ++ join [sp] (w2 :: l)).
  rewrite Hr. change (last (w :: w2 :: l) []) with (last (w2 :: l) []).
  now rewrite <- !app_assoc.
Qed.

Lemma strip_join l : l <> [] -> Forall goodword l -> strip (join [sp] l) = join [sp] l.
Proof.
  intros Hne Hl. unfold strip.
  assert (L : lstrip (join [sp] l) = join [sp] l).
  { destruct l as [|w l]; [congruence|]. inversion Hl; subst.
    destruct (goodword_head w) as [c [t [E Hc]]]; [assumption|].
    destruct (join_cons_head w l) as [r Hr]. rewrite Hr, E. simpl. now rewrite Hc. }
  rewrite L. unfold rstrip.
  destruct (join_last l Hne) as [r Hr].
  assert (G : goodword (last l [])).
  { clear - Hne Hl. induction l as [|w l IH]; [congruence|]. inversion Hl; subst.
    destruct l; [assumption|]. apply IH; [discriminate|assumption]. }
  destruct (goodword_last _ G) as [c [t [E Hc]]].
  rewrite Hr, rev_app_distr, E. cbn [app lstrip]. rewrite Hc.
  change (c :: t ++ rev r) with ((c :: t) ++ rev r).
  rewrite <- E, <- rev_app_distr, rev_involutive. reflexivity.
Qed.

(* blank strings *)
Lemma split_ws_aux_nonnil s : forall cur, cur <> [] -> split_ws_aux s cur <> [].
Proof.
  induction s as [|a s IH]; intros cur Hc; cbn.
  - destruct cur; [congruence|discriminate].
  - destruct (is_space a); [destruct cur; [congruence|discriminate]|]. apply IH. discriminate.
Qed.

Lemma split_ws_nil_iff s : split_ws s = [] <-> all_space s = true.
Proof.
  unfold split_ws. induction s as [|c s IH]; [cbn; tauto|].
  cbn. destruct (is_space c); cbn; [exact IH|].
  split; [|discriminate]. intros F. exfalso. revert F. apply split_ws_aux_nonnil. discriminate.
Qed.

Lemma lstrip_nil_iff s : lstrip s = [] <-> all_space s = true.
Proof.
  induction s as [|c s IH]; [cbn; tauto|]. cbn. destruct (is_space c); cbn; [exact IH|].
  split; discriminate.
Qed.

Lemma all_space_app a b : all_space (a ++ b) = all_space a && all_space b.
Proof. unfold all_space. apply forallb_app. Qed.

Lemma all_space_lstrip s : all_space (lstrip s) = all_space s.
Proof.
  destruct (lstrip_decomp s) as [t [Ht E]]. rewrite E at 2.
  now rewrite all_space_app, Ht.
Qed.

Lemma strip_nil_iff s : strip s = [] <-> all_space s = true.
Proof.
  unfold strip, rstrip. rewrite <- all_space_lstrip, <- (all_space_rev (lstrip s)), <- lstrip_nil_iff.
  split; intros H.
  - apply (f_equal (@rev _)) in H. now rewrite rev_involutive in H.
  - now rewrite H.
Qed.
