(* C02 in Markdown mode: wrapping the wrapped lines again gives the same lines, with the escapes the first
   pass put at line heads in place.  The first pass escapes the head of every later line and measures the
   line with the escaped word; the second pass meets the same words (escaped where they were escaped),
   makes the same decisions, and escaping an escaped word changes nothing.  For every word list, width and
   pair of columns, for any escape function that is idempotent and never shortens a word - and
   markdown_escape_word is such a function. *)
From Coq Require Import List NArith ZArith Bool Lia.
Import ListNotations.
From Base Require Import PyStr.
From Model Require Import Wrap.
From Proofs Require Import PyStrFacts WrapProofs NormProofs CanonProofs EscapeProofs.
Local Open Scope Z_scope.

Section FillIdem.
  Variable esc : word -> word.
  Variables (width c1 : Z) (md : bool).
  Variable P : word -> Prop.          (* the words the statement is about (words without whitespace) *)
  Hypothesis esc_idem : forall w, P w -> esc (esc w) = esc w.
  Hypothesis esc_len : forall w, P w -> wlen w <= wlen (esc w).

  Lemma fill_prefix : forall ws cur col first, exists X, concat (fill esc width c1 md ws cur col first) = cur ++ X.
  Proof.
    induction ws as [|w ws IH]; intros cur col first; cbn [fill].
    - destruct cur; [exists []; reflexivity|]. exists []. cbn. now rewrite !app_nil_r.
    - destruct (col + wlen w + _ <=? width).
      + destruct (IH (cur ++ [w]) (col + wlen w + match cur with [] => 0 | _ => 1 end) first) as [X HX].
        exists (w :: X). rewrite HX. now rewrite <- app_assoc.
      + destruct cur as [|c0 cr].
        * exists (concat (fill esc width c1 md ws [if md && negb first then esc w else w] (c1 + wlen (if md && negb first then esc w else w)) first)). reflexivity.
        * eexists. cbn [concat]. reflexivity.
  Qed.

  (* running the loop again over what it produced (minus the words already on the current line) reproduces it *)
  Lemma fill_idem : forall ws cur col first, Forall P ws ->
    fill esc width c1 md (skipn (length cur) (concat (fill esc width c1 md ws cur col first))) cur col first
    = fill esc width c1 md ws cur col first.
  Proof.
    induction ws as [|w ws IH]; intros cur col first HP.
    - cbn [fill]. destruct cur as [|c0 cr]; [reflexivity|]. cbn [concat]. rewrite app_nil_r.
      rewrite skipn_all. reflexivity.
    - inversion HP as [|? ? Pw Pws]; subst. cbn [fill]. set (sw := match cur with [] => 0 | _ => 1 end).
      destruct (col + wlen w + sw <=? width) eqn:Efit.
      + (* the word fits: it is on the same line in the output *)
        specialize (IH (cur ++ [w]) (col + wlen w + sw) first Pws).
        destruct (fill_prefix ws (cur ++ [w]) (col + wlen w + sw) first) as [X HX].
        rewrite HX in IH |- *. rewrite <- app_assoc. rewrite skipn_len_app. cbn [app fill]. fold sw. rewrite Efit.
        rewrite app_length in IH. cbn [length] in IH.
        assert (EX : skipn (length cur + 1) ((cur ++ [w]) ++ X) = X).
        { replace (length cur + 1)%nat with (length (cur ++ [w])) by (rewrite app_length; reflexivity). apply skipn_len_app. }
        rewrite EX in IH. exact IH.
      + destruct cur as [|c0 cr].
        * (* an over-long word alone on its line *)
          set (ew := if md && negb first then esc w else w).
          specialize (IH [ew] (c1 + wlen ew) first Pws).
          destruct (fill_prefix ws [ew] (c1 + wlen ew) first) as [X HX].
          rewrite HX in IH |- *. cbn [length skipn app] in IH |- *. cbn [fill].
          assert (Hge : wlen w <= wlen ew) by (unfold ew; destruct (md && negb first); [now apply esc_len|lia]).
          unfold sw in Efit. apply Z.leb_gt in Efit.
          replace (col + wlen ew + 0 <=? width) with false by (symmetry; apply Z.leb_gt; lia).
          assert (Eew : (if md && negb first then esc ew else ew) = ew).
          { unfold ew. destruct (md && negb first); [now apply esc_idem|reflexivity]. }
          rewrite Eew. exact IH.
        * (* the line is closed; the word heads the next one, escaped in Markdown mode *)
          set (ew := if md then esc w else w).
          specialize (IH [ew] (c1 + wlen ew) false Pws).
          destruct (fill_prefix ws [ew] (c1 + wlen ew) false) as [X HX].
          cbn [concat]. rewrite HX in IH |- *. rewrite skipn_len_app. cbn [length skipn app] in IH |- *. cbn [fill].
          assert (Hge : wlen w <= wlen ew) by (unfold ew; destruct md; [now apply esc_len|lia]).
          unfold sw in Efit. apply Z.leb_gt in Efit.
          replace (col + wlen ew + 1 <=? width) with false by (symmetry; apply Z.leb_gt; lia).
          assert (Eew : (if md then esc ew else ew) = ew) by (unfold ew; destruct md; [now apply esc_idem|reflexivity]).
          rewrite Eew. f_equal. exact IH.
  Qed.

  Theorem wrap_words_idem ws c0 : Forall P ws ->
    wrap_words esc (concat (wrap_words esc ws width c0 c1 md)) width c0 c1 md = wrap_words esc ws width c0 c1 md.
  Proof. intros H. unfold wrap_words. exact (fill_idem ws [] c0 true H). Qed.
End FillIdem.

(* ---- markdown_escape_word is idempotent on words and never shortens them ---- *)
Lemma bsl_unmatched w : numeral_core (bsl :: w) = false /\ specials_core (bsl :: w) = false.
Proof.
  split.
  - unfold numeral_core. cbn [rev]. destruct (rev w) as [|c r] eqn:E; cbn [app].
    + reflexivity.
    + rewrite forallb_app. cbn [forallb]. change (is_ascii_digit bsl) with false. cbn [andb]. now rewrite !andb_false_r.
  - reflexivity.
Qed.

Lemma digit_cases f : is_ascii_digit f = true ->
  f = 48%N \/ f = 49%N \/ f = 50%N \/ f = 51%N \/ f = 52%N \/ f = 53%N \/ f = 54%N \/ f = 55%N \/ f = 56%N \/ f = 57%N.
Proof.
  unfold is_ascii_digit. intros H. apply andb_true_iff in H as [H1 H2].
  apply N.leb_le in H1. apply N.leb_le in H2. lia.
Qed.

Lemma digit_head_unspecial f rest : is_ascii_digit f = true -> specials_core (f :: rest) = false.
Proof.
  intros H. destruct (digit_cases f H) as [->|[->|[->|[->|[->|[->|[->|[->|[->| ->]]]]]]]]]; reflexivity.
Qed.

Lemma forallb_rev {A} (p : A -> bool) l : forallb p (rev l) = forallb p l.
Proof.
  induction l as [|x l IH]; [reflexivity|]. cbn [rev forallb]. rewrite forallb_app, IH. cbn [forallb].
  rewrite andb_true_r. apply andb_comm.
Qed.

Lemma escape_word_idem w : goodword w -> escape_word (escape_word w) = escape_word w.
Proof.
  intros G. pose proof (goodword_escape w G) as [_ Ge]. destruct G as [Hne Hw].
  unfold escape_word at 1. rewrite !(dollar_nows _ _ Ge).
  unfold escape_word. rewrite !(dollar_nows _ _ Hw).
  destruct (numeral_core w) eqn:Hn.
  - (* digits, then '.' or ')': the backslash goes before the last character *)
    unfold numeral_core in Hn. destruct (rev w) as [|c ds] eqn:E; [discriminate|].
    apply andb_true_iff in Hn as [Hn Hd]. apply andb_true_iff in Hn as [Hc Hne'].
    destruct ds as [|d0 dr]; [discriminate|].
    assert (N1 : numeral_core (rev (d0 :: dr) ++ [bsl; c]) = false).
    { unfold numeral_core. rewrite rev_app_distr, rev_involutive. cbn [rev app].
      cbn [forallb]. change (is_ascii_digit bsl) with false. cbn [andb]. now rewrite !andb_false_r. }
    assert (N2 : specials_core (rev (d0 :: dr) ++ [bsl; c]) = false).
    { assert (Hall : forallb is_ascii_digit (rev (d0 :: dr)) = true) by (rewrite forallb_rev; exact Hd).
      destruct (rev (d0 :: dr)) as [|f fr] eqn:Er; [apply (f_equal (@length N)) in Er; rewrite rev_length in Er; discriminate|].
      cbn [forallb] in Hall. apply andb_true_iff in Hall as [Hf _].
      cbn [app]. now apply digit_head_unspecial. }
    rewrite N1, N2. reflexivity.
  - destruct (specials_core w) eqn:Hs; [|now rewrite Hn, Hs].
    destruct w as [|c r]; [congruence|].
    destruct (forallb _ (c :: r)).
    + cbn [flat_map app]. destruct (bsl_unmatched (c :: flat_map (fun c0 : N => [bsl; c0]) r)) as [B1 B2].
      rewrite B1, B2. reflexivity.
    + destruct (bsl_unmatched (c :: r)) as [B1 B2]. rewrite B1, B2. reflexivity.
Qed.

Lemma escape_word_len w : wlen w <= wlen (escape_word w).
Proof.
  unfold escape_word, wlen, len.
  destruct (dollar numeral_core w).
  - destruct (rev w) as [|c r] eqn:E; [lia|].
    assert (L : length w = S (length r)) by (rewrite <- (rev_length w), E; reflexivity).
    rewrite app_length, rev_length. cbn [length]. lia.
  - destruct (dollar specials_core w); [|lia].
    destruct (forallb _ w).
    + assert (L : (length w <= length (flat_map (fun c : N => [bsl; c]) w))%nat).
      { induction w as [|c r IH]; cbn; lia. }
      lia.
    + cbn [length]. lia.
Qed.

(* ---- text level: Markdown-mode wrapping of a wrapped paragraph is the identity ---- *)
Lemma esc_lines_good md : forall Lo first,
  Forall (Forall goodword) Lo -> Forall (fun l : list word => l <> []) Lo ->
  Forall (Forall goodword) (esc_lines escape_word md first Lo) /\
  Forall (fun l : list word => l <> []) (esc_lines escape_word md first Lo).
Proof.
  induction Lo as [|l r IH]; intros first G N; [split; constructor|].
  inversion G as [|? ? Gl Gr]; subst. inversion N as [|? ? Nl Nr]; subst.
  destruct (IH false Gr Nr) as [I1 I2]. cbn [esc_lines]. split; constructor; try assumption.
  - destruct first; [exact Gl|]. destruct l as [|h t]; [constructor|]. cbn [esc_head].
    inversion Gl; subst. constructor; [destruct md; [now apply goodword_escape|assumption]|assumption].
  - destruct first; [exact Nl|]. destruct l as [|h t]; [exfalso; now apply Nl|]. cbn [esc_head]. discriminate.
Qed.

Lemma reread_lines L : Forall (Forall goodword) L -> Forall (fun l : list word => l <> []) L ->
  split_ws (join [nl] (map (fun l => strip (join [sp] l)) L)) = concat L.
Proof.
  intros G N. rewrite split_ws_join_nl, map_map.
  induction L as [|l r IH]; [reflexivity|].
  inversion G; subst. inversion N; subst. cbn [map concat].
  rewrite strip_join, split_ws_join by assumption. f_equal. now apply IH.
Qed.

Theorem wrap_md_idempotent text width c0 c1 : 0 < width ->
  wrap_paragraph_lines escape_word split_ws
    (join [nl] (wrap_paragraph_lines escape_word split_ws text width c0 c1 true true true)) width c0 c1 true true true
  = wrap_paragraph_lines escape_word split_ws text width c0 c1 true true true.
Proof.
  intros Hw. unfold wrap_paragraph_lines, maybe.
  destruct (width <=? 0) eqn:E; [apply Z.leb_le in E; lia|].
  rewrite !split_ws_collapse.
  set (L := wrap_words escape_word (split_ws text) width c0 c1 true).
  assert (Hgood : Forall (Forall goodword) L /\ Forall (fun l : list word => l <> []) L).
  { destruct (wrap_lossless escape_word (split_ws text) width c0 c1 true) as [Lo [H1 [H2 H3]]].
    fold L in H3. rewrite H3. apply esc_lines_good; [|exact H2].
    apply Forall_concat_inv. pose proof (split_ws_good text) as G0. rewrite <- H1 in G0. exact G0. }
  destruct Hgood as [G N].
  rewrite (reread_lines L G N). unfold L at 1.
  rewrite (wrap_words_idem escape_word width c1 true goodword).
  - reflexivity.
  - intros w Gw. now apply escape_word_idem.
  - intros w _. apply escape_word_len.
  - apply split_ws_good.
Qed.

(* and the same for every width <= 0 (one line, no escapes involved) *)
Theorem wrap_md_idempotent_all text width c0 c1 :
  wrap_paragraph_lines escape_word split_ws
    (join [nl] (wrap_paragraph_lines escape_word split_ws text width c0 c1 true true true)) width c0 c1 true true true
  = wrap_paragraph_lines escape_word split_ws text width c0 c1 true true true.
Proof.
  destruct (Z_lt_le_dec 0 width) as [Hw|Hw]; [now apply wrap_md_idempotent|].
  apply wrap_canonical_words. rewrite split_ws_join_nl.
  pose proof (wrap_nowrap escape_word split_ws text width c0 c1 true Hw) as [_ [H _]]. exact H.
Qed.
