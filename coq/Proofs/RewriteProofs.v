(* C04 / C08 / C09 at the document level: the two tree rewrites that carry smart quotes and
   ellipses (rewrite_text_content and rewrite_text_across_inlines) change the strings of RawText
   nodes only.  The block structure, every code block, code span, HTML, escaped character, footnote
   label, link destination and title, table alignment, list attribute ... is the same after the
   rewrite, for every rewrite function f (even one that is not a typography function at all). *)
From Coq Require Import List NArith ZArith Bool Lia.
Import ListNotations.
From Base Require Import PyStr CliTypes.
From Model Require Import Ast Transforms.
From Proofs Require Import RenderProofs.

Definition leaf_erase (l : leaf) : leaf :=
  match l with
  | LPara ch c => LPara ch (map inl_erase c)
  | LHeading sx lv c => LHeading sx lv (map inl_erase c)
  | LTable d rows => LTable d (map (map (map inl_erase)) rows)
  | x => x
  end.
Definition blk_erase (b : blk) : blk := map_blk leaf_erase b.

Lemma mapM_ret {A B} (f : A -> M B) l ys : mapM f l = ret ys -> Forall2 (fun x y => f x = ret y) l ys.
Proof.
  revert ys; induction l as [|x l IH]; intros ys H; cbn in H.
  - injection H as <-. constructor.
  - unfold bind in H. destruct (f x) as [y|] eqn:E; [|discriminate].
    destruct (mapM f l) as [ys'|]; [|discriminate]. injection H as <-.
    constructor; [assumption|now apply IH].
Qed.

Lemma Forall2_map_eq {A B} (g : A -> B) l l' : Forall2 (fun x y => g y = g x) l l' -> map g l' = map g l.
Proof. induction 1; cbn; congruence. Qed.

Lemma Forall2_impl {A B} (P Q : A -> B -> Prop) l l' :
  (forall x y, P x y -> Q x y) -> Forall2 P l l' -> Forall2 Q l l'.
Proof. intros H. induction 1; constructor; auto. Qed.

Section Lift.
  Variable g : leaf -> M leaf.
  Hypothesis g_erase : forall l l', g l = ret l' -> leaf_erase l' = leaf_erase l.

  Lemma mapM_blk_erase b : forall b', mapM_blk g b = ret b' -> blk_erase b' = blk_erase b.
  Proof.
    induction b as [l|k c IH] using blk_ind'; intros b' H; cbn in H.
    - unfold bind in H. destruct (g l) as [l'|] eqn:E; [|discriminate]. injection H as <-.
      cbn. f_equal. now apply g_erase.
    - unfold bind in H.
      match type of H with match ?go c with _ => _ end = _ => destruct (go c) as [c'|] eqn:E end; [|discriminate].
      injection H as <-. unfold blk_erase. cbn [map_blk]. f_equal.
      revert c' E. induction IH as [|x r Hx _ IHr]; intros c' E; cbn in E.
      + injection E as <-. reflexivity.
      + unfold bind in E. destruct (mapM_blk g x) as [x'|] eqn:Ex; [|discriminate].
        match type of E with match ?t with _ => _ end = _ => destruct t as [r'|] eqn:Er end; [|discriminate].
        injection E as <-. cbn [map]. f_equal; [exact (Hx x' eq_refl)|exact (IHr r' eq_refl)].
  Qed.

  Lemma mapM_doc_erase bs bs' : mapM (mapM_blk g) bs = ret bs' -> map blk_erase bs' = map blk_erase bs.
  Proof.
    intros H. apply mapM_ret in H. apply Forall2_map_eq.
    eapply Forall2_impl; [|exact H]. intros x y Hxy. now apply mapM_blk_erase.
  Qed.
End Lift.

Lemma rc_inls_erase f c c' : rc_inls f c = ret c' -> map inl_erase c' = map inl_erase c.
Proof.
  intros H. apply mapM_ret in H. apply Forall2_map_eq.
  eapply Forall2_impl; [|exact H]. intros x y Hxy. exact (rc_inl_erase f x y Hxy).
Qed.

Lemma rows_erase (h : list inl -> M (list inl)) :
  (forall c c', h c = ret c' -> map inl_erase c' = map inl_erase c) ->
  forall rows rows', mapM (mapM h) rows = ret rows' ->
  map (map (map inl_erase)) rows' = map (map (map inl_erase)) rows.
Proof.
  intros Hh rows rows' H. apply mapM_ret in H. apply Forall2_map_eq.
  eapply Forall2_impl; [|exact H]. intros r r' Hr. apply mapM_ret in Hr. apply Forall2_map_eq.
  eapply Forall2_impl; [|exact Hr]. intros c c' Hc. now apply Hh.
Qed.

Lemma rc_leaf_erase f l l' : rc_leaf f l = ret l' -> leaf_erase l' = leaf_erase l.
Proof.
  destruct l; cbn; intros H; try (injection H as <-; reflexivity).
  - unfold bind in H. destruct (rc_inls f c) as [c'|] eqn:E; [|discriminate]. injection H as <-.
    cbn. f_equal. now apply (rc_inls_erase f).
  - unfold bind in H. destruct (rc_inls f c) as [c'|] eqn:E; [|discriminate]. injection H as <-.
    cbn. f_equal. now apply (rc_inls_erase f).
  - unfold bind in H.
    match type of H with match ?t with _ => _ end = _ => destruct t as [rows'|] eqn:E end; [|discriminate].
    injection H as <-. cbn. f_equal. eapply rows_erase; [|exact E]. apply rc_inls_erase.
Qed.

Lemma across_leaf_erase f l l' : across_leaf f l = ret l' -> leaf_erase l' = leaf_erase l.
Proof.
  destruct l; cbn; intros H; try (injection H as <-; reflexivity).
  - unfold bind in H. destruct (across_scope f c) as [c'|] eqn:E; [|discriminate]. injection H as <-.
    cbn. f_equal. now apply (across_scope_erase f).
  - unfold bind in H. destruct (across_scope f c) as [c'|] eqn:E; [|discriminate]. injection H as <-.
    cbn. f_equal. now apply (across_scope_erase f).
  - unfold bind in H.
    match type of H with match ?t with _ => _ end = _ => destruct t as [rows'|] eqn:E end; [|discriminate].
    injection H as <-. cbn. f_equal. eapply rows_erase; [|exact E]. apply across_scope_erase.
Qed.

(* the ellipsis rewrite (per RawText node, after optional coalescing of text across soft breaks) *)
Theorem rewrite_text_content_erase f coalesce bs bs' :
  rewrite_text_content f coalesce bs = ret bs' ->
  map blk_erase bs' = map blk_erase (if coalesce then coalesce_doc bs else bs).
Proof. unfold rewrite_text_content. apply mapM_doc_erase. apply rc_leaf_erase. Qed.

(* the smart-quote rewrite (over the concatenated text of each inline scope) *)
Theorem rewrite_text_across_inlines_erase f bs bs' :
  rewrite_text_across_inlines f bs = ret bs' ->
  map blk_erase bs' = map blk_erase (coalesce_doc bs).
Proof. unfold rewrite_text_across_inlines. apply mapM_doc_erase. apply across_leaf_erase. Qed.

(* ---- coalescing of text across soft line breaks keeps every literal, in order ---- *)
(* the literal content of an inline: everything except RawText strings and soft line breaks;
   a container contributes its own attributes (kind, destination, title) and then its children's *)
Fixpoint inl_lits (e : inl) : list inl :=
  match e with
  | IRaw _ => []
  | IBreak true => []
  | INode k c => INode k [] :: concat (map inl_lits c)
  | x => [x]
  end.
Definition inls_lits (l : list inl) : list inl := concat (map inl_lits l).

Lemma absorb_lits : forall n l, (length l <= n)%nat -> forall s, inls_lits (snd (absorb s l)) = inls_lits l.
Proof.
  induction n as [|n IH]; intros l Hl s.
  - destruct l; [reflexivity|cbn in Hl; inversion Hl].
  - destruct l as [|x l]; [reflexivity|].
    destruct x as [t|t|[|]|t|t|t|k c]; try reflexivity.
    destruct l as [|y l]; [reflexivity|].
    destruct y as [t|t|b|t|t|t|k c]; try reflexivity.
    cbn [absorb]. rewrite IH by (cbn in Hl; lia). reflexivity.
Qed.

Lemma coalesce_fuel_lits : forall n l, inls_lits (coalesce_fuel n l) = inls_lits l.
Proof.
  induction n as [|n IH]; intros l; [reflexivity|].
  destruct l as [|x rest]; [reflexivity|]. cbn [coalesce_fuel].
  destruct x as [s|s|b|s|s|s|k c]; try (unfold inls_lits in *; cbn [map concat]; now rewrite IH).
  destruct (absorb s rest) as [s' rest'] eqn:E.
  unfold inls_lits in *. cbn [map concat inl_lits app]. rewrite IH.
  pose proof (absorb_lits (length rest) rest (le_n _) s) as A. rewrite E in A. exact A.
Qed.

Lemma coalesce_list_lits l : inls_lits (coalesce_list l) = inls_lits l.
Proof. apply coalesce_fuel_lits. Qed.

Lemma co_inl_lits e : inl_lits (co_inl e) = inl_lits e.
Proof.
  induction e as [s|s|b|s|s|l|k c IH] using inl_ind'; try reflexivity.
  cbn [co_inl]. destruct (ik_container k); cbn [inl_lits]; f_equal.
  - fold (inls_lits (coalesce_list (map co_inl c))). rewrite coalesce_list_lits.
    unfold inls_lits. rewrite map_map. f_equal.
    induction IH as [|x r Hx _ IHr]; [reflexivity|]. cbn. now rewrite Hx, IHr.
  - fold (inls_lits (coalesce_list c)). now rewrite coalesce_list_lits.
Qed.

Lemma co_inls_lits l : inls_lits (co_inls l) = inls_lits l.
Proof.
  unfold co_inls. rewrite coalesce_list_lits. unfold inls_lits. rewrite map_map. f_equal.
  apply map_ext. intros e. apply co_inl_lits.
Qed.

(* literal content of a leaf / a block tree: non-prose leaves whole, prose leaves by their inline literals *)
Definition leaf_lits (l : leaf) : leaf :=
  match l with
  | LPara ch c => LPara ch (inls_lits c)
  | LHeading sx lv c => LHeading sx lv (inls_lits c)
  | LTable d rows => LTable d (map (map inls_lits) rows)
  | x => x
  end.
Definition blk_lits (b : blk) : blk := map_blk leaf_lits b.

Lemma co_leaf_lits l : leaf_lits (co_leaf l) = leaf_lits l.
Proof.
  destruct l; cbn; try reflexivity.
  - now rewrite co_inls_lits.
  - now rewrite co_inls_lits.
  - f_equal. rewrite map_map. apply map_ext. intros r. rewrite map_map. apply map_ext. intros c. apply co_inls_lits.
Qed.

Lemma map_blk_compose f g b : map_blk f (map_blk g b) = map_blk (fun l => f (g l)) b.
Proof.
  induction b as [l|k c IH] using blk_ind'; [reflexivity|]. cbn. f_equal. rewrite map_map.
  induction IH as [|x r Hx _ IHr]; [reflexivity|]. cbn. now rewrite Hx, IHr.
Qed.

Lemma map_blk_ext f g b : (forall l, f l = g l) -> map_blk f b = map_blk g b.
Proof.
  intros H. induction b as [l|k c IH] using blk_ind'; cbn; [now rewrite H|]. f_equal.
  induction IH as [|x r Hx _ IHr]; [reflexivity|]. cbn. now rewrite Hx, IHr.
Qed.

Theorem coalesce_doc_lits bs : map blk_lits (coalesce_doc bs) = map blk_lits bs.
Proof.
  unfold coalesce_doc, blk_lits. rewrite map_map. apply map_ext. intros b.
  rewrite map_blk_compose. apply map_blk_ext. apply co_leaf_lits.
Qed.

(* erasing RawText strings and then taking literals = taking literals *)
Lemma inl_lits_erase e : inl_lits (inl_erase e) = inl_lits e.
Proof.
  induction e as [s|s|b|s|s|l|k c IH] using inl_ind'; try reflexivity.
  cbn. f_equal. rewrite map_map. f_equal.
  induction IH as [|x r Hx _ IHr]; [reflexivity|]. cbn. now rewrite Hx, IHr.
Qed.
Lemma inls_lits_erase l : inls_lits (map inl_erase l) = inls_lits l.
Proof. unfold inls_lits. rewrite map_map. f_equal. apply map_ext. apply inl_lits_erase. Qed.
Lemma leaf_lits_erase l : leaf_lits (leaf_erase l) = leaf_lits l.
Proof.
  destruct l; cbn; try reflexivity; try now rewrite inls_lits_erase.
  f_equal. rewrite map_map. apply map_ext. intros r. rewrite map_map. apply map_ext. intros c. apply inls_lits_erase.
Qed.
Lemma blk_lits_erase b : blk_lits (blk_erase b) = blk_lits b.
Proof. unfold blk_lits, blk_erase. rewrite map_blk_compose. apply map_blk_ext. apply leaf_lits_erase. Qed.

Lemma erase_eq_lits bs bs' : map blk_erase bs' = map blk_erase bs -> map blk_lits bs' = map blk_lits bs.
Proof.
  intros H. apply (f_equal (map blk_lits)) in H. rewrite !map_map in H.
  erewrite map_ext in H by (intros; apply blk_lits_erase). symmetry in H.
  erewrite map_ext in H by (intros; apply blk_lits_erase). now symmetry.
Qed.

(* end to end: whatever the rewrite function does, the document's literal content is untouched *)
Theorem across_inlines_keeps_literals f bs bs' :
  rewrite_text_across_inlines f bs = ret bs' -> map blk_lits bs' = map blk_lits bs.
Proof.
  intros H. apply rewrite_text_across_inlines_erase in H. apply erase_eq_lits in H.
  now rewrite coalesce_doc_lits in H.
Qed.

Theorem text_content_keeps_literals f coalesce bs bs' :
  rewrite_text_content f coalesce bs = ret bs' -> map blk_lits bs' = map blk_lits bs.
Proof.
  intros H. apply rewrite_text_content_erase in H. apply erase_eq_lits in H.
  destruct coalesce; [now rewrite coalesce_doc_lits in H|exact H].
Qed.

(* ---- the whole transform stage of fill_markdown ---- *)
From Model Require Import Typography Pipeline.

Theorem transform_doc_keeps_literals o bs bs' :
  transform_doc o bs = ret bs' ->
  map blk_lits bs' = map blk_lits (if o_cleanups o then doc_cleanups bs else bs).
Proof.
  unfold transform_doc. set (b0 := if o_cleanups o then doc_cleanups bs else bs). unfold bind.
  destruct (o_smartquotes o).
  - destruct (rewrite_text_across_inlines smart_quotes b0) as [b1|] eqn:E1; [|discriminate].
    apply across_inlines_keeps_literals in E1.
    destruct (o_ellipses o).
    + intros H. apply text_content_keeps_literals in H. congruence.
    + intros [= <-]. exact E1.
  - destruct (o_ellipses o).
    + intros H. change (rewrite_text_content ellipses true b0 = ret bs') in H.
      now apply text_content_keeps_literals in H.
    + intros [= <-]. reflexivity.
Qed.
