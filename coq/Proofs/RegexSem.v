(* Declarative (priority-free, over-approximating) semantics of the matcher with captures,
   soundness of the backtracking matcher w.r.t. it, and the decomposition theorems for
   finditer / sub / split that the typography proofs use. *)
From Coq Require Import List NArith Bool Arith Lia.
Import ListNotations.
From Base Require Import PyStr Regex.
From Proofs Require Import RegexFacts.

Definition char_pred (r : regex) : option (N -> bool) :=
  match r with
  | RLit c => Some (N.eqb c)
  | RNotLit c => Some (fun x => negb (N.eqb c x))
  | RIn neg items => Some (fun x => xorb neg (in_items items x))
  | RAny dotall => Some (fun x => dotall || negb (N.eqb x 10))
  | _ => None
  end.

Definition stepped (st : mstate) (c : N) (r : str) : mstate :=
  MS r (Some c) (S (pos st)) (Nat.pred (rem st)) (caps st).

Inductive Matches : regex -> mstate -> mstate -> Prop :=
| M_char rx p st c r : char_pred rx = Some p -> rest st = c :: r -> p c = true ->
    Matches rx st (stepped st c r)
| M_eps st : Matches REps st st
| M_cat a b st st1 st2 : Matches a st st1 -> Matches b st1 st2 -> Matches (RCat a b) st st2
| M_alt_l a b st st1 : Matches a st st1 -> Matches (RAlt a b) st st1
| M_alt_r a b st st1 : Matches b st st1 -> Matches (RAlt a b) st st1
| M_rep mn mx g r st st1 : MatchesRep r st st1 -> Matches (RRep mn mx g r) st st1
| M_group i r st st1 : Matches r st st1 -> Matches (RGroup i r) st (set_cap i st st1)
| M_ref i st st1 s0 t : nth i (caps st) None = Some (s0, t) -> LitAdv t st st1 -> Matches (RRef i) st st1
| M_look_pos r st st1 : Matches r st st1 -> Matches (RLook false r) st (with_caps st (caps st1))
| M_look_neg r st : Matches (RLook true r) st st
| M_behind neg r st : Matches (RBehind1 neg r) st st
| M_at a st : anchor_ok a st = true -> Matches (RAt a) st st
with MatchesRep : regex -> mstate -> mstate -> Prop :=
| MR_0 r st : MatchesRep r st st
| MR_S r st st1 st2 : Matches r st st1 -> MatchesRep r st1 st2 -> MatchesRep r st st2
with LitAdv : str -> mstate -> mstate -> Prop :=
| LA_nil st : LitAdv [] st st
| LA_cons c t st r st2 : rest st = c :: r -> LitAdv t (stepped st c r) st2 -> LitAdv (c :: t) st st2.

Scheme Matches_ind' := Induction for Matches Sort Prop
  with MatchesRep_ind' := Induction for MatchesRep Sort Prop
  with LitAdv_ind' := Induction for LitAdv Sort Prop.
Combined Scheme Matches_mutind from Matches_ind', MatchesRep_ind', LitAdv_ind'.

(* ---- soundness of the matcher ---- *)
Lemma step1_sound st p k x : step1 st p k = Ok x ->
  exists c r, rest st = c :: r /\ p c = true /\ k (stepped st c r) = Ok x.
Proof.
  unfold step1. destruct (rest st) as [|c r]; [discriminate|].
  destruct (p c) eqn:E; [|discriminate]. intros H. exists c, r. auto.
Qed.

Lemma match_lit_sound t : forall st k x, match_lit t st k = Ok x ->
  exists st', LitAdv t st st' /\ k st' = Ok x.
Proof.
  induction t as [|c t IH]; intros st k x H; simpl in H.
  - exists st. split; [constructor|assumption].
  - apply step1_sound in H as [c' [r [E [P H]]]]. apply N.eqb_eq in P. subst c'.
    apply IH in H as [st' [L H]]. exists st'. split; [econstructor; eauto|assumption].
Qed.

Definition body_sound (r : regex) (body : mstate -> (mstate -> res) -> res) : Prop :=
  forall st k x, body st k = Ok x -> exists st', Matches r st st' /\ k st' = Ok x.

Lemma rep_loop_sound r body mn mx g : body_sound r body ->
  forall fuel n st k x, rep_loop body mn mx g fuel n st k = Ok x ->
  exists st', MatchesRep r st st' /\ k st' = Ok x.
Proof.
  intros HB. induction fuel as [|f IH]; intros n st k x H; [discriminate|].
  cbn [rep_loop] in H. cbv zeta in H. revert H.
  apply (shape_ok (fun _ : unit =>
     if match mx with None => true | Some x => Nat.ltb n x end
     then body st (fun st' => if Nat.eqb (pos st') (pos st) then Fail
                              else rep_loop body mn mx g f (S n) st' k)
     else Fail)).
  - destruct (match mx with None => true | Some x0 => Nat.ltb n x0 end); [|discriminate].
    intros E. apply HB in E as [st1 [M1 E1]].
    destruct (Nat.eqb (pos st1) (pos st)); [discriminate|].
    apply IH in E1 as [st2 [M2 E2]]. exists st2. split; [econstructor; eauto|assumption].
  - intros E. exists st. split; [constructor|assumption].
Qed.

Theorem m_sound r : forall st k x, m r st k = Ok x -> exists st', Matches r st st' /\ k st' = Ok x.
Proof.
  induction r; intros st k x H; cbn [m] in H.
  - apply step1_sound in H as [c' [r [E [P H]]]]. eexists. split; [eapply M_char; [reflexivity|exact E|exact P]|exact H].
  - apply step1_sound in H as [c' [r [E [P H]]]]. eexists. split; [eapply M_char; [reflexivity|exact E|exact P]|exact H].
  - apply step1_sound in H as [c' [r [E [P H]]]]. eexists. split; [eapply M_char; [reflexivity|exact E|exact P]|exact H].
  - apply step1_sound in H as [c' [r [E [P H]]]]. eexists. split; [eapply M_char; [reflexivity|exact E|exact P]|exact H].
  - exists st. split; [constructor|assumption].
  - discriminate.
  - apply IHr1 in H as [st1 [M1 H]]. apply IHr2 in H as [st2 [M2 H]].
    exists st2. split; [econstructor; eauto|assumption].
  - destruct (m r1 st k) eqn:E.
    + apply IHr2 in H as [st1 [M1 H]]. exists st1. split; [now apply M_alt_r|assumption].
    + discriminate.
    + rewrite H in E. apply IHr1 in E as [st1 [M1 E]]. exists st1. split; [now apply M_alt_l|assumption].
  - apply (rep_loop_sound r) in H; [|exact IHr]. destruct H as [st1 [M1 H]].
    exists st1. split; [now constructor|assumption].
  - apply IHr in H as [st1 [M1 H]]. exists (set_cap i st st1). split; [now constructor|assumption].
  - destruct (nth i (caps st) None) as [[s0 t]|] eqn:E; [|discriminate].
    apply match_lit_sound in H as [st1 [L H]]. exists st1. split; [econstructor; eauto|assumption].
  - destruct (m r st (fun st' => Ok st')) eqn:E.
    + destruct neg; [|discriminate]. exists st. split; [constructor|assumption].
    + discriminate.
    + destruct neg; [discriminate|]. apply IHr in E as [st1 [M1 E]]. injection E as <-.
      exists (with_caps st (caps st1)). split; [now constructor|assumption].
  - match type of H with (if ?c then _ else _) = _ => destruct c end; [|discriminate].
    exists st. split; [constructor|assumption].
  - destruct (anchor_ok a st) eqn:E; [|discriminate]. exists st. split; [now constructor|assumption].
Qed.

(* ---- what a match consumes ---- *)
Definition adv (t : str) (st st' : mstate) : Prop :=
  rest st = t ++ rest st' /\ pos st' = pos st + length t.

Lemma adv_refl st : adv [] st st.
Proof. split; [reflexivity|cbn; lia]. Qed.

Lemma adv_trans t1 t2 a b c : adv t1 a b -> adv t2 b c -> adv (t1 ++ t2) a c.
Proof.
  intros [A1 A2] [B1 B2]. split.
  - rewrite A1, B1. now rewrite app_assoc.
  - rewrite B2, A2, app_length. lia.
Qed.

Lemma adv_set_cap t i st0 st st' : adv t st st' -> adv t st (set_cap i st0 st').
Proof. intros [A B]. split; assumption. Qed.

Lemma matches_adv :
  (forall r st st', Matches r st st' -> exists t, adv t st st') /\
  (forall r st st', MatchesRep r st st' -> exists t, adv t st st') /\
  (forall t st st', LitAdv t st st' -> adv t st st' /\ caps st' = caps st).
Proof.
  apply Matches_mutind; intros.
  - exists [c]. split; [exact e0|cbn; lia].
  - exists []. apply adv_refl.
  - destruct H as [t1 A1], H0 as [t2 A2]. exists (t1 ++ t2). eapply adv_trans; eauto.
  - assumption.
  - assumption.
  - assumption.
  - destruct H as [t A]. exists t. now apply adv_set_cap.
  - destruct H as [A _]. eauto.
  - exists []. unfold with_caps. split; [reflexivity|cbn; lia].
  - exists []. apply adv_refl.
  - exists []. apply adv_refl.
  - exists []. apply adv_refl.
  - exists []. apply adv_refl.
  - destruct H as [t1 A1], H0 as [t2 A2]. exists (t1 ++ t2). eapply adv_trans; eauto.
  - split; [apply adv_refl|reflexivity].
  - destruct H as [[A1 A2] C]. split; [|exact C].
    split.
    + rewrite e. cbn in A1. now rewrite A1.
    + cbn in A2. cbn. lia.
Qed.

Lemma adv_text t st st' : adv t st st' -> t = firstn (pos st' - pos st) (rest st).
Proof.
  intros [A B]. rewrite A, B. replace (pos st + length t - pos st) with (length t) by lia.
  now rewrite firstn_app, Nat.sub_diag, firstn_all, app_nil_r.
Qed.

(* ---- regexes without capturing groups leave the captures alone ---- *)
Fixpoint no_groups (r : regex) : bool :=
  match r with
  | RGroup _ _ => false
  | RCat a b | RAlt a b => no_groups a && no_groups b
  | RRep _ _ _ a => no_groups a
  | RLook _ a | RBehind1 _ a => no_groups a
  | _ => true
  end.

Lemma no_groups_caps :
  (forall r st st', Matches r st st' -> no_groups r = true -> caps st' = caps st) /\
  (forall r st st', MatchesRep r st st' -> no_groups r = true -> caps st' = caps st) /\
  (forall t st st', LitAdv t st st' -> caps st' = caps st).
Proof.
  apply Matches_mutind; intros; cbn [no_groups] in *;
    repeat match goal with H : _ && _ = true |- _ => apply andb_true_iff in H as [? ?] end;
    try discriminate; try reflexivity; try solve [auto].
  all: try (cbn; solve [eauto]).
  all: try (rewrite H0, H by assumption; reflexivity).
  all: try (rewrite H; reflexivity).
Qed.

(* ---- top-level: a successful attempt, as a Matches fact ---- *)
Lemma try_at_sound p st must st1 : try_at p st must = Ok st1 ->
  Matches (p_re p) (with_caps st (repeat None (p_ngroups p))) st1.
Proof.
  unfold try_at. intros H. apply m_sound in H as [st' [M H]].
  match type of H with (if ?c then _ else _) = _ => destruct c end; [discriminate|].
  now injection H as <-.
Qed.

(* ---- finditer decomposes its input ---- *)
Lemma search_from_decomp p s : forall pv ps rm must sk0,
  match search_from p s pv ps rm must sk0 with
  | SNone sk => rev sk = rev sk0 ++ s
  | SFound sk st0 st1 =>
      rev sk ++ rest st0 = rev sk0 ++ s /\ Matches (p_re p) (with_caps st0 (repeat None (p_ngroups p))) st1
  | SOof => True
  end.
Proof.
  induction s as [|c s IH]; intros pv ps rm must sk0; cbn [search_from].
  - destruct (try_at p (MS [] pv ps rm []) must) eqn:E; auto.
    + now rewrite app_nil_r.
    + split; [reflexivity|]. now apply try_at_sound in E.
  - destruct (try_at p (MS (c :: s) pv ps rm []) must) eqn:E; auto.
    + specialize (IH (Some c) (S ps) (Nat.pred rm) false (c :: sk0)).
      destruct (search_from p s (Some c) (S ps) (Nat.pred rm) false (c :: sk0)); auto.
      * rewrite IH. cbn [rev]. now rewrite <- app_assoc.
      * destruct IH as [I1 I2]. split; [|assumption]. rewrite I1. cbn [rev]. now rewrite <- app_assoc.
    + split; [reflexivity|]. now apply try_at_sound in E.
Qed.

Lemma mk_match_text st0 st1 t : adv t st0 st1 ->
  m_text (mk_match st0 st1) = t /\ m_after (mk_match st0 st1) = rest st1.
Proof.
  intros A. unfold mk_match. cbn. split; [|reflexivity]. symmetry. now apply adv_text.
Qed.

(* every match reported by finditer comes with its Matches fact, and gaps + matched texts +
   tail concatenate back to the input *)
Inductive FoundAll (p : pattern) : list (str * mmatch) -> Prop :=
| FA_nil : FoundAll p []
| FA_cons gap st0 st1 l :
    Matches (p_re p) (with_caps st0 (repeat None (p_ngroups p))) st1 ->
    FoundAll p l -> FoundAll p ((gap, mk_match st0 st1) :: l).

Lemma finditer_loop_decomp p : forall fuel s pv ps rm must l tl,
  finditer_loop p fuel s pv ps rm must = Some (l, tl) ->
  concat (map (fun gm => fst gm ++ m_text (snd gm)) l) ++ tl = s /\ FoundAll p l.
Proof.
  induction fuel as [|f IH]; intros s pv ps rm must l tl H; [discriminate|].
  cbn [finditer_loop] in H.
  pose proof (search_from_decomp p s pv ps rm must []) as D.
  destruct (search_from p s pv ps rm must []) as [sk|sk st0 st1|]; [| |discriminate].
  - injection H as <- <-. cbn in *. split; [assumption|constructor].
  - destruct D as [D1 D2].
    destruct (finditer_loop p f (rest st1) (prev st1) (pos st1) (rem st1) (Nat.eqb (pos st1) (pos st0)))
      as [[l' tl']|] eqn:E; [|discriminate].
    injection H as <- <-. apply IH in E as [E1 E2].
    destruct (proj1 matches_adv _ _ _ D2) as [t A].
    assert (A' : adv t st0 st1) by (destruct A as [A1 A2]; split; assumption).
    destruct (mk_match_text st0 st1 t A') as [T1 T2].
    split; [|constructor; assumption].
    cbn [map concat fst snd]. rewrite T1. cbn in D1. rewrite <- D1.
    destruct A' as [A1 _]. rewrite A1, <- E1. now rewrite <- !app_assoc.
Qed.

Theorem finditer_decomp p s l tl : finditer p s = Some (l, tl) ->
  concat (map (fun gm => fst gm ++ m_text (snd gm)) l) ++ tl = s /\ FoundAll p l.
Proof. apply finditer_loop_decomp. Qed.

Theorem finditer_t_decomp p s :
  concat (map (fun gm => fst gm ++ m_text (snd gm)) (fst (finditer_t p s))) ++ snd (finditer_t p s) = s /\
  FoundAll p (fst (finditer_t p s)).
Proof.
  unfold finditer_t. destruct (finditer p s) as [[l tl]|] eqn:E.
  - now apply finditer_decomp.
  - cbn. split; [reflexivity|constructor].
Qed.
