(* C02 / C03 at the paragraph level: the wrapped form of a paragraph is a function of its word
   sequence only; re-reading the wrapped lines gives the same words; hence wrapping the output of
   any earlier wrapping (any width, any columns) gives the same result as wrapping the source, and
   in particular wrapping is idempotent.  Plain mode (no line-start escapes) with the whitespace
   splitter; the Markdown-aware splitter and the escapes are covered by the correspondence and the
   two-pass runs of harness/c02.py and harness/c03.py. *)
From Coq Require Import List NArith ZArith Bool Lia.
Import ListNotations.
From Base Require Import PyStr.
From Model Require Import Wrap.
From Proofs Require Import PyStrFacts WrapProofs NormProofs.
Local Open Scope Z_scope.

Lemma split_ws_aux_app_space a c b : is_space c = true -> forall cur,
  split_ws_aux (a ++ c :: b) cur = split_ws_aux a cur ++ split_ws b.
Proof.
  intros Hc. induction a as [|x a IH]; intros cur.
  - cbn [app split_ws_aux]. rewrite Hc. unfold split_ws. destruct cur; reflexivity.
  - cbn [app split_ws_aux]. destruct (is_space x).
    + destruct cur; [apply IH|]. rewrite IH. reflexivity.
    + apply IH.
Qed.

Lemma split_ws_app_space a c b : is_space c = true -> split_ws (a ++ c :: b) = split_ws a ++ split_ws b.
Proof. intros H. apply split_ws_aux_app_space. exact H. Qed.

(* re-reading lines joined by newlines gives the words of the lines, in order *)
Lemma split_ws_join_nl ls : split_ws (join [nl] ls) = concat (map split_ws ls).
Proof.
  induction ls as [|l r IH]; [reflexivity|].
  destruct r as [|l2 r].
  - cbn. now rewrite app_nil_r.
  - change (join [nl] (l :: l2 :: r)) with (l ++ nl :: join [nl] (l2 :: r)).
    rewrite split_ws_app_space by apply nl_is_space. rewrite IH. reflexivity.
Qed.

(* C03: the result depends on the text only through its whitespace-normal form ... *)
Theorem wrap_canonical_collapse esc splitter t1 t2 width c0 c1 dw md :
  collapse_ws t1 = collapse_ws t2 ->
  wrap_paragraph_lines esc splitter t1 width c0 c1 true dw md =
  wrap_paragraph_lines esc splitter t2 width c0 c1 true dw md.
Proof. intros H. unfold wrap_paragraph_lines, maybe. now rewrite H. Qed.

(* ... and, with the whitespace splitter, only through its words - for every width, wrapping or not *)
Theorem wrap_canonical_words esc t1 t2 width c0 c1 md :
  split_ws t1 = split_ws t2 ->
  wrap_paragraph_lines esc split_ws t1 width c0 c1 true true md =
  wrap_paragraph_lines esc split_ws t2 width c0 c1 true true md.
Proof.
  intros H. unfold wrap_paragraph_lines, maybe.
  destruct (width <=? 0) eqn:E.
  - now rewrite !strip_collapse_is_join, H.
  - now rewrite !split_ws_collapse, H.
Qed.

(* the words of a wrapped paragraph (any width, plain mode) are the words of the source *)
Lemma wrap_words_reread esc text width c0 c1 :
  split_ws (join [nl] (wrap_paragraph_lines esc split_ws text width c0 c1 true true false)) = split_ws text.
Proof.
  rewrite split_ws_join_nl. destruct (Z_lt_le_dec 0 width) as [Hw|Hw].
  - now apply wrap_text_lossless_plain.
  - pose proof (wrap_nowrap esc split_ws text width c0 c1 false Hw) as [_ [H _]]. exact H.
Qed.

(* C03: first wrapping with any other width and columns, then with the target ones, gives the
   same lines as wrapping the source with the target ones *)
Theorem wrap_cross_width esc esc' text w1 a0 a1 w2 c0 c1 md :
  wrap_paragraph_lines esc split_ws
    (join [nl] (wrap_paragraph_lines esc' split_ws text w1 a0 a1 true true false)) w2 c0 c1 true true md
  = wrap_paragraph_lines esc split_ws text w2 c0 c1 true true md.
Proof. apply wrap_canonical_words. apply wrap_words_reread. Qed.

(* C02: wrapping is idempotent *)
Corollary wrap_idempotent esc text width c0 c1 :
  wrap_paragraph_lines esc split_ws
    (join [nl] (wrap_paragraph_lines esc split_ws text width c0 c1 true true false)) width c0 c1 true true false
  = wrap_paragraph_lines esc split_ws text width c0 c1 true true false.
Proof. apply wrap_cross_width. Qed.
