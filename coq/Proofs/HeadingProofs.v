(* C01: an ATX heading line written by the renderer is read back by a CommonMark reader (Model/BlockRead.v)
   with the same level and with the whole text as content: no part of the text is taken for the optional
   closing sequence of '#' (the renderer escapes a final run of '#' that would be). *)
From Coq Require Import List NArith Bool Arith Lia.
Import ListNotations.
From Base Require Import PyStr.
From Model Require Import Render BlockRead.
From Proofs Require Import WrapProofs RenderProofs SpacingProofs FenceProofs.
Local Open Scope N_scope.

Lemma run_len_split c s : s = repeat c (run_len c s) ++ skipn (run_len c s) s /\
  match skipn (run_len c s) s with x :: _ => x <> c | [] => True end.
Proof.
  induction s as [|x s [IH1 IH2]]; [split; [reflexivity|exact I]|].
  cbn [run_len]. destruct (N.eqb_spec x c) as [->|Hn].
  - cbn [repeat app skipn]. split; [now rewrite <- IH1|exact IH2].
  - cbn. split; [reflexivity|exact Hn].
Qed.

Lemma is_sptab_spec x : is_sptab x = (x =? 32) || (x =? 9).
Proof. reflexivity. Qed.

(* the text as the renderer writes it is never shortened by the closing-sequence rule *)
Lemma strip_closing_escaped t : strip_closing (escape_closing_hashes t) = escape_closing_hashes t.
Proof.
  unfold escape_closing_hashes. cbv zeta.
  destruct (run_len_split 35 (rev t)) as [Hsplit Hhead].
  set (n := run_len 35 (rev t)) in *. set (rest := skipn n (rev t)) in *.
  destruct n as [|n'] eqn:En.
  - (* no final run of '#' *)
    unfold strip_closing. cbv zeta. fold n in En. unfold n in En. rewrite En. reflexivity.
  - rewrite rev_involutive.
    destruct rest as [|x rest'] eqn:Er.
    + (* the text is all '#': it gets a backslash in front *)
      cbn [rev andb endswith]. change (endswith [] [bsl]) with false. cbn [negb andb app].
      unfold strip_closing. cbv zeta. cbn [rev app].
      rewrite ?rev_app_distr, rev_repeat. cbn [rev app].
      change (repeat 35 (S n') ++ [bsl]) with (repeat 35 (S n') ++ [bsl]).
      rewrite (run_len_repeat 35 (S n') [bsl]) by (cbn; discriminate).
      rewrite skipn_repeat_app. reflexivity.
    + cbn [rev].
      destruct ((x =? 32) || (x =? 9)) eqn:Ex.
      * (* preceded by a space or tab: a backslash is written between *)
        assert (Eb : endswith (rev rest' ++ [x]) [bsl] = false).
        { apply orb_true_iff in Ex as [E|E]; apply N.eqb_eq in E; subst x;
            unfold endswith; rewrite rev_app_distr; reflexivity. }
        rewrite Eb. cbn [negb andb].
        unfold strip_closing. cbv zeta.
        rewrite !rev_app_distr, rev_repeat. cbn [rev app]. rewrite rev_involutive.
        rewrite <- !app_assoc. cbn [app].
        rewrite (run_len_repeat 35 (S n') (bsl :: x :: rest')) by (cbn; discriminate).
        rewrite skipn_repeat_app. reflexivity.
      * (* preceded by something else: nothing to escape, and not a closing sequence *)
        cbn [andb].
        unfold strip_closing. cbv zeta.
        fold n. rewrite En. fold rest. rewrite Er.
        rewrite is_sptab_spec, Ex. reflexivity.
Qed.

(* the escaped text still has no space or tab at either end *)
Lemma escaped_clean_ends t : t <> [] -> clean_ends t -> clean_ends (escape_closing_hashes t) /\ escape_closing_hashes t <> [].
Proof.
  intros Hne [Hfirst Hlast]. unfold escape_closing_hashes. cbv zeta.
  destruct (run_len_split 35 (rev t)) as [Hsplit _].
  set (n := run_len 35 (rev t)) in *. set (rest := skipn n (rev t)) in *.
  destruct n as [|n']; [split; [split; assumption|exact Hne]|].
  match goal with |- context [if ?b then _ else _] => destruct b eqn:Eb end; [|split; [split; assumption|exact Hne]].
  assert (Et : t = rev rest ++ repeat 35 (S n')).
  { rewrite <- (rev_involutive t), Hsplit, rev_app_distr, rev_repeat. reflexivity. }
  split; [split|].
  - (* first character *)
    destruct (rev rest) as [|c0 r0] eqn:Er; [cbn; reflexivity|].
    rewrite Et in Hfirst. cbn [app] in Hfirst |- *. exact Hfirst.
  - (* last character: '#' *)
    rewrite !rev_app_distr, rev_repeat. cbn [repeat app]. reflexivity.
  - destruct (rev rest); discriminate.
Qed.

Lemma trim_sp_clean e : clean_ends e -> e <> [] -> trim (sp :: e) = e.
Proof.
  intros Hc Hne. unfold trim. cbn [lstrip_chars]. change (is_sptab sp) with true. cbv iota.
  apply (trim_clean e Hc).
Qed.

(* the heading line: level and whole text read back *)
Theorem heading_roundtrip level t : (1 <= level <= 6)%nat -> t <> [] -> clean_ends t ->
  read_atx (hashes level ++ [sp] ++ escape_closing_hashes t) = Some (level, escape_closing_hashes t).
Proof.
  intros Hl Hne Hc. destruct (escaped_clean_ends t Hne Hc) as [Hce Hene].
  set (e := escape_closing_hashes t) in *.
  unfold read_atx, hashes. cbv zeta.
  destruct level as [|l']; [lia|]. set (level := S l') in *.
  assert (E0 : run_len 32 (repeat 35 level ++ [sp] ++ e) = O) by (unfold level; cbn [repeat app]; now apply run_len_other).
  rewrite E0. change (Nat.ltb 3 0) with false. cbn [skipn].
  rewrite (run_len_repeat 35 level ([sp] ++ e)) by (cbn; discriminate).
  replace (Nat.ltb level 1 || Nat.ltb 6 level) with false
    by (symmetry; apply orb_false_iff; split; apply Nat.ltb_ge; unfold level in *; lia).
  rewrite skipn_repeat_app. cbn [app]. change (is_sptab sp) with true. cbv iota.
  rewrite (trim_sp_clean e Hce Hene). unfold e. now rewrite strip_closing_escaped.
Qed.

(* what the repair b521cbc was made for *)
Example heading_hashes : read_atx (hashes 2 ++ [sp] ++ escape_closing_hashes [67; 32; 35]) = Some (2%nat, [67; 32; 92; 35]).
Proof. vm_compute. reflexivity. Qed.
Example heading_unescaped_would_lose : read_atx (hashes 2 ++ [sp] ++ [67; 32; 35]) = Some (2%nat, [67]).
Proof. vm_compute. reflexivity. Qed.
