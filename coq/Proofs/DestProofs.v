(* C01 / C04: a link destination and a link title written by the renderer are read back by a
   CommonMark reader (Model/InlineRead.v) as exactly the destination / title the parser handed over,
   for every title and for every destination without a line ending or a bare ASCII control
   character.  (The parser hands both over with backslash escapes removed; the renderer puts back
   the escapes that are needed: fix commit "link destinations and titles keep their backslashes".) *)
From Coq Require Import List NArith ZArith Bool Arith Lia.
Import ListNotations.
From Base Require Import PyStr.
From Model Require Import Render InlineRead.
Local Open Scope N_scope.

Definition next_punct (r : str) : bool := match r with d :: _ => is_ascii_punct d | [] => true end.

(* the escaped spelling: backslashes doubled where they would read as an escape, a backslash
   before each special character *)
Fixpoint esc (special : N -> bool) (s : str) : str :=
  match s with
  | [] => []
  | c :: r =>
      if c =? 92 then (if next_punct r then [92; 92] else [92]) ++ esc special r
      else if special c then 92 :: c :: esc special r
      else c :: esc special r
  end.

Lemma esc_none s : escape_backslashes s = esc (fun _ => false) s.
Proof.
  induction s as [|c r IH]; [reflexivity|]. cbn [escape_backslashes esc]. fold (next_punct r).
  destruct (N.eqb_spec c 92) as [->|_]; cbn [andb]; [destruct (next_punct r)|]; cbn [app]; now rewrite IH.
Qed.

(* ---- str.replace of a single character is a character-wise map ---- *)
Definition rep1 (x : N) (new : str) (c : N) : str := if c =? x then new else [c].

Lemma replace_aux_single x new : forall fuel s, (length s <= fuel)%nat ->
  replace_aux fuel [x] new s = flat_map (rep1 x new) s.
Proof.
  induction fuel as [|fuel IH]; intros s H.
  - destruct s; [reflexivity|cbn in H; lia].
  - destruct s as [|c s']; [reflexivity|]. cbn [replace_aux drop_prefix flat_map]. unfold rep1 at 1.
    rewrite N.eqb_sym. destruct (c =? x) eqn:E.
    + cbn [drop_prefix]. rewrite IH by (cbn in H; lia). reflexivity.
    + rewrite IH by (cbn in H; lia). reflexivity.
Qed.
Lemma str_replace_single x new s : str_replace [x] new s = flat_map (rep1 x new) s.
Proof. unfold str_replace. now apply replace_aux_single. Qed.

Lemma flat_esc x sp s : x <> 92 -> sp x = false ->
  flat_map (rep1 x [92; x]) (esc sp s) = esc (fun c => sp c || (c =? x)) s.
Proof.
  intros Hx Hs. apply N.eqb_neq in Hx.
  assert (R92 : rep1 x [92; x] 92 = [92]) by (unfold rep1; rewrite N.eqb_sym, Hx; reflexivity).
  induction s as [|c r IH]; [reflexivity|]. cbn [esc].
  destruct (c =? 92) eqn:E92.
  - destruct (next_punct r); cbn [app flat_map]; rewrite ?R92, IH; reflexivity.
  - destruct (sp c) eqn:Es; cbn [orb].
    + cbn [flat_map]. rewrite R92. unfold rep1 at 1.
      destruct (N.eqb_spec c x) as [->|_]; [congruence|]. rewrite IH. reflexivity.
    + destruct (c =? x) eqn:Ex.
      * apply N.eqb_eq in Ex. subst c. cbn [flat_map]. unfold rep1 at 1. rewrite N.eqb_refl. rewrite IH. reflexivity.
      * cbn [flat_map]. unfold rep1 at 1. rewrite Ex. rewrite IH. reflexivity.
Qed.

Lemma title_form t : normalize_title_quotes t = 34 :: esc (N.eqb 34) t ++ [34].
Proof.
  unfold normalize_title_quotes, dq, bsl. rewrite str_replace_single, esc_none.
  rewrite (flat_esc 34 (fun _ => false) t) by (discriminate || reflexivity).
  cbn [app orb]. f_equal. f_equal.
  clear. induction t as [|c r IH]; [reflexivity|]. cbn [esc]. rewrite IH. rewrite (N.eqb_sym c 34). reflexivity.
Qed.

Definition angle (c : N) : bool := (c =? 60) || (c =? 62).
Lemma pointy_form d :
  str_replace [62] [bsl; 62] (str_replace [60] [bsl; 60] (escape_backslashes d)) = esc angle d.
Proof.
  unfold bsl. rewrite !str_replace_single, esc_none.
  rewrite (flat_esc 60 (fun _ => false) d) by (discriminate || reflexivity).
  rewrite (flat_esc 62 _ d) by (discriminate || reflexivity).
  reflexivity.
Qed.

(* ---- reading an escaped spelling back ---- *)
Lemma read_esc stop forbid sp :
  (forall c, stop c = true -> sp c = true) -> (forall c, sp c = true -> is_ascii_punct c = true) ->
  sp 92 = false -> forbid 92 = false ->
  forall t acc stopc tail, stop stopc = true -> (forall c, In c t -> forbid c = true -> sp c = true) ->
  read_quoted stop forbid (esc sp t ++ stopc :: tail) acc = Some (rev acc ++ t, tail).
Proof.
  intros Hstop Hsp H92 Hf92.
  assert (S92 : stop 92 = false) by (destruct (stop 92) eqn:E; [apply Hstop in E; congruence|reflexivity]).
  induction t as [|c r IH]; intros acc stopc tail Hs Hin.
  - cbn [esc app read_quoted]. rewrite Hs. now rewrite app_nil_r.
  - assert (Hin' : forall c0, In c0 r -> forbid c0 = true -> sp c0 = true) by (intros c0 H0; apply Hin; now right).
    cbn [esc]. destruct (c =? 92) eqn:E92.
    + apply N.eqb_eq in E92. subst c. destruct (next_punct r) eqn:Enp.
      * cbn [app read_quoted]. rewrite S92, Hf92. cbn [N.eqb Pos.eqb]. change (is_ascii_punct 92) with true. cbv iota.
        rewrite IH by assumption. cbn [rev]. now rewrite <- app_assoc.
      * destruct r as [|d0 r1]; [discriminate|]. cbn [next_punct] in Enp.
        assert (Ed0 : d0 =? 92 = false).
        { destruct (N.eqb_spec d0 92) as [->|_]; [|reflexivity]. vm_compute in Enp. discriminate. }
        assert (Esd0 : sp d0 = false) by (destruct (sp d0) eqn:E; [apply Hsp in E; congruence|reflexivity]).
        pose proof (IH (92 :: acc) stopc tail Hs Hin') as IH'.
        cbn [esc] in IH' |- *. rewrite Ed0, Esd0 in IH' |- *.
        cbn [app read_quoted]. rewrite S92, Hf92. cbn [N.eqb Pos.eqb]. cbn [app read_quoted] in IH'. rewrite Enp.
        rewrite IH'. cbn [rev]. now rewrite <- app_assoc.
    + destruct (sp c) eqn:Es.
      * cbn [app read_quoted]. rewrite S92, Hf92. cbn [N.eqb Pos.eqb]. rewrite (Hsp c Es).
        rewrite IH by assumption. cbn [rev]. now rewrite <- app_assoc.
      * cbn [app read_quoted].
        assert (Sc : stop c = false) by (destruct (stop c) eqn:E; [apply Hstop in E; congruence|reflexivity]).
        assert (Fc : forbid c = false).
        { destruct (forbid c) eqn:E; [|reflexivity]. rewrite (Hin c (or_introl eq_refl) E) in Es. discriminate. }
        rewrite Sc, Fc, E92. rewrite IH by assumption. cbn [rev]. now rewrite <- app_assoc.
Qed.

Theorem title_roundtrip t tail : read_title (normalize_title_quotes t ++ tail) = Some (t, tail).
Proof.
  rewrite title_form. cbn [app read_title]. rewrite <- app_assoc. cbn [app].
  rewrite (read_esc (N.eqb 34) (fun _ => false) (N.eqb 34)); try reflexivity; try discriminate.
  - auto.
  - intros c H. apply N.eqb_eq in H. now subst c.
Qed.

(* ---- bare destinations ---- *)
Fixpoint bal (d : str) (depth : nat) : bool :=
  match d with
  | [] => Nat.eqb depth 0
  | c :: r =>
      if c =? 40 then bal r (S depth)
      else if c =? 41 then match depth with O => false | S k => bal r k end
      else bal r depth
  end.

Lemma scan_false d : forall z, snd (parens_scan d z false) = false.
Proof.
  induction d as [|c r IH]; intros z; [reflexivity|]. cbn [parens_scan].
  destruct (c =? 40); [apply IH|]. destruct (c =? 41); [|apply IH]. cbn [andb]. apply IH.
Qed.

Lemma scan_bal d : forall n, parens_scan d (Z.of_nat n) true = (0%Z, true) -> bal d n = true.
Proof.
  induction d as [|c r IH]; intros n H.
  - cbn in H. injection H as H. destruct n; [reflexivity|lia].
  - cbn [parens_scan bal] in *. destruct (c =? 40).
    + apply IH. rewrite Nat2Z.inj_succ. now replace (Z.succ (Z.of_nat n)) with (Z.of_nat n + 1)%Z by lia.
    + destruct (c =? 41); [|now apply IH].
      destruct n as [|k].
      * exfalso. cbn in H. pose proof (scan_false r (-1)%Z) as F. rewrite H in F. discriminate.
      * apply IH. replace (Z.of_nat (S k) - 1)%Z with (Z.of_nat k) in H by lia.
        replace (Z.of_nat k <? 0)%Z with false in H by (symmetry; apply Z.ltb_ge; lia). exact H.
Qed.

Lemma parens_bal d : parens_balanced d = true -> bal d 0 = true.
Proof.
  unfold parens_balanced. destruct (parens_scan d 0 true) as [z ok] eqn:E. intros H.
  apply andb_true_iff in H as [Hz Hok]. apply Z.eqb_eq in Hz. subst z ok. now apply (scan_bal d 0).
Qed.

Definition nosp : N -> bool := fun _ => false.
Definition tail_ok (tail : str) : Prop := match tail with [] => True | c :: _ => c = 41 \/ c = 32 end.
Definition plain_char (c : N) : Prop := c <> 32 /\ is_ctl c = false.

Lemma read_bare_esc d : forall depth acc tail, bal d depth = true -> (forall c, In c d -> plain_char c) ->
  tail_ok tail -> read_bare (esc nosp d ++ tail) depth acc = Some (rev acc ++ d, tail).
Proof.
  unfold nosp. induction d as [|c r IH]; intros depth acc tail Hb Hp Ht.
  - cbn [bal] in Hb. apply Nat.eqb_eq in Hb. subst depth. cbn [esc app]. rewrite app_nil_r.
    destruct tail as [|t0 tl]; [reflexivity|]. destruct Ht as [-> | ->]; reflexivity.
  - assert (Hp' : forall c0, In c0 r -> plain_char c0) by (intros c0 H0; apply Hp; now right).
    destruct (Hp c (or_introl eq_refl)) as [H32 Hctl]. apply N.eqb_neq in H32.
    cbn [esc]. destruct (c =? 92) eqn:E92.
    + apply N.eqb_eq in E92. subst c. cbn [bal] in Hb. change (92 =? 40) with false in Hb. change (92 =? 41) with false in Hb. cbv iota in Hb.
      destruct (next_punct r) eqn:Enp.
      * cbn [app read_bare]. change ((92 =? 32) || is_ctl 92) with false. change (92 =? 40) with false. change (92 =? 41) with false.
        change (92 =? 92) with true. change (is_ascii_punct 92) with true. cbv iota.
        rewrite IH by assumption. cbn [rev]. now rewrite <- app_assoc.
      * destruct r as [|d0 r1]; [discriminate|]. cbn [next_punct] in Enp.
        assert (Ed0 : d0 =? 92 = false).
        { destruct (N.eqb_spec d0 92) as [->|_]; [|reflexivity]. vm_compute in Enp. discriminate. }
        pose proof (IH depth (92 :: acc) tail Hb Hp' Ht) as IH'.
        cbn [esc] in IH' |- *. rewrite Ed0 in IH' |- *.
        cbn [app read_bare]. change ((92 =? 32) || is_ctl 92) with false. change (92 =? 40) with false. change (92 =? 41) with false.
        change (92 =? 92) with true. cbv iota. cbn [app read_bare] in IH'. rewrite Enp.
        rewrite IH'. cbn [rev]. now rewrite <- app_assoc.
    + cbn [app read_bare bal] in *. rewrite H32, Hctl. cbn [orb].
      destruct (c =? 40) eqn:E40.
      * apply N.eqb_eq in E40. subst c. rewrite IH by assumption. cbn [rev]. now rewrite <- app_assoc.
      * destruct (c =? 41) eqn:E41.
        -- apply N.eqb_eq in E41. subst c. destruct depth as [|k]; [discriminate|].
           rewrite IH by assumption. cbn [rev]. now rewrite <- app_assoc.
        -- rewrite E92. rewrite IH by assumption. cbn [rev]. now rewrite <- app_assoc.
Qed.

Lemma is_space_32 : is_space 32 = true. Proof. vm_compute. reflexivity. Qed.

(* the destinations for which the statement is made: no line ending, and no ASCII control character
   unless it counts as whitespace (such a destination is written in the <...> form) *)
Definition dest_ok (d : str) : Prop :=
  forall c, In c d -> c <> 10 /\ c <> 13 /\ (is_ctl c = true -> is_space c = true).

Theorem destination_roundtrip d tail : dest_ok d -> tail_ok tail ->
  read_destination (link_destination d ++ tail) = Some (d, tail).
Proof.
  intros Hd Ht. unfold link_destination. cbv zeta.
  destruct (is_nil d || existsb is_space d || negb (parens_balanced d)) eqn:Ecase.
  - (* <...> *)
    rewrite pointy_form. cbn [app read_destination]. rewrite <- app_assoc. cbn [app]. unfold read_pointy.
    rewrite (read_esc (N.eqb 62) _ angle); try reflexivity.
    + intros c H. apply N.eqb_eq in H. now subst c.
    + intros c H. unfold angle in H. apply orb_true_iff in H as [H|H]; apply N.eqb_eq in H; now subst c.
    + intros c Hin H. destruct (Hd c Hin) as [H10 [H13 _]]. apply N.eqb_neq in H10, H13.
      rewrite H10, H13, !orb_false_r in H. unfold angle. now rewrite H.
  - (* bare *)
    apply orb_false_iff in Ecase as [Ecase Eb]. apply orb_false_iff in Ecase as [En Es].
    apply negb_false_iff in Eb. apply parens_bal in Eb.
    assert (Hplain : forall c, In c d -> plain_char c).
    { intros c Hin. assert (Hsc : is_space c = false).
      { destruct (is_space c) eqn:E; [|reflexivity]. exfalso.
        assert (X : existsb is_space d = true) by (apply existsb_exists; now exists c). congruence. }
      split.
      - intros ->. rewrite is_space_32 in Hsc. discriminate.
      - destruct (is_ctl c) eqn:E; [|reflexivity]. destruct (Hd c Hin) as [_ [_ H]]. rewrite (H E) in Hsc. discriminate. }
    destruct d as [|c0 r]; [discriminate|]. rewrite esc_none.
    destruct (N.eqb_spec c0 60) as [->|N60].
    + (* a leading '<' gets a backslash *)
      cbn [esc]. change (60 =? 92) with false. unfold nosp. cbv iota.
      unfold bsl. cbn [app read_destination read_bare].
      change ((92 =? 32) || is_ctl 92) with false. change (92 =? 40) with false. change (92 =? 41) with false.
      change (92 =? 92) with true. change (is_ascii_punct 60) with true. cbv iota.
      cbn [bal] in Eb. change (60 =? 40) with false in Eb. change (60 =? 41) with false in Eb. cbv iota in Eb.
      fold nosp. rewrite (read_bare_esc r 0 [60] tail Eb); [reflexivity| |exact Ht].
      intros c Hin. apply Hplain. now right.
    + assert (Ehead : exists h t, esc (fun _ => false) (c0 :: r) = h :: t /\ h <> 60).
      { cbn [esc]. destruct (c0 =? 92) eqn:E92.
        - apply N.eqb_eq in E92. destruct (next_punct r); cbn [app]; eexists; eexists; (split; [reflexivity|discriminate]).
        - eexists; eexists; (split; [reflexivity|exact N60]). }
      destruct Ehead as [h [t [Ee Hh]]].
      pose proof (read_bare_esc (c0 :: r) 0 [] tail Eb Hplain Ht) as R. unfold nosp in R. rewrite Ee in R |- *.
      cbn [app] in R |- *. unfold read_destination.
      destruct h as [|p]. { cbv beta iota. cbn [app]. cbv beta iota. rewrite R; reflexivity. }
      destruct (N.eqb_spec (N.pos p) 60) as [E|_]; [congruence|].
      assert (Hm : forall (A : Type) (X Y : A), match N.pos p with 60 => X | _ => Y end = Y).
      { intros A X Y. repeat (destruct p as [p|p|]; try reflexivity; try congruence). }
      cbv beta iota. rewrite Hm. cbn [app]. cbv beta iota. rewrite Hm, R. reflexivity.
Qed.

(* the hypotheses are met by ordinary destinations, and the cases the repair was made for *)
Example dest_plain : read_destination (link_destination [97; 40; 98; 41] ++ [41]) = Some ([97; 40; 98; 41], [41]).
Proof. vm_compute. reflexivity. Qed.
Example dest_backslash_star : link_destination [97; 92; 42; 98] = [97; 92; 92; 42; 98].   (* a\*b  ->  a\\*b *)
Proof. vm_compute. reflexivity. Qed.
Example dest_angle : link_destination [97; 62; 32; 98] = [60; 97; 92; 62; 32; 98; 62].       (* "a> b" -> <a\> b> *)
Proof. vm_compute. reflexivity. Qed.

(* ---- the escapes the renderer writes are exactly undone by the parser's escape removal ---- *)
Theorem strip_escape_backslashes s : strip_backslash (escape_backslashes s) = s.
Proof.
  rewrite esc_none. induction s as [|c r IH]; [reflexivity|].
  cbn [esc]. destruct (c =? 92) eqn:E92.
  - apply N.eqb_eq in E92. subst c. destruct (next_punct r) eqn:Enp.
    + cbn [app strip_backslash]. change (92 =? 92) with true. change (is_ascii_punct 92) with true. cbv iota.
      now rewrite IH.
    + destruct r as [|d0 r1]; [discriminate|]. cbn [next_punct] in Enp.
      assert (Ed0 : d0 =? 92 = false).
      { destruct (N.eqb_spec d0 92) as [->|_]; [|reflexivity]. vm_compute in Enp. discriminate. }
      cbn [esc] in IH |- *. rewrite Ed0 in IH |- *. cbn [app strip_backslash] in IH |- *.
      change (92 =? 92) with true. cbv iota. rewrite Enp. rewrite Ed0 in IH |- *. now rewrite IH.
  - cbn [strip_backslash]. rewrite E92. now rewrite IH.
Qed.

(* the variant used for the language word of a fence (a final backslash stays single: a space or the end of
   the line follows it) is undone as well *)
Lemma strip_bs_keep d0 t : is_ascii_punct d0 = false -> strip_backslash (92 :: d0 :: t) = 92 :: strip_backslash (d0 :: t).
Proof. intros H. cbn [strip_backslash]. change (92 =? 92) with true. cbv iota. now rewrite H. Qed.

Theorem strip_escape_backslashes_inner s : strip_backslash (escape_backslashes_inner s) = s.
Proof.
  induction s as [|c r IH]; [reflexivity|].
  cbn [escape_backslashes_inner]. destruct (c =? 92) eqn:E92.
  - apply N.eqb_eq in E92. subst c. destruct r as [|d0 r1]; [reflexivity|].
    cbn [andb]. destruct (is_ascii_punct d0) eqn:Ep.
    + cbn [strip_backslash]. change (92 =? 92) with true. change (is_ascii_punct 92) with true. cbv iota. now rewrite IH.
    + assert (Ed0 : d0 =? 92 = false).
      { destruct (N.eqb_spec d0 92) as [->|_]; [|reflexivity]. vm_compute in Ep. discriminate. }
      (* the written text is  \ d0 ...  with d0 not punctuation: the backslash is kept, the rest is read on *)
      assert (Hhead : exists t, escape_backslashes_inner (d0 :: r1) = d0 :: t).
      { cbn [escape_backslashes_inner]. rewrite Ed0. cbn [andb]. eexists. reflexivity. }
      destruct Hhead as [t Et]. rewrite Et in IH |- *.
      rewrite (strip_bs_keep d0 t Ep). now rewrite IH.
  - cbn [andb strip_backslash]. rewrite E92. now rewrite IH.
Qed.
