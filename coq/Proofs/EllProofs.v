(* C09: the ellipsis rewrite is confined to matches of ELLIPSIS_PATTERN, each of which is
   prefix-char, spaces, three dots, optional punctuation, spaces; only the dots and the two
   space runs change. *)
From Coq Require Import List NArith Bool Arith Lia.
Import ListNotations.
From Base Require Import PyStr Regex.
From Gen Require Import Regexes.
From Model Require Import Tags Typography.
From Proofs Require Import RegexFacts RegexSem TypoProofs.
Local Open Scope N_scope.

Definition dots3 : str := [46; 46; 46].

Definition ell_parts (r : regex) : option (regex * regex * regex * regex) :=
  match r with
  | RCat (RGroup 1 a) (RCat (RGroup 2 b)
      (RCat (RGroup 3 (RCat (RLit 46) (RCat (RLit 46) (RLit 46)))) (RCat (RGroup 4 d) (RGroup 5 e)))) =>
      Some (a, b, d, e)
  | _ => None
  end.

Definition ws_star (r : regex) : bool :=
  match r with
  | RRep _ _ _ (RIn false [ICat false CSpace]) => true
  | _ => false
  end.

Definition ell_shape (r : regex) : bool :=
  match ell_parts r with
  | Some (a, b, d, e) => no_groups a && no_groups d && ws_star b && ws_star e
  | None => false
  end.

Lemma ell_parts_eq r a b d e : ell_parts r = Some (a, b, d, e) ->
  r = RCat (RGroup 1 a) (RCat (RGroup 2 b)
        (RCat (RGroup 3 (RCat (RLit 46) (RCat (RLit 46) (RLit 46)))) (RCat (RGroup 4 d) (RGroup 5 e)))).
Proof.
  unfold ell_parts.
  repeat match goal with
  | |- match ?x with _ => _ end = _ -> _ => destruct x; try discriminate
  end.
  intros [= <- <- <- <-]. reflexivity.
Qed.

Lemma ws_star_no_groups r : ws_star r = true -> no_groups r = true.
Proof.
  unfold ws_star. destruct r; try discriminate. destruct r; try discriminate. reflexivity.
Qed.

(* a repetition of the whitespace class consumes only whitespace *)
Lemma rep_space_text r0 : forall st st', MatchesRep r0 st st' ->
  r0 = RIn false [ICat false CSpace] ->
  exists t, adv t st st' /\ forallb is_space t = true.
Proof.
  induction 1 as [r st|r st st1 st2 M1 _ IH]; intros E.
  - exists []. split; [apply adv_refl|reflexivity].
  - subst r. destruct (IH eq_refl) as [t2 [A2 W2]].
    inversion M1 as [? ? ? ? ? Hc Hr Hp| | | | | | | | | | |]; subst.
    cbn in Hc. injection Hc as <-.
    assert (Hs : is_space c = true).
    { unfold in_items, in_item, in_cat in Hp. cbn [existsb xorb] in Hp. rewrite orb_false_r in Hp. destruct (is_space c); [reflexivity|discriminate]. }
    exists (c :: t2). split.
    + change (c :: t2) with ([c] ++ t2). eapply adv_trans; [|exact A2]. split; [assumption|cbn; lia].
    + cbn. now rewrite Hs, W2.
Qed.

Lemma ws_star_eq r : ws_star r = true ->
  exists mn mx g, r = RRep mn mx g (RIn false [ICat false CSpace]).
Proof.
  unfold ws_star.
  repeat match goal with
  | |- match ?x with _ => _ end = _ -> _ => destruct x; try discriminate
  end.
  intros _. eauto.
Qed.

Lemma ws_star_text r st st' : ws_star r = true -> Matches r st st' ->
  exists t, adv t st st' /\ forallb is_space t = true.
Proof.
  intros W M. destruct (ws_star_eq r W) as [mn [mx [g ->]]].
  inversion M as [? ? ? ? ? Hc| | | | |? ? ? ? ? ? MR| | | | | |]; subst; [cbn in Hc; discriminate|].
  eapply rep_space_text; eauto.
Qed.

Lemma group_capture_text i r st st1 t : no_groups r = true -> Matches (RGroup i r) st st1 ->
  (i < length (caps st))%nat -> adv t st st1 ->
  cap_of st1 i = Some (pos st, t) /\ (forall j, j <> i -> cap_of st1 j = cap_of st j) /\
  length (caps st1) = length (caps st).
Proof.
  intros N M L A. destruct (group_capture i r st st1 N M L) as [t' [A' [K [O Ln]]]].
  assert (t = t') by (rewrite (adv_text _ _ _ A), (adv_text _ _ _ A'); reflexivity). subst. auto.
Qed.

Lemma ell_match r st0 st1 : ell_shape r = true -> Matches r st0 st1 -> (6 <= length (caps st0))%nat ->
  exists g1 g2 g4 g5,
    adv (g1 ++ g2 ++ dots3 ++ g4 ++ g5) st0 st1 /\
    forallb is_space g2 = true /\ forallb is_space g5 = true /\
    (exists s, cap_of st1 1%nat = Some (s, g1)) /\ (exists s, cap_of st1 2%nat = Some (s, g2)) /\
    (exists s, cap_of st1 4%nat = Some (s, g4)) /\ (exists s, cap_of st1 5%nat = Some (s, g5)).
Proof.
  intros S M L. unfold ell_shape in S.
  destruct (ell_parts r) as [[[[a b] d] e]|] eqn:EP; [|discriminate].
  apply ell_parts_eq in EP. subst r.
  apply andb_true_iff in S as [S We]. apply andb_true_iff in S as [S Wb]. apply andb_true_iff in S as [Na Nd].
  pose proof (ws_star_no_groups _ Wb) as Nb. pose proof (ws_star_no_groups _ We) as Ne.
  inversion M as [| |? ? ? s1 ? M1 MX1| | | | | | | | |]; subst; [cbn in *; discriminate|].
  inversion MX1 as [| |? ? ? s2 ? M2 MX2| | | | | | | | |]; subst; [cbn in *; discriminate|].
  inversion MX2 as [| |? ? ? s3 ? M3 MX3| | | | | | | | |]; subst; [cbn in *; discriminate|].
  inversion MX3 as [| |? ? ? s4 ? M4 M5| | | | | | | | |]; subst; [cbn in *; discriminate|].
  destruct (group_capture _ _ _ _ Na M1 ltac:(lia)) as [g1 [A1 [K1 [O1 L1]]]].
  (* group 2: whitespace *)
  assert (I2 : exists inner, Matches b s1 inner /\ s2 = set_cap 2 s1 inner).
  { inversion M2 as [? ? ? ? ? Hc| | | | | |? ? ? inner Hin| | | | |]; subst; [cbn in Hc; discriminate|eauto]. }
  destruct I2 as [in2 [Mb E2]].
  destruct (ws_star_text _ _ _ Wb Mb) as [g2 [A2i W2]].
  assert (A2 : adv g2 s1 s2) by (subst s2; now apply adv_set_cap).
  destruct (group_capture_text _ _ _ _ g2 Nb M2 ltac:(lia) A2) as [K2 [O2 L2]].
  (* group 3: the dots *)
  assert (N3 : no_groups (RCat (RLit 46) (RCat (RLit 46) (RLit 46))) = true) by reflexivity.
  destruct (group_capture _ _ _ _ N3 M3 ltac:(lia)) as [g3 [A3 [K3 [O3 L3]]]].
  assert (E3 : g3 = dots3).
  { clear E2. inversion M3 as [? ? ? ? ? Hc| | | | | |? ? ? inner Hin| | | | |]; subst; [cbn in Hc; discriminate|].
    inversion Hin as [| |? ? ? q1 ? D1 R1| | | | | | | | |]; subst; [cbn in *; discriminate|].
    inversion R1 as [| |? ? ? q2 ? D2 D3| | | | | | | | |]; subst; [cbn in *; discriminate|].
    destruct (lit_match _ _ _ D1) as [B1 _]. destruct (lit_match _ _ _ D2) as [B2 _]. destruct (lit_match _ _ _ D3) as [B3 _].
    assert (B : adv dots3 s2 inner) by (eapply (adv_trans [46] [46;46]); [exact B1|eapply (adv_trans [46] [46]); eauto]).
    assert (B' : adv dots3 s2 (set_cap 3 s2 inner)) by now apply adv_set_cap.
    rewrite (adv_text _ _ _ A3), (adv_text _ _ _ B'). reflexivity. }
  subst g3.
  destruct (group_capture _ _ _ _ Nd M4 ltac:(lia)) as [g4 [A4 [K4 [O4 L4]]]].
  assert (I5 : exists inner, Matches e s4 inner /\ st1 = set_cap 5 s4 inner).
  { inversion M5 as [? ? ? ? ? Hc| | | | | |? ? ? inner Hin| | | | |]; subst; [cbn in Hc; discriminate|eauto]. }
  destruct I5 as [in5 [Me E5]].
  destruct (ws_star_text _ _ _ We Me) as [g5 [A5i W5]].
  assert (A5 : adv g5 s4 st1) by (subst st1; now apply adv_set_cap).
  destruct (group_capture_text _ _ _ _ g5 Ne M5 ltac:(lia) A5) as [K5 [O5 L5]].
  exists g1, g2, g4, g5. split; [|split; [exact W2|split; [exact W5|]]].
  - eapply adv_trans; [exact A1|]. eapply adv_trans; [exact A2|]. eapply adv_trans; [exact A3|].
    eapply adv_trans; [exact A4|exact A5].
  - repeat split.
    + exists (pos st0). rewrite O5, O4, O3, O2 by lia. exact K1.
    + exists (pos s1). rewrite O5, O4, O3 by lia. exact K2.
    + exists (pos s3). rewrite O5 by lia. exact K4.
    + eexists. exact K5.
Qed.

(* what one replacement may look like *)
Definition ell_rel (t r : str) : Prop :=
  r = t \/
  exists g1 g2 g4 g5 g2' g5',
    t = g1 ++ g2 ++ dots3 ++ g4 ++ g5 /\ r = g1 ++ g2' ++ [ellipsis_ch] ++ g4 ++ g5' /\
    forallb is_space g2 = true /\ forallb is_space g5 = true /\
    (g2' = g2 \/ g2' = [sp]) /\ (g5' = g5 \/ g5' = [sp]).

Definition ell_cert : bool := ell_shape (p_re re_ellipsis) && Nat.leb 6 (p_ngroups re_ellipsis).

Lemma ellipsis_repl_rel spans st0 st1 : ell_cert = true ->
  Matches (p_re re_ellipsis) (with_caps st0 (repeat None (p_ngroups re_ellipsis))) st1 ->
  exists r, ellipsis_repl spans (mk_match st0 st1) = inl r /\ ell_rel (m_text (mk_match st0 st1)) r.
Proof.
  intros C MM. unfold ell_cert in C. apply andb_true_iff in C as [S N6]. apply Nat.leb_le in N6.
  destruct (ell_match _ _ _ S MM) as [g1 [g2 [g4 [g5 [A [W2 [W5 [[s1 K1] [[s2 K2] [[s4 K4] [s5 K5]]]]]]]]]]].
  { unfold with_caps. cbn [caps]. now rewrite repeat_length. }
  assert (A' : adv (g1 ++ g2 ++ dots3 ++ g4 ++ g5) st0 st1) by (destruct A as [A1 A2]; split; assumption).
  destruct (mk_match_text _ _ _ A') as [T _].
  unfold ellipsis_repl. cbv zeta.
  match goal with |- exists r, (if ?c then _ else _) = _ /\ _ => destruct c end;
    [eexists; split; [reflexivity|now left]|].
  rewrite !mk_match_group by lia. rewrite K1, K2, K4, K5, T.
  match goal with |- exists r, (if ?c then _ else _) = _ /\ _ => destruct c end.
  - eexists. split; [reflexivity|]. now left.
  - eexists. split; [reflexivity|]. right.
    match goal with |- context [((_ ++ ?X) ++ _ ++ _) ++ ?Y] => exists g1, g2, g4, g5, X, Y end.
    split; [reflexivity|]. split; [now rewrite <- !app_assoc|].
    split; [exact W2|]. split; [exact W5|]. split.
    + destruct (negb (is_nil g1) && is_word g1 && is_nil g2); auto.
    + match goal with |- (if ?c then _ else _) = _ \/ _ => destruct c end; auto.
Qed.

(* C09.1 confinement *)
Theorem ellipses_confined text : ell_cert = true ->
  exists out gaps ts rs tl,
    ellipses text = inl out /\
    length gaps = length ts /\ length rs = length ts /\
    text = concat (map (fun gt => fst gt ++ snd gt) (combine gaps ts)) ++ tl /\
    out = concat (map (fun gt => fst gt ++ snd gt) (combine gaps rs)) ++ tl /\
    Forall2 ell_rel ts rs.
Proof.
  intros C. unfold ellipses, re_subM. cbv zeta.
  destruct (finditer_t_decomp re_ellipsis text) as [D FA].
  set (dec := finditer_t re_ellipsis text) in *.
  assert (G : exists rs, length rs = length (fst dec) /\
     mapM (fun gm => r <- ellipsis_repl (tag_spans text) (snd gm) ;; ret (fst gm ++ r)) (fst dec) =
       inl (map (fun gt => fst gt ++ snd gt) (combine (map fst (fst dec)) rs)) /\
     Forall2 ell_rel (map (fun gm => m_text (snd gm)) (fst dec)) rs).
  { clear D. induction FA as [|gap st0 st1 l MM FA [rs [L [E F]]]].
    - exists []. repeat split; constructor.
    - destruct (ellipsis_repl_rel (tag_spans text) st0 st1 C MM) as [r [Hr Rr]].
      exists (r :: rs). cbn [length map fst snd combine]. split; [now rewrite L|]. split.
      + cbn [mapM fst snd]. unfold bind. rewrite Hr. unfold bind in E. rewrite E. reflexivity.
      + constructor; assumption. }
  destruct G as [rs [L [E F]]].
  exists (concat (map (fun gt => fst gt ++ snd gt) (combine (map fst (fst dec)) rs)) ++ snd dec),
         (map fst (fst dec)), (map (fun gm => m_text (snd gm)) (fst dec)), rs, (snd dec).
  split; [unfold bind in *; now rewrite E|]. split; [now rewrite !map_length|]. split; [now rewrite map_length|].
  split; [|split; [reflexivity|exact F]].
  rewrite <- D at 1. f_equal. f_equal.
  clear. induction (fst dec) as [|x l IH]; [reflexivity|]. cbn. now rewrite IH.
Qed.
