(* C01, line-start escaping: a specification of the words that open a block when they stand at
   the start of a line (CommonMark: bullet and ordered list markers, ATX headings, block quotes,
   code fences, thematic breaks and setext underlines), and the proof that the escaped form of
   ANY word is not such a word, hence that no line produced by wrapping, other than the first,
   begins with one. *)
From Coq Require Import List NArith ZArith Bool Lia.
Import ListNotations.
From Base Require Import PyStr.
From Model Require Import Wrap BlockStart.
From Proofs Require Import PyStrFacts WrapProofs.
Local Open Scope N_scope.

Lemma all_ch_single c w : str_eqb w [c] = true -> all_ch c w = true.
Proof. intros H. apply str_eqb_eq in H. subst w. unfold all_ch. cbn. now rewrite N.eqb_refl. Qed.

(* a word that starts with a backslash opens nothing *)
Lemma bsl_head_safe w : opens_block_word (bsl :: w) = false.
Proof.
  unfold opens_block_word, bsl.
  assert (O : ordered_marker (92 :: w) = false).
  { unfold ordered_marker. cbn [rev]. destruct (rev w) as [|c ds]; [reflexivity|].
    cbn [app]. rewrite forallb_app. cbn. now rewrite !andb_false_r. }
  rewrite O. cbn. reflexivity.
Qed.

Lemma digit_facts d : is_ascii_digit d = true ->
  (d =? 45) = false /\ (d =? 43) = false /\ (d =? 42) = false /\ (d =? 35) = false /\ (d =? 62) = false /\
  (d =? 96) = false /\ (d =? 126) = false /\ (d =? 61) = false /\ (d =? 95) = false.
Proof.
  unfold is_ascii_digit. intros H. apply andb_true_iff in H as [H1 H2].
  apply N.leb_le in H1. apply N.leb_le in H2.
  repeat split; apply N.eqb_neq; lia.
Qed.

Lemma eqb_sym_false (a b : N) : (a =? b) = false -> (b =? a) = false.
Proof. rewrite N.eqb_sym. auto. Qed.

(* the escaped form of a numeral: digits, a backslash, the delimiter *)
Lemma numeral_escaped_safe r c : r <> [] -> forallb is_ascii_digit r = true ->
  opens_block_word (rev r ++ [bsl; c]) = false.
Proof.
  intros Hne Hd.
  assert (Hd' : forallb is_ascii_digit (rev r) = true).
  { apply forallb_forall. intros x Hx. apply in_rev in Hx. rewrite forallb_forall in Hd. auto. }
  destruct (rev r) as [|d t] eqn:E.
  { apply (f_equal (@rev N)) in E. rewrite rev_involutive in E. cbn in E. congruence. }
  cbn [forallb] in Hd'. apply andb_true_iff in Hd' as [Hdd _].
  destruct (digit_facts d Hdd) as [A1 [A2 [A3 [A4 [A5 [A6 [A7 [A8 A9]]]]]]]].
  assert (O : ordered_marker ((d :: t) ++ [bsl; c]) = false).
  { unfold ordered_marker. rewrite rev_app_distr. cbn [rev app]. unfold bsl. cbn. now rewrite !andb_false_r. }
  unfold opens_block_word. cbn [app]. rewrite <- app_comm_cons in O. rewrite O.
  unfold all_ch. cbn [str_eqb forallb run_len startswith].
  rewrite A1, A2, A3, A5, A6.
  rewrite (eqb_sym_false _ _ A4), (eqb_sym_false _ _ A1), (eqb_sym_false _ _ A8), (eqb_sym_false _ _ A3), (eqb_sym_false _ _ A9).
  rewrite (eqb_sym_false _ _ A7).
  cbn. reflexivity.
Qed.

(* `$` adds nothing for a word without whitespace *)
Lemma dollar_nows core w : nows w -> dollar core w = core w.
Proof.
  intros H. unfold dollar. destruct (rev w) as [|c r] eqn:E; [now rewrite orb_false_r|].
  destruct (N.eqb_spec c 10) as [->|Hc].
  - exfalso. assert (Hr : nows (rev w)) by now apply nows_rev. rewrite E in Hr.
    apply nows_cons in Hr as [Hs _]. vm_compute in Hs. discriminate.
  - destruct c as [|p]; [now rewrite orb_false_r|].
    destruct p as [p|p|]; try now rewrite orb_false_r.
    destruct p as [p|p|]; try now rewrite orb_false_r.
    destruct p as [p|p|]; try now rewrite orb_false_r.
    destruct p as [p|p|]; try now rewrite orb_false_r.
    congruence.
Qed.

(* every opener word is matched by one of the two escape patterns *)
Lemma unmatched_safe w :
  numeral_core w = false -> specials_core w = false -> opens_block_word w = false.
Proof.
  intros Hn Hs. destruct w as [|c r]; [reflexivity|].
  unfold specials_core in Hs. unfold opens_block_word.
  repeat (apply orb_false_iff in Hs; destruct Hs as [Hs ?]).
  fold (all_ch 45 (c :: r)) in *. fold (all_ch 61 (c :: r)) in *. fold (all_ch 42 (c :: r)) in *.
  fold (all_ch 95 (c :: r)) in *. fold (all_ch 35 (c :: r)) in *.
  assert (B1 : str_eqb (c :: r) [45] = false).
  { destruct (str_eqb (c :: r) [45]) eqn:E; [|reflexivity]. apply all_ch_single in E. congruence. }
  assert (B3 : str_eqb (c :: r) [42] = false).
  { destruct (str_eqb (c :: r) [42]) eqn:E; [|reflexivity]. apply all_ch_single in E. congruence. }
  change (ordered_marker (c :: r)) with (numeral_core (c :: r)).
  rewrite B1, B3, Hn.
  repeat match goal with H : _ = false |- _ => rewrite H end.
  reflexivity.
Qed.

Theorem escape_word_never_opens w : nows w -> opens_block_word (escape_word w) = false.
Proof.
  intros Hw. unfold escape_word. rewrite !(dollar_nows _ _ Hw).
  destruct (numeral_core w) eqn:Hn.
  - unfold numeral_core in Hn. destruct (rev w) as [|c ds] eqn:E; [discriminate|].
    apply andb_true_iff in Hn as [Hn Hd]. apply andb_true_iff in Hn as [_ Hne].
    apply numeral_escaped_safe; [destruct ds; [discriminate|congruence]|exact Hd].
  - destruct (specials_core w) eqn:Hs; [|now apply unmatched_safe].
    destruct w as [|c r]; [discriminate|].
    destruct (forallb _ (c :: r)); [cbn [flat_map app]|]; apply bsl_head_safe.
Qed.

(* and every opener word is changed by escaping (nothing slips through unescaped) *)
Theorem opener_is_escaped w : nows w -> opens_block_word w = true -> escape_word w <> w.
Proof.
  intros Hw Ho E. pose proof (escape_word_never_opens w Hw) as H. rewrite E in H. congruence.
Qed.

(* line level: in Markdown mode every line after the first begins with a word that opens no block *)
Lemma esc_lines_nth esc md : forall Lo first i l,
  nth_error (esc_lines esc md first Lo) (S i) = Some l ->
  exists lo, nth_error Lo (S i) = Some lo /\ l = esc_head esc md lo.
Proof.
  induction Lo as [|x Lo IH]; intros first i l H; [discriminate|].
  cbn [esc_lines nth_error] in H. destruct Lo as [|y Lo']; [destruct i; discriminate|].
  destruct i as [|i].
  - cbn in H. injection H as <-. exists y. split; reflexivity.
  - destruct (IH false i l H) as [lo [H1 H2]]. exists lo. split; [exact H1|exact H2].
Qed.

Theorem wrapped_heads_safe ws width c0 c1 i l :
  Forall nows ws ->
  nth_error (wrap_words escape_word ws width c0 c1 true) (S i) = Some l ->
  exists h t, l = h :: t /\ opens_block_word h = false.
Proof.
  intros Hws Hn.
  destruct (wrap_lossless escape_word ws width c0 c1 true) as [Lo [H1 [H2 H3]]].
  rewrite H3 in Hn. apply esc_lines_nth in Hn as [lo [Hlo ->]].
  assert (Hin : In lo Lo) by (eapply nth_error_In; exact Hlo).
  rewrite Forall_forall in H2. specialize (H2 lo Hin).
  destruct lo as [|h0 t]; [congruence|].
  exists (escape_word h0), t. split; [reflexivity|].
  apply escape_word_never_opens.
  rewrite Forall_forall in Hws. apply Hws. rewrite <- H1. apply in_concat. exists (h0 :: t). split; [exact Hin|now left].
Qed.
