(* C01 / C04: a fenced code block written by the renderer (outside any container) is read back by a
   CommonMark reader (Model/BlockRead.v) with the same fence character, the same info string and
   exactly the same content lines, for EVERY content - including content that holds fence-like
   lines - and the reader stops exactly at the closing fence the renderer wrote. *)
From Coq Require Import List NArith Bool Arith Lia.
Import ListNotations.
From Base Require Import PyStr.
From Model Require Import Render BlockRead.
From Proofs Require Import WrapProofs RenderProofs SpacingProofs.
Local Open Scope N_scope.

Lemma run_len_repeat c n x : match x with d :: _ => d <> c | [] => True end -> run_len c (repeat c n ++ x) = n.
Proof.
  intros H. induction n as [|n IH]; cbn [repeat app run_len].
  - destruct x as [|d r]; [reflexivity|]. apply N.eqb_neq in H. cbn [run_len]. now rewrite H.
  - rewrite N.eqb_refl. now rewrite IH.
Qed.

Lemma run_len_other c d s : d <> c -> run_len c (d :: s) = O.
Proof. intros H. apply N.eqb_neq in H. cbn. now rewrite H. Qed.

Lemma skipn_repeat_app {A} (c : A) n x : skipn n (repeat c n ++ x) = x.
Proof. rewrite <- (repeat_length c n) at 1. apply skipn_len_app. Qed.

(* a content line whose fence-like run is shorter than the fence does not close the block *)
Lemma not_closes fc n l : (fence_run_at_line_start fc l < n)%nat -> (3 <= n)%nat -> closes fc n l = false.
Proof.
  unfold fence_run_at_line_start, closes. cbv zeta. intros H Hn.
  destruct (Nat.leb (run_len 32 l) 3) eqn:Ek; [|reflexivity].
  apply Nat.leb_le in Ek. rewrite Nat.min_l in H by exact Ek.
  destruct (Nat.leb n (run_len fc (skipn (run_len 32 l) l))) eqn:En; [|reflexivity].
  apply Nat.leb_le in En. exfalso.
  destruct (Nat.leb 3 (run_len fc (skipn (run_len 32 l) l))) eqn:E3.
  - lia.
  - apply Nat.leb_gt in E3. lia.
Qed.

Lemma closes_fence fc n : fc <> 32 -> closes fc n (repeat fc n) = true.
Proof.
  intros Hf. unfold closes. cbv zeta.
  assert (E : run_len 32 (repeat fc n) = O).
  { destruct n; [reflexivity|]. cbn [repeat]. now apply run_len_other. }
  rewrite E. cbn [skipn Nat.leb].
  pose proof (run_len_repeat fc n [] I) as R. rewrite app_nil_r in R. rewrite R.
  rewrite Nat.leb_refl. pose proof (skipn_repeat_app fc n []) as S0. rewrite app_nil_r in S0. rewrite S0. reflexivity.
Qed.

Lemma read_body_app fc n body c rest : forall acc,
  (forall l, In l body -> closes fc n l = false) -> closes fc n c = true ->
  read_body fc n 0 (body ++ c :: rest) acc = (rev acc ++ body, rest).
Proof.
  induction body as [|l body IH]; intros acc Hb Hc; cbn [app read_body].
  - rewrite Hc. now rewrite app_nil_r.
  - rewrite (Hb l (or_introl eq_refl)). replace (drop_spaces 0 l) with l by (destruct l; reflexivity).
    rewrite IH; [|intros l' H'; apply Hb; now right|exact Hc].
    cbn [rev]. now rewrite <- app_assoc.
Qed.

(* ---- the opening line ---- *)
Definition clean_ends (s : str) : Prop :=
  match s with c :: _ => is_sptab c = false | [] => True end /\
  match rev s with c :: _ => is_sptab c = false | [] => True end.

Lemma lstrip_chars_clean p s : match s with c :: _ => p c = false | [] => True end -> lstrip_chars p s = s.
Proof. destruct s as [|c r]; [reflexivity|]. intros H. cbn. now rewrite H. Qed.

Lemma trim_clean s : clean_ends s -> trim s = s.
Proof.
  intros [H1 H2]. unfold trim, rstrip_chars. rewrite (lstrip_chars_clean _ s H1).
  rewrite (lstrip_chars_clean _ (rev s) H2). apply rev_involutive.
Qed.

Definition info_sep (fc : N) (info : str) : str :=
  match info with c :: _ => if c =? fc then [sp] else [] | [] => [] end.

Definition info_ok (fc : N) (info : str) : Prop :=
  clean_ends info /\ (fc = 96 -> ~ In 96 info).

Lemma existsb_notin c s : ~ In c s -> existsb (N.eqb c) s = false.
Proof.
  intros H. induction s as [|x s IH]; [reflexivity|]. cbn.
  destruct (N.eqb_spec c x) as [->|_]; [exfalso; apply H; now left|]. apply IH. intros Hin. apply H. now right.
Qed.

Lemma read_open_fence fc n info : (fc = 96 \/ fc = 126) -> (3 <= n)%nat -> info_ok fc info ->
  read_open (repeat fc n ++ info_sep fc info ++ info) = Some (fc, n, O, info).
Proof.
  intros Hfc Hn [Hclean Hbq]. unfold read_open. cbv zeta.
  destruct n as [|n']; [lia|]. set (n := S n') in *.
  assert (Hf32 : fc <> 32) by (destruct Hfc; subst; discriminate).
  assert (E0 : run_len 32 (repeat fc n ++ info_sep fc info ++ info) = O).
  { unfold n. cbn [repeat app]. now apply run_len_other. }
  rewrite E0. change (Nat.ltb 3 0) with false. cbn [skipn].
  assert (Hhead : match info_sep fc info ++ info with d :: _ => d <> fc | [] => True end).
  { unfold info_sep. destruct info as [|c r]; [exact I|]. destruct (N.eqb_spec c fc); cbn; [intros E; apply Hf32; symmetry; exact E|assumption]. }
  unfold n at 1. cbn [repeat app]. fold (repeat fc n' ++ info_sep fc info ++ info).
  replace ((fc =? 96) || (fc =? 126)) with true by (destruct Hfc; subst; reflexivity).
  change (fc :: repeat fc n' ++ info_sep fc info ++ info) with (repeat fc n ++ info_sep fc info ++ info).
  rewrite (run_len_repeat fc n _ Hhead).
  replace (Nat.ltb n 3) with false by (symmetry; apply Nat.ltb_ge; lia).
  rewrite skipn_repeat_app.
  assert (Et : trim (info_sep fc info ++ info) = info).
  { unfold info_sep. destruct info as [|c r]; [reflexivity|]. destruct (c =? fc).
    - unfold trim. cbn [app lstrip_chars]. replace (is_sptab sp) with true by reflexivity.
      apply (trim_clean (c :: r) Hclean).
    - apply (trim_clean (c :: r) Hclean). }
  rewrite Et.
  destruct (N.eqb_spec fc 96) as [E96|N96].
  - rewrite existsb_notin by (now apply Hbq). reflexivity.
  - reflexivity.
Qed.

(* ---- lines level ---- *)
Theorem fenced_lines_roundtrip fc n info body rest :
  (fc = 96 \/ fc = 126) -> (3 <= n)%nat -> info_ok fc info ->
  (forall l, In l body -> (fence_run_at_line_start fc l < n)%nat) ->
  read_fenced ((repeat fc n ++ info_sep fc info ++ info) :: body ++ repeat fc n :: rest)
  = Some (Fenced fc n info body, rest).
Proof.
  intros Hfc Hn Hinfo Hbody. unfold read_fenced. rewrite read_open_fence by assumption.
  rewrite read_body_app.
  - reflexivity.
  - intros l Hl. apply not_closes; [now apply Hbody|exact Hn].
  - apply closes_fence. destruct Hfc; subst; discriminate.
Qed.

(* ---- the renderer's code block, outside containers ---- *)
(* the info string as written: the language word with the backslashes the parser removed put back
   (the parser hands [lang] over unescaped, [extra] as written) *)
Definition info_of (lang extra : str) : str :=
  match lang with [] => [] | _ => escape_backslashes_inner lang ++ match extra with [] => [] | _ => [sp] ++ extra end end.
Definition code_lines (content : str) : list str :=
  match content with
  | [] => []
  | _ => split_on nlc (match rev content with 10 :: r => rev r | _ => content end)
  end.
Definition fence_len (fc : N) (flen : nat) (content : str) : nat :=
  Nat.max flen (min_fence_length (match rev content with 10 :: r => rev r | _ => content end) fc).

Lemma map_body_id ls : map (fun l : str => match l with [] => rstrip [] | _ => [] ++ l end) ls = ls.
Proof. induction ls as [|l ls IH]; [reflexivity|]. cbn [map]. rewrite IH. now destruct l. Qed.

Theorem code_block_roundtrip lang extra fc flen content st rest :
  r_prefix st = [] -> r_prefix2 st = [] -> (fc = 96 \/ fc = 126) -> info_ok fc (info_of lang extra) ->
  exists lines,
    fst (render_code lang extra fc flen content st) = join [nlc] lines ++ [nlc] /\
    read_fenced (lines ++ rest)
    = Some (Fenced fc (fence_len fc flen content) (info_of lang extra) (code_lines content), rest).
Proof.
  intros Hp Hp2 Hfc Hinfo.
  exists ((repeat fc (fence_len fc flen content) ++ info_sep fc (info_of lang extra) ++ info_of lang extra)
          :: code_lines content ++ [repeat fc (fence_len fc flen content)]).
  split.
  - unfold render_code. cbv zeta. destruct st as [p p2 su sk cu ti]. cbn [r_prefix r_prefix2 set_skip] in *. subst p p2.
    cbn [fst]. rewrite map_body_id. reflexivity.
  - rewrite <- app_comm_cons, <- app_assoc. cbn [app].
    apply fenced_lines_roundtrip; try assumption.
    + unfold fence_len, min_fence_length. lia.
    + intros l Hl. unfold code_lines in Hl. destruct content as [|c0 r0]; [contradiction|].
      apply (fence_adequate _ fc flen l Hl).
Qed.

(* the hypotheses are met by ordinary and by hostile content *)
Example fence_in_content :
  read_fenced (split_on nlc (join [nlc]
     [[96;96;96;112;121]; [96;96;96]; [120]; [96;96;96;96]]))        (* ```py / ``` / x / ```` : not what the renderer writes *)
  = Some (Fenced 96 3 [112;121] [], [[120]; [96;96;96;96]]).
Proof. reflexivity. Qed.

(* ---- every container: the content lines are written one by one under the continuation prefix,
   verbatim, and an empty content line is written as the prefix without its trailing whitespace
   (C04: lines verbatim; C12: no trailing spaces added to blank code lines) ---- *)
Definition written_line (p2 : str) (l : str) : str := match l with [] => rstrip p2 | _ => p2 ++ l end.

Theorem code_block_lines lang extra fc flen content st :
  fst (render_code lang extra fc flen content st)
  = join [nlc] ((r_prefix st ++ repeat fc (fence_len fc flen content) ++ info_sep fc (info_of lang extra) ++ info_of lang extra)
                :: map (written_line (r_prefix2 st)) (code_lines content)
                ++ [r_prefix2 st ++ repeat fc (fence_len fc flen content)]) ++ [nlc].
Proof.
  unfold render_code. cbv zeta. destruct st as [p p2 su sk cu ti]. cbn [r_prefix r_prefix2 set_skip fst].
  unfold fence_len, code_lines, info_of, info_sep, written_line. reflexivity.
Qed.

Lemma lstrip_idem y : lstrip (lstrip y) = lstrip y.
Proof.
  induction y as [|c r IH]; [reflexivity|]. cbn [lstrip]. destruct (is_space c) eqn:E; [exact IH|].
  cbn [lstrip]. now rewrite E.
Qed.
Lemma rstrip_idem x : rstrip (rstrip x) = rstrip x.
Proof. unfold rstrip. rewrite rev_involutive, lstrip_idem. reflexivity. Qed.

(* the line written for an empty content line ends in no whitespace: stripping it again changes nothing *)
Theorem blank_code_line_has_no_trailing_space p2 : rstrip (written_line p2 []) = written_line p2 [].
Proof. apply rstrip_idem. Qed.
