"""C03 — Output is a canonical form independent of the input's line layout."""
from __future__ import annotations

import json
import re
from textwrap import dedent

from common import Check, TRUSTED_BASE_COMMON
import docports
import gen_docs
import mdast
import c01
import c02

AVOID_MAIN = set(c02.AVOID_MAIN) | {"hazard_words"}


def first_diff(a: str, b: str) -> str:
    k = next((i for i in range(min(len(a), len(b))) if a[i] != b[i]), min(len(a), len(b)))
    return f"at {k}: {a[max(0, k - 40):k + 40]!r} vs {b[max(0, k - 40):k + 40]!r}"


def same_document(a: str, b: str) -> bool:
    """the two layouts are read as the same document (C01's notion) - otherwise the pair is not a re-layout"""
    try:
        from flowmark.formats.frontmatter import split_frontmatter
        pa = dedent(split_frontmatter(a)[1]).strip() + "\n"
        pb = dedent(split_frontmatter(b)[1]).strip() + "\n"
        ra, rb = mdast.doc_tree(pa), mdast.doc_tree(pb)
        ta, tb = c01.canon(ra), c01.canon(rb)

        def codes(t):      # code content exactly, trailing blank lines included: a different number of them is a different document
            if t["t"] in ("CodeBlock", "FencedCode", "CustomFencedCode"):
                return ["".join(k.get("s", "") for k in t.get("c", []))]
            return [x for k in t.get("c", []) for x in codes(k)]
        return c01.tree_diff(ta, tb) is None and ta.get("link_ref_defs") == tb.get("link_ref_defs") and \
            c01.tight_flags(pa) == c01.tight_flags(pb) and codes(ra) == codes(rb)
    except Exception:
        return False


# fixed inputs that reproduce listed findings: (document, first options, target options)
REPRO_CROSS = {
    "D-55": ("jumps === sentence\n", dict(width=1, semantic=False), dict(width=88, semantic=False)),
    "D-89": ("Some long text here {% field %}{% /field %} after it\n", dict(width=30, semantic=False), dict(width=80, semantic=False)),
    "D-12": ("why? x1 漢 a fxzzyfgbbge I stop! 42 x1 there.\n", dict(width=25, semantic=True), dict(width=88, semantic=True)),
}

REPRO_PAIRS = {
    "D-63": ("a \\\\\nb\n", "a \\\\ b\n", dict(width=88, semantic=False)),
    "D-90": ("the value {'a': {'b': 1}}\nnext line here\n", "the value {'a': {'b': 1}} next line here\n", dict(width=88, semantic=False)),
}

FIXED_LAYOUT_PAIRS = [
    ("see the [style\nguide] here\n\n[style guide]: /u\n", "see the [style guide] here\n\n[style guide]: /u\n"),
    ("see [the text][style\nguide] here\n\n[style guide]: /u\n", "see [the text][style   guide] here\n\n[style guide]: /u\n"),
    ("a [link\ntext](/u \"the\ntitle\") b\n", "a [link text](/u \"the title\") b\n"),
    ("some *emphasised\ntext* and **strong\ntext** here\n", "some *emphasised text* and\n**strong text** here\n"),
    ("Heading one\nline two\n===\n\ntext\n", "Heading one line two\n===\n\ntext\n"),
    ("- item one\n  continues here\n- two\n", "- item one continues here\n- two\n"),
    ("> quoted text\n> goes on\nlazily\n", "> quoted text goes on lazily\n"),
    ("note[^n] x\n\n[^n]: first line\n    second line\n", "note[^n] x\n\n[^n]: first line second line\n"),
    ("![alt\ntext](i.png) after\n", "![alt text](i.png) after\n"),
    ("a `code\nspan` b\n", "a `code span` b\n"),
]

UNESC = re.compile(r"\\([-+*_=#>`~.)])")


def classify(kf, rec):
    c = rec["case"]
    cl = kf.get("classifier")
    o = c.get("opts", {})
    if c.get("_diff"):
        return False
    a, b = c.get("out_a", ""), c.get("out_b", "")
    if cl == "first-pass-changes-structure":
        return bool(c.get("c01_diff"))
    if cl == "sentence-merge-accounting":
        return bool(o.get("semantic")) and o.get("width", 0) > 0
    if cl == "ellipsis-line-start-layout":
        return bool(o.get("ellipses")) and "..." in (c.get("a", "") + c.get("b", "") + c.get("mid", "") + c.get("doc", ""))
    if cl == "nested-quotes-second-pass":
        return c.get("kind") == "cross" and c02.classify(kf, {"case": {"opts": o, "pass1": c.get("mid", "")}, "what": ""})
    if cl == "quote-blank-line-trailing-space":
        return a != b and [l.rstrip() for l in a.split("\n")] == [l.rstrip() for l in b.split("\n")]
    if cl == "heading-in-tight-list-item":
        return c.get("kind") == "cross" and o.get("list_spacing") == "preserve" and \
            c01.heading_in_tight_item(dedent(c.get("doc", "")).strip() + "\n")
    if cl == "loose-list-nested-in-tight-item":
        return c.get("kind") == "cross" and o.get("list_spacing") == "preserve" and \
            c01.loose_list_in_tight_item(dedent(c.get("doc", "")).strip() + "\n")
    if cl == "escaped-backslash-before-soft-break":
        even_bs_nl = re.compile(r"(?<!\\)(?:\\\\)+\r?\n")
        return c.get("kind") == "relayout" and (bool(even_bs_nl.search(c.get("a", ""))) != bool(even_bs_nl.search(c.get("b", ""))) or
                                                 bool(even_bs_nl.search(c.get("a", ""))))
    TAG_EDGE = r"(?:%\}|-->|\}\}|#\})[ \t]*\n|\n[ \t>]*(?:\{%|<!--|\{\{|\{#)"
    if cl == "wrap-created-newline-next-to-tag":
        # the first pass wrapped right before / after a tag; the second pass then takes that newline for a deliberate one
        return c.get("kind") == "cross" and bool(re.search(TAG_EDGE, c.get("mid", ""))) and not re.search(TAG_EDGE, c.get("doc", "").strip() + "\n")
    if cl == "tag-like-line-end-keeps-newline":
        # a line that ends in the closing characters of a tag without being one (a dict literal, an arrow) keeps its newline
        ends = re.compile(r"(?:%\}|-->|\}\}|#\})[ \t]*\n")
        return c.get("kind") == "relayout" and (bool(ends.search(c.get("a", ""))) != bool(ends.search(c.get("b", "")))) and \
            not re.search(r"\{%.*?%\}|\{#.*?#\}|\{\{.*?\}\}|<!--.*?-->", c.get("a", ""), flags=re.S)
    if cl == "line-start-escape-persists":
        if c.get("kind") != "cross":
            return False
        un = lambda t: re.sub(r"\s+", " ", UNESC.sub(r"\1", re.sub(r"(?m)^[> ]+", "", t)))  # noqa: E731
        return a != b and un(a) == un(b) and len(b) > len(a)
    return False


def run(chk: Check) -> None:
    tier = chk.tier
    chk.cov["trusted_base"] = TRUSTED_BASE_COMMON + [
        "parser residue: that two layouts are the same document is judged with Marko (same tree modulo whitespace), the second pass re-parses with Marko",
        "the layout generator (harness/gen_docs.py: content and layout drawn from separate random streams)"]
    chk.cov["rule"] = ("(a) pairs of layouts of the same generated content (soft breaks moved, spaces multiplied, lazy/indented continuation, blank-line "
                       "counts, hard-break spelling, CRLF, uniform indentation) that Marko reads as the same document x random option sets: byte-identical "
                       "output; (b) format(format(x,(w1,mode1)),(w2,mode2)) = format(x,(w2,mode2)) for random option pairs; non-trivial = the two layouts "
                       "differ / the intermediate differs from the final; distinct by (content seed, layouts, options)")
    if not chk.phase_build("Props/C03.v"):
        return
    rng = chk.rng
    n = 1 if tier == "quick" else 10
    # ---- (a) re-layout pairs ----
    gen_docs.AVOID = set(AVOID_MAIN)
    pairs = []
    skipped = 0
    tries = 0
    while len(pairs) < 200 * n and tries < 2000 * n:
        tries += 1
        cs = rng.randrange(1 << 30)
        a, b = gen_docs.gen_doc_layouts(cs, [rng.randrange(1 << 30), rng.randrange(1 << 30)])
        if a == b or a.lstrip().startswith("---"):     # a leading --- line is (possibly unclosed) frontmatter: C07's subject
            continue
        if not same_document(a, b):
            skipped += 1
            continue
        pairs.append((cs, a, b))
    gen_docs.AVOID = set()
    # layouts that differ inside a construct (a line break within link text, a label, a title, an emphasis span, a table-free heading):
    # written out by hand so that each is present in every run (several were defects once: ae2a212, 2465fe2, 6629c90)
    for a, b in FIXED_LAYOUT_PAIRS:
        if same_document(a, b):
            pairs.append((0, a, b))
        else:
            skipped += 1
    chk.hist("pairs", f"kept={len(pairs)} skipped_not_same_document={skipped}")
    optsets = c02.all_option_sets(rng, len(pairs))
    cases = []
    for (cs, a, b), o in zip(pairs, optsets):
        cases.append({"doc": a, "opts": o})
        cases.append({"doc": b, "opts": o})
    docports.run_fill_port(chk, cases, name="fill_markdown on both layouts")
    nb = 0
    for i, ((cs, a, b), o) in enumerate(zip(pairs, optsets)):
        oa, ob = cases[2 * i]["out"], cases[2 * i + 1]["out"]
        chk.nontrivial((cs, a, b, json.dumps(o, sort_keys=True)))
        chk.hist("width", o["width"])
        if oa != ob:
            nb += 1
            d1 = None if (c01.structure_preserved(a, o["width"], o["semantic"]) and c01.structure_preserved(b, o["width"], o["semantic"])) else "structure changed"
            chk.fail("property", {"kind": "relayout", "a": a, "b": b, "opts": o, "out_a": oa, "out_b": ob, "c01_diff": d1,
                                  "_diff": bool(cases[2 * i].get("_diff") or cases[2 * i + 1].get("_diff"))},
                     "two layouts of one document format differently: " + first_diff(oa, ob), classify)
    for fid, (a, b, o) in REPRO_PAIRS.items():
        oo = dict(width=o["width"], semantic=o["semantic"], cleanups=False, smartquotes=False, ellipses=False, list_spacing="preserve")
        oa, ob = docports.fmt(a, oo), docports.fmt(b, oo)
        if same_document(a, b) and oa != ob:
            chk.fail("property", {"kind": "relayout", "a": a, "b": b, "opts": oo, "out_a": oa, "out_b": ob, "repro": fid},
                     "two layouts of one document format differently: " + first_diff(oa, ob), classify)
    chk.port_stat("spec: format(layout A) == format(layout B)", len(pairs), nb)
    # ---- (b) any width / mode first, then the target ----
    gen_docs.AVOID = set(AVOID_MAIN) - {"hazard_words"}
    docs = [gen_docs.gen_doc(rng) for _ in range(200 * n)]
    gen_docs.AVOID = set()
    docs = [d for d in docs if not d.lstrip().startswith("---")]
    nbc = 0
    first, direct, specs = [], [], []
    for d in docs:
        o2 = c02.all_option_sets(rng, 1)[0]
        o1 = dict(o2, width=rng.choice([0, 1, 7, 20, 40, 88, 200]), semantic=rng.random() < 0.5)
        first.append({"doc": d, "opts": o1})
        direct.append({"doc": d, "opts": o2})
        specs.append((d, o1, o2))
    for fid, (d, o1, o2) in REPRO_CROSS.items():
        base = dict(cleanups=False, smartquotes=False, ellipses=False, list_spacing="preserve")
        first.append({"doc": d, "opts": dict(base, **o1)})
        direct.append({"doc": d, "opts": dict(base, **o2)})
        specs.append((d, dict(base, **o1), dict(base, **o2)))
    docports.run_fill_port(chk, first, name="fill_markdown with (w1, mode1)")
    docports.run_fill_port(chk, direct, name="fill_markdown with (w2, mode2)")
    second = [{"doc": f["out"], "opts": o2} for f, (d, o1, o2) in zip(first, specs)]
    docports.run_fill_port(chk, second, name="fill_markdown (w2, mode2) on the (w1, mode1) output")
    for f, dr, s2, (d, o1, o2) in zip(first, direct, second, specs):
        if f["out"].startswith("EXC") or dr["out"].startswith("EXC"):
            continue
        if f["out"] != dr["out"]:
            chk.nontrivial((d, json.dumps(o1, sort_keys=True), json.dumps(o2, sort_keys=True)))
        if s2["out"] != dr["out"]:
            nbc += 1
            d1 = None if (c01.structure_preserved(d, o1["width"], o1["semantic"]) and c01.structure_preserved(d, o2["width"], o2["semantic"])) else "structure changed"
            chk.fail("property", {"kind": "cross", "doc": d, "opts1": o1, "opts": o2, "mid": f["out"], "out_a": dr["out"], "out_b": s2["out"], "c01_diff": d1,
                                  "_diff": bool(f.get("_diff") or dr.get("_diff") or s2.get("_diff"))},
                     f"formatting with width {o1['width']}/{'semantic' if o1['semantic'] else 'fill'} first changes the result: " + first_diff(dr["out"], s2["out"]), classify)
    chk.port_stat("spec: format(format(x,o1),o2) == format(x,o2)", len(specs), nbc)


def replay(path: str) -> int:
    rec = json.loads(open(path).read())
    c = rec.get("case")
    print("what:", rec.get("what"))
    if not c:
        print("broken:", rec.get("broken"))
        return 1
    if c.get("kind") == "cross":
        mid = docports.fmt(c["doc"], c["opts1"])
        a = docports.fmt(c["doc"], c["opts"])
        b = docports.fmt(mid, c["opts"])
        print("---- input\n" + c["doc"])
        print("---- first with", c["opts1"], "\n" + mid)
    else:
        a, b = docports.fmt(c["a"], c["opts"]), docports.fmt(c["b"], c["opts"])
        print("---- layout A\n" + c["a"])
        print("---- layout B\n" + c["b"])
    print("---- output A", c["opts"], "\n" + a)
    print("---- output B\n" + b)
    print("---- identical:", a == b, "" if a == b else first_diff(a, b))
    return 1
