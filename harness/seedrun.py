"""Run the checks against the seeded defects kept in /verif/seeded/<id>/ (patch.diff, demo.py, meta.json).
For each: apply the patch to /repo, confirm the demonstration (exit 1) and the test suite (302 passed), run the quick check of
the property (and optionally others), undo the patch.  Writes seeded/<id>/result.json and prints a table.
Usage: python3 harness/seedrun.py [id ...] [--also C05,C11] [--tier quick]"""
import json, os, subprocess, sys, time

SEEDED = "/verif/seeded"


def sh(cmd, **kw):
    return subprocess.run(cmd, shell=True, stdout=subprocess.PIPE, stderr=subprocess.STDOUT, text=True, **kw)


def main(argv):
    ids = [a for a in argv if not a.startswith("--")]
    also = []
    tier = "quick"
    for i, a in enumerate(argv):
        if a == "--also":
            also = argv[i + 1].split(",")
        if a == "--tier":
            tier = argv[i + 1]
    ids = [a for a in ids if a not in also and a != tier]
    if not ids:
        ids = sorted(os.listdir(SEEDED))
    assert sh("git -C /repo status --porcelain").stdout.strip() == "", "/repo is not clean"
    rows = []
    for sid in ids:
        d = f"{SEEDED}/{sid}"
        if not os.path.exists(f"{d}/patch.diff"):
            continue
        meta = json.load(open(f"{d}/meta.json"))
        prop = meta["property"]
        res = {"id": sid, "property": prop, "summary": meta.get("summary")}
        a = sh(f"git -C /repo apply {d}/patch.diff")
        if a.returncode != 0:
            res["applies"] = False
            res["note"] = a.stdout[-300:]
            rows.append(res)
            continue
        try:
            res["applies"] = True
            demo = sh(f"cd /repo && PYTHONPATH=/repo/src /venv/bin/python {d}/demo.py", timeout=300)
            res["demo_exit"] = demo.returncode
            tests = sh("cd /repo && /venv/bin/python -m pytest -q -p no:cacheprovider --timeout=900 2>&1 | tail -1", timeout=900)
            res["tests"] = tests.stdout.strip()
            res["checks"] = {}
            for p in [prop] + [x for x in also if x != prop]:
                t0 = time.time()
                c = sh(f"cd /verif && ./check {p} {tier}", timeout=3600)
                viol = [l for l in c.stdout.splitlines() if l.startswith("VIOLATION")]
                res["checks"][p] = {"exit": c.returncode, "violations": len(viol), "first": viol[0] if viol else None, "seconds": round(time.time() - t0)}
        finally:
            sh("git -C /repo checkout -- .")
        demo0 = sh(f"cd /repo && PYTHONPATH=/repo/src /venv/bin/python {d}/demo.py", timeout=300)
        res["demo_exit_unpatched"] = demo0.returncode
        json.dump(res, open(f"{d}/result.json", "w"), indent=1)
        rows.append(res)
        own = res.get("checks", {}).get(prop, {})
        print(f"{sid:8} demo={res.get('demo_exit')} clean={res.get('demo_exit_unpatched')} tests={res.get('tests','')[:20]:20} "
              f"{prop}: exit={own.get('exit')} viol={own.get('violations')} " +
              " ".join(f"{p}={v['exit']}" for p, v in res.get("checks", {}).items() if p != prop), flush=True)
    return 0


if __name__ == "__main__":
    sys.exit(main(sys.argv[1:]))
