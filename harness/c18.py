"""C18 — gitignore handling agrees with git."""
from __future__ import annotations

import json
import os
import random
import shutil
import subprocess
from pathlib import Path

from common import Check, TRUSTED_BASE_COMMON
import treegen
import c17

WORK = Path("/verif/.work/trees")

# the gitignore pattern language: basename, wildcard, dir-only, anchored, multi-segment, **, ?, class, negation, comments, blanks
BASENAME = ["a.md", "b.md", "*.md", "README.md", "d.md", "?.md", "[ab].md", "*.txt", ".hidden.md"]
DIRONLY = ["docs/", "sub/", "deep/", "x/", "internal/", "s*/"]
ANCHORED = ["/a.md", "/docs/", "/sub/b.md", "/README.md"]
MULTI = ["docs/a.md", "sub/deep/", "src/**/b.md", "**/deep/a.md", "docs/**", "sub/*.md", "**/x/"]
NEGATION = ["!a.md", "!README.md", "!docs/", "!*.md", "!/a.md"]
NOISE = ["# comment", "", "   "]

GIT_ENV = dict(os.environ, GIT_CONFIG_GLOBAL="/dev/null", GIT_CONFIG_SYSTEM="/dev/null", GIT_CONFIG_NOSYSTEM="1", HOME="/nonexistent")


def gen_lines(rng: random.Random, profile: str) -> list[str]:
    pools = {"basename": BASENAME + DIRONLY, "slash": BASENAME + DIRONLY + ANCHORED + MULTI, "full": BASENAME + DIRONLY + ANCHORED + MULTI + NEGATION}[profile]
    return rng.sample(pools, rng.randint(1, 4)) + rng.sample(NOISE, rng.randint(0, 1))


def gen_tree(rng: random.Random, profile: str, depth=0) -> dict:
    t = {}
    for n in rng.sample(treegen.FILE_NAMES[:8] + [".hidden.md"], rng.randint(1, 5)):
        t[n] = {"f": 5}
    if depth < 3:
        for d in rng.sample(["docs", "src", "sub", "deep", "x", "internal"], rng.randint(0, 3)):
            t[d] = {"d": gen_tree(rng, profile, depth + 1)}
    if rng.random() < (0.8 if depth == 0 else 0.3):
        t[".gitignore"] = {"text": "\n".join(gen_lines(rng, profile)) + "\n"}
    return t


def git_listed(root: Path) -> set[str]:
    """files git would track or show as untracked (i.e. does not ignore), as paths relative to root"""
    subprocess.run(["git", "init", "-q", str(root)], env=GIT_ENV, check=True, stdout=subprocess.DEVNULL, stderr=subprocess.DEVNULL)
    p = subprocess.run(["git", "-C", str(root), "-c", "core.quotePath=false", "ls-files", "-co", "--exclude-standard", "-z"], env=GIT_ENV, check=True,
                       stdout=subprocess.PIPE)
    shutil.rmtree(root / ".git", ignore_errors=True)
    return {x for x in p.stdout.decode().split("\0") if x}


def config(respect: bool):
    from flowmark.file_resolver import FileResolverConfig
    return FileResolverConfig(include=["*.md"], exclude=[".git/"], respect_gitignore=respect, files_max_size=0)


def has_slash_pattern(tree: dict) -> bool:
    for comps, spec in [((), {"d": tree})] + list(treegen.tree_paths(tree)):
        if "d" in spec and ".gitignore" in spec["d"]:
            for l in spec["d"][".gitignore"]["text"].splitlines():
                l = l.strip()
                if l and not l.startswith("#") and "/" in l.rstrip("/").lstrip("!"):
                    return True
    return False


def has_negation(tree: dict) -> bool:
    for comps, spec in [((), {"d": tree})] + list(treegen.tree_paths(tree)):
        if "d" in spec and ".gitignore" in spec["d"]:
            if any(l.strip().startswith("!") for l in spec["d"][".gitignore"]["text"].splitlines()):
                return True
    return False


def negated_dir_pattern(tree: dict) -> bool:
    for comps, spec in [((), {"d": tree})] + list(treegen.tree_paths(tree)):
        if "d" in spec and ".gitignore" in spec["d"]:
            if any(l.strip().startswith("!") and l.strip().endswith("/") for l in spec["d"][".gitignore"]["text"].splitlines()):
                return True
    return False


def classify(kf, rec):
    c = rec["case"]
    cl = kf.get("classifier")
    if cl == "dir-contents-pattern-prunes-directory":
        has = False
        for comps, spec in [((), {"d": c["tree"]})] + list(treegen.tree_paths(c["tree"])):
            if "d" in spec and ".gitignore" in spec["d"]:
                if any(l.strip().endswith("/**") and not l.strip().startswith("!") for l in spec["d"][".gitignore"]["text"].splitlines()):
                    has = True
        return has and has_negation(c["tree"]) and bool(c.get("missing_but_git_keeps")) and not c.get("listed_but_git_ignores") and "respect off" not in rec["what"]
    if cl == "negated-directory-pattern":
        return negated_dir_pattern(c["tree"]) and "respect off" not in rec["what"] and not c.get("missing_but_git_keeps")
    return False


REPRO = {
    "D-79": {"docs": {"d": {".gitignore": {"text": "sub/**\n"}, "sub": {"d": {".gitignore": {"text": "!README.md\n"}, "README.md": {"f": 1}, "x.md": {"f": 1}}}}}},
    "D-59": {".gitignore": {"text": "[ab].md\n!docs/\n"}, "c.md": {"f": 1}, "docs": {"d": {"b.md": {"f": 1}, "x.md": {"f": 1}}}},
}


def run(chk: Check) -> None:
    tier = chk.tier
    chk.cov["trusted_base"] = TRUSTED_BASE_COMMON + [
        "git 2.39.5 (git ls-files -co --exclude-standard in a scratch repository, no global or system configuration) is the oracle for 'git would not ignore it'",
        "pathspec is the matcher of the implementation and of the model's oracle tables; it is used, not modelled"]
    chk.cov["rule"] = ("random trees (<= 4 levels) with .gitignore files at every level whose lines are drawn from the gitignore pattern language (basename, wildcard, ?, "
                       "class, dir-only, anchored, multi-segment, **, negation, comments, blank) in three profiles (basename-only / with slashes / with negation): "
                       "FileResolver(respect_gitignore=True).resolve(['.']) restricted to *.md vs git ls-files -co --exclude-standard; respect off: result = the "
                       "reference walk that never reads .gitignore, and unchanged when every .gitignore is emptied; non-trivial = git ignores at least one *.md; "
                       "distinct by tree")
    if not chk.phase_build("Props/C18.v"):
        return
    rng = chk.rng
    n = 1 if tier == "quick" else 10
    WORK.mkdir(parents=True, exist_ok=True)
    base = WORK / f"c18-{os.getpid()}"
    nb = 0
    ncases = 0
    trees = [(fid, t, "repro") for fid, t in REPRO.items()]
    for profile, k in (("basename", 60), ("slash", 50), ("full", 50)):
        trees += [(None, gen_tree(rng, profile), profile) for _ in range(k * n)]
    reqs, expect = [], []
    try:
        for fid, tree, profile in trees:
            root = treegen.materialize(base, tree)
            all_md = {"/".join(c) for c, s in treegen.tree_paths(tree) if "f" in s and c[-1].endswith(".md")}
            expected = {p for p in git_listed(root) if p.endswith(".md")}
            impl_on = c17.run_impl(["."], config(True), root)
            got_on = {str(p.relative_to(root.resolve())) for p in impl_on}
            ncases += 1
            chk.count()
            chk.hist("profile", profile)
            if expected != all_md:
                chk.nontrivial(json.dumps(tree, sort_keys=True))
            if got_on != expected:
                nb += 1
                chk.fail("property", {"tree": tree, "profile": profile, "listed_but_git_ignores": sorted(got_on - expected), "missing_but_git_keeps": sorted(expected - got_on)},
                         f"differs from git: listed although git ignores {sorted(got_on - expected)[:4]}, missing although git keeps {sorted(expected - got_on)[:4]}", classify)
            # correspondence: the model's traversal with pathspec's check_file answers supplied
            reqs.append(c17.model_walk_request(tree, config(True), root, True))
            expect.append(sorted(got_on))
            # respect off: .gitignore files have no influence at all
            impl_off = c17.run_impl(["."], config(False), root)
            got_off = {str(p.relative_to(root.resolve())) for p in impl_off}
            if got_off != all_md:
                nb += 1
                chk.fail("property", {"tree": tree, "profile": profile, "got": sorted(got_off), "all": sorted(all_md)},
                         f"respect off: the result is not the set of all *.md files: {sorted(got_off ^ all_md)[:4]}", classify)
        # ---- the command line: --no-respect-gitignore makes .gitignore files inert whatever a config file says ----
        import c15
        ncli = 0
        for fid, tree, profile in trees[: (12 if tier == "quick" else 60)]:
            root = treegen.materialize(base, tree)
            if (root / ".git").exists():
                continue          # .git is a default-excluded name in the generator's vocabulary; keep the tree as generated
            all_md = {"/".join(c) for c, s in treegen.tree_paths(tree) if "f" in s and c[-1].endswith(".md")}
            listed_api_off = {str(p.relative_to(root.resolve())) for p in c17.run_impl(["."], config(False), root)}
            listed_api_on = {str(p.relative_to(root.resolve())) for p in c17.run_impl(["."], config(True), root)}
            for cfg_name, cfg_text in ((None, None), ("flowmark.toml", "[file-discovery]\nrespect-gitignore = true\n"), (".flowmark.toml", "respect-gitignore = true\n"),
                                       ("flowmark.toml", "respect-gitignore = false\n")):
                for flag in (True, False):
                    for f in ("flowmark.toml", ".flowmark.toml"):
                        if (root / f).exists():
                            (root / f).unlink()
                    if cfg_name:
                        (root / cfg_name).write_text(cfg_text)
                    argv = ["--list-files"] + (["--no-respect-gitignore"] if flag else []) + ["."]
                    rc, out, err = c15.run_main(argv, root)
                    got = {os.path.relpath(l, root.resolve()) for l in out.split("\n") if l.strip()}
                    respect = (not flag) and not (cfg_text and "false" in cfg_text)
                    want = listed_api_on if respect else listed_api_off
                    ncli += 1
                    chk.count()
                    if rc != 0 or got != want:
                        nb += 1
                        chk.fail("property", {"tree": tree, "profile": profile, "argv": argv, "config": {cfg_name: cfg_text} if cfg_name else None,
                                              "listed": sorted(got), "expected": sorted(want), "exit": rc, "stderr": err[-300:]},
                                 ("with --no-respect-gitignore the listing still depends on .gitignore files" if flag else
                                  "the listing of the command line differs from the resolver's") + f": {sorted(got ^ want)[:4]}", classify)
        chk.port_stat("cli --list-files with/without --no-respect-gitignore x config files", ncli, 0)
    finally:
        shutil.rmtree(base, ignore_errors=True)
    chk.port_stat("spec: FileResolver vs git ls-files; respect off = inert", ncases, nb)
    from common import model_batch, Toks
    ans = model_batch(reqs, shards=1)
    nd = 0
    for a, e in zip(ans, expect):
        if a.startswith(("ERR", "EXC")):
            got = a
        else:
            tk = Toks(a)
            got = sorted("/".join(comps) for comps in tk.list(tk.strs))
        if got != e:
            nd += 1
            if nd <= 3:
                chk.notes.append(f"resolver walk differs: model={got} impl={e}")
    chk.count(len(reqs))
    chk.port_stat("walk (Model/Resolver.v, pathspec check_file answers supplied) vs FileResolver with respect_gitignore", len(reqs), nd)
    if nd:
        chk.broken.append(f"correspondence resolver walk: {nd}/{len(reqs)} cases differ")


def replay(path: str) -> int:
    rec = json.loads(open(path).read())
    c = rec.get("case")
    print("what:", rec.get("what"))
    if not c:
        print("broken:", rec.get("broken"))
        return 1
    base = WORK / f"replay18-{os.getpid()}"
    try:
        root = treegen.materialize(base, c["tree"])
        print("tree:", json.dumps(c["tree"])[:2000])
        expected = {p for p in git_listed(root) if p.endswith(".md")}
        got = {str(p.relative_to(root.resolve())) for p in c17.run_impl(["."], config(True), root)}
        print("git keeps :", sorted(expected))
        print("flowmark  :", sorted(got))
    finally:
        shutil.rmtree(base, ignore_errors=True)
    return 1
