"""C05 — Wrapping is lossless, width-bounded and maximal."""
from __future__ import annotations

import json
import re

from common import Check, TRUSTED_BASE_COMMON, enc_bool, enc_str, enc_strs, model_batch, Toks
from ports import run_port
import gen_words as G


def _impl():
    from flowmark.linewrapping import text_wrapping as tw
    return tw


def classify(kf, rec) -> bool:
    import common
    if common.repro_only(kf, rec):
        return True
    c = rec["case"]
    cl = kf.get("classifier")
    if cl == "first-word-overflows-at-c0":
        # D-11: strict bound fails only because the first word does not fit at c0 > c1
        if "i1" in c:      # paragraph level: line 0 of a paragraph whose first word does not fit beside the longer first-line indent
            try:
                first = (_impl().get_html_md_word_splitter()(c.get("text", "")) or [""])[0]     # the first word as the splitter sees it (a tag is one word)
            except Exception:
                first = (c.get("text", "").split() or [""])[0]
            return "line 0 is" in rec["what"] and len(c["i1"]) > len(c["i2"]) and len(c["i1"]) + len(first) > c["width"]
        ws = c.get("words") or []
        return bool(ws) and c["c0"] > c["c1"] and c["c0"] + len(ws[0]) > c["width"] and rec["what"].startswith("strict-width")
    if cl == "closing-tag-unindented":
        import re
        return "does not carry its indent" in rec["what"] and bool(re.match(r"^(?:\{% /|\{# /|\{\{ /|<!-- /)", c.get("line", "")))
    if cl == "hard-break-backslash-over-width":
        # D-57: the line was filled to exactly the width and the backslash of the hard break was appended afterwards
        return bool(c.get("hard_break")) and len(c.get("line", "")) == c.get("width", 0) + 1
    return False


def gen_cases(chk: Check, tier: str):
    rng = chk.rng
    cases = []
    # bounded-exhaustive word-length vectors
    if tier == "quick":
        maxw, maxl, widths, offs = 4, 4, range(1, 11), range(0, 3)
    else:
        maxw, maxl, widths, offs = 5, 5, range(1, 13), range(0, 4)
    for v in G.bounded_vectors(maxw, maxl):
        for width in widths:
            for c0 in offs:
                for c1 in offs:
                    for md in (False, True):
                        words = [G.word_of_len(rng, n, 0.35 if md else 0.1) for n in v]
                        cases.append({"words": words, "text": " ".join(words), "width": width,
                                      "c0": c0, "c1": c1, "md": md, "rw": True, "dw": True, "kind": "bounded"})
    nrand = 3000 if tier == "quick" else 60000
    for _ in range(nrand):
        n = rng.choice([0, 1, 2, 3, 5, 8, 13, 30, 80, 200]) if rng.random() < 0.5 else rng.randint(0, 25)
        words = G.random_words(rng, n)
        text = G.join_random_ws(rng, words)
        cases.append({"words": text.split(), "text": text, "width": rng.choice([-3, 0, 1, 2, 5, 10, 20, 40, 80, 88, 120, rng.randint(1, 100)]),
                      "c0": rng.choice([0, 0, 2, 4, 7, 12, 30]), "c1": rng.choice([0, 0, 2, 4, 9]),
                      "md": rng.random() < 0.6, "rw": rng.random() < 0.8, "dw": rng.random() < 0.8, "kind": "random"})
    return cases


def words_of_line(line: str) -> list[str]:
    return line.split(" ") if line != "" else [""]


def run(chk: Check) -> None:
    tier = chk.tier
    chk.cov["trusted_base"] = TRUSTED_BASE_COMMON
    chk.cov["rule"] = (
        "correspondence + spec-on-implementation cases for wrap_paragraph_lines: bounded-exhaustive word-length "
        "vectors (<=4 words x len 1..4 x width 1..10 x c0,c1 0..2 x md in quick; <=5 x 1..5 x 1..12 x 0..3 in thorough) "
        "plus random texts (hazard words, exotic whitespace, widths -3..120); a case is non-trivial when the "
        "implementation output has >=2 lines; distinct = distinct (word lengths, width, c0, c1, md, escaped?) tuples")
    if not chk.phase_build("Props/C05.v"):
        return
    tw = _impl()

    # ---- port: markdown_escape_word ----
    import itertools
    alpha = "-*+>#19.)a\n\\ "
    ecases = [{"w": "".join(t)} for k in range(0, 5 if tier == "quick" else 6) for t in itertools.product(alpha, repeat=k)]
    ecases += [{"w": w} for w in G.HAZARD_WORDS + G.PLAIN + G.SENT_WORDS]
    diffs = run_port(chk, "escape_word", ecases,
                     lambda c: "escape_word " + enc_str(c["w"]),
                     lambda c: enc_str(tw.markdown_escape_word(c["w"])))
    for d in diffs[:3]:
        chk.notes.append(f"escape_word differs on {d['w']!r}")

    # ---- port: wrap_paragraph_lines with the simple splitter ----
    cases = gen_cases(chk, tier)
    outs = {}

    def impl(c):
        out = tw.wrap_paragraph_lines(c["text"], c["width"], c["c0"], c["c1"], c["rw"], c["dw"],
                                      tw.simple_word_splitter, len, c["md"])
        outs[id(c)] = out
        return enc_strs(out)

    diffs = run_port(chk, "wrap_paragraph_lines/simple_splitter", cases,
                     lambda c: "wpl_simple %d %d %d %s %s %s %s" % (c["width"], c["c0"], c["c1"], enc_bool(c["rw"]),
                                                                   enc_bool(c["dw"]), enc_bool(c["md"]), enc_str(c["text"])),
                     impl)
    for d in diffs[:3]:
        chk.notes.append("wrap_paragraph_lines differs: " + json.dumps({k: d[k] for k in ("text", "width", "c0", "c1", "md", "rw", "dw")}))

    # ---- spec on implementation: extracted checker wrap_ok on the implementation's lines ----
    spec_cases = [c for c in cases if c["width"] > 0 and c["rw"] and c["dw"] and id(c) in outs]
    reqs, reqs_strict = [], []
    for c in spec_cases:
        lines = [words_of_line(l) for l in outs[id(c)]]
        args = "%s %d %d %d %s %d %s" % (enc_bool(c["md"]), c["width"], c["c0"], c["c1"], enc_strs(c["words"]),
                                         len(lines), " ".join(enc_strs(l) for l in lines))
        reqs.append("wrap_ok " + args)
        reqs_strict.append("wrap_ok_strict " + args)
    ans = model_batch(reqs, shards=8)
    ans_strict = model_batch(reqs_strict, shards=8)
    nfail = 0
    for c, a, a2 in zip(spec_cases, ans, ans_strict):
        out = outs[id(c)]
        if len(out) >= 2:
            chk.nontrivial((tuple(len(w) for w in c["words"]), c["width"], c["c0"], c["c1"], c["md"],
                            any("\\" in l[:3] for l in out[1:])))
        chk.hist("lines_out", min(len(out), 6))
        chk.hist("width", c["width"] if c["width"] <= 12 else ">12")
        case = {k: c[k] for k in ("words", "text", "width", "c0", "c1", "md")}
        case["impl_lines"] = out
        if a.strip() != "1":
            nfail += 1
            chk.fail("property", case, "wrap_ok rejects implementation output (lossless / width / maximal violated)", classify)
        elif a2.strip() != "1":
            chk.fail("property", case, "strict-width: line 0 measured from the real first-line column exceeds the width although breakable", classify)
    chk.count(len(spec_cases))
    chk.port_stat("spec:wrap_ok on implementation", len(spec_cases), nfail)
    # ---- paragraph level: the Markdown line wrapper (word splitter with atomic constructs, tag segments, hard breaks, indents) ----
    import wports
    pcases, pouts = wports.port_line_wrap_to_width(chk, 600 if tier == "quick" else 6000, md=True)
    # fixed reproducer of finding D-57
    from flowmark.linewrapping import line_wrappers as lw
    pcases.append({"t": "aaaa bbbb cc\\\ndddd", "w": 12, "i1": "", "i2": ""})
    pouts[id(pcases[-1])] = lw.line_wrap_to_width(width=12, is_markdown=True)("aaaa bbbb cc\\\ndddd", "", "")
    splitter = tw.get_html_md_word_splitter()
    npb = 0
    for c in pcases:
        out = pouts.get(id(c))
        if out is None or c["w"] <= 0:
            continue
        lines = out.split("\n")
        if len(lines) >= 2:
            chk.nontrivial((c["t"], c["w"], c["i1"], c["i2"], "para"))
        # every hard break of the text (a newline after an odd number of backslashes, or after two or more spaces) ends a line of the
        # output with the break's backslash, and nothing else does (skipped where a word ends in a backslash without a newline after it: such a
        # word at the end of an output line is finding D-40, before a two-space break finding D-84)
        if not re.search(r"\\[ \t\u00a0\u2003\u3000\x0c\x1f\u2028]", c["t"]) and not c["t"].rstrip(" ").endswith(("\\", "  ")):
            nin = len(re.findall(r"(?<!\\)(?:\\\\)*\\\n", c["t"])) + len(re.findall(r"(?<=[^\s\\])  +\n(?=[^\n]*\S)", c["t"]))
            nout = sum(1 for l in lines[:-1] if (len(l) - len(l.rstrip("\\"))) % 2 == 1)
            if nin != nout and not re.search(r"(?:^|\n)[ \t]*(?:\\\n|  +\n)", c["t"]):
                npb += 1
                chk.fail("property", {"text": c["t"], "width": c["w"], "i1": c["i1"], "i2": c["i2"], "out": out, "hard_breaks_in": nin, "hard_breaks_out": nout},
                         f"the text has {nin} hard line breaks, the output {nout}", classify)
                continue
        for k, l in enumerate(lines):
            ind = c["i1"] if k == 0 else c["i2"]
            if l.strip() and not l.startswith(ind.rstrip() if not l[len(ind.rstrip()):].strip() else ind):
                npb += 1
                chk.fail("property", {"text": c["t"], "width": c["w"], "i1": c["i1"], "i2": c["i2"], "out": out, "line": l},
                         f"paragraph line {k} does not carry its indent {ind!r}", classify)
                break
            if len(l) > c["w"]:
                body = l[len(ind):] if l.startswith(ind) else l
                hard = body.endswith("\\")
                words = splitter(body[:-1] if hard else body)
                if len(words) > 1:
                    npb += 1
                    chk.fail("property", {"text": c["t"], "width": c["w"], "i1": c["i1"], "i2": c["i2"], "out": out, "line": l, "hard_break": hard},
                             f"paragraph line {k} is {len(l)} wide (width {c['w']}) although it holds {len(words)} breakable words", classify)
                    break
    chk.port_stat("spec: indent and width of every line of line_wrap_to_width(md)", len(pcases), npb)
    # nowrap clause on the implementation
    for c in cases:
        if c["width"] <= 0 and c["rw"] and c["dw"] and id(c) in outs:
            out = outs[id(c)]
            okk = len(out) <= 1 and [w for l in out for w in l.split()] == c["text"].split() and ((out == []) == (c["text"].split() == []))
            if not okk:
                chk.fail("property", {k: c[k] for k in ("text", "width", "c0", "c1", "md")} | {"impl_lines": out},
                         "nowrap: width<=0 must give exactly one line with the same words", classify)
    for c in cases[:3] + cases[-3:]:
        chk.sample({k: c[k] for k in ("text", "width", "c0", "c1", "md")} | {"impl_lines": outs.get(id(c))})
    # listed with a fixed reproducer only (D-94): plaintext mode with width <= 0
    from flowmark import reformat_text as _rt
    doc = "a\nb  c\n\nd\ne"
    out = _rt(doc, width=0, plaintext=True)
    chk.count()
    if any("\n" in p for p in out.split("\n\n")):
        chk.fail("property", {"text": doc, "width": 0, "plaintext": True, "out": out, "repro": "D-94"},
                 "plaintext, width 0: a paragraph is not one line: " + repr(out), classify)


def replay(path: str) -> int:
    tw = _impl()
    rec = json.loads(open(path).read())
    c = rec.get("case")
    if not c:
        print("replay: no concrete input in this file; broken items:", rec.get("broken"))
        return 1
    out = tw.wrap_paragraph_lines(c["text"], c["width"], c["c0"], c["c1"], True, True, tw.simple_word_splitter, len, c["md"])
    print("input :", json.dumps({k: c[k] for k in ("text", "width", "c0", "c1", "md")}))
    print("output:", out)
    print("what  :", rec.get("what"))
    return 1
