"""Validation of the Gallina regex engine + translated patterns against CPython re / regex:
finditer spans and groups on strings over each pattern's own alphabet."""
from __future__ import annotations

import itertools
import re
import sys

import regex as rxmod

sys.path.insert(0, "/verif/gen")
import regex_to_coq as R
from common import Check, enc_str
from ports import run_port

HAZ = list(" \n\t") + list("ab.sS'\"") + ["“", "”", "‘", "’", "—", "é", " ", "A", "1", "_"]


def alphabet_of(src: str) -> list[str]:
    chars = set(c for c in src if not c.isalnum() or c in "aAsS")
    chars -= set("\\")
    return sorted(chars | set(" \na.X"))


def impl_finditer(name, src, flags, is_rx, s):
    pat = (rxmod if is_rx else re).compile(src, flags)
    toks = []
    ms = list(pat.finditer(s))
    toks.append("1")
    toks.append(str(len(ms)))
    for m in ms:
        toks += [str(m.start()), str(m.end())]
        n = pat.groups
        toks.append(str(n))
        for g in range(1, n + 1):
            if m.group(g) is None:
                toks.append("0")
            else:
                toks += ["1", str(m.start(g)), enc_str(m.group(g))]
    return " ".join(toks)


def validate(chk: Check, names: list[str], tier: str, per_pattern=None):
    srcs = R.pattern_sources()
    order = R.pattern_names()
    rng = chk.rng
    for name in names:
        src, flags, is_rx = srcs[name]
        idx = order.index(name)
        alpha = alphabet_of(src)
        cases = []
        # exhaustive short strings over (a reduced) pattern alphabet
        small = alpha if len(alpha) <= 9 else rng.sample(alpha, 9)
        maxlen = 4 if tier == "quick" else 5
        for k in range(0, maxlen + 1):
            for t in itertools.product(small, repeat=k):
                cases.append({"s": "".join(t)})
        n = per_pattern or (1500 if tier == "quick" else 20000)
        pool = alpha + HAZ
        for _ in range(n):
            ln = rng.choice([3, 6, 10, 20, 40, 80])
            cases.append({"s": "".join(rng.choice(pool) for _ in range(rng.randint(0, ln)))})
        diffs = run_port(chk, f"regex:{name}", cases,
                         lambda c, idx=idx: f"rx_finditer {idx} " + enc_str(c["s"]),
                         lambda c, name=name, src=src, flags=flags, is_rx=is_rx: impl_finditer(name, src, flags, is_rx, c["s"]))
        for d in diffs[:2]:
            chk.notes.append(f"regex engine/pattern {name} differs on {d['s']!r}: model={d['model'][:80]} impl={d['impl'][:80]}")
