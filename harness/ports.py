"""Generic correspondence runner: model (extracted OCaml) vs implementation (Python)."""
from __future__ import annotations

from typing import Callable

from common import Check, model_batch


def run_port(chk: Check, port: str, cases: list[dict], req: Callable[[dict], str],
             impl: Callable[[dict], str], shards=8, on_diff=None, max_report=3) -> list[dict]:
    """cases: list of dict inputs. req(case) -> model request line (without port name is NOT
    assumed: must include it). impl(case) -> canonical answer string (token syntax) computed by
    the implementation. Returns the list of disagreeing cases (each gets 'model'/'impl')."""
    reqs = [req(c) for c in cases]
    answers = model_batch(reqs, shards=shards)
    diffs = []
    for c, a in zip(cases, answers):
        try:
            got = impl(c)
        except Exception as e:  # implementation raised
            got = "EXC " + type(e).__name__
        a = a.strip()
        if a != got.strip():
            c["_diff"] = True
            d = dict(c)
            d["model"] = a
            d["impl"] = got
            diffs.append(d)
    chk.count(len(cases))
    chk.port_stat(port, len(cases), len(diffs))
    if diffs:
        chk.broken.append(f"correspondence {port}: {len(diffs)}/{len(cases)} cases differ")
        if on_diff:
            for d in diffs[:200]:
                on_diff(d)
    return diffs


def shrink_list(items: list, still_fails: Callable[[list], bool], max_steps=400) -> list:
    """Greedy delta debugging on a list."""
    cur = list(items)
    steps = 0
    n = 2
    while len(cur) >= 1 and steps < max_steps:
        chunk = max(1, len(cur) // n)
        removed = False
        i = 0
        while i < len(cur) and steps < max_steps:
            cand = cur[:i] + cur[i + chunk:]
            steps += 1
            if cand != cur and still_fails(cand):
                cur = cand
                removed = True
            else:
                i += chunk
        if not removed:
            if chunk == 1:
                break
            n = min(len(cur), n * 2)
    return cur
