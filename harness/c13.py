"""C13 — Each formatting call is isolated from other calls."""
from __future__ import annotations

import json
import os
import subprocess
import sys
import threading

from common import Check, TRUSTED_BASE_COMMON, PY

DOCS = [
    "# Title\n\nSee [ref] and [^n].\n\n[ref]: http://a.example/x \"T\"\n\n[^n]: The note text is here.\n",
    "Uses [ref] undefined here and [^n] too.\n\n- a\n\n- b\n",
    "- tight\n- list\n\nparagraph after \"quotes\" and... dots.\n",
    "1. one\n\n2. two\n\n   nested para\n\n> quote\n> more\n",
    "- [ ] task\n- [x] done\n\n| a | b |\n|---|:-:|\n| 1 | 2 |\n",
    "**Bold heading**\n===\n\n```py\ncode   here\n```\n\n{% tag %}\n- in tag\n{% /tag %}\n",
    "A long paragraph of text that needs wrapping at a narrow width to exercise the wrappers. Another sentence. And a third one that is longer still.\n",
    "> [!NOTE]\n> alert body\n\n* * *\n\n<div>html</div>\n",
    # definitions that must stay in their own call: a later document uses the same labels in another spelling without defining them
    "Text[^caveat] and more[^second caveat].\n\n[^caveat]: One.\n\n[^second caveat]: Two.\n\n[Big Ref]: /u \"T\"\n\nUse [big ref].\n",
    "See the fine print[^Caveat] and also[^Second   Caveat] before you sign the [BIG   REF] here.\n",
    # code fences of different styles (what a parser keeps between recognising the fence and reading the block)
    "```python\nx = 1\n```\n\ntext\n\n```python title\ny = 2\n```\n\n```\nz\n```\n",
    "> ~~~~ js title\n> code one\n> ~~~~\n\n> ~~~~ js other\n> code two\n> ~~~~\n\n- ~~~\n  in item\n  ~~~\n",
    # a document that ends in a heading, and one that starts with a definition and an empty line
    "Intro text.\n\n## Final heading\n",
    "[r]: /u \"T\"\n\nParagraph with [r] in it.\n",
]
OPTS = [
    dict(width=88, semantic=True, cleanups=True, smartquotes=False, ellipses=False),
    dict(width=30, semantic=False, cleanups=False, smartquotes=True, ellipses=True),
    dict(width=0, semantic=True, cleanups=True, smartquotes=True, ellipses=True),
    dict(width=40, plaintext=True),
]


def classify(kf, rec):
    return False


BASELINE_SNIPPET = r"""
import json, sys
from flowmark import reformat_text
from flowmark.formats.flowmark_markdown import ListSpacing
job = json.loads(sys.stdin.read())
kw = dict(job["opts"])
if "list_spacing" in kw: kw["list_spacing"] = ListSpacing(kw["list_spacing"])
print(json.dumps(reformat_text(job["doc"], **kw)))
"""


def fresh_baseline(doc, opts):
    p = subprocess.run([PY, "-c", BASELINE_SNIPPET], input=json.dumps({"doc": doc, "opts": opts}), text=True,
                       stdout=subprocess.PIPE, stderr=subprocess.PIPE, env=dict(os.environ, PYTHONPATH="/repo/src", PYTHONHASHSEED="0"), timeout=120)
    if p.returncode != 0:
        raise RuntimeError("baseline subprocess failed: " + p.stderr[-300:])
    return json.loads(p.stdout)


class Scheduler:
    """Deterministic interleaving at function-call granularity inside flowmark/marko code."""

    def __init__(self, rng, n):
        self.rng = rng
        self.cv = threading.Condition()
        self.alive = set(range(n))
        self.turn = self.rng.choice(sorted(self.alive))
        self.switches = 0
        self.trace = []

    def _relevant(self, frame):
        fn = frame.f_code.co_filename
        return "/flowmark/" in fn or "/marko/" in fn

    def make_tracer(self, tid):
        def tracer(frame, event, arg):
            if event == "call" and self._relevant(frame):
                self.yield_point(tid)
            return None
        return tracer

    def wait_turn(self, tid):
        with self.cv:
            while self.turn != tid:
                self.cv.wait()

    def yield_point(self, tid):
        with self.cv:
            nxt = self.rng.choice(sorted(self.alive))
            if nxt != tid:
                self.switches += 1
                if len(self.trace) < 40:
                    self.trace.append(nxt)
            self.turn = nxt
            self.cv.notify_all()
            while self.turn != tid:
                self.cv.wait()

    def finish(self, tid):
        with self.cv:
            self.alive.discard(tid)
            if self.alive:
                self.turn = self.rng.choice(sorted(self.alive))
            self.cv.notify_all()


def run_scheduled(rng, jobs, reformat_text):
    n = len(jobs)
    sched = Scheduler(rng, n)
    results = [None] * n

    def worker(tid):
        sched.wait_turn(tid)
        sys.settrace(sched.make_tracer(tid))
        try:
            doc, kw = jobs[tid]
            results[tid] = reformat_text(doc, **kw)
        except Exception as e:  # noqa
            results[tid] = f"EXC {type(e).__name__}: {e}"
        finally:
            sys.settrace(None)
            sched.finish(tid)

    ths = [threading.Thread(target=worker, args=(i,)) for i in range(n)]
    for t in ths:
        t.start()
    for t in ths:
        t.join(120)
    return results, sched


def run(chk: Check) -> None:
    tier = chk.tier
    chk.cov["trusted_base"] = TRUSTED_BASE_COMMON + [
        "inventory translator gen/inventory.py (ast scan of src/flowmark for caches, globals, module-level containers/objects, class attributes)",
        "races below function-call granularity inside C extensions (re, regex) are runtime behaviour the model cannot exhibit (partial)"]
    chk.cov["rule"] = ("histories: each (doc, options) pair is formatted after every other pair as prefix and compared with a fresh-interpreter "
                       "baseline; schedules: k threads under a deterministic scheduler that switches at every function call inside "
                       "flowmark/marko, schedule drawn from the seeded PRNG; non-trivial = the schedule switched threads >= 10 times; "
                       "distinct by schedule prefix")
    if not chk.phase_build("Props/C13.v", extract=False):
        return
    from flowmark import reformat_text
    import flowmark.config as cfgmod
    import flowmark.file_resolver.defaults as dfl
    rng = chk.rng
    pairs = [(d, o) for d in DOCS for o in OPTS]
    # fresh-interpreter baselines (a subset in quick)
    base = {}
    sub = pairs if tier == "thorough" else [pairs[i] for i in range(0, len(pairs), 3)]
    for d, o in sub:
        base[(d, json.dumps(o, sort_keys=True))] = fresh_baseline(d, o)
    snap_before = (repr(cfgmod._CONFIG_FILENAMES), repr(cfgmod._KEBAB_TO_SNAKE), repr(sorted(cfgmod._VALID_FIELDS)),
                   repr(dfl.DEFAULT_EXCLUDES), repr(dfl.DEFAULT_INCLUDES))
    # ---- histories ----
    nb = 0
    alone = {}
    for d, o in pairs:
        key = (d, json.dumps(o, sort_keys=True))
        out = reformat_text(d, **o)
        alone[key] = out
        chk.count()
        if key in base and base[key] != out:
            nb += 1
            chk.fail("property", {"history": "first in-process call vs fresh interpreter", "doc": d, "opts": o, "got": out, "alone": base[key]},
                     "result differs from the result in a fresh process", classify)
    npre = 0
    for (d, o) in pairs:
        key = (d, json.dumps(o, sort_keys=True))
        for (pd, po) in (pairs if tier == "thorough" else rng.sample(pairs, 8)):
            reformat_text(pd, **po)
            out = reformat_text(d, **o)
            npre += 1
            chk.count()
            if out != alone[key] or (key in base and out != base[key]):
                nb += 1
                chk.fail("property", {"history": [{"doc": pd, "opts": po}], "doc": d, "opts": o, "got": out, "alone": alone[key]},
                         "result depends on the document formatted before", classify)
    # every ordered pair of documents under one option set (state that only one particular predecessor leaves behind)
    for o in OPTS[:2]:
        for pd in DOCS:
            for d in DOCS:
                key = (d, json.dumps(o, sort_keys=True))
                reformat_text(pd, **o)
                out = reformat_text(d, **o)
                npre += 1
                chk.count()
                if out != alone[key]:
                    nb += 1
                    chk.fail("property", {"history": [{"doc": pd, "opts": o}], "doc": d, "opts": o, "got": out, "alone": alone[key]},
                             "result depends on the document formatted before", classify)
    chk.port_stat("histories (prefix call then call) vs stand-alone", npre, nb)
    # ---- schedules ----
    nsched = 25 if tier == "quick" else 400
    nbs = 0
    for it in range(nsched):
        k = rng.choice([2, 3, 4])
        jobs = [rng.choice(pairs) for _ in range(k)]
        results, sched = run_scheduled(rng, jobs, reformat_text)
        chk.count()
        chk.hist("threads", k)
        if sched.switches >= 10:
            chk.nontrivial(tuple(sched.trace))
        for (d, o), r in zip(jobs, results):
            key = (d, json.dumps(o, sort_keys=True))
            if r != alone[key]:
                nbs += 1
                chk.fail("property", {"schedule_prefix": sched.trace, "threads": [{"doc": jd, "opts": jo} for jd, jo in jobs],
                                      "doc": d, "opts": o, "got": r, "alone": alone[key], "seed": chk.seed, "iteration": it},
                         "a call running concurrently with others returned something else than alone", classify)
        if it < 3:
            chk.sample({"threads": k, "switches": sched.switches, "schedule_prefix": sched.trace[:15]})
    chk.port_stat("deterministic thread schedules vs stand-alone", nsched, nbs)
    # free-running threads with a tiny switch interval
    old = sys.getswitchinterval()
    sys.setswitchinterval(1e-6)
    try:
        for it in range(5 if tier == "quick" else 50):
            jobs = [rng.choice(pairs) for _ in range(6)]
            res = [None] * len(jobs)

            def w(i):
                res[i] = reformat_text(jobs[i][0], **jobs[i][1])
            ths = [threading.Thread(target=w, args=(i,)) for i in range(len(jobs))]
            [t.start() for t in ths]
            [t.join(120) for t in ths]
            chk.count()
            for (d, o), r in zip(jobs, res):
                if r != alone[(d, json.dumps(o, sort_keys=True))]:
                    chk.fail("property", {"free_running_threads": len(jobs), "doc": d, "opts": o, "got": r},
                             "a call running in a free-running thread returned something else than alone", classify)
    finally:
        sys.setswitchinterval(old)
    snap_after = (repr(cfgmod._CONFIG_FILENAMES), repr(cfgmod._KEBAB_TO_SNAKE), repr(sorted(cfgmod._VALID_FIELDS)),
                  repr(dfl.DEFAULT_EXCLUDES), repr(dfl.DEFAULT_INCLUDES))
    if snap_before != snap_after:
        chk.fail("property", {"before": snap_before, "after": snap_after}, "a module-level container changed during formatting calls", classify)


def replay(path: str) -> int:
    rec = json.loads(open(path).read())
    c = rec.get("case")
    print("what:", rec.get("what"))
    if not c:
        print("broken:", rec.get("broken"))
        return 1
    from flowmark import reformat_text
    if isinstance(c.get("history"), list):
        for h in c["history"]:
            reformat_text(h["doc"], **h["opts"])
        print("after history:", repr(reformat_text(c["doc"], **c["opts"])))
        print("alone        :", repr(c["alone"]))
    else:
        print(json.dumps(c, indent=1)[:1500])
    return 1
