"""C01 — Formatting preserves the meaning of the document."""
from __future__ import annotations

import json
import re

from common import Check, TRUSTED_BASE_COMMON
import docports
import gen_docs
import mdast
import rx
import wports

PANGU = re.compile(r"((?<=[⺀-⻿⼀-⿟぀-ゟ゠-ヿ㄀-ㄯ㈀-㋿㐀-䶿一-鿿豈-﫿])(?=[a-zA-Z0-9])|"
                   r"(?<=[a-zA-Z0-9])(?=[⺀-⻿⼀-⿟぀-ゟ゠-ヿ㄀-ㄯ㈀-㋿㐀-䶿一-鿿豈-﫿]))")


def norm_text(s: str) -> str:
    s = PANGU.sub(" ", s)
    return re.sub(r"\s+", " ", s)


def canon(t: dict) -> dict:
    """normal form of a parsed tree for 'same meaning': BlankLines dropped, text coalesced
    (soft breaks and escapes folded into text, whitespace runs collapsed, CJK/Latin spacing
    inserted), indented/fenced code and setext/ATX headings identified"""
    t = dict(t)
    name = t["t"]
    if name == "SetextHeading":
        t["t"] = "Heading"
    if name in ("CodeBlock", "FencedCode", "CustomFencedCode"):
        t["t"] = "Code"
        t.pop("fence_char", None)
        t.pop("fence_len", None)
        t["lang"] = t.get("lang", "") or ""
        t["extra"] = t.get("extra", "") or ""
        c = t.get("c", [])
        t["c"] = [{"t": "CodeText", "s": (c[0].get("s", "") if c else "").rstrip("\n")}]
        return t
    if name == "List":
        t.pop("bullet", None)
    if name in ("Link", "Image", "AutoLink", "Url"):
        t["title"] = re.sub(r"\s+", " ", t["title"]) if t.get("title") else None
    if "c" in t:
        kids = [canon(c) for c in t["c"] if c["t"] != "BlankLine"]
        out = []
        for c in kids:
            txt = None
            if c["t"] == "RawText" and c.get("esc", True):
                txt = c["s"]
            elif c["t"] == "LineBreak" and c.get("soft"):
                txt = " "
            elif c["t"] == "Literal":
                txt = c["s"]
            if txt is not None:
                if out and out[-1]["t"] == "Text":
                    out[-1]["s"] += txt
                else:
                    out.append({"t": "Text", "s": txt})
            else:
                out.append(c)
        for i, c in enumerate(out):
            if c["t"] == "Text":
                c["s"] = norm_text(c["s"])
                # spaces directly before / after a hard line break are not content
                if i + 1 < len(out) and out[i + 1]["t"] == "LineBreak":
                    c["s"] = c["s"].rstrip()
                if i > 0 and out[i - 1]["t"] == "LineBreak":
                    c["s"] = c["s"].lstrip()
        out = [c for c in out if not (c["t"] == "Text" and c["s"] == "")]
        # leading/trailing space of a scope is not content
        if name in ("Paragraph", "Heading", "SetextHeading", "TableCell"):
            if out and out[0]["t"] == "Text":
                out[0]["s"] = out[0]["s"].lstrip()
            if out and out[-1]["t"] == "Text":
                out[-1]["s"] = out[-1]["s"].rstrip()
            out = [c for c in out if not (c["t"] == "Text" and c["s"] == "")]
        t["c"] = out
    return t


def tree_diff(a: dict, b: dict, path="") -> str | None:
    if a["t"] != b["t"]:
        return f"{path}: {a['t']} became {b['t']}"
    for k in sorted(set(a) | set(b)):
        if k in ("c", "t", "esc"):
            continue
        if a.get(k) != b.get(k):
            return f"{path}/{a['t']}.{k}: {a.get(k)!r} became {b.get(k)!r}"
    ca, cb = a.get("c", []), b.get("c", [])
    for i, (x, y) in enumerate(zip(ca, cb)):
        r = tree_diff(x, y, f"{path}/{a['t']}[{i}]")
        if r:
            return r
    if len(ca) != len(cb):
        return f"{path}/{a['t']}: children {[c['t'] for c in ca]} became {[c['t'] for c in cb]}"
    return None


HAZ_HEAD = re.compile(r"^\s*(?:[>\-+*#=_`~|]|\d+[.)]|<[a-zA-Z!/])")


def classify(kf, rec):
    c = rec["case"]
    cl = kf.get("classifier")
    what = rec["what"]
    out = c.get("out", "")
    if cl == "line-start-hazard":
        # some output line that is not a line start of the input's paragraph begins with block syntax
        # and the disagreement is a paragraph turning into / absorbing another block
        in_lines = set(l.strip() for l in c.get("parser_input", c["doc"]).split("\n"))
        for l in out.split("\n"):
            body = re.sub(r"^(?:> ?|\s|[-*+] |\d+\. )*", "", l)
            if HAZ_HEAD.match(body) and l.strip() not in in_lines and not c.get("_diff"):
                return True
        return False
    if cl == "refdef-title-delimiters":
        return ".title" in what and ("LinkRefDef" in what or "link_ref_defs" in what) or "link_ref_defs" in what
    if cl == "angle-destination":
        return bool(re.search(r"\]\(<[^>]* [^>]*>", c["doc"]))
    if cl == "info-string-backslash":
        return "/Code.lang" in what or "/Code.extra" in what
    if cl == "table-in-container":
        return "Table" in what and bool(re.search(r"^\s*(?:>|[-*+] |\d+[.)] ).*\|", c["doc"], flags=re.M))
    return False


def reparse_check(doc_in: str, out: str):
    ta = canon(mdast.doc_tree(doc_in))
    tb = canon(mdast.doc_tree(out))
    d = tree_diff(ta, tb)
    if d is None and ta.get("link_ref_defs") != tb.get("link_ref_defs"):
        d = f"link_ref_defs: {ta.get('link_ref_defs')} became {tb.get('link_ref_defs')}"
    return d


def run(chk: Check) -> None:
    tier = chk.tier
    chk.cov["trusted_base"] = TRUSTED_BASE_COMMON + [
        "parser residue: that Marko reads flowmark's canonical spelling back as the same tree is evaluated by this differential run, not proved",
        "the oracle's notion of 'same document' is canon()/tree_diff in harness/c01.py"]
    chk.cov["rule"] = ("generated documents (all block/inline kinds, hazard tokens at every position, non-canonical layouts) x widths "
                       "{0,1,7,40,88} x {fill, semantic}, cleanups/typography off, list_spacing=preserve: AST of the parser input vs AST of the "
                       "output modulo whitespace runs, soft breaks, escapes, CJK/Latin spacing; non-trivial = the document has >= 3 blocks; "
                       "distinct by (document, options)")
    if not chk.phase_build("Props/C01.v"):
        return
    rng = chk.rng
    n = 1 if tier == "quick" else 10
    rx.validate(chk, ["re_md_specials", "re_md_numeral", "re_pangu", "re_line_break"], tier, per_pattern=600 if tier == "quick" else None)
    opts = docports.OPTION_SETS[:10]
    cases = docports.gen_cases(chk, 500 * n, malformed_share=0.1, opts=opts)
    docports.run_fill_port(chk, cases)
    nb = 0
    for i, c in enumerate(cases):
        if c["out"].startswith("EXC") or c.get("parser_input") is None:
            continue
        try:
            d = reparse_check(c["parser_input"], c["out"][len(c["out"]) - len(c["out"]):] if False else c["out"])
        except Exception as e:
            d = f"re-parse failed: {type(e).__name__}: {e}"
        # frontmatter, if any, is not part of the parsed body
        if d is not None:
            from flowmark.formats.frontmatter import split_frontmatter
            fm, _ = split_frontmatter(c["doc"])
            if fm and c["out"].startswith(fm):
                try:
                    d = reparse_check(c["parser_input"], c["out"][len(fm):])
                except Exception as e:
                    d = f"re-parse failed: {e}"
        if c["doc"].count("\n\n") >= 2:
            chk.nontrivial((c["doc"], json.dumps(c["opts"], sort_keys=True)))
        chk.hist("width", c["opts"]["width"])
        if d:
            nb += 1
            chk.fail("property", {"doc": c["doc"], "opts": c["opts"], "out": c["out"], "parser_input": c["parser_input"], "_diff": c.get("_diff", False)},
                     "meaning changed: " + d, classify)
        if i < 2:
            chk.sample({"doc": c["doc"][:300], "opts": c["opts"], "out": c["out"][:300]})
    chk.port_stat("spec: AST(input) vs AST(output)", len(cases), nb)


def replay(path: str) -> int:
    rec = json.loads(open(path).read())
    c = rec.get("case")
    print("what:", rec.get("what"))
    if not c:
        print("broken:", rec.get("broken"))
        return 1
    out = docports.fmt(c["doc"], c["opts"])
    print("---- input\n" + c["doc"])
    print("---- output", c["opts"], "\n" + out)
    print("---- diff:", reparse_check(c.get("parser_input") or c["doc"], out))
    return 1
