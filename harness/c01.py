"""C01 — Formatting preserves the meaning of the document."""
from __future__ import annotations

import json
import re

from common import Check, TRUSTED_BASE_COMMON
import docports
import gen_docs
import mdast
import rx
import wports

PANGU = re.compile(r"((?<=[⺀-⻿⼀-⿟぀-ゟ゠-ヿ㄀-ㄯ㈀-㋿㐀-䶿一-鿿豈-﫿])(?=[a-zA-Z0-9])|"
                   r"(?<=[a-zA-Z0-9])(?=[⺀-⻿⼀-⿟぀-ゟ゠-ヿ㄀-ㄯ㈀-㋿㐀-䶿一-鿿豈-﫿]))")


def norm_text(s: str) -> str:
    s = PANGU.sub(" ", s)
    return re.sub(r"\s+", " ", s)


def canon(t: dict) -> dict:
    """normal form of a parsed tree for 'same meaning': BlankLines dropped, text coalesced
    (soft breaks and escapes folded into text, whitespace runs collapsed, CJK/Latin spacing
    inserted), indented/fenced code and setext/ATX headings identified"""
    t = dict(t)
    name = t["t"]
    if name == "SetextHeading":
        t["t"] = "Heading"
    if name in ("CodeBlock", "FencedCode", "CustomFencedCode"):
        t["t"] = "Code"
        t.pop("fence_char", None)
        t.pop("fence_len", None)
        t["lang"] = t.get("lang", "") or ""
        t["extra"] = t.get("extra", "") or ""
        c = t.get("c", [])
        t["c"] = [{"t": "CodeText", "s": (c[0].get("s", "") if c else "").rstrip("\n")}]
        return t
    if name == "List":
        t.pop("bullet", None)
        # tight/loose is not in C01's list of preserved things; 'preserve keeps every list as authored' is C10's
        # statement and the tight flag is compared there (harness/c10.py)
        t.pop("tight", None)
    if name in ("CodeSpan", "InlineHTML") and isinstance(t.get("s"), str):
        # C01: 'the same text up to runs of whitespace'; C04: code spans, tags and HTML up to collapsing of whitespace runs
        t["s"] = re.sub(r"\s+", " ", t["s"])
    if name in ("Link", "Image", "AutoLink", "Url"):
        t["title"] = re.sub(r"\s+", " ", t["title"]) if t.get("title") else None
    if "c" in t:
        kids = [canon(c) for c in t["c"] if c["t"] != "BlankLine"]
        out = []
        for c in kids:
            txt = None
            if c["t"] == "RawText" and c.get("esc", True):
                txt = c["s"]
            elif c["t"] == "LineBreak" and c.get("soft"):
                txt = " "
            elif c["t"] == "Literal":
                txt = c["s"]
            if txt is not None:
                if out and out[-1]["t"] == "Text":
                    out[-1]["s"] += txt
                else:
                    out.append({"t": "Text", "s": txt})
            else:
                out.append(c)
        for i, c in enumerate(out):
            if c["t"] == "Text":
                c["s"] = norm_text(c["s"])
                # spaces directly before / after a hard line break are not content
                if i + 1 < len(out) and out[i + 1]["t"] == "LineBreak":
                    c["s"] = c["s"].rstrip()
                if i > 0 and out[i - 1]["t"] == "LineBreak":
                    c["s"] = c["s"].lstrip()
        out = [c for c in out if not (c["t"] == "Text" and c["s"] == "")]
        # leading/trailing space of a scope is not content
        if name in ("Paragraph", "Heading", "SetextHeading", "TableCell"):
            if out and out[0]["t"] == "Text":
                out[0]["s"] = out[0]["s"].lstrip()
            if out and out[-1]["t"] == "Text":
                out[-1]["s"] = out[-1]["s"].rstrip()
            out = [c for c in out if not (c["t"] == "Text" and c["s"] == "")]
        t["c"] = out
    return t


def tree_diff(a: dict, b: dict, path="") -> str | None:
    if a["t"] != b["t"]:
        return f"{path}: {a['t']} became {b['t']}"
    for k in sorted(set(a) | set(b)):
        if k in ("c", "t", "esc"):
            continue
        if a.get(k) != b.get(k):
            return f"{path}/{a['t']}.{k}: {a.get(k)!r} became {b.get(k)!r}"
    ca, cb = a.get("c", []), b.get("c", [])
    for i, (x, y) in enumerate(zip(ca, cb)):
        r = tree_diff(x, y, f"{path}/{a['t']}[{i}]")
        if r:
            return r
    if len(ca) != len(cb):
        return f"{path}/{a['t']}: children {[c['t'] for c in ca]} became {[c['t'] for c in cb]}"
    return None


MARKER_WORD = re.compile(r"^(?:[-*+_=]+|>.*|#{1,6}|`{3,}.*|~{3,}.*|\d{1,9}[.)])$")
CONTAINER_PREFIX = re.compile(r"^(?:> ?|\s|[-*+] |\d+[.)] |\[\^[^\]]*\]: )*")


QUOTE_PREFIX = re.compile(r"^(?:> ?|\s)*")


def new_line_heads(c):
    """first words of output lines that head more output lines than input lines (multiset difference)"""
    from collections import Counter
    cin, cout = Counter(), Counter()
    for l in (c.get("parser_input") or c["doc"]).split("\n"):
        body = QUOTE_PREFIX.sub("", l)
        if body.strip():
            cin[body.split()[0]] += 1
    for l in c.get("out", "").split("\n"):
        body = QUOTE_PREFIX.sub("", l)
        if body.strip():
            cout[body.split()[0]] += 1
    heads = [w for w in cout if cout[w] > cin[w]]
    # a '>' that heads the text of a line (relative to the quote depth of the line before) is itself a candidate
    def rel_heads(text):
        hs = Counter()
        lines = text.split("\n")
        for a, b in zip(lines, lines[1:]):
            depth = re.match(r"^[ >]*", a).group().count(">")
            rest = b
            for _ in range(depth):
                rest = re.sub(r"^\s*> ?", "", rest, count=1)
            if rest.strip():
                hs[rest.split()[0]] += 1
        return hs
    rin, rout = rel_heads(c.get("parser_input") or c["doc"]), rel_heads(c.get("out", ""))
    heads += [w for w in rout if rout[w] > rin[w] and w.startswith(">")]
    return heads


# fixed inputs that reproduce each listed finding (run on every check so the finding is reported)
REPRO = {
    "D-1c": ("See the list below please. 1. First do this thing now.\n", dict(width=88, semantic=True)),
    "D-1b": ("aaa bbb <div> ddd eee fff\n", dict(width=8, semantic=False)),
    "D-35": ("see http://bare.url/p?q=1  \nnext line\n", dict(width=88, semantic=False)),
    "D-36": ("* a\n* ___\n* b\n", dict(width=88, semantic=False)),
    "D-38": (")*\"+-\"_>!_/\n", dict(width=88, semantic=False)),
    "D-40": ("aaa bb \\ ccc ddd\n", dict(width=8, semantic=False)),
    "D-41": ("[f]: d mo\n", dict(width=7, semantic=False)),
    "D-43": ("> [^fn]: one\n>\n> [^fn]: two\n>     three\n>\n>     four\n", dict(width=88, semantic=False)),
    "D-44": ("___ a\n", dict(width=1, semantic=False)),
    "D-45": ("- [r]: /u\n\n- b\n", dict(width=88, semantic=False)),
    "D-46": ("a\\\nb\n===\n", dict(width=88, semantic=False)),
    "D-47": ("e\\\n    > x\n", dict(width=88, semantic=False)),
    "D-48": ("本 * **3*4**\n", dict(width=1, semantic=False)),
    "D-49": ("```  *  ```\n", dict(width=88, semantic=False)),
    "D-61": ("[](http://ex.com/ref)(http://..\n\n[f]:http://ex.com/ref\n", dict(width=1, semantic=False)),
    "D-67": ("_*a*_ b\n", dict(width=88, semantic=False)),
    "D-69": ("<a  \nhref=\"x\">foo</a> bar\n", dict(width=88, semantic=False)),
    "D-37": ("1) one\n2) two\n\n1. three\n2. four\n", dict(width=88, semantic=False)),
    "D-60": ("Please see [the end. Then more](<a\\> b>) for details about it.\n", dict(width=88, semantic=True)),
    "D-83": ("x {% t %}\n| a\n", dict(width=88, semantic=False)),
    "D-84": ("a\\  \nb\n", dict(width=88, semantic=False)),
    "D-85": ("x[^n]\n\n[^n]:     \n\ny\n", dict(width=88, semantic=False)),
    "D-86": ("x [t](<a  b>) y\n", dict(width=88, semantic=False)),
    "D-87": ("x `!(``a`` y\n", dict(width=88, semantic=False)),
}


def classify(kf, rec):
    c = rec["case"]
    cl = kf.get("classifier")
    what = rec["what"]
    doc = c.get("doc", "")
    if c.get("_diff"):
        return False          # the implementation no longer behaves like the pinned model here: not a listed finding
    if cl == "sentence-head-unescaped":
        if not c["opts"].get("semantic"):
            return False
        if any(MARKER_WORD.match(w) for w in new_line_heads(c)):
            return True
        # a marker word directly after a sentence end inside a paragraph of the input
        src = c.get("parser_input") or doc
        return any(MARKER_WORD.match(m.group(1)) for m in re.finditer(r"[.!?][\"'\u201d\u2019)]*\s+(\S+)(?=\s|$)", src))
    if cl == "html-or-table-at-line-start":
        return "HTML block start" in what
    if cl == "closing-tag-unindented":
        return bool(re.search(r"^(?:\{% /|\{# /|\{\{ /|<!-- /)", c.get("out", ""), flags=re.M)) and \
            bool(re.search(r"^(?:\s+|[-*+>] .*|\d+[.)] .*)(?:\{% /|\{# /|\{\{ /|<!-- /)", doc, flags=re.M))
    if cl == "nested-bracket-link":
        return bool(re.search(r"\[[^\]]*!\[[^\]]*\][^\]]*\]\(", doc)) and ("Link" in what or "Image" in what or "title" in what)
    if cl == "url-before-hard-break":
        src = c.get("parser_input") or doc
        # a two-space hard break directly after a bare URL or after a delimiter run: the backslash written instead joins the token
        return ("Url.dest" in what and bool(re.search(r"\S  +\r?\n", src))) or \
            (bool(re.search(r"[*_~]  +\r?\n", src)) and any(k in what for k in ("Emphasis", "Strong", "Strikethrough", "Text")))
    if cl == "autolink-recognition-after-reflow":
        m = re.search(r"Text\.s: (['\"])(.*)\1 became (['\"])(.*)\3$", what, flags=re.S)
        return bool(m) and "http" in m.group(2) and "http" not in m.group(4) and bool(re.search(r"\]\(http", doc))
    if cl == "marker-word-alone-on-line":
        src_lines = {QUOTE_PREFIX.sub("", l).strip() for l in (c.get("parser_input") or doc).split("\n")}
        for l in c.get("out", "").split("\n"):
            body = CONTAINER_PREFIX.sub("", l).strip()
            if re.fullmatch(r"[-*_]{3,}|=+|-+", body) and body not in src_lines:
                return True
        return False
    if cl == "linkrefdef-in-list-item":
        def has(t, inside):
            if t["t"] == "LinkRefDef" and inside:
                return True
            return any(has(k, inside or t["t"] == "ListItem") for k in t.get("c", []))
        try:
            return any(k in what for k in ("ListItem", "List", "LinkRefDef", "link_ref_defs")) and has(mdast.doc_tree(c.get("parser_input") or doc), False)
        except Exception:
            return False
    if cl == "break-in-star-list":
        return bool(re.search(r"^\s*\* (?:\*\s*\*\s*\*|_\s*_\s*_|-\s*-\s*-)[\s*_-]*$", doc, flags=re.M))
    if cl == "ordered-delimiter-merge":
        return bool(re.search(r"^\s*\d+\)", doc, flags=re.M)) and bool(re.search(r"^\s*\d+\.", doc, flags=re.M)) and "List" in what
    if cl == "backslash-word-at-wrap-point":
        # a word ending in an odd number of backslashes, followed by a blank (not a newline) and another word, in the parser input
        src = c.get("parser_input") or doc
        return bool(re.search(r"(?<!\\)(?:\\\\)*\\[ \t]+\S", src)) and \
            len(re.findall(r"(?<!\\)(?:\\\\)*\\\n", c.get("out", ""))) > len(re.findall(r"(?<!\\)(?:\\\\)*\\\n|  +\n", src))
    if cl == "wrap-creates-link-definition":
        return "link_ref_defs" in what and bool(re.search(r"^\s*(?:[-*+>] |\d+[.)] )*\[[^\]]+\]:", c.get("out", ""), flags=re.M)) and "{} became" in what
    if cl == "footnote-def-in-container":
        # a footnote definition that is nested in a container or itself holds a list / quote / code / another definition
        def hit(t, inside):
            if t["t"] == "FootnoteDef" and (inside or any(k["t"] not in ("Paragraph", "BlankLine") for k in t.get("c", []))):
                return True
            return any(hit(k, inside or t["t"] in ("Quote", "Alert", "List", "ListItem", "FootnoteDef")) for k in t.get("c", []))
        try:
            return "FootnoteDef" in what and hit(mdast.doc_tree(c.get("parser_input") or doc), False)
        except Exception:
            return False
    if cl == "hard-break-in-setext-heading":
        def hb(t, inside):
            if inside and t["t"] == "LineBreak" and not t.get("soft"):
                return True
            return any(hb(k, inside or t["t"] == "SetextHeading") for k in t.get("c", []))
        try:
            return "Heading" in what and hb(mdast.doc_tree(c.get("parser_input") or doc), False)
        except Exception:
            return False
    if cl == "hard-break-segment-head-unescaped":
        lines = c.get("out", "").split("\n")
        src = c.get("parser_input") or doc
        # once any source line starts or ends with a tag delimiter, lines that look like list items or table rows keep their newlines
        tagged = bool(re.search(r"(?m)(?:^[ >]*(?:\{%|\{#|\{\{|<!--)|(?:%\}|#\}|\}\}|-->)[ \t]*$)", src))
        for a, b in zip(lines, lines[1:]):
            if re.search(r"(?<!\\)(?:\\\\)*\\$", a) or re.search(r"(?:%\}|#\}|\}\}|-->)\s*$", a) or tagged:
                pre = re.match(r"^[ >]*", a).group()
                body = b[len(pre):] if b.startswith(pre) else b.lstrip()
                if body.split() and MARKER_WORD.match(body.split()[0]):
                    return True
        return False
    if cl == "escaped-star-changes-marko-delimiters":
        esc_line = any(re.match(r"^(?:\\[*_])+(?:\s|$)", CONTAINER_PREFIX.sub("", l)) for l in c.get("out", "").split("\n"))
        return esc_line and any(k in what for k in ("Text", "Emphasis", "Strong"))
    if cl == "code-span-padding-lost":
        m = re.search(r"CodeSpan\.s: (['\"])(.*)\1 became (['\"])(.*)\3$", what, flags=re.S)
        return bool(m) and m.group(2) != m.group(4) and m.group(2).strip() == m.group(4).strip()
    if cl == "adjacent-emphasis-delimiters-of-two-kinds":
        return bool(re.search(r"_\*|\*_", doc)) and any(k in what for k in ("Emphasis", "StrongEmphasis"))
    if cl == "hard-break-inside-inline-html":
        return bool(re.search(r"<[^<>\n]*  +\r?\n[^<>]*>", doc)) and any(k in what for k in ("InlineHTML", "LineBreak", "Text"))
    src0 = c.get("parser_input") or doc
    if cl == "sentence-end-inside-construct":
        # semantic mode: a link whose text holds a sentence end is cut there before it is protected as one word; with a space in its
        # destination or title the second half is then broken again and no longer reads as a link
        return bool(c["opts"].get("semantic")) and bool(re.search(r"\[[^\]\n]*[a-z0-9][.!?][\"')]* [^\]\n]*\]\([^)\n]* [^)\n]*\)", src0)) and \
            any(k in what for k in ("Link", "Text", "Image"))
    if cl == "block-like-line-after-tag-line":
        # a line that ends in a template tag / comment, directly followed (same paragraph) by a line that looks like a table row or list item
        return bool(re.search(r"(?:%\}|#\}|\}\}|-->)[ \t]*\r?\n[ \t]*(?:\||[-*+][ \t]|\d+[.)][ \t])", src0)) and ("Paragraph" in what or "Text" in what)
    if cl == "literal-backslash-before-hard-break":
        return bool(re.search(r"(?<!\\)(?:\\\\)*\\  +\r?\n", src0)) and ("Text" in what or "LineBreak" in what)
    if cl == "empty-footnote-definition":
        return bool(re.search(r"^[ >]*\[\^[^\]\n]+\]:[ \t]*$", src0, flags=re.M)) and "Footnote" in (what + json.dumps(c.get("diff_kinds", "")) + what) or \
            (bool(re.search(r"^[ >]*\[\^[^\]\n]+\]:[ \t]*$", src0, flags=re.M)) and "[^" in what)
    if cl == "space-run-inside-angle-destination":
        return bool(re.search(r"\]\(<[^<>\n]*  [^<>\n]*>", src0)) and ".dest" in what
    if cl == "stray-backtick-before-shortened-code-span":
        return bool(re.search(r"`[^`\n]*``+[^`]", src0)) and ("CodeSpan" in what or "Text" in what)
    if cl == "underscore-emphasis-repaired":
        words = re.findall(r"[A-Za-z]{2,}", doc)
        return "_" in doc and "*" in doc and not re.search(r"_\*|\*_", doc) and ("Emphasis" in what or "Text.s" in what) and len(words) < 3
    return False


HTML6 = ("address|article|aside|base|basefont|blockquote|body|caption|center|col|colgroup|dd|details|dialog|dir|div|dl|dt|"
         "fieldset|figcaption|figure|footer|form|frame|frameset|h1|h2|h3|h4|h5|h6|head|header|hr|html|iframe|legend|li|link|main|"
         "menu|menuitem|nav|noframes|ol|optgroup|option|p|param|search|section|summary|table|tbody|td|tfoot|th|thead|title|tr|track|ul")
HTML_BLOCK_START = re.compile(r"^(?:<(?:script|pre|style|textarea)(?:[\s>]|$)|<!--|<\?|<![A-Za-z]|<!\[CDATA\[|</?(?:%s)(?:[\s>]|/>|$))" % HTML6, re.I)


def html_line_start_check(parser_input: str, out: str):
    """CommonMark rule flowmark's own parser configuration does not apply (it never builds HTML blocks): an HTML block
    start of kinds 1-6 interrupts a paragraph.  Reports a word that the output puts at the start of a paragraph
    continuation line although no input line starts with it."""
    in_heads = set()
    for l in parser_input.split("\n"):
        body = CONTAINER_PREFIX.sub("", l)
        if body.strip():
            in_heads.add(body.split()[0])
    prev_blank = True
    for l in out.split("\n"):
        body = CONTAINER_PREFIX.sub("", l)
        if not body.strip():
            prev_blank = True
            continue
        w = body.split()[0]
        if not prev_blank and HTML_BLOCK_START.match(w) and w not in in_heads:
            return f"an HTML block start was moved to the start of a paragraph continuation line: {l!r} (a CommonMark reader ends the paragraph there)"
        prev_blank = False
    return None


def reparse_check(doc_in: str, out: str):
    ta = canon(mdast.doc_tree(doc_in))
    tb = canon(mdast.doc_tree(out))
    d = tree_diff(ta, tb)
    if d is None and ta.get("link_ref_defs") != tb.get("link_ref_defs"):
        d = f"link_ref_defs: {ta.get('link_ref_defs')} became {tb.get('link_ref_defs')}"
    return d


SPEC_ALPHA = list("-+*_=#>`~.)1290ab\\|[]<:!")


def validate_block_start_spec(chk: Check, n: int) -> None:
    """Model/BlockStart.v against the parser flowmark uses: a word w for which opens_block_word w = false must not end or
    change the paragraph when it heads a continuation line, alone ('x' / 'w') or followed by text ('x' / 'w y').
    (HTML block starts are outside the specification: D-1b.)"""
    from common import model_batch, enc_str, Toks
    import gen_words
    rng = chk.rng
    words = set(gen_words.HAZARD_WORDS) | {"--", "==", "**", "__", "- -", "1.", "1)", "123456789.", "1234567890.", "#######", "```x", "```x`", "~~~x", "````",
                                           ">", ">>", "\\-", "\\>", "1\\.", "\\*\\*\\*", "+", "++", "*_*", "-=-", "=", "|", "|-|", "|---|", ":-:", "[x]:", "[x]:y"}
    while len(words) < n:
        k = rng.choice([1, 1, 2, 2, 3, 3, 4, 5, 7])
        words.add("".join(rng.choice(SPEC_ALPHA) for _ in range(k)))
    words = sorted(w for w in words if w and not any(ch.isspace() for ch in w))
    ans = model_batch(["opens_block_word " + enc_str(w) for w in words], shards=1)
    esc = model_batch(["escape_word " + enc_str(w) for w in words], shards=1)
    nb = 0
    nopen = 0
    # the theorems of this property are about the hand-written escape_word: it must be the implementation's markdown_escape_word
    from flowmark.linewrapping import text_wrapping as tw
    nesc = 0
    for w, e in zip(words, esc):
        mw, iw = Toks(e).str(), tw.markdown_escape_word(w)
        if mw != iw:
            nesc += 1
            if nesc <= 5:
                chk.fail("correspondence", {"port": "escape_word", "word": w, "model": mw, "impl": iw}, f"escape_word({w!r}): model {mw!r}, implementation {iw!r}")
    chk.port_stat("port escape_word (Model/Wrap.v) vs markdown_escape_word", len(words), nesc)
    for w, a, e in zip(words, ans, esc):
        opens = Toks(a).bool()
        ew = Toks(e).str()
        nopen += opens
        chk.count()
        for cand, label in ((w, "unescaped word the specification calls harmless"), (ew, "escaped form")):
            if cand is w and opens:
                continue
            if cand.startswith("<"):
                continue
            for tail in ("", " y"):
                doc = "x\n" + cand + tail + "\n"
                t = mdast.doc_tree(doc)
                kids = [k for k in t["c"] if k["t"] != "BlankLine"]
                ok = len(kids) == 1 and kids[0]["t"] == "Paragraph" and not t.get("link_ref_defs")
                if ok:
                    flat = "".join(k.get("s", "\n") if k["t"] in ("RawText", "Literal", "LineBreak") else "?" for k in kids[0]["c"])
                    ok = not any(k["t"] == "LineBreak" and not k.get("soft") for k in kids[0]["c"])
                if not ok:
                    nb += 1
                    if nb <= 5:
                        chk.notes.append(f"BlockStart spec: {label} {cand!r} heads a line and the parser reads {[k['t'] for k in kids]} for {doc!r}")
    chk.hist("spec_words_opening", nopen)
    chk.port_stat("spec validation: opens_block_word = false => Marko keeps one paragraph", len(words), nb)
    if nb:
        chk.broken.append(f"specification Model/BlockStart.v is incomplete against the parser: {nb} words")


def tight_flags(text: str) -> list:
    """tight flags of all lists, document order"""
    acc = []

    def walk(t):
        if t["t"] == "List":
            acc.append(bool(t.get("tight")))
        for k in t.get("c", []):
            walk(k)
    walk(mdast.doc_tree(text))
    return acc


def heading_in_tight_item(text: str) -> bool:
    def walk(t):
        if t["t"] == "List" and t.get("tight"):
            for it in t.get("c", []):
                if any(k["t"] in ("Heading", "SetextHeading") for k in it.get("c", [])):
                    return True
        return any(walk(k) for k in t.get("c", []))
    try:
        return walk(mdast.doc_tree(text))
    except Exception:
        return False


def loose_list_in_tight_item(text: str) -> bool:
    """a tight list one of whose items holds a loose list (as its first or a later block)"""
    def walk(t):
        if t["t"] == "List" and t.get("tight"):
            for it in t.get("c", []):
                if any(k["t"] == "List" and not k.get("tight") for k in it.get("c", [])):
                    return True
        return any(walk(k) for k in t.get("c", []))
    try:
        return walk(mdast.doc_tree(text))
    except Exception:
        return False


def structure_preserved(doc: str, width: int, semantic: bool) -> bool:
    """C01 on one input (used as a precondition by the document-level oracles of other properties: a case on which the
    plain formatting pass already changes the structure belongs to C01 and its listed findings, not to them)"""
    from textwrap import dedent
    from flowmark.formats.frontmatter import split_frontmatter
    try:
        fm, content = split_frontmatter(doc)
        pin = dedent(content).strip() + "\n"
        out = docports.fmt(doc, dict(width=width, semantic=semantic, cleanups=False, smartquotes=False, ellipses=False, list_spacing="preserve"))
        if fm and out.startswith(fm):
            out = out[len(fm):]
        return reparse_check(pin, out) is None and html_line_start_check(pin, out) is None
    except Exception:
        return False


def run(chk: Check) -> None:
    tier = chk.tier
    chk.cov["trusted_base"] = TRUSTED_BASE_COMMON + [
        "parser residue: that Marko reads flowmark's canonical spelling back as the same tree is evaluated by this differential run, not proved",
        "the oracle's notion of 'same document' is canon()/tree_diff in harness/c01.py"]
    chk.cov["rule"] = ("generated documents (all block/inline kinds, hazard tokens at every position, non-canonical layouts) x widths "
                       "{0,1,7,40,88} x {fill, semantic}, cleanups/typography off, list_spacing=preserve: AST of the parser input vs AST of the "
                       "output modulo whitespace runs, soft breaks, escapes, CJK/Latin spacing; non-trivial = the document has >= 3 blocks; "
                       "distinct by (document, options)")
    if not chk.phase_build("Props/C01.v"):
        return
    rng = chk.rng
    n = 1 if tier == "quick" else 10
    rx.validate(chk, ["re_md_specials", "re_md_numeral", "re_pangu", "re_line_break"], tier, per_pattern=600 if tier == "quick" else None)
    validate_block_start_spec(chk, 1500 * n)
    import readspec
    readspec.validate_all(chk, 1200 * n)
    readspec.ports_inline(chk, 1500 * n)
    opts = docports.OPTION_SETS[:10]
    gen_docs.AVOID = {"tags_in_prose", "html_block_words", "bare_url", "mixed_ordered_delims", "break_in_list", "tags_in_containers", "backslash_word", "footnote_in_container", "marker_first_word", "refdef_in_container", "nested_bracket_links"}
    cases = docports.gen_cases(chk, 500 * n, malformed_share=0.0, opts=opts)
    for i, d in enumerate(gen_docs.systematic_docs()):
        cases.append({"doc": d, "opts": dict(opts[i % len(opts)])})
    gen_docs.AVOID = set()
    for fid, (doc, o) in REPRO.items():
        oo = dict(width=o["width"], semantic=o["semantic"], cleanups=False, smartquotes=False, ellipses=False, list_spacing="preserve")
        cases.append({"doc": doc, "opts": oo, "repro": fid})
    docports.run_fill_port(chk, cases)
    nb = 0
    for i, c in enumerate(cases):
        if c["out"].startswith("EXC") or c.get("parser_input") is None:
            continue
        try:
            d = reparse_check(c["parser_input"], c["out"][len(c["out"]) - len(c["out"]):] if False else c["out"])
        except Exception as e:
            d = f"re-parse failed: {type(e).__name__}: {e}"
        # frontmatter, if any, is not part of the parsed body
        if d is not None:
            from flowmark.formats.frontmatter import split_frontmatter
            fm, _ = split_frontmatter(c["doc"])
            if fm and c["out"].startswith(fm):
                try:
                    d = reparse_check(c["parser_input"], c["out"][len(fm):])
                except Exception as e:
                    d = f"re-parse failed: {e}"
        if c["doc"].count("\n\n") >= 2:
            chk.nontrivial((c["doc"], json.dumps(c["opts"], sort_keys=True)))
        chk.hist("width", c["opts"]["width"])
        if d is None:
            d = html_line_start_check(c["parser_input"], c["out"])
        if d:
            nb += 1
            chk.fail("property", {"doc": c["doc"], "opts": c["opts"], "out": c["out"], "parser_input": c["parser_input"], "_diff": c.get("_diff", False)},
                     "meaning changed: " + d, classify)
        if i < 2:
            chk.sample({"doc": c["doc"][:300], "opts": c["opts"], "out": c["out"][:300]})
    chk.port_stat("spec: AST(input) vs AST(output)", len(cases), nb)


def replay(path: str) -> int:
    rec = json.loads(open(path).read())
    c = rec.get("case")
    print("what:", rec.get("what"))
    if not c:
        print("broken:", rec.get("broken"))
        return 1
    out = docports.fmt(c["doc"], c["opts"])
    print("---- input\n" + c["doc"])
    print("---- output", c["opts"], "\n" + out)
    print("---- diff:", reparse_check(c.get("parser_input") or c["doc"], out))
    return 1
