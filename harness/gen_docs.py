"""Markdown document generator: random block/inline nesting in non-canonical source layout,
plus a malformed stream.  Everything derives from the rng handed in."""
from __future__ import annotations

import random

import gen_words as G

# Generator profile: names of constructs to avoid (each corresponds to a listed known finding, so
# that the everyday check does not re-report it through unrelated oracles).
AVOID: set[str] = set()

# Layout decisions (where soft line breaks go, runs of spaces, lazy / indented continuation lines, number of blank
# lines between blocks, spelling of hard breaks, final newline, CRLF, uniform indentation) are drawn from LAYOUT when
# it is set, so that the same content seed with two layout seeds gives two layouts of one document (C03).
LAYOUT: random.Random | None = None


def _L(rng):
    return LAYOUT if LAYOUT is not None else rng

WORDS = G.PLAIN + ["the", "quick", "brown", "fox", "jumps", "over", "lazy", "dog", "Hello", "world", "text", "more", "stuff", "sentence", "here", "and", "then", "finally"]


def inline(rng: random.Random, depth=0, hazards=True) -> str:
    r = rng.random()
    w = lambda: rng.choice(WORDS)  # noqa: E731
    if r < 0.50:
        return w()
    if r < 0.56 and hazards:
        hz = rng.choice(G.HAZARD_WORDS)
        if hz.endswith("\\") and "backslash_word" in AVOID:
            return w()
        return hz
    if r < 0.60:
        return rng.choice(G.SENT_WORDS)
    if r < 0.64 and depth < 2:
        return "*" + inline_seq(rng, rng.randint(1, 3), depth + 1, hazards=False) + "*"
    if r < 0.68 and depth < 2:
        return "**" + inline_seq(rng, rng.randint(1, 3), depth + 1, hazards=False) + "**"
    if r < 0.71:
        return rng.choice(["`code`", "`a b`", "``x ` y``", "`` ` ``", "`it's \"q\"...`", "`|`"])
    if r < 0.75 and depth < 2:
        if depth > 0 and "nested_bracket_links" in AVOID:
            return w()
        t = inline_seq(rng, rng.randint(1, 2), depth + 1, hazards=False)
        return rng.choice([f"[{t}](http://ex.com/a_b)", f"[{t}](/u \"Title\")", f"[{t}](<u v> 'T t')", f"[{t}][ref]", "[ref]", "[Ref Two]", "[ref two]", f"[{t}][Ref Two]", f"[{t}](u \"a \\\"b\\\" c\")",
                           # same destination as a definition the generator may emit, with the same, another or no title
                           f"[{t}](http://ex.com/ref)", f"[{t}](http://ex.com/ref \"Other\")", f"[{t}](/u)", f"[{t}](/u \"Other title\")",
                           # destinations and titles whose escapes have to be written back
                           f"[{t}](a\\\\*b)", f"[{t}](<a\\> b>)", f"[{t}](C:\\dir\\f)", f"[{t}](\\<a)", f"[{t}](a\\)b)", f"[{t}](/p 't\\\\')",
                           f"[{t}](/p \"a\\\\*b\")", f"[{t}](<a\\\\>)"])
    if r < 0.77:
        if depth > 0 and "nested_bracket_links" in AVOID:
            return w()
        return rng.choice(["![alt](img.png)", "![a *b*](i.png \"T\")"])
    if r < 0.79:
        if "bare_url" in AVOID:
            return rng.choice(["<http://auto.link/x>", "<b>", "</b>", "<br/>"])
        if "html_block_words" in AVOID:
            return rng.choice(["<http://auto.link/x>", "http://bare.url/p?q=1", "<b>", "</b>", "<br/>", "<span class=\"x y\">"])
        return rng.choice(["<http://auto.link/x>", "http://bare.url/p?q=1", "<b>", "</b>", "<br/>", "<span class=\"x y\">", "<div>", "</p>"])
    if r < 0.82:
        return rng.choice(["\\*", "\\.", "1\\.", "\\#", "\\_x\\_", "\\[", "\\>", "a\\.b"])
    if r < 0.84:
        return rng.choice(["~~del~~", "~x~", "~60", "~$100~", "~(x)~", "~a b.~"])
    if r < 0.86:
        return "note[^fn]"
    if r < 0.90:
        return rng.choice(G.QUOTES)
    if r < 0.93:
        if "tags_in_prose" in AVOID:
            return w()
        return rng.choice(G.TAGS)
    if r < 0.95:
        return rng.choice(["日本語", "中文abc", "x漢字", "é", "—"])
    return rng.choice(["a|b", "x_y_z", "2*3*4", "C:\\dir", "a<b>c", "&amp;", "&copy", "100%", "#tag", "@x"])


def inline_seq(rng, n, depth=0, hazards=True) -> str:
    return " ".join(inline(rng, depth, hazards) for _ in range(n))


def para_lines(rng, hazards=True) -> list[str]:
    n = rng.choice([1, 2, 4, 7, 12, 20, 35])
    if "hazard_words" in AVOID:
        hazards = False
    toks = [inline(rng, 0, hazards) for _ in range(n)]
    if "marker_first_word" in AVOID:
        toks[0] = inline(rng, 0, False)
    hard = [rng.random() < 0.055 for _ in toks]           # content: a hard break before token i
    for i in range(1, n):
        if hard[i] and "marker_first_word" in AVOID:
            toks[i] = inline(rng, 0, False)                # the word after a hard break heads a segment
    L = _L(rng)
    lines, cur = [], ""
    for i, t in enumerate(toks):
        if cur and hard[i]:
            lines.append(cur + ("\\" if L.random() < 0.5 else "  "))
            cur = t
        elif cur and L.random() < 0.13:
            lines.append(cur)
            cur = t
        else:
            cur = (cur + L.choice([" ", " ", " ", "  "]) + t) if cur else t
    lines.append(cur)
    # a paragraph's first line must not start like another block by accident: keep hazards but avoid empties
    return [l if l.strip() else "x" for l in lines]


def indent(lines, first, rest):
    return [(first if i == 0 else rest) + l if l else (first.rstrip() if i == 0 else rest.rstrip()) for i, l in enumerate(lines)]


def block(rng: random.Random, depth=0) -> list[str]:
    r = rng.random()
    if depth >= 3:
        r = r * 0.5
    if r < 0.30:
        ls = para_lines(rng)
        L = _L(rng)
        if L.random() < 0.15 and len(ls) > 1:
            ls = [ls[0]] + [L.choice(["  ", "   ", " "]) + l for l in ls[1:]]   # lazy / indented continuation
        return ls
    if r < 0.38:
        toks = [inline(rng, 0, False) for _ in range(rng.randint(1, 5))]
        if rng.random() < 0.2 and len(toks) >= 2:
            k = rng.randrange(len(toks) - 1)                    # emphasis over two adjacent words (a line break may fall inside it)
            toks[k], toks[k + 1] = "*" + toks[k].replace("*", ""), toks[k + 1].replace("*", "") + "*"
        L = _L(rng)
        bold = rng.random() < 0.15
        setext = rng.random() < 0.25
        under = rng.choice(["===", "---", "=", "------"])
        if setext:
            brk = L.randrange(len(toks)) if (len(toks) >= 2 and L.random() < 0.5) else -1
            t = ""
            for i, tk in enumerate(toks):
                t += tk if i == 0 else (("\n" if i == brk else L.choice([" ", " ", "  "])) + tk)
            if t.split("\n")[-1].lstrip()[:1] in "-=+*>#" or any(l.strip() == "" for l in t.split("\n")):
                t = t.replace("\n", " ")
        else:
            t = toks[0] + "".join(L.choice([" ", " ", "   "]) + tk for tk in toks[1:])
        if bold:
            t = "**" + t.replace("*", "") + "**"
        if setext:
            return t.split("\n") + [under]
        return ["#" * rng.randint(1, 6) + " " + t + _L(rng).choice(["", "", " #", " ##"])]
    if r < 0.45:
        fence = rng.choice(["```", "```", "~~~", "````", "~~~~"])
        info = rng.choice(["", "py", "python title=\"x\"", "c++", "a\\*b", "a\\\\|b x\\\\*y", "C:\\dir"])
        if fence[0] == "`" and "`" in info:
            info = ""
        body = [rng.choice(["code   here", "", "  indented", "```", "~~~", "> not quote", "- not list", "    deep", "x = \"q\"...", "\ttab", "`` ` ``",
                           "{% for x in xs %}", "  - {{ x }}", "{% endfor %}", "wait...what 'q'",
                           "    ```", "     ````", "\t~~~", "        ~~~~ x", "    ``` "]) for _ in range(rng.randint(0, 5))]
        body = [b for b in body if not (b.strip().startswith(fence[0] * 3) and len(b.strip()) >= len(fence) and set(b.strip()) == {fence[0]})]
        return [fence + info] + body + [fence]
    if r < 0.48:
        ic = ["    " + rng.choice(["indented code", "x  y", "- z", "wait...what", "it's \"q\"... done", "``` ", "```", "````\t", "~~~ x", " ``` "]) for _ in range(rng.randint(1, 3))]
        while ic and not ic[-1].strip("` \t~") and ic[-1].rstrip() != ic[-1]:
            ic[-1] = ic[-1].rstrip()          # trailing whitespace of the last line goes with the document's final strip
        return ic
    if r < 0.62 and depth < 3:
        ordered = rng.random() < 0.4
        loose = rng.random() < 0.4
        start = rng.choice([1, 1, 2, 7, 10, 0, 9, 98, 999999998])       # digit-count boundaries, and the last numbers a marker can hold
        bullet = rng.choice(["-", "*", "+"])
        delim = "." if "mixed_ordered_delims" in AVOID else rng.choice([".", ")"])
        out = []
        for i in range(rng.randint(1, 4)):
            marker = f"{min(start + i, 999999999)}{delim} " if ordered else bullet + " "
            if rng.random() < 0.15 and not ordered:
                marker = bullet + " " + rng.choice(["[ ] ", "[x] "])
            inner = []
            if rng.random() < 0.04 and "empty_items" not in AVOID:
                out.append(marker.rstrip())
                if loose:
                    out.append("")
                continue
            for j in range(rng.choice([1, 1, 1, 2, 3])):
                b = block(rng, depth + 1) if j or rng.random() < 0.3 else para_lines(rng, hazards=False)
                if inner:
                    inner.append("")
                inner += b
            out += indent(inner, marker, " " * len(marker))
            if loose:
                out.append("")
        while out and out[-1] == "":
            out.pop()
        return out
    if r < 0.70 and depth < 3:
        inner = []
        for j in range(rng.choice([1, 1, 2, 3])):
            if inner:
                inner.append("")
            inner += block(rng, depth + 1)
        if rng.random() < 0.15:
            inner = ["[!" + rng.choice(["NOTE", "TIP", "WARNING", "note", "IMPORTANT", "CAUTION"]) + "]"] + inner
        lazy = _L(rng).random() < 0.2
        return [(">" + (" " if l else "") + l) if (i == 0 or not lazy or not l or l[0] in "->#`~|" or l[:1].isdigit()) else l for i, l in enumerate(inner)]
    if r < 0.76:
        ncol = rng.randint(1, 4)
        Lt = _L(rng)
        pad = lambda c: c + Lt.choice(["", "", " ", "   "])  # noqa: E731
        head = "| " + " | ".join(pad(inline(rng, 1, False).replace("|", "/") + (Lt.choice([" ", "  "]) + "w" if Lt.random() < 0 else "")) for _ in range(ncol)) + " |"
        delim = "|" + "|".join(rng.choice(["---", ":--", "--:", ":-:", "-"]) for _ in range(ncol)) + "|"
        rows = ["| " + " | ".join(rng.choice([inline(rng, 1, False).replace("|", "\\|"), "`a\\|b`", "", "x \\| y", "C:\\\\\\|D", "`a\\\\\\|b`", "\\\\\\| z", "<kbd title=\"x\\\\\\|y\">"]) for _ in range(ncol)) + " |" for _ in range(rng.randint(0, 3))]
        return [head, delim] + rows
    if r < 0.80:
        if depth > 0 and "break_in_list" in AVOID:
            return para_lines(rng, hazards=False)
        return [rng.choice(["---", "***", "* * *", "___", "- - -", "_ _ _ _"])]
    if r < 0.86:
        if depth > 0 and "refdef_in_container" in AVOID:
            return para_lines(rng, hazards=False)
        return [rng.choice(["[ref]: http://ex.com/ref", "[ref]: /u \"Title\"", "[r2]: <u v> 'T'", "[r3]: /x (paren title)", "[Ref Two]: http://x.y \"q \\\"i\\\" r\""])]
    if r < 0.90:
        if depth > 0 and "footnote_in_container" in AVOID:
            return para_lines(rng, hazards=False)
        ls = para_lines(rng, hazards=False)
        return ["[^fn]: " + ls[0]] + ["    " + l for l in ls[1:]] + ([""] + ["    " + l for l in para_lines(rng, False)] if rng.random() < 0.3 else [])
    if r < 0.95:
        if depth > 0 and "tags_in_containers" in AVOID:
            return para_lines(rng, hazards=False)
        tag, close = rng.choice([("{% field %}", "{% /field %}"), ("<!-- a -->", "<!-- /a -->"), ("{# x #}", "{# /x #}")])
        inner = rng.choice([["- i1", "- i2"], ["| a | b |", "|---|---|", "| 1 | 2 |"], para_lines(rng, False), ["1. x", "2. y"]])
        b1, b2 = rng.choice([[], [""]]), rng.choice([[], [""]])
        return [tag] + b1 + inner + b2 + [close]
    return [rng.choice(["<div>", "<!-- comment -->", "<details><summary>x</summary>", "</div>", "<p align=\"center\">"])] + para_lines(rng, False)[:1]


def gen_doc(rng: random.Random, nblocks=None) -> str:
    n = nblocks or rng.choice([1, 2, 3, 5, 8])
    out = []
    for i in range(n):
        if out:
            out += [""] * _L(rng).choice([1, 1, 1, 2])
        out += block(rng, 0)
    L = _L(rng)
    text = "\n".join(out) + L.choice(["\n", "\n", "", "\n\n"])
    if L.random() < 0.05:
        text = text.replace("\n", "\r\n")
    if L.random() < 0.05:
        text = "    " + text.replace("\n", "\n    ")   # uniformly indented (dedent)
    return text


def gen_doc_layouts(content_seed: int, layout_seeds, nblocks=None) -> list[str]:
    """the same content laid out once per layout seed"""
    global LAYOUT
    docs = []
    try:
        for ls in layout_seeds:
            LAYOUT = random.Random(ls)
            docs.append(gen_doc(random.Random(content_seed), nblocks))
    finally:
        LAYOUT = None
    return docs


MALFORMED_ALPHA = list("*_`[]()<>#-+=|~\\!\"'{}%.:/ \n\t") + ["\r", "\x00", "\x0c", "\u2028", "é", "日", "1", "a"]


def gen_malformed(rng: random.Random) -> str:
    kind = rng.random()
    if kind < 0.5:
        return "".join(rng.choice(MALFORMED_ALPHA) for _ in range(rng.choice([1, 5, 20, 60, 200])))
    if kind < 0.7:
        tok = rng.choice(["*", "_", "`", "[", "(", "<", ">", "#", "- ", "> ", "|", "~", "\\", "{%", "<!--", "![", "](", "1. ", "\t", "**a", "[a](", "``", "[^", "[^\n", "]: ", "[^a]: "])
        reps = rng.choice([1, 3, 10, 40])
        if tok.strip() in (">", "-", "1.", "*", "+") :
            reps = min(reps, 10)     # container nesting: Marko's parse time doubles per level (C12 watchdog covers it)
        return tok * reps + rng.choice(["", "x", "\n", "\nx"])
    doc = gen_doc(rng)
    # mutate: delete / duplicate / swap random characters
    s = list(doc)
    for _ in range(rng.randint(1, 10)):
        if not s:
            break
        i = rng.randrange(len(s))
        op = rng.random()
        if op < 0.4:
            del s[i]
        elif op < 0.7:
            s.insert(i, rng.choice(MALFORMED_ALPHA))
        else:
            s[i] = rng.choice(MALFORMED_ALPHA)
    return "".join(s)


# ---- a deterministic family: every kind of block as the first (and as a later) block of every kind of container, and the escapes that
# only matter at the start of a continuation line.  These run in every check that uses them, whatever the random stream does. ----
def systematic_docs() -> list[str]:
    inner = {
        "para": ["some text here"],
        "heading": ["## heading text"],
        "fence": ["```py", "code", "", "more code", "```"],
        "tilde-fence": ["~~~", "a", "", "b", "~~~"],
        "quote": ["> quoted", "> text"],
        "alert": ["> [!NOTE]", "> hello there"],
        "list": ["- x", "- y"],
        "olist": ["1. x", "2. y"],
        "table": ["| a | b |", "|---|---|", "| 1 | 2 |"],
        "rule": ["***"],
        "indented": ["    indented code", "", "    more"],
    }
    outer = {
        "item": ("- ", "  "),
        "oitem": ("1. ", "   "),
        "oitem10": ("10. ", "    "),
        "quote": ("> ", "> "),
        "footnote": ("[^n]: ", "    "),
        "item-in-quote": ("> - ", ">   "),
        "quote-in-item": ("- > ", "  > "),
    }
    docs = []
    for oname, (p1, p2) in outer.items():
        for iname, lines in inner.items():
            if oname == "footnote" and iname == "indented":
                continue
            first = [p1 + lines[0]] + [(p2 + l).rstrip() if not l else p2 + l for l in lines[1:]]
            later = [p1 + "first para", p2.rstrip()] + [(p2 + l) if l else p2.rstrip() for l in lines]
            tail = ["", "after"] if oname != "footnote" else []
            head = ["note[^n] text", ""] if oname == "footnote" else []
            docs.append("\n".join(head + first + [p2.rstrip(), p2 + "second para"] + tail) + "\n")
            docs.append("\n".join(head + later + tail) + "\n")
    for esc in ["1\\.", "1945\\.", "12\\)", "\\-", "\\+", "\\#", "\\>", "\\*", "\\_\\_\\_", "\\=\\=", "\\`\\`\\`", "\\~\\~\\~"]:
        docs.append("some words come first\n" + esc + " and the rest of it\n")
        docs.append("- some words come first\n  " + esc + " and the rest of it\n")
        docs.append("> some words come first\n> " + esc + " and the rest\\\n> " + esc + " after a hard break\n")
    return docs
