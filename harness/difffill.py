"""debug helper: model vs implementation on the documents of a seed; prints the first differing region"""
import sys, json, random
sys.path.insert(0, "/verif/harness")
import docports, gen_docs
from common import model_batch, enc_str, Toks
import astenc

def model_out(doc, o):
    pin = model_batch(["parser_input " + enc_str(doc)], shards=1)[0]
    tk = Toks(pin); ptxt = tk.opt(tk.str)
    dtoks = "0" if ptxt is None else "1 " + astenc.enc_doc(docports.parse(ptxt))
    a = model_batch(["fill_markdown %s %s %s" % (astenc.enc_mdopts(o["width"], o["semantic"], o["cleanups"], o["smartquotes"], o["ellipses"], o["list_spacing"]), enc_str(doc), dtoks)], shards=1)[0]
    return a if a.startswith(("ERR", "EXC")) else Toks(a).str()

if __name__ == "__main__":
    rec = json.load(open(sys.argv[1]))
    for c in rec:
        m = model_out(c["doc"], c["opts"]); i = docports.fmt(c["doc"], c["opts"])
        if m != i:
            k = next((j for j in range(min(len(m), len(i))) if m[j] != i[j]), min(len(m), len(i)))
            print("DIFF at", k, "model:", repr(m[max(0,k-60):k+60]), "impl:", repr(i[max(0,k-60):k+60]))
        else:
            print("same")
