"""C12 — Formatting always terminates with well-formed output."""
from __future__ import annotations

import json
import re
import signal
import time

from common import Check, TRUSTED_BASE_COMMON
import gen_docs
import docports
import wports
import mdast

LIMIT_S = 20


class Timeout(Exception):
    pass


def _alarm(signum, frame):
    raise Timeout()


def timed(f, *a, **kw):
    old = signal.signal(signal.SIGALRM, _alarm)
    signal.setitimer(signal.ITIMER_REAL, LIMIT_S)
    t0 = time.perf_counter()
    try:
        return f(*a, **kw), time.perf_counter() - t0, None
    except Timeout:
        return None, LIMIT_S, "timeout"
    except RecursionError as e:
        return None, time.perf_counter() - t0, "RecursionError"
    except Exception as e:  # noqa
        return None, time.perf_counter() - t0, f"{type(e).__name__}: {e}"
    finally:
        signal.setitimer(signal.ITIMER_REAL, 0)
        signal.signal(signal.SIGALRM, old)


def classify(kf, rec):
    c = rec["case"]
    cl = kf.get("classifier")
    if cl == "quote-nesting-exponential":
        return c.get("family") in ("quote-nesting",) or (rec["what"].startswith("time") and re.match(r"^(> ?){12,}", c.get("doc", "")) is not None)
    if cl == "deep-nesting-recursion-error":
        d = c.get("doc", "")
        deep = bool(re.match(r"^(> ?){150,}", d)) or d.count("\n" + " " * 300) > 0 or len(re.findall(r"\*a ", d)) >= 150
        return "RecursionError" in rec["what"] and deep
    if cl == "quadratic-in-atomic-constructs":
        return c.get("family") == "atoms-quadratic"
    if cl == "nul-placeholder-in-plaintext":
        return bool(c.get("opts", {}).get("plaintext")) and "\x00AC" in c.get("doc", "")
    return False


CTRL = set(chr(i) for i in list(range(0, 9)) + [11, 12] + list(range(14, 32)) + [127])


def wellformed(doc: str, out: str, opts: dict) -> str | None:
    if not isinstance(out, str):
        return "result is not a string"
    if not opts.get("plaintext") and not out.endswith("\n"):
        return "Markdown-mode output does not end in a newline"
    if "\x00AC" in out and "\x00AC" not in doc:
        return "internal placeholder leaked into the output"
    extra = (set(out) & CTRL) - set(doc)
    if extra:
        return f"control characters {sorted(map(ord, extra))} appear in the output but not in the input"
    if "�" in out and "�" not in doc and "\x00" not in doc:
        return "replacement character appeared"
    # inside code blocks of the output, an empty content line must not carry trailing whitespace
    if not opts.get("plaintext") and len(out) < 20000:
        try:
            spans = []

            def walk(e):
                if type(e).__name__ in ("CustomFencedCode", "FencedCode") and getattr(e, "source_span", None):
                    spans.append(e.source_span)
                ch = getattr(e, "children", None)
                if isinstance(ch, list):
                    for c in ch:
                        walk(c)
            walk(mdast.parse(out))
        except Exception:
            spans = []
        in_lines = re.split(r"\r\n|\r|\n", doc)      # the parser reads a lone CR as a line ending too
        for (a0, b0) in spans:
            for l in out[a0:b0].split("\n")[1:-1]:
                if l != l.rstrip(" \t") and l.strip(" \t>") == "":
                    tail = l[len(l.rstrip(" \t")):]
                    if not any(il.strip(" \t>") == "" and il.endswith(tail) and il != il.rstrip(" \t") for il in in_lines):
                        return f"blank line inside a code block carries added trailing whitespace: {l!r}"
    return None


FAMILIES = {
    "long-paragraph": lambda n: "word " * (200 * n),
    "many-paragraphs": lambda n: "A paragraph here. Another sentence.\n\n" * (60 * n),
    "emphasis-run": lambda n: "*a " * (100 * n),
    "open-brackets": lambda n: "[" * (150 * n),
    "backticks": lambda n: "`" * (200 * n) + "x",
    "backtick-pairs": lambda n: "`a` " * (150 * n),
    "angle-brackets": lambda n: "<" * (200 * n),
    "template-open": lambda n: "{% " * (100 * n),
    "comment-open": lambda n: "<!-- " * (100 * n),
    "paired-tags": lambda n: "{% a %}{% /a %} " * (40 * n),
    "quotes": lambda n: "\"a 'b " * (100 * n),
    "dots": lambda n: "a... " * (150 * n),
    "list-items": lambda n: "- item\n" * (100 * n),
    "nested-list": lambda n: "".join("  " * i + "- x\n" for i in range(6 * n)),
    "table-rows": lambda n: "| a | b |\n|---|---|\n" + "| 1 | 2 |\n" * (60 * n),
    "code-lines": lambda n: "```\n" + "code line\n" * (150 * n) + "```\n",
    "link-refs": lambda n: "".join(f"[r{i}]: /u{i}\n" for i in range(40 * n)) + "\n" + " ".join(f"[r{i}]" for i in range(40 * n)),
    "hard-breaks": lambda n: "line\\\n" * (80 * n),
    "underscores": lambda n: "_a_b" * (120 * n),
    "tildes": lambda n: "~a~ " * (120 * n),
    "mixed-atoms": lambda n: " ".join(f"`c{i}` [l{i}](u{i}) {{% t{i} %}} <b>w{i}</b>" for i in range(60 * n)),
}


def run(chk: Check) -> None:
    from flowmark import reformat_text
    tier = chk.tier
    chk.cov["trusted_base"] = TRUSTED_BASE_COMMON + [
        "CPU time of CPython's re/regex and of Marko's parser, and Python's recursion limit, are runtime behaviour no model exhibits: this part of C12 is a watchdog test, not a proof (partial)"]
    chk.cov["rule"] = ("generated documents and a malformed stream (punctuation soup, unbalanced delimiters, control characters, CR/LF mixes, "
                       "NUL, mutated documents) x option sets incl. plaintext, each under a 20 s watchdog; pumped families at sizes n,2n,4n with a "
                       "growth bound; non-trivial = input has >= 20 characters; distinct by input")
    if not chk.phase_build("Props/C12.v"):
        return
    rng = chk.rng
    n = 1 if tier == "quick" else 10
    cases = docports.gen_cases(chk, 700 * n, malformed_share=0.6)
    docports.run_fill_port(chk, cases)
    wports.port_fill_text(chk, 500 * n, modes=[1])
    # ---- watchdog + well-formedness on the implementation ----
    nb = 0
    ntot = 0
    opts_pool = [dict(o) for o in docports.OPTION_SETS] + [dict(width=w, plaintext=True) for w in (0, 10, 88)]
    fixed = ["[^\nfn]: x\n", "a\n\n[^\nfn]: `` ` `` quick\n", "[^a\nb\nc]: x\n    y\n", "> [^\n> fn]: x\n",     # inputs that once made the parser loop forever (fix 6756391)
             "[^n]:\t&", "a[^n]\n\n[^n]:\tx y\n    more\n", "> [^n]:\t\tx\n", "- a\n\n  [^n]: \t x\n", "a[^f\tn]\n\n[^f\tn]: x\n    y\n", " [^a\tb\tc]:\tq\n",                  # tab after the colon of a footnote definition (fix 409e762)
             "a " + "`" * 1500 + "x b\n"]                                                                                 # long backtick run in a paragraph (fix 05d3e30)
    for i in range(1200 * n):
        doc = fixed[i] if i < len(fixed) else (gen_docs.gen_malformed(rng) if rng.random() < 0.7 else gen_docs.gen_doc(rng))
        if rng.random() < 0.03:
            doc = doc[:len(doc) // 2] + "\x00AC0\x00" + doc[len(doc) // 2:]
        o = dict(rng.choice(opts_pool))
        if i < len(fixed):
            doc, o = fixed[i], dict(width=88, semantic=bool(i % 2))
        out, dt, err = timed(reformat_text, doc, **o)
        ntot += 1
        chk.count()
        if len(doc) >= 20:
            chk.nontrivial(doc)
        chk.hist("mode", "plaintext" if o.get("plaintext") else "markdown")
        case = {"doc": doc, "opts": o}
        if err:
            nb += 1
            chk.fail("property", case, ("time: no result within %d s" % LIMIT_S) if err == "timeout" else f"raised {err}", classify)
            continue
        why = wellformed(doc, out, o)
        if why and "inside a code block" in why:
            # the clause is about code blocks of the document: where formatting turns prose into a code block (a listed C01 finding,
            # e.g. a sentence starting with a fence marker) the 'code block' of the output is not one of the input
            import c01
            if not c01.structure_preserved(doc, o.get("width", 88), bool(o.get("semantic"))):
                chk.hist("skipped", "output code block is not a code block of the input (C01 finding)")
                why = None
        if why:
            nb += 1
            chk.fail("property", dict(case, out=out[:500]), "malformed output: " + why, classify)
        if i < 3:
            chk.sample({"doc": doc[:120], "opts": o, "seconds": round(dt, 4)})
    chk.port_stat("spec: no exception / watchdog / well-formed output", ntot, nb)
    # ---- pumped families ----
    nbp = 0
    for name, f in FAMILIES.items():
        times = []
        for k in (1, 2, 4):
            doc = f(k * (1 if tier == "quick" else 2))
            for o in (dict(width=88, semantic=True, cleanups=True, smartquotes=True, ellipses=True), dict(width=20, plaintext=True)):
                out, dt, err = timed(reformat_text, doc, **o)
                chk.count()
                if err:
                    nbp += 1
                    chk.fail("property", {"family": name, "size": k, "opts": o, "doc": doc[:80]}, f"pumped family {name}: {err}", classify)
                elif k == 1:
                    # the large inputs are also checked for well-formed output (a paragraph with hundreds of constructs, thousands of words)
                    why = wellformed(doc, out, o)
                    if why:
                        nbp += 1
                        chk.fail("property", {"family": name, "size": k, "opts": o, "doc": doc, "out": out[:500]}, f"malformed output on pumped family {name}: {why}", classify)
                times.append((k, dt))
        t1 = max(dt for k, dt in times if k == 1)
        t4 = max(dt for k, dt in times if k == 4)
        chk.hist("family_seconds_at_4n", f"{name}:{t4:.2f}")
        if t4 > 5 and t4 > 40 * max(t1, 0.01):
            nbp += 1
            chk.fail("property", {"family": name, "t_n": t1, "t_4n": t4}, f"time grows too fast on family {name}: {t1:.2f}s -> {t4:.2f}s for 4x the size", classify)
    # container nesting depth (Marko): known exponential in quote depth
    for depth in (10, 14, 18, 20):
        doc = "> " * depth + "a"
        out, dt, err = timed(reformat_text, doc)
        chk.count()
        chk.hist("quote_depth_seconds", f"{depth}:{dt:.2f}")
        if err or dt > 5:
            nbp += 1
            chk.fail("property", {"family": "quote-nesting", "depth": depth, "seconds": dt, "doc": doc}, f"time: quote nesting depth {depth} took {dt:.1f}s ({err})", classify)
    prev = None
    for depth in (12, 14, 16):
        _, dt, _ = timed(reformat_text, "> " * depth + "a")
        if prev and dt > 0.2 and dt > 3.2 * prev:
            chk.fail("property", {"family": "quote-nesting", "depth": depth, "seconds": dt, "prev_seconds": prev, "doc": "> " * depth + "a"},
                     "time: parse time grows exponentially with quote nesting depth (x4 per 2 levels)", classify)
        prev = dt
    # one long paragraph at an ordinary and at a huge width: the time must not depend on the width (every word is looked at once)
    doc = "word " * 50000 + "\n"
    _, t88, e1 = timed(reformat_text, doc, width=88, semantic=False)
    _, tbig, e2 = timed(reformat_text, doc, width=1_000_000, semantic=False)
    chk.count(2)
    chk.hist("long_paragraph_seconds", f"width88:{t88:.2f} width1e6:{tbig:.2f}")
    if e1 or e2 or tbig > 10 * t88 + 1.5:
        nbp += 1
        chk.fail("property", {"family": "long-paragraph-huge-width", "seconds_width_88": t88, "seconds_width_1e6": tbig, "errors": [e1, e2]},
                 f"a 250 KB paragraph takes {t88:.2f}s at width 88 and {tbig:.2f}s at width 1000000 ({e1 or e2 or 'time grows with the line length'})", classify)
    # listed findings: very deep nesting raises RecursionError (D-92); time quadratic in the number of atomic constructs of one paragraph (D-91)
    for doc in (">" * 400 + " x\n", "".join("  " * i + "- x\n" for i in range(200))):
        out, dt, err = timed(reformat_text, doc)
        chk.count()
        if err:
            chk.fail("property", {"doc": doc, "opts": {}, "nesting": True}, f"raised {err}", classify)
    ts = []
    for m in (1200, 2400):
        doc = " ".join(f"[a{i}](u{i})" for i in range(m)) + "\n"
        out, dt, err = timed(reformat_text, doc, width=88)
        ts.append(dt)
        chk.count()
    chk.hist("atoms_seconds", f"1200:{ts[0]:.2f} 2400:{ts[1]:.2f}")
    if ts[1] > 0.8 and ts[1] > 3.2 * max(ts[0], 0.01):
        chk.fail("property", {"family": "atoms-quadratic", "seconds_n": ts[0], "seconds_2n": ts[1]},
                 f"time grows quadratically with the number of links in one paragraph: {ts[0]:.2f}s for 1200, {ts[1]:.2f}s for 2400", classify)
    chk.port_stat("pumped families / nesting depth", len(FAMILIES) * 6 + 11, nbp)


def replay(path: str) -> int:
    from flowmark import reformat_text
    rec = json.loads(open(path).read())
    c = rec.get("case")
    print("what:", rec.get("what"))
    if not c or "doc" not in c or "opts" not in c:
        print(json.dumps(c or rec.get("broken"), indent=1)[:1500])
        return 1
    out, dt, err = timed(reformat_text, c["doc"], **c["opts"])
    print("input :", repr(c["doc"][:500]), c["opts"])
    print("result:", repr(out[:500]) if out is not None else None, "seconds:", dt, "error:", err)
    return 1
