"""Correspondence ports for the line-wrapping stack (shared by C01-C06, C11, C12)."""
from __future__ import annotations

import json

from common import Check, enc_bool, enc_str, enc_strs
from ports import run_port
import gen_words as G

INDENTS = [("", ""), ("", ""), ("- ", "  "), ("> ", "> "), ("1. ", "   "), ("    ", "    "), ("[^note]: ", "    "),
           ("> - ", ">   "), ("  ", "  "), ("* ", "  ")]


def gen_para_text(rng, nwords=None, tags=True, atoms=True, newlines=True, hard=True) -> str:
    n = nwords if nwords is not None else rng.choice([0, 1, 2, 3, 4, 6, 9, 14, 25, 40])
    words = G.random_words(rng, n, tags=tags, atoms=atoms)
    s = ""
    for i, w in enumerate(words):
        if i:
            r = rng.random()
            if r < 0.62:
                s += " "
            elif r < 0.72 and newlines:
                s += "\n"
            elif r < 0.76 and newlines:
                s += "\n  "
            elif r < 0.80:
                s += "  "
            elif r < 0.83 and hard:
                s += "\\\n"
            elif r < 0.85 and hard:
                s += "  \n"
            elif r < 0.86 and hard:
                # consecutive hard breaks: empty segments; a literal (escaped) backslash directly before the break's own backslash
                s += rng.choice(["\\\n\\\n", "  \n\\\n", "\\\n  \\\n\\\n", "\\\\\\\n", "x\\\\\\\n"])
            elif r < 0.88 and tags:
                s += ""          # adjacency
            elif r < 0.9:
                s += rng.choice(["\t", "\t", "\u00a0", "\u2003", "\u3000", "\x0c", "\x1f", "\u2028"])      # every kind of whitespace separates words
            elif r < 0.92 and newlines:
                s += " \n"
            else:
                s += " "
        s += w
    return s


def gen_tag_block_text(rng) -> str:
    lines = []
    for _ in range(rng.randint(1, 9)):
        r = rng.random()
        if r < 0.25:
            lines.append(rng.choice(G.TAGS))
        elif r < 0.4:
            lines.append(rng.choice(["- item", "* x", "+ y", "1. one", "12) two", "| a | b |", "|---|---|", "-", "1.", "- "]) )
        elif r < 0.5:
            lines.append("")
        elif r < 0.6:
            lines.append("  " + rng.choice(G.TAGS + ["- nested", "text"]))
        elif r < 0.7:
            lines.append(rng.choice(G.TAGS) + rng.choice(["", " "]) + rng.choice(G.TAGS))
        elif r < 0.8:
            lines.append(" ".join(G.random_words(rng, rng.randint(1, 5), tags=True)) + " " + rng.choice(G.TAGS))
        else:
            lines.append(" ".join(G.random_words(rng, rng.randint(1, 6), tags=True, atoms=True)))
    return "\n".join(lines)


def _mods():
    from flowmark.linewrapping import text_wrapping as tw, tag_handling as th, line_wrappers as lw, \
        sentence_split_regex as ss, text_filling as tf, block_heuristics as bh
    return tw, th, lw, ss, tf, bh


def note_diffs(chk: Check, name: str, diffs, keys):
    for d in diffs[:3]:
        chk.notes.append(f"{name} differs: " + json.dumps({k: d[k] for k in keys if k in d}, ensure_ascii=False)[:400]
                         + f" model={d['model'][:120]!r} impl={d['impl'][:120]!r}")


def port_word_splitter(chk: Check, n: int):
    tw, th, *_ = _mods()
    rng = chk.rng
    cases = [{"t": gen_para_text(rng, hard=False)} for _ in range(n)]
    cases += [{"t": t} for t in ["", " ", "{% a %}{% b %}", "`a` `b`", "[x](y z) w", "<!-- a --><!-- /a -->", "a\x00AC0\x00b `c`",
                                 "{% a %} {% /a %}", "``a ` b`` c", "[a](b)[c](d)", "<b>bold</b>", "{{ x }}{{ y }}"]]
    d = run_port(chk, "word_splitter", cases, lambda c: "word_splitter " + enc_str(c["t"]),
                 lambda c: enc_strs(tw.get_html_md_word_splitter()(c["t"])))
    note_diffs(chk, "word_splitter", d, ["t"])
    return cases


def port_tag_functions(chk: Check, n: int):
    tw, th, lw, ss, tf, bh = _mods()
    rng = chk.rng
    texts = [gen_tag_block_text(rng) for _ in range(n)] + [gen_para_text(rng) for _ in range(n // 2)]
    cases = [{"t": t} for t in texts]
    for name, fn in [("normalize_adjacent_tags", th.normalize_adjacent_tags),
                     ("denormalize_adjacent_tags", th.denormalize_adjacent_tags),
                     ("preprocess_tag_block_spacing", th.preprocess_tag_block_spacing),
                     ("fix_closing_tag_spacing", th._fix_closing_tag_spacing),
                     ("fix_multiline_opening", th._fix_multiline_opening_tag_with_closing)]:
        d = run_port(chk, name, cases, lambda c, name=name: f"{name} " + enc_str(c["t"]),
                     lambda c, fn=fn: enc_str(fn(c["t"])))
        note_diffs(chk, name, d, ["t"])
    lines = sorted(set(l for t in texts for l in t.split("\n")))[:4000]
    lines += ["", " ", "-", "- ", "-\t", "1.", "1. ", "123456789. x", "1234567890. x", "１. x", "٣. x", "|", " |", "+x", "* ", "2) y"]
    lcases = [{"t": l} for l in lines]
    d = run_port(chk, "line_predicates", lcases, lambda c: "line_preds " + enc_str(c["t"]),
                 lambda c: " ".join(enc_bool(f(c["t"])) for f in (bh.line_is_block_content, bh.line_is_list_item,
                                                                bh.line_is_table_row, th._is_tag_only_line)))
    note_diffs(chk, "line_predicates", d, ["t"])


def wrapper_cases(chk: Check, n: int, tags=True):
    rng = chk.rng
    cases = []
    for _ in range(n):
        i1, i2 = rng.choice(INDENTS)
        t = gen_para_text(rng, tags=tags, atoms=tags) if rng.random() < 0.8 else gen_tag_block_text(rng)
        cases.append({"t": t, "w": rng.choice([-1, 0, 1, 5, 8, 10, 15, 20, 30, 40, 60, 88, 120]), "i1": i1, "i2": i2})
    return cases


def port_line_wrap_to_width(chk: Check, n: int, md=True, cases=None):
    tw, th, lw, *_ = _mods()
    cases = cases if cases is not None else wrapper_cases(chk, n)
    outs = {}

    def impl(c):
        o = lw.line_wrap_to_width(width=c["w"], is_markdown=md)(c["t"], c["i1"], c["i2"])
        outs[id(c)] = o
        return enc_str(o)

    d = run_port(chk, f"line_wrap_to_width(md={md})", cases,
                 lambda c: "line_wrap_to_width %d %s %s %s %s" % (c["w"], enc_bool(md), enc_str(c["i1"]), enc_str(c["i2"]), enc_str(c["t"])),
                 impl)
    note_diffs(chk, "line_wrap_to_width", d, ["t", "w", "i1", "i2"])
    return cases, outs


def port_line_wrap_by_sentence(chk: Check, n: int, md=True, cases=None, min_line_len=20):
    tw, th, lw, *_ = _mods()
    cases = cases if cases is not None else wrapper_cases(chk, n)
    outs = {}

    def impl(c):
        o = lw.line_wrap_by_sentence(width=c["w"], min_line_len=c.get("ml", min_line_len), is_markdown=md)(c["t"], c["i1"], c["i2"])
        outs[id(c)] = o
        return enc_str(o)

    d = run_port(chk, f"line_wrap_by_sentence(md={md})", cases,
                 lambda c: "line_wrap_by_sentence %d %d %s %s %s %s" % (c["w"], c.get("ml", min_line_len), enc_bool(md), enc_str(c["i1"]), enc_str(c["i2"]), enc_str(c["t"])),
                 impl)
    note_diffs(chk, "line_wrap_by_sentence", d, ["t", "w", "i1", "i2"])
    return cases, outs


def port_split_sentences(chk: Check, n: int):
    tw, th, lw, ss, *_ = _mods()
    rng = chk.rng
    cases = [{"t": gen_para_text(rng, tags=False, atoms=False, hard=False), "ml": rng.choice([0, 0, 15, 5, 40])} for _ in range(n)]
    d = run_port(chk, "split_sentences_regex", cases, lambda c: "split_sentences %d %s" % (c["ml"], enc_str(c["t"])),
                 lambda c: enc_strs(ss.split_sentences_regex(c["t"], min_length=c["ml"])))
    note_diffs(chk, "split_sentences_regex", d, ["t", "ml"])


def port_wrap_paragraph(chk: Check, n: int):
    tw, *_ = _mods()
    rng = chk.rng
    cases = []
    for _ in range(n):
        i1, i2 = rng.choice(INDENTS)
        cases.append({"t": gen_para_text(rng, hard=False), "w": rng.choice([-1, 0, 1, 5, 10, 20, 40, 88]), "i1": i1, "i2": i2,
                      "ic": rng.choice([0, 0, 0, 3, 10]), "rw": rng.random() < 0.7, "dw": rng.random() < 0.9, "md": rng.random() < 0.5})
    d = run_port(chk, "wrap_paragraph", cases,
                 lambda c: "wrap_paragraph %d %d %s %s %s %s %s %s" % (c["w"], c["ic"], enc_bool(c["rw"]), enc_bool(c["dw"]), enc_bool(c["md"]),
                                                                    enc_str(c["i1"]), enc_str(c["i2"]), enc_str(c["t"])),
                 lambda c: enc_str(tw.wrap_paragraph(c["t"], c["w"], c["i1"], c["i2"], c["ic"], c["rw"], c["dw"], None, len, c["md"])))
    note_diffs(chk, "wrap_paragraph", d, ["t", "w", "i1", "i2", "ic", "rw", "dw", "md"])


WRAP_MODES = ["NONE", "WRAP", "WRAP_FULL", "WRAP_INDENT", "INDENT_ONLY", "HANGING_INDENT", "MARKDOWN_ITEM"]


def gen_plain_doc(rng) -> str:
    paras = []
    for _ in range(rng.randint(0, 5)):
        r = rng.random()
        if r < 0.1:
            paras.append(rng.choice(["", " ", "\t", "  \n "]))
        else:
            paras.append(gen_para_text(rng, hard=False))
    seps = ["\n\n", "\n\n", "\n\n\n", "\n \n", "\n\n\n\n"]
    s = ""
    for i, p in enumerate(paras):
        if i:
            s += rng.choice(seps)
        s += p
    if rng.random() < 0.3:
        s = rng.choice(["\n", "\n\n", " "]) + s
    if rng.random() < 0.3:
        s += rng.choice(["\n", "\n\n", " \n"])
    return s


def port_fill_text(chk: Check, n: int, modes=None):
    tw, th, lw, ss, tf, bh = _mods()
    rng = chk.rng
    cases = []
    for _ in range(n):
        mode = rng.choice(modes) if modes else (1 if rng.random() < 0.6 else rng.randrange(7))
        cases.append({"t": gen_plain_doc(rng), "mode": mode, "w": rng.choice([-1, 0, 1, 8, 20, 40, 88]),
                      "extra": rng.choice(["", "", "  ", "> "]), "empty": rng.choice(["", "", " ", "> "]), "ic": rng.choice([0, 0, 4])})
    outs = {}

    def impl(c):
        o = tf.fill_text(c["t"], tf.Wrap(WRAP_MODES[c["mode"]].lower()), c["w"], c["extra"], c["empty"], c["ic"])
        outs[id(c)] = o
        return enc_str(o)

    d = run_port(chk, "fill_text", cases,
                 lambda c: "fill_text %d %d %d %s %s %s" % (c["mode"], c["w"], c["ic"], enc_str(c["extra"]), enc_str(c["empty"]), enc_str(c["t"])),
                 impl)
    note_diffs(chk, "fill_text", d, ["t", "mode", "w", "extra", "empty", "ic"])
    return cases, outs
