"""Validation of the reader specifications Model/InlineRead.v and Model/BlockRead.v against the parser flowmark uses.

The read-back theorems (Props/C01.v, Props/C04.v: code span, link destination, link title, fenced code block) say that
what the renderer writes is read back by the SPECIFIED reader as what the parser had handed over.  They mean something for
flowmark only if the parser agrees with the specification, which is decided here by evaluation on every run: for generated
strings, whenever the extracted specification reads a construct, Marko must read the same construct with the same literal
(the direction the theorems need).  A disagreement breaks the obligation "specification validated" of the check; it is not a
violation of the property by itself, so the check then searches with the re-parse oracle as usual.
"""
import mdast
from common import Check, model_batch, enc_str, enc_strs, Toks


def _first_inline(doc: str):
    t = mdast.doc_tree(doc)
    kids = [k for k in t["c"] if k["t"] != "BlankLine"]
    if len(kids) != 1 or kids[0]["t"] != "Paragraph" or not kids[0]["c"]:
        return None, kids
    return kids[0]["c"], kids


def validate_code_span(chk: Check, n: int) -> None:
    rng = chk.rng
    alpha = "``` ab*\\"
    cases = {"`a`", "`` ` ``", "``a`b``", "`a``b`", "` a `", "`  `", "``` `` ```", "`a", "``a`", "`a``", "` `` `z", "`\\`z", "`a`b`"}
    while len(cases) < n:
        k = rng.choice([2, 3, 4, 5, 6, 7, 8, 9])
        body = "".join(rng.choice(alpha) for _ in range(k))
        s = "`" + body + rng.choice(["", "z", " z"])
        if s.endswith(" ") or s.endswith("\\"):
            s += "z"
        cases.add(s)
    cases = sorted(cases)
    ans = model_batch(["read_code_span " + enc_str(s) for s in cases], shards=1)
    nb = 0
    nsome = 0
    for s, a in zip(cases, ans):
        tk = Toks(a)
        got = tk.opt(lambda: (tk.str(), tk.str()))
        chk.count()
        inl, kids = _first_inline(s + "\n")
        if inl is None:
            continue                       # the string did not stay one paragraph (e.g. a fence): outside this specification
        first = inl[0]
        if got is not None:
            nsome += 1
            ok = first["t"] == "CodeSpan" and first.get("s") == got[0]
        else:
            ok = first["t"] != "CodeSpan"
        if not ok:
            nb += 1
            if nb <= 5:
                chk.notes.append(f"InlineRead spec: {s!r}: specification reads {got!r}, parser reads {first!r}")
    chk.hist("spec_code_spans_read", nsome)
    chk.port_stat("spec validation: read_code_span = Marko's code span", len(cases), nb)
    if nb:
        chk.broken.append(f"specification Model/InlineRead.v (code span) disagrees with the parser: {nb} strings")


def validate_destination_title(chk: Check, n: int) -> None:
    rng = chk.rng
    alpha = "ab\\\\*()<> \"./"
    dests = {"a", "<a b>", "a\\*b", "a\\\\*b", "<a\\>b c>", "\\<a", "a(b)c", "a\\(b", "a\\\\", "<>", "<a\\\\>", "C:\\dir\\f", "a\\b", "(a)", "((a))", "a)(b"}
    while len(dests) < n:
        k = rng.choice([1, 2, 3, 4, 5, 6])
        d = "".join(rng.choice(alpha) for _ in range(k))
        if rng.random() < 0.3:
            d = "<" + d + ">"
        dests.add(d)
    dests = sorted(dests)
    ans = model_batch(["read_destination " + enc_str(d + ")") for d in dests], shards=1)
    nb = 0
    nsome = 0
    for d, a in zip(dests, ans):
        tk = Toks(a)
        got = tk.opt(lambda: (tk.str(), tk.str()))
        chk.count()
        if got is None or got[1] != ")":
            continue                       # not a complete destination followed by the closing parenthesis
        nsome += 1
        inl, kids = _first_inline("[x](" + d + ") z\n")
        first = inl[0] if inl else None
        ok = first is not None and first["t"] == "Link" and first.get("dest") == got[0] and not first.get("title")
        if not ok:
            nb += 1
            if nb <= 5:
                chk.notes.append(f"InlineRead spec: destination {d!r}: specification reads {got[0]!r}, parser reads {first!r}")
    chk.hist("spec_destinations_read", nsome)
    chk.port_stat("spec validation: read_destination => Marko's link destination", len(dests), nb)
    if nb:
        chk.broken.append(f"specification Model/InlineRead.v (destination) disagrees with the parser: {nb} strings")

    talpha = "ab\\\\\"\"' *."
    titles = {'"t"', '"a \\"b\\" c"', '"t\\\\"', '"a\\*b"', '"a\\\\*b"', '""', '"a\\b"', '"it\'s"'}
    while len(titles) < n // 2:
        k = rng.choice([0, 1, 2, 3, 4, 5])
        titles.add('"' + "".join(rng.choice(talpha) for _ in range(k)) + '"')
    titles = sorted(titles)
    ans = model_batch(["read_title " + enc_str(t + ")") for t in titles], shards=1)
    nbt = 0
    nsome = 0
    for t, a in zip(titles, ans):
        tk = Toks(a)
        got = tk.opt(lambda: (tk.str(), tk.str()))
        chk.count()
        if got is None or got[1] != ")":
            continue
        nsome += 1
        inl, kids = _first_inline("[x](/u " + t + ") z\n")
        first = inl[0] if inl else None
        ok = first is not None and first["t"] == "Link" and first.get("dest") == "/u" and (first.get("title") or "") == got[0]
        if not ok:
            nbt += 1
            if nbt <= 5:
                chk.notes.append(f"InlineRead spec: title {t!r}: specification reads {got[0]!r}, parser reads {first!r}")
    chk.hist("spec_titles_read", nsome)
    chk.port_stat("spec validation: read_title => Marko's link title", len(titles), nbt)
    if nbt:
        chk.broken.append(f"specification Model/InlineRead.v (title) disagrees with the parser: {nbt} strings")


FENCE_LINES = ["```", "````", "`````", "~~~", "~~~~", " ```", "  ```", "   ```", "    ```", "``` ", "```  ", "``` x", "~~~ ~", "``",
               "x", "  x", "", "   ", "``` py", "~~~py", "a ```", "`", "\t```", "```\t"]


def validate_fenced(chk: Check, n: int) -> None:
    rng = chk.rng
    opens = ["```", "````", "~~~", "~~~~", "``` py", "```py", "~~~ py x", "~~~~ a~b", " ```", "   ~~~ q", "```` c++", "~~~ ``` "]
    docs = set()
    while len(docs) < n:
        k = rng.choice([1, 2, 3, 4, 5, 6])
        lines = [rng.choice(opens)] + [rng.choice(FENCE_LINES) for _ in range(k)]
        if lines[-1].strip() == "":
            lines.append("end")
        if lines[0].startswith(" ") and any(l.startswith("\t") for l in lines):
            continue        # tab expansion while removing the fence's indentation: Marko drops the whole tab; outside what the theorem uses (indent 0)
        docs.add(tuple(lines))
    docs = sorted(docs)
    ans = model_batch(["read_fenced " + enc_strs(list(ls)) for ls in docs], shards=1)
    nb = 0
    nsome = 0
    for ls, a in zip(docs, ans):
        tk = Toks(a)
        got = tk.opt(lambda: (tk.int(), tk.int(), tk.str(), tk.strs(), tk.strs()))
        chk.count()
        if got is None:
            continue
        nsome += 1
        fc, flen, info, body, rest = got
        t = mdast.doc_tree("\n".join(ls) + "\n")
        kids = [k for k in t["c"] if k["t"] != "BlankLine"]
        first = kids[0] if kids else None
        ok = first is not None and first["t"] in ("FencedCode", "CustomFencedCode")
        if ok:
            content = "".join(c.get("s", "") for c in first.get("c", []))
            parts = info.split(None, 1)
            lang = parts[0] if parts else ""
            extra = parts[1].strip() if len(parts) > 1 else ""
            want = "".join(l + "\n" for l in body)
            ok = (content == want and (first.get("lang") or "") == lang and (first.get("extra") or "") == extra
                  and first.get("fence_char", chr(fc)) == chr(fc) and first.get("fence_len", flen) == flen)
        if not ok:
            nb += 1
            if nb <= 5:
                chk.notes.append(f"BlockRead spec: {list(ls)!r}: specification reads {got!r}, parser reads {first!r}")
    chk.hist("spec_fenced_read", nsome)
    chk.port_stat("spec validation: read_fenced => Marko's fenced code block", len(docs), nb)
    if nb:
        chk.broken.append(f"specification Model/BlockRead.v disagrees with the parser: {nb} documents")


def validate_atx(chk: Check, n: int) -> None:
    """read_atx against Marko on lines without inline markup: level, and content up to the removal of backslash escapes"""
    import marko.inline
    rng = chk.rng
    alpha = "ab #\\\t"
    lines = {"# a", "## a #", "## a \\#", "### a ###   ", "#a", "####### a", "#", "## ", "#\ta", "   # a", "    # a", "## a#", "## #", "## \\###", "# a \\# #"}
    while len(lines) < n:
        k = rng.choice([1, 2, 3, 4, 6, 7])
        body = "".join(rng.choice(alpha) for _ in range(rng.randint(0, 7)))
        lines.add(rng.choice(["", " ", "   ", "    "]) + "#" * k + rng.choice(["", " ", "\t", "  "]) + body)
    lines = sorted(l for l in lines if l.strip())
    ans = model_batch(["read_atx " + enc_str(l) for l in lines], shards=1)
    nb = 0
    nsome = 0
    for l, a in zip(lines, ans):
        tk = Toks(a)
        got = tk.opt(lambda: (tk.int(), tk.str()))
        chk.count()
        t = mdast.doc_tree(l + "\n")
        kids = [k for k in t["c"] if k["t"] != "BlankLine"]
        first = kids[0] if kids else None
        is_h = first is not None and first["t"] == "Heading"
        if got is None:
            ok = not is_h
        else:
            nsome += 1
            text = "".join(c.get("s", "") for c in first.get("c", [])) if is_h else None
            ok = is_h and first.get("level") == got[0] and text == marko.inline.Literal.strip_backslash(got[1])
        if not ok:
            nb += 1
            if nb <= 5:
                chk.notes.append(f"BlockRead spec (ATX): {l!r}: specification reads {got!r}, parser reads {first!r}")
    chk.hist("spec_headings_read", nsome)
    chk.port_stat("spec validation: read_atx = Marko's ATX heading", len(lines), nb)
    if nb:
        chk.broken.append(f"specification Model/BlockRead.v (ATX heading) disagrees with the parser: {nb} lines")


def validate_ol_marker(chk: Check, n: int) -> None:
    """read_ol_marker against Marko: a line 'N. x' / 'N) x' starts an ordered list with that start number, whose item content
    begins at the marker width (a second paragraph indented by that width belongs to the item, one column less does not)"""
    rng = chk.rng
    lines = {"1. x", "0. x", "9. x", "10. x", "007. x", "123456789. x", "1234567890. x", "1) x", "1.x", "1 . x", "a1. x", "12: x", "1.  x", "99) x"}
    while len(lines) < n:
        num = "".join(rng.choice("0123456789") for _ in range(rng.choice([1, 1, 2, 3, 5, 9, 10])))
        lines.add(num + rng.choice([".", ")", ":", ""]) + rng.choice([" ", " ", "", "  "]) + rng.choice(["x", "x y", ""]))
    lines = sorted(l for l in lines if l.strip())
    ans = model_batch(["read_ol_marker " + enc_str(l) for l in lines], shards=1)
    nb = 0
    nsome = 0
    for l, a in zip(lines, ans):
        tk = Toks(a)
        got = tk.opt(lambda: (tk.int(), tk.int()))
        chk.count()
        rest = l[got[1]:] if got else ""
        if got is not None and not rest.strip():
            continue                # an empty item: the content column rule differs (outside what the theorem uses)
        if got is not None and rest.startswith(" "):
            continue                # more than one space after the marker: the content column is further right
        t = mdast.doc_tree(l + "\n")
        kids = [k for k in t["c"] if k["t"] != "BlankLine"]
        first = kids[0] if kids else None
        is_ol = first is not None and first["t"] == "List" and first.get("ordered")
        if got is None:
            # the specification only describes a marker followed by a space and content (an empty item, 'N.' at the end of a line, is a list too)
            ok = (not is_ol) or bool(__import__("re").fullmatch(r"\d{1,9}[.)]\s*", l))
        else:
            nsome += 1
            ok = is_ol and int(first.get("start")) == got[0]
            if ok:
                t2 = mdast.doc_tree(l + "\n\n" + " " * got[1] + "second\n")
                k2 = [k for k in t2["c"] if k["t"] != "BlankLine"]
                t3 = mdast.doc_tree(l + "\n\n" + " " * (got[1] - 1) + "second\n")
                k3 = [k for k in t3["c"] if k["t"] != "BlankLine"]
                ok = len(k2) == 1 and len(k3) == 2
        if not ok:
            nb += 1
            if nb <= 5:
                chk.notes.append(f"BlockRead spec (ordered marker): {l!r}: specification reads {got!r}, parser reads {first!r}")
    chk.hist("spec_markers_read", nsome)
    chk.port_stat("spec validation: read_ol_marker = Marko's ordered list start and content column", len(lines), nb)
    if nb:
        chk.broken.append(f"specification Model/BlockRead.v (ordered list marker) disagrees with the parser: {nb} lines")


def validate_row(chk: Check, n: int) -> None:
    """read_row against Marko's GFM table: same number of cells, same text in each (cells without inline markup; a backslash only before a pipe)"""
    rng = chk.rng
    toks = ["a", "b", " ", "\\|", "c d", "  ", "x"]
    rows = {"| a | b |", "| a \\| b | c |", "| \\| | x |", "|a|b|", "| a |  b  |"}
    while len(rows) < n:
        k = rng.choice([1, 2, 3, 4])
        cells = ["".join(rng.choice(toks) for _ in range(rng.randint(1, 4))) for _ in range(k)]
        rows.add("|" + "|".join(rng.choice(["", " "]) + c + rng.choice(["", " "]) for c in cells) + "|")
    rows = sorted(rows)
    ans = model_batch(["read_row " + enc_str(r) for r in rows], shards=1)
    nb = 0
    nsome = 0
    for r, a in zip(rows, ans):
        tk = Toks(a)
        got = tk.opt(tk.strs)
        chk.count()
        if got is None or any(not c.strip() for c in got):
            continue                      # empty cells: the parser's treatment of all-blank cells is outside what the theorem uses
        k = len(got)
        doc = "|" + "|".join(["h"] * k) + "|\n|" + "|".join(["---"] * k) + "|\n" + r + "\n"
        t = mdast.doc_tree(doc)
        kids = [x for x in t["c"] if x["t"] != "BlankLine"]
        first = kids[0] if kids else None
        ok = first is not None and first["t"] == "Table"
        if ok:
            nsome += 1
            body = first["c"][-1]
            texts = ["".join(x.get("s", "") for x in cell.get("c", [])) for cell in body.get("c", [])]
            ok = [x.strip() for x in texts] == [c.strip() for c in got]
        if not ok:
            nb += 1
            if nb <= 5:
                chk.notes.append(f"BlockRead spec (table row): {r!r}: specification reads {got!r}, parser reads {first!r}"[:600])
    chk.hist("spec_rows_read", nsome)
    chk.port_stat("spec validation: read_row = Marko's table cells", len(rows), nb)
    if nb:
        chk.broken.append(f"specification Model/BlockRead.v (table row) disagrees with the parser: {nb} rows")


def validate_all(chk: Check, n: int) -> None:
    validate_row(chk, max(200, n // 3))
    validate_atx(chk, n)
    validate_ol_marker(chk, max(200, n // 4))
    validate_code_span(chk, n)
    validate_destination_title(chk, n)
    validate_fenced(chk, n)


def ports_inline(chk: Check, n: int) -> None:
    """model == implementation for the three spelling functions the read-back theorems are about"""
    from types import SimpleNamespace
    from flowmark.formats import flowmark_markdown as fm
    rng = chk.rng
    alpha = "ab\\\\*()<> \"`` .\t"
    strs = {"", "a", "a b", "a\\*b", "a\\", "<a", "a>b c", "(", ")(", "a(b)c", "`", "`a", "a`", " a ", "  ", "``x`", 't"u', "t\\", "\\\\"}
    while len(strs) < n:
        k = rng.choice([1, 2, 3, 4, 5, 6, 7])
        strs.add("".join(rng.choice(alpha) for _ in range(k)))
    strs = sorted(strs)
    renderer_cls = next(v for v in vars(fm).values() if isinstance(v, type) and hasattr(v, "render_code_span") and hasattr(v, "render_link_ref_def"))
    import marko.inline
    impls = {
        "strip_backslash": marko.inline.Literal.strip_backslash,          # the specification of the parser's escape removal
        "escape_backslashes": fm._escape_backslashes,
        "escape_backslashes_inner": lambda s: fm._escape_backslashes(s, delimiter_follows=False),
        "link_destination": fm._link_destination,
        "normalize_title_quotes": fm._normalize_title_quotes,
        "render_code_span": lambda s: renderer_cls.render_code_span(None, SimpleNamespace(children=s)),
    }
    for name, f in impls.items():
        ans = model_batch([name + " " + enc_str(s) for s in strs], shards=1)
        nb = 0
        for s, a in zip(strs, ans):
            chk.count()
            m = Toks(a).str()
            try:
                i = f(s)
            except Exception as e:  # noqa: BLE001
                i = f"<raised {type(e).__name__}>"
            if m != i:
                nb += 1
                if nb <= 5:
                    chk.fail("correspondence", {"port": name, "input": s, "model": m, "impl": i}, f"{name}({s!r}): model {m!r}, implementation {i!r}")
        chk.port_stat(f"port {name}", len(strs), nb)
