"""Directory-tree generator and reference file discovery for C17 / C18.

A tree is described as nested dicts: name -> spec, where spec is
  {"f": size}                      regular file of that size
  {"d": {...}}                     directory
  {"lf": target}                   symlink to a file   (target: path relative to the tree base, may point outside the walk root)
  {"ld": target}                   symlink to a directory
  {"broken": True}                 dangling symlink
  {"text": "..."}                  regular file with this content (ignore files)
Everything is created under a scratch base directory that the caller removes."""
from __future__ import annotations

import os
import random
import shutil
from pathlib import Path

FILE_NAMES = ["a.md", "b.md", "README.md", "notes.txt", "c.markdown", "big.md", "x.MD", "d.md", "e.mdx", ".hidden.md", "sp ace.md", "ü.md",
              "report[1].md", "report1.md", "faq?.md", "st*r.md"]      # existing files whose names hold glob metacharacters
DIR_NAMES = ["docs", "src", "sub", "deep", "node_modules", "build", ".git", "venv", "pkg.egg-info", "internal", "sp ace", "vendor", "x", "y", "v[2]"]


def gen_tree(rng: random.Random, depth=0, ignore_lines=None, gitignore_lines=None) -> dict:
    t = {}
    names = rng.sample(FILE_NAMES, rng.randint(0, 5))
    for n in names:
        t[n] = {"f": rng.choice([0, 10, 10, 99, 100, 101, 5000])}
    if depth < 3:
        for d in rng.sample(DIR_NAMES, rng.randint(0, 3 if depth else 4)):
            t[d] = {"d": gen_tree(rng, depth + 1, ignore_lines, gitignore_lines)}
    if rng.random() < 0.25:
        t["link.md"] = {"lf": rng.choice(["OUT/o.md", "ROOT/a.md", "ROOT/docs/a.md", "OUT/big.md"])}
    if rng.random() < 0.15:
        t["dlink"] = {"ld": rng.choice(["OUT/odir", "ROOT/docs", "ROOT"])}
    if rng.random() < 0.08:
        t["dead.md"] = {"broken": True}
    if ignore_lines and rng.random() < (0.5 if depth == 0 else 0.15):
        t[".flowmarkignore"] = {"text": "\n".join(rng.sample(ignore_lines, rng.randint(1, min(3, len(ignore_lines))))) + "\n"}
    if gitignore_lines and rng.random() < (0.7 if depth == 0 else 0.3):
        t[".gitignore"] = {"text": "\n".join(rng.sample(gitignore_lines, rng.randint(1, min(4, len(gitignore_lines))))) + "\n"}
    return t


def materialize(base: Path, tree: dict, shuffle: random.Random | None = None) -> Path:
    """create base/ROOT (the tree) and base/OUT (link targets outside the tree); entries are created in shuffled order so that the
    directory listing order varies between materialisations of the same tree"""
    if base.exists():
        shutil.rmtree(base)
    root = base / "ROOT"
    out = base / "OUT"
    (out / "odir").mkdir(parents=True)
    (out / "o.md").write_text("outside\n")
    (out / "big.md").write_text("x" * 5000)
    (out / "odir" / "in_odir.md").write_text("outside dir\n")
    root.mkdir()
    links = []

    def build(d: Path, t: dict):
        items = list(t.items())
        if shuffle is not None:
            shuffle.shuffle(items)
        for name, spec in items:
            p = d / name
            if "f" in spec:
                p.write_bytes(b"x" * spec["f"])
            elif "text" in spec:
                p.write_text(spec["text"])
            elif "d" in spec:
                p.mkdir()
                build(p, spec["d"])
            elif "lf" in spec or "ld" in spec:
                links.append((p, spec.get("lf") or spec.get("ld")))
            elif "broken" in spec:
                os.symlink(str(base / "OUT" / "does-not-exist"), p)
    build(root, tree)
    for p, target in links:
        tgt = base / target
        os.symlink(str(tgt), p)
    return root


def tree_paths(tree: dict, prefix=()):
    """(components, spec) for every entry"""
    for name, spec in tree.items():
        yield prefix + (name,), spec
        if "d" in spec:
            yield from tree_paths(spec["d"], prefix + (name,))
