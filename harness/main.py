"""Entry point: ./check --setup | ./check Cxx quick|thorough | ./check Cxx --replay <file>"""
from __future__ import annotations

import importlib
import os
import sys
import traceback

sys.path.insert(0, os.path.dirname(os.path.abspath(__file__)))
import common


def setup() -> int:
    with common.Lock():
        ok, lg, _ = common.regen()
        print(lg)
        if not ok:
            print("setup: translator failed")
            return 1
        ok, lg = common.coq_make([])
        print(lg[-4000:])
        if not ok:
            print("setup: coq build failed")
            return 1
        ok, lg = common.build_modelrun()
        print(lg[-2000:])
        if not ok:
            print("setup: extraction build failed")
            return 1
    print("setup: ok")
    return 0


def main(argv) -> int:
    if not argv or argv[0] in ("-h", "--help"):
        print(__doc__)
        return 2
    if argv[0] == "--setup":
        return setup()
    if argv[0] == "--coqchk":
        # independent re-check of the compiled property files and everything they depend on (several minutes)
        import subprocess
        with common.Lock():
            ok, lg, _ = common.regen()
            ok2, lg2 = common.coq_make([]) if ok else (False, lg)
            if not (ok and ok2):
                print((lg if not ok else lg2)[-2000:])
                return 1
            mods = ["Props." + os.path.basename(f)[:-2] for f in sorted(os.listdir("/verif/coq/Props")) if f.endswith(".v")]
            cmd = ["coqchk", "-silent", "-o", "-Q", "Base", "Base", "-Q", "Gen", "Gen", "-Q", "Model", "Model", "-Q", "Proofs", "Proofs", "-Q", "Props", "Props"] + mods
            p = subprocess.run(cmd, cwd="/verif/coq", stdout=subprocess.PIPE, stderr=subprocess.STDOUT, text=True, timeout=3600)
            print(p.stdout[-6000:])
            os.makedirs("/verif/evidence", exist_ok=True)
            open("/verif/evidence/coqchk.txt", "w").write(p.stdout)
            return p.returncode
    pid = argv[0].upper()
    mod = importlib.import_module(pid.lower())
    if len(argv) >= 3 and argv[1] == "--replay":
        return mod.replay(argv[2])
    tier = argv[1] if len(argv) > 1 else os.environ.get("VERIF_TIER", "quick")
    seed = int(os.environ.get("VERIF_SEED", "20260930"))
    chk = common.Check(pid, tier, seed)
    with common.Lock():
        try:
            mod.run(chk)
        except Exception as e:
            traceback.print_exc()
            chk.broken.append(f"harness error: {type(e).__name__}: {e}")
        return chk.finish()


if __name__ == "__main__":
    sys.exit(main(sys.argv[1:]))
