import sys, random, json, re, collections
sys.path.insert(0,'/verif/harness')
import gen_docs, docports, c01, mdast
rng = random.Random(int(sys.argv[1]) if len(sys.argv)>1 else 3)
N = int(sys.argv[2]) if len(sys.argv)>2 else 400
cats = collections.defaultdict(list)
from flowmark.linewrapping.markdown_filling import fill_markdown
from flowmark.linewrapping.tag_handling import preprocess_tag_block_spacing
from flowmark.formats.frontmatter import split_frontmatter
from textwrap import dedent
for i in range(N):
    doc = gen_docs.gen_doc(rng)
    o = rng.choice(docports.OPTION_SETS[:10])
    out = docports.fmt(doc, o)
    fm, content = split_frontmatter(doc)
    body = content if fm else doc
    pin = preprocess_tag_block_spacing(dedent(body).strip().strip()+"\n")
    outb = out[len(fm):] if fm and out.startswith(fm) else out
    try:
        d = c01.reparse_check(pin, outb)
    except Exception as e:
        d = "EXC "+str(e)
    if d:
        sig = re.sub(r"\[\d+\]", "", d)
        sig = re.sub(r"'[^']*'|\"[^\"]*\"", "S", sig)[:110]
        cats[sig].append((doc, o, out, d))
tot = sum(len(v) for v in cats.values())
print("total diffs", tot, "of", N)
for sig, v in sorted(cats.items(), key=lambda kv: -len(kv[1]))[:25]:
    print(len(v), sig)
json.dump({k:[(a,b,c,d) for a,b,c,d in v[:3]] for k,v in cats.items()}, open('/verif/.work/c01_cats.json','w'), ensure_ascii=False, indent=1)
