"""minimise a C02 replay: smallest document whose second formatting pass differs from the first"""
import json, sys, signal
sys.path.insert(0, "/verif/harness")
import docports
from shrink_c01 import ddmin


def bad(doc, opts):
    try:
        signal.alarm(5)
        o1 = docports.fmt(doc, opts); o2 = docports.fmt(o1, opts)
        signal.alarm(0)
        if o1 == o2:
            return False
        import c01, c02
        d1 = None if c01.structure_preserved(doc, opts["width"], opts["semantic"]) else "changed"
        rec = {"case": {"doc": doc, "opts": opts, "pass1": o1, "pass2": o2, "c01_diff": d1}, "what": "not idempotent"}
        return not any(c02.classify(kf, rec) for kf in KF)
    except Exception:
        signal.alarm(0)
        return False


KF = [f for f in json.load(open("/verif/known_findings.json"))["findings"] if f["property"] == "C02"]
for p in sys.argv[1:]:
    c = json.load(open(p))["case"]
    opts, doc = c["opts"], c["doc"]
    if not bad(doc, opts):
        print("does not reproduce"); continue
    doc = "\n".join(ddmin(doc.split("\n"), lambda ls: bad("\n".join(ls), opts)))
    doc = "".join(ddmin(list(doc), lambda cs: bad("".join(cs), opts)))
    o1 = docports.fmt(doc, opts); o2 = docports.fmt(o1, opts)
    print("opts:", opts); print("doc :", repr(doc)); print("p1  :", repr(o1)); print("p2  :", repr(o2)); print()
