"""C07 — YAML frontmatter is passed through exactly and does not influence the body."""
from __future__ import annotations

import json

from common import Check, TRUSTED_BASE_COMMON, enc_str
from ports import run_port
import wports

EXOTIC = ["\x0b", "\x0c", "\x1c", "\x1d", "\x1e", "\x85", " ", " ", "\r"]
FM_ALPHA = list("abc:  -'\".#*>|{}%!?") + ["\t", "é", "日", "..."] + EXOTIC


def classify(kf, rec) -> bool:
    cl = kf.get("classifier")
    c = rec["case"]
    if cl == "frontmatter-exotic-linebreak":
        return any(ch in c.get("fm", "") + c.get("body", "") for ch in EXOTIC if ch != "\r") or \
            ("\r" in (c.get("fm", "") + c.get("body", "")).replace("\r\n", ""))
    if cl == "unclosed-frontmatter-grows":
        return rec["what"].startswith("unclosed")
    return False


DELIM_LIKE = ["|---|---|", "-----", "title: a --- b", "x---", "---x", "--- x", "----", "...", "# Title", "| a | b |", "text --- more --- text", "--", "- ---", "> ---"]


def gen_fm_line(rng, exotic_p=0.15) -> str:
    n = rng.choice([0, 1, 3, 6, 12])
    s = ""
    for _ in range(n):
        if rng.random() < exotic_p:
            s += rng.choice(EXOTIC)
        else:
            s += rng.choice(FM_ALPHA[:-len(EXOTIC)])
    if s.strip() == "---":
        s += "x"
    return s


def gen_case(rng):
    nblank = rng.choice([0, 0, 0, 1, 2])
    blanks = [rng.choice(["", " ", "\t"]) for _ in range(nblank)]
    exotic_p = rng.choice([0.0, 0.0, 0.0, 0.2])
    lines = [gen_fm_line(rng, exotic_p) for _ in range(rng.randint(0, 6))]
    # lines that contain the delimiter text without being a delimiter line, YAML document markers, Markdown-looking lines
    if rng.random() < 0.5:
        for _ in range(rng.randint(1, 3)):
            lines.insert(rng.randint(0, len(lines)), rng.choice(DELIM_LIKE))
    open_l = rng.choice(["---", "---", "--- ", " ---"])
    close_l = rng.choice(["---", "---", "---  "])
    eol = "\r\n" if rng.random() < 0.15 else "\n"
    body_kind = rng.random()
    if body_kind < 0.15:
        body = ""
    elif body_kind < 0.8:
        body = "\n\n".join(wports.gen_para_text(rng, hard=False) for _ in range(rng.randint(1, 3)))
    else:
        body = rng.choice(["# Title\n\ntext \"q\" it's... done", "- a\n- b\n\n1. x\n", "> quote\n\n```\ncode\n```\n", "a\x0cb c", "x y"])
    closed = rng.random() < 0.8
    # layouts of the body that the text API normalises before formatting (dedent, leading blank lines): the same must happen
    # after a frontmatter block
    lay = rng.random()
    if lay < 0.15 and body:
        ind = rng.choice(["    ", "  ", "\t"])
        body = "\n".join(ind + l if l.strip() else l for l in body.split("\n"))
    elif lay < 0.22 and body:
        body = rng.choice(["\n", "\n\n", "  \n"]) + body
    elif lay < 0.25 and body:
        body = rng.choice(["    ", "\t", "  \n    "]) + body          # only the first line indented: an indented code block opens the body
    elif lay < 0.30 and body:
        body = body + rng.choice(["\n\n\n", "  ", "\n  \n"])
    return {"blanks": blanks, "open": open_l, "lines": lines, "close": close_l, "eol": eol, "body": body, "closed": closed}


def build(c):
    eol = c["eol"]
    parts = c["blanks"] + [c["open"]] + c["lines"]
    if c["closed"]:
        parts = parts + [c["close"]]
        text = eol.join(parts) + eol + c["body"]
    else:
        text = eol.join(parts) + (eol if c.get("final_nl", True) else "")
    # the block as it stands in the source, CRLF -> LF being the only permitted change
    fm_expected = (eol.join([c["open"]] + c["lines"] + ([c["close"]] if c["closed"] else [])) + eol).replace("\r\n", "\n")
    return text, fm_expected


OPTS = [dict(width=88, semantic=False, cleanups=False, smartquotes=False, ellipses=False),
        dict(width=20, semantic=True, cleanups=True, smartquotes=True, ellipses=True),
        dict(width=0, semantic=False, cleanups=True, smartquotes=True, ellipses=False)]


def run(chk: Check) -> None:
    from flowmark import reformat_text
    from flowmark.formats.frontmatter import split_frontmatter
    tier = chk.tier
    chk.cov["trusted_base"] = TRUSTED_BASE_COMMON
    chk.cov["rule"] = ("documents = blank lines + opening --- + frontmatter lines over an alphabet with quotes, dots, Markdown "
                       "syntax, tabs and every str.splitlines boundary character + closing --- (80%) + generated body; "
                       "non-trivial = frontmatter has >= 2 lines and body non-empty; distinct by text")
    if not chk.phase_build("Props/C07.v"):
        return
    rng = chk.rng
    n = 1500 if tier == "quick" else 20000
    cases = [gen_case(rng) for _ in range(n)]
    texts = []
    for c in cases:
        c["final_nl"] = rng.random() < 0.7
        t, f = build(c)
        c["text"], c["fm"] = t, f
        texts.append({"t": t})
    texts += [{"t": t} for t in ["", "---", "---\n", "---\n---", "---\n---\n", "\n\n---\na\n---\nb", "x\n---\na\n---", "---\na\r\n---\r\nb",
                                 "--- \na\n ---\n", "---\x0ca\n---\nb", "a\n\n---\n\nb"]]
    d = run_port(chk, "split_frontmatter", texts, lambda c: "split_frontmatter " + enc_str(c["t"]),
                 lambda c: " ".join(enc_str(x) for x in split_frontmatter(c["t"])))
    wports.note_diffs(chk, "split_frontmatter", d, ["t"])

    nfail = 0
    for i, c in enumerate(cases):
        o = OPTS[i % len(OPTS)]
        text, fm = c["text"], c["fm"]
        out = reformat_text(text, **o)
        chk.count()
        if len(c["lines"]) >= 2 and c["body"]:
            chk.nontrivial(text)
        chk.hist("closed", c["closed"])
        case = {"text": text, "fm": fm, "body": c["body"], "opts": o, "out": out}
        if c["closed"]:
            if not out.startswith(fm):
                nfail += 1
                chk.fail("property", case, "exactness: output does not start with the frontmatter block character for character (CRLF->LF only)", classify)
                continue
            body = c["body"].replace("\r\n", "\n") if c["eol"] == "\r\n" else c["body"]
            exp_body = reformat_text(c["body"], **o)
            if split_frontmatter(c["body"])[0]:
                continue  # body itself starts with a frontmatter block: outside the property's domain
            if out != fm + exp_body:
                nfail += 1
                chk.fail("property", case | {"expected": fm + exp_body}, "independence: format(frontmatter+body) != frontmatter + format(body)", classify)
                continue
            o2 = OPTS[(i + 1) % len(OPTS)]
            if not reformat_text(text, **o2).startswith(fm):
                nfail += 1
                chk.fail("property", case, "frontmatter depends on the options", classify)
        else:
            want = text if text.endswith("\n") else text + "\n"
            if c["eol"] == "\r\n":
                continue  # CRLF in an unclosed block: 'unchanged' leaves the CRs; covered by the LF cases
            if out != want:
                nfail += 1
                chk.fail("property", case | {"expected": want}, "unclosed frontmatter: output is not the input plus at most a final newline", classify)
            elif reformat_text(out, **o) != out:
                nfail += 1
                chk.fail("property", case, "unclosed frontmatter: formatting again changes the text", classify)
        if i < 3:
            chk.sample({"text": text, "opts": o, "out": out})
    chk.port_stat("spec: exactness/independence/unclosed on reformat_text", len(cases), nfail)


def replay(path: str) -> int:
    from flowmark import reformat_text
    rec = json.loads(open(path).read())
    c = rec.get("case")
    if not c:
        print("replay: no concrete input; broken:", rec.get("broken"))
        return 1
    print("what    :", rec["what"])
    print("input   :", repr(c["text"]), c["opts"])
    print("output  :", repr(reformat_text(c["text"], **c["opts"])))
    if "expected" in c:
        print("expected:", repr(c["expected"]))
    return 1
