"""C14 — In-place formatting never leaves a damaged or half-written file.

Tie to the code: the real CLI is run under strace in a scratch directory; the file-system
syscalls touching that directory are abstracted to the model's op alphabet and compared with
the extracted op program (FsOps.run_prog).  Search: every relevant syscall of the run is
failed (EIO) and, separately, answered with SIGKILL; the resulting directory is judged with
the extracted checker target_okb (proved equivalent to target_ok)."""
from __future__ import annotations

import json
import os
import re
import shutil
import subprocess
from pathlib import Path

from common import Check, TRUSTED_BASE_COMMON, WORK, enc_bool, enc_str, enc_strs, model_batch, Toks, PY

SCRATCH = WORK / "c14"
ENV = dict(os.environ, PYTHONPATH="/repo/src", PYTHONHASHSEED="0")
SYSCALLS = "openat,open,creat,write,pwrite64,writev,rename,renameat,renameat2,unlink,unlinkat,truncate,ftruncate,link,linkat,symlink,symlinkat"

DOC_A = "# Title\n\nSome   text that is   long enough to be wrapped by the formatter when the width is small. Another sentence here.\n\n- item one\n- item two\n"
DOC_B = "Second   file with \"quotes\" and...  dots. It's fine.\n"
DOC_C = "Third *file*.   Short.\n"


def classify(kf, rec):
    c = rec["case"]
    if kf.get("classifier") == "input-is-another-inputs-backup-path":
        return bool(c.get("aliasing"))
    return False


def fmt(text, opts):
    from flowmark import reformat_text
    kw = dict(width=88, plaintext=False, semantic=False, cleanups=False, smartquotes=False, ellipses=False)
    if "--auto" in opts:
        kw.update(semantic=True, cleanups=True, smartquotes=True, ellipses=True)
    if "-s" in opts:
        kw["semantic"] = True
    return reformat_text(text, **kw)


SCENARIOS = [
    {"name": "inplace-backup", "files": {"a.md": DOC_A}, "argv": ["-i", "a.md"], "targets": ["a.md"], "backup": True},
    {"name": "inplace-nobackup", "files": {"a.md": DOC_A}, "argv": ["-i", "--nobackup", "a.md"], "targets": ["a.md"], "backup": False},
    {"name": "auto", "files": {"a.md": DOC_A}, "argv": ["--auto", "a.md"], "targets": ["a.md"], "backup": False},
    {"name": "inplace-crlf", "files": {"a.md": DOC_A.replace("\n", "\r\n")}, "argv": ["-i", "a.md"], "targets": ["a.md"], "backup": True},
    {"name": "inplace-backup-existing-orig", "files": {"a.md": DOC_A, "a.md.orig": "older backup\n"}, "argv": ["-i", "a.md"], "targets": ["a.md"], "backup": True},
    {"name": "multi-nobackup", "files": {"a.md": DOC_A, "b.md": DOC_B, "c.md": DOC_C}, "argv": ["-i", "--nobackup", "a.md", "b.md", "c.md"],
     "targets": ["a.md", "b.md", "c.md"], "backup": False},
    {"name": "multi-backup", "files": {"a.md": DOC_A, "b.md": DOC_B}, "argv": ["-i", "a.md", "b.md"], "targets": ["a.md", "b.md"], "backup": True},
    {"name": "output-file", "files": {"a.md": DOC_A}, "argv": ["-o", "out/o.md", "-"], "targets": ["out/o.md"], "backup": False, "src": ["a.md"], "stdin": DOC_A},
    {"name": "stdout", "files": {"a.md": DOC_A}, "argv": ["a.md"], "targets": [], "backup": False, "src": ["a.md"]},
    {"name": "big-file", "files": {"a.md": (DOC_A + "\n") * 400}, "argv": ["-i", "--nobackup", "a.md"], "targets": ["a.md"], "backup": False},
]


def setup_dir(d: Path, files: dict):
    if d.exists():
        shutil.rmtree(d)
    d.mkdir(parents=True)
    for name, content in files.items():
        p = d / name
        p.parent.mkdir(parents=True, exist_ok=True)
        p.write_text(content)


def run_cli(d: Path, argv, inject=None, trace=None, stdin_data=None):
    cmd = ["strace", "-f", "-qq", "-s", "0", "-e", "trace=" + SYSCALLS]
    if inject:
        cmd += ["-e", inject]
    cmd += ["-o", str(trace or (d.parent / "trace.txt")), PY, "-m", "flowmark.cli"] + argv
    p = subprocess.run(cmd, cwd=d, env=ENV, input=stdin_data, text=True, stdout=subprocess.PIPE, stderr=subprocess.PIPE, timeout=120)
    return p


LINE = re.compile(r"^(\d+)\s+(\w+)\((.*)\)\s+=\s+(-?\d+|\?)(.*)$")


def parse_trace(path: Path, d: Path):
    """returns list of events (syscall, args, ret, ordinal per syscall name, relevant?)"""
    fdmap = {}
    counts = {}
    evs = []
    for raw in path.read_text(errors="replace").split("\n"):
        m = LINE.match(raw)
        if not m:
            continue
        pid, name, args, ret, tail = m.groups()
        counts[name] = counts.get(name, 0) + 1
        ordn = counts[name]
        ev = None
        injected = "INJECTED" in tail
        if name in ("openat", "open", "creat"):
            pm = re.search(r'"([^"]*)"', args)
            pathname = pm.group(1) if pm else ""
            full = pathname if pathname.startswith("/") else str(d / pathname)
            if full.startswith(str(d)):
                rel = os.path.relpath(full, d)
                wr = "O_WRONLY" in args or "O_RDWR" in args or name == "creat"
                if ret not in ("?",) and int(ret) >= 0:
                    fdmap[int(ret)] = (rel, wr)
                if wr:
                    ev = ("Create" if ("O_TRUNC" in args or name == "creat") else "OpenW", rel)
        elif name in ("write", "pwrite64", "writev"):
            fd = int(args.split(",")[0])
            if fd in fdmap and fdmap[fd][1]:
                ev = ("Append", fdmap[fd][0], int(ret) if ret != "?" else 0)
        elif name in ("rename", "renameat", "renameat2"):
            ps = re.findall(r'"([^"]*)"', args)
            if len(ps) >= 2:
                a, b = [p if p.startswith("/") else str(d / p) for p in ps[:2]]
                if a.startswith(str(d)) or b.startswith(str(d)):
                    ev = ("Rename", os.path.relpath(a, d), os.path.relpath(b, d))
        elif name in ("unlink", "unlinkat", "truncate", "ftruncate", "link", "linkat", "symlink", "symlinkat"):
            ps = re.findall(r'"([^"]*)"', args)
            if ps:
                a = ps[0] if ps[0].startswith("/") else str(d / ps[0])
                if a.startswith(str(d)):
                    ev = (name, os.path.relpath(a, d))
        if ev:
            ok = ret not in ("?",) and int(ret) >= 0
            evs.append({"ev": ev, "syscall": name, "ord": ordn, "ok": ok, "injected": injected})
    return evs


def abstract_ops(evs):
    """successful fs events -> op list in the model's alphabet, temporary names abstracted"""
    ops = []
    for e in evs:
        if not e["ok"]:
            continue
        ev = e["ev"]

        def ab(p):
            m = re.match(r"^(.*\.md)[0-9a-z]{8,}\.partial$", p)
            return m.group(1) + ".TMP" if m else p
        if ev[0] == "Create":
            ops.append(("Create", ab(ev[1])))
        elif ev[0] == "Append":
            if ops and ops[-1][0] == "Append" and ops[-1][1] == ab(ev[1]):
                ops[-1] = ("Append", ab(ev[1]))  # merge consecutive writes (chunking is free in the model)
            else:
                ops.append(("Append", ab(ev[1])))
        elif ev[0] == "Rename":
            ops.append(("Rename", ab(ev[1]), ab(ev[2])))
        else:
            ops.append((ev[0],) + tuple(ab(x) for x in ev[1:]))
    return ops


def model_ops(sc, news):
    jobs = []
    for t in sc["targets"]:
        jobs.append(" ".join([enc_str(t), enc_str(t + ".TMP"), enc_bool(sc["backup"]), enc_strs([news[t]])]))
    out = model_batch(["fs_prog %d %s" % (len(jobs), " ".join(jobs))])[0]
    tk = Toks(out)
    ops = []
    for _ in range(tk.int()):
        kind = tk.int()
        if kind == 0:
            ops.append(("Create", tk.str()))
        elif kind == 1:
            p = tk.str(); tk.str()
            ops.append(("Append", p))
        elif kind == 2:
            ops.append(("BackupMove", tk.str(), tk.str()))
        else:
            ops.append(("Rename", tk.str(), tk.str()))
    return ops


def expected_trace_ops(sc, mops, files):
    """BackupMove a b shows as rename(a,b) iff a existed (it always does for in-place targets)"""
    out = []
    for o in mops:
        if o[0] == "BackupMove":
            if o[1] in files:
                out.append(("Rename", o[1], o[2]))
        else:
            out.append(o)
    return out


def snapshot(d: Path):
    res = {}
    for p in sorted(d.rglob("*")):
        if p.is_file():
            res[str(p.relative_to(d))] = p.read_bytes().decode("utf-8", "replace")      # bytes as they are: no newline translation
    return res


def judge(chk: Check, sc, news, before, after, what, rc, extra):
    """apply the extracted checker to the observed state; returns number of violations"""
    reqs = []
    for t in sc["targets"]:
        old = before.get(t)
        cur = after.get(t)
        cur_orig = after.get(t + ".orig")

        def opt(x):
            return "0" if x is None else "1 " + enc_str(x)
        reqs.append("target_okb %s %s %s %s %s" % (enc_bool(sc["backup"]), enc_str(news[t]), opt(old), opt(cur), opt(cur_orig)))
    ans = model_batch(reqs) if reqs else []
    bad = 0
    for t, a in zip(sc["targets"], ans):
        if a.strip() != "1":
            bad += 1
            chk.fail("property", dict(extra, scenario=sc["name"], argv=sc["argv"], target=t, old=before.get(t), new=news[t],
                                      observed=after.get(t), observed_orig=after.get(t + ".orig"), exit=rc),
                     f"{what}: target {t} is neither the complete old nor the complete new content", classify)
    # inputs that are not targets, and unrelated files, must be untouched; strays only *.partial / .orig
    for name, content in before.items():
        if name in sc["targets"] or any(name == t + ".orig" for t in sc["targets"] if sc["backup"]):
            continue
        if after.get(name) != content:
            bad += 1
            chk.fail("property", dict(extra, scenario=sc["name"], argv=sc["argv"], file=name, observed=after.get(name), exit=rc),
                     f"{what}: file {name} that is not a target was modified", classify)
    for name in after:
        if name not in before and name not in sc["targets"]:
            if not (name.endswith(".partial") or (sc["backup"] and name.endswith(".orig"))):
                bad += 1
                chk.fail("property", dict(extra, scenario=sc["name"], argv=sc["argv"], file=name, exit=rc),
                         f"{what}: unexpected stray file {name}", classify)
    return bad


def run(chk: Check) -> None:
    tier = chk.tier
    chk.cov["trusted_base"] = TRUSTED_BASE_COMMON + [
        "strace 6.x syscall tracing and its fault/signal injection; POSIX rename atomicity and O_TRUNC semantics as written in FsOps.step",
        "durability after power loss (no fsync) is outside the model"]
    chk.cov["rule"] = ("scenarios (single/multi file, +-backup, --auto, -o, stdout, 230 KB file) x every file-system syscall of the "
                       "unfaulted run touching the scratch directory x {EIO injection, SIGKILL on entry}; non-trivial = the fault lands "
                       "after the first write-open of the run; distinct by (scenario, syscall ordinal, fault kind)")
    if not chk.phase_build("Props/C14.v"):
        return
    scen = SCENARIOS if tier == "thorough" else SCENARIOS[:9]
    nbad = 0
    traces_ok = 0
    for sc in scen:
        d = SCRATCH / sc["name"] / "w"
        setup_dir(d, sc["files"])
        before = snapshot(d)
        news = {}
        for t in sc["targets"]:
            srcname = t if t in sc["files"] else sc.get("src", [t])[0]
            news[t] = fmt(sc["files"][srcname], sc["argv"])
        p = run_cli(d, sc["argv"], trace=d.parent / "trace0.txt", stdin_data=sc.get("stdin"))
        after = snapshot(d)
        chk.count()
        evs = parse_trace(d.parent / "trace0.txt", d)
        got = abstract_ops(evs)
        want = expected_trace_ops(sc, model_ops(sc, news), before) if sc["targets"] else []
        if got != want or p.returncode != 0:
            chk.broken.append(f"correspondence fs-trace[{sc['name']}]: observed {got} vs model {want} (exit {p.returncode})")
            chk.port_stat("fs-trace vs FsOps.run_prog", 1, 1)
        else:
            traces_ok += 1
            chk.port_stat("fs-trace vs FsOps.run_prog", 1, 0)
        # the unfaulted run must end with every target new
        for t in sc["targets"]:
            if after.get(t) != news[t]:
                nbad += 1
                chk.fail("property", {"scenario": sc["name"], "argv": sc["argv"], "target": t, "observed": after.get(t), "new": news[t]},
                         "unfaulted run did not install the complete new content", classify)
        nbad += judge(chk, sc, news, before, after, "unfaulted run", p.returncode, {})
        if len(chk.cov["samples"]) < 6:
            chk.sample({"scenario": sc["name"], "argv": sc["argv"], "observed_ops": [list(o) for o in got]})
        # ---- faults: at every relevant syscall ----
        points = [(e["syscall"], e["ord"], e["ev"]) for e in evs]
        if tier == "quick" and len(points) > 14:
            points = points[:8] + points[-6:]
        first_write_seen = False
        for (sysc, ordn, ev) in points:
            if ev[0] in ("Create", "OpenW"):
                first_write_seen = True
            for kind in ("error=EIO", "signal=SIGKILL"):
                setup_dir(d, sc["files"])
                inj = f"inject={sysc}:{kind}:when={ordn}"
                p2 = run_cli(d, sc["argv"], inject=inj, trace=d.parent / "trace1.txt", stdin_data=sc.get("stdin"))
                after2 = snapshot(d)
                chk.count()
                chk.hist("fault_kind", kind)
                chk.hist("fault_syscall", sysc)
                if first_write_seen:
                    chk.nontrivial((sc["name"], sysc, ordn, kind))
                nbad += judge(chk, sc, news, before, after2, f"fault {inj} at {ev}", p2.returncode, {"inject": inj, "event": list(ev)})
                if kind == "error=EIO" and p2.returncode == 0 and any(after2.get(t) != news[t] for t in sc["targets"]):
                    nbad += 1
                    chk.fail("property", {"scenario": sc["name"], "argv": sc["argv"], "inject": inj},
                             "a failing operation was reported as success (exit 0) although a target is not new", classify)
        shutil.rmtree(SCRATCH / sc["name"], ignore_errors=True)
    # ---- a write that is cut short: the process may not write files larger than L bytes (RLIMIT_FSIZE), for several L below the
    # size of the new content: the first write returns a short count, the next one fails (real kernel behaviour, no injection) ----
    import resource
    nlim = 0
    for sc in scen:
        if not sc["targets"] or sc["name"] == "big-file" and tier == "quick":
            continue
        d = SCRATCH / (sc["name"] + "-fsize") / "w"
        setup_dir(d, sc["files"])
        before = snapshot(d)
        news = {}
        for t in sc["targets"]:
            srcname = t if t in sc["files"] else sc.get("src", [t])[0]
            news[t] = fmt(sc["files"][srcname], sc["argv"])
        smallest = min(len(v.encode()) for v in news.values())
        for lim in sorted({0, 1, smallest // 2, smallest - 1}):
            setup_dir(d, sc["files"])

            def limit(lim=lim):
                resource.setrlimit(resource.RLIMIT_FSIZE, (lim, lim))
            p3 = subprocess.run([PY, "-m", "flowmark.cli"] + sc["argv"], cwd=d, env=ENV, input=sc.get("stdin"), text=True,
                                stdout=subprocess.PIPE, stderr=subprocess.PIPE, timeout=120, preexec_fn=limit)
            after3 = snapshot(d)
            chk.count()
            nlim += 1
            chk.hist("fault_kind", "file size limit")
            chk.nontrivial((sc["name"], "fsize", lim))
            nbad += judge(chk, sc, news, before, after3, f"file size limit {lim} bytes", p3.returncode, {"rlimit_fsize": lim})
            if p3.returncode == 0 and any(after3.get(t) != news[t] for t in sc["targets"]):
                nbad += 1
                chk.fail("property", {"scenario": sc["name"], "argv": sc["argv"], "rlimit_fsize": lim, "observed": {t: after3.get(t) for t in sc["targets"]}},
                         "a write that was cut short was reported as success (exit 0) although a target is not new", classify)
        shutil.rmtree(SCRATCH / (sc["name"] + "-fsize"), ignore_errors=True)
    chk.port_stat("file size limit (short write) runs", nlim, 0)
    # ---- inputs that alias each other through the backup name (finding D-81) ----
    for name, files, argv, expect in [
        ("backup-name-is-an-input", {"a.md": "A   original\n", "a.md.orig": "PRECIOUS   other content\n"}, ["-i", "a.md", "a.md.orig"],
         {"a.md": "A original\n", "a.md.orig": "PRECIOUS other content\n", "a.md.orig.orig": "PRECIOUS   other content\n"}),
        ("same-input-twice", {"a.md": "A   original\n"}, ["-i", "a.md", "a.md"], {"a.md": "A original\n", "a.md.orig": "A   original\n"}),
    ]:
        d = SCRATCH / name / "w"
        setup_dir(d, files)
        p4 = run_cli(d, argv, trace=d.parent / "t.txt")
        after4 = snapshot(d)
        chk.count()
        wrong = {k: after4.get(k) for k, v in expect.items() if after4.get(k) != v}
        if wrong:
            chk.fail("property", {"scenario": name, "argv": argv, "files": files, "observed": after4, "expected": expect, "aliasing": True, "exit": p4.returncode},
                     f"in-place run with backups: {sorted(wrong)} hold neither 'formatted' nor a recoverable old content", classify)
        shutil.rmtree(SCRATCH / name, ignore_errors=True)
    # failure before any write: unreadable / undecodable input
    d = SCRATCH / "badinput" / "w"
    setup_dir(d, {"a.md": DOC_A})
    (d / "bad.md").write_bytes(b"\xff\xfe\x00 not utf8 \xff\n")
    before = snapshot(d)
    p = run_cli(d, ["-i", "bad.md"], trace=d.parent / "t.txt")
    chk.count()
    if p.returncode == 0 or (d / "bad.md").read_bytes() != b"\xff\xfe\x00 not utf8 \xff\n" or [x for x in os.listdir(d) if x not in ("a.md", "bad.md")]:
        nbad += 1
        chk.fail("property", {"scenario": "undecodable input", "exit": p.returncode, "listing": os.listdir(d)},
                 "a file that cannot be decoded must be left untouched with a non-zero exit", classify)
    shutil.rmtree(SCRATCH, ignore_errors=True)
    chk.cov["traces_validated_against_impl"] = traces_ok
    chk.port_stat("spec: target_okb on directory after fault/kill", chk.cov["evaluations"], nbad)


def replay(path: str) -> int:
    rec = json.loads(open(path).read())
    c = rec.get("case")
    if not c:
        print("replay: no concrete input; broken:", rec.get("broken"))
        return 1
    sc = next((s for s in SCENARIOS if s["name"] == c.get("scenario")), None)
    print("what:", rec["what"])
    if sc and c.get("inject"):
        d = SCRATCH / "replay" / "w"
        setup_dir(d, sc["files"])
        p = run_cli(d, sc["argv"], inject=c["inject"], trace=d.parent / "t.txt", stdin_data=sc.get("stdin"))
        print("exit:", p.returncode)
        for k, v in snapshot(d).items():
            print(f"--- {k} ({len(v)} chars)\n{v[:300]}")
        shutil.rmtree(SCRATCH / "replay", ignore_errors=True)
    else:
        print(json.dumps(c, indent=1)[:2000])
    return 1
