"""C06 — Template tags and other atomic constructs are never split or displaced."""
from __future__ import annotations

import json
import re

from common import Check, TRUSTED_BASE_COMMON
import gen_words as G
import rx
import wports
import mdast

# tags of every kind, single and as an open/close pair, whose bodies hold the characters their own delimiters are made of
# (a pattern that excludes such a character from the body would no longer keep the construct in one piece)
def _nasty_tags():
    out = []
    bodies = ["a b", "a-b c", "x % 2 y", "a } b", "n # 1 z", "a > b c", "if a -- b", "v | f('a b')", "50% off now", "a - b - c"]
    for o, c in (("{%", "%}"), ("{#", "#}"), ("{{", "}}"), ("<!--", "-->")):
        for b in bodies:
            if c in b or (o == "<!--" and "--" in b):
                continue
            out.append(f"{o} {b} {c}")
            out.append(f"{o} t {b} {c}{o} /t {c}")
    return out


ATOMS = G.TAGS + G.ATOMS + _nasty_tags() + ["{% f a=1 %}{% /f %}", "<!-- a --><!-- /a -->", "{{ x }}{{ y }}", "[long link text here](http://example.com/a/b?c=d e)", "`a  b`"]
# constructs with a sentence end inside them (semantic mode must not break there)
SENT_ATOMS = ["`the quick brown foxes. Then the lazy dog`", "{% include the quick brown foxes. Then more %}", "[the quick brown foxes. Then the lazy dog](http://x.y/z)",
              "<span title=\"the quick brown foxes. Then the dog\">", "<!-- the quick brown foxes. Then the dog -->"]
OPENS, CLOSES = ["{%", "{#", "{{", "<!--"], ["%}", "#}", "}}", "-->"]


def classify(kf, rec):
    import common
    if common.repro_only(kf, rec):
        return True
    c = rec["case"]
    if kf.get("classifier") == "adjacent-pair-split-on-continuation-line":
        return c.get("pair_split") == "continuation" or c.get("repro") == "D-93"
    if kf.get("classifier") == "adjacent-tags-wrapped-apart":
        return c.get("pair_split") in ("unpaired", "unrecognised-pair-body")
    if kf.get("classifier") == "separated-tags-merged":
        return rec["what"].startswith("spacing: separated tags became adjacent")
    if kf.get("classifier") == "sentence-end-inside-construct":
        # the split construct itself, or a later one in the same paragraph whose delimiters now pair with the stray half
        return bool(c.get("semantic")) and ("not intact" in rec["what"] or "adjacent tags were separated" in rec["what"]) and \
            any(re.search(r"[a-z][.!?] [A-Z]", a) and a in c.get("text", "") for a in SENT_ATOMS)
    return False


def collapse(s):
    return re.sub(r"\s+", " ", s)


def gen_case(rng):
    n = rng.randint(1, 14)
    toks = []
    for _ in range(n):
        r = rng.random()
        if r < 0.04:
            toks.append(("atom", rng.choice(SENT_ATOMS)))
        elif r < 0.45:
            toks.append(("atom", rng.choice(ATOMS)))
        else:
            toks.append(("word", rng.choice(G.PLAIN + G.HAZARD_WORDS[:10] + G.SENT_WORDS)))
    text = ""
    seps = []
    for i, (k, t) in enumerate(toks):
        if i:
            prev_tag = toks[i - 1][0] == "atom" and any(toks[i - 1][1].endswith(c) for c in CLOSES)
            cur_tag = k == "atom" and any(t.startswith(o) for o in OPENS)
            if prev_tag and cur_tag and rng.random() < 0.5:
                sep = ""
            else:
                sep = rng.choice([" ", " ", " ", "  ", "\n", " \n"])
            seps.append(sep)
            text += sep
        text += t
    return {"toks": toks, "seps": seps, "t": text}


def run(chk: Check) -> None:
    from flowmark.linewrapping import line_wrappers as lw, tag_handling as th
    from flowmark import reformat_text
    tier = chk.tier
    chk.cov["trusted_base"] = TRUSTED_BASE_COMMON + [
        "restoration of placeholders (str.replace loop) is modelled and tied by correspondence, not proved"]
    chk.cov["rule"] = ("paragraphs mixing words with template tags, comments, HTML tags, code spans and links (adjacent or separated), both "
                       "wrap modes, widths 1..88, indent pairs; tag-delimited blocks with lists/tables through reformat_text; non-trivial = "
                       "output has >= 2 lines and the text has >= 2 constructs; distinct by (text, width, mode)")
    if not chk.phase_build("Props/C06.v"):
        return
    rng = chk.rng
    n = 1 if tier == "quick" else 10
    rx.validate(chk, ["re_atomic", "re_adjacent_tags", "re_denormalize_tags", "re_multiline_closing", "re_template_tag"], tier, per_pattern=800 if tier == "quick" else None)
    wports.port_word_splitter(chk, 1500 * n)
    wports.port_tag_functions(chk, 1200 * n)
    cases = wports.wrapper_cases(chk, 1200 * n)
    wports.port_line_wrap_to_width(chk, 0, md=True, cases=cases)
    wports.port_line_wrap_by_sentence(chk, 0, md=True, cases=[dict(c) for c in cases])
    # ---- spec on implementation: wrappers ----
    nb = 0
    ncase = 1500 * n
    for i in range(ncase):
        c = gen_case(rng)
        if i == 0:     # fixed reproducer of finding D-60
            t0 = "Please look at `the quick brown foxes. Then the lazy dog` for more details about it."
            c = {"toks": [("word", "Please"), ("atom", SENT_ATOMS[0])], "seps": [" "], "t": t0}
        width = rng.choice([1, 5, 10, 20, 40, 88])
        i1, i2 = rng.choice(wports.INDENTS[:6])
        sem = i % 2 == 0
        wrapper = (lw.line_wrap_by_sentence if sem else lw.line_wrap_to_width)(width=width, is_markdown=True)
        out = wrapper(c["t"], i1, i2)
        lines = out.split("\n")
        chk.count()
        natoms = sum(1 for k, _ in c["toks"] if k == "atom")
        if len(lines) >= 2 and natoms >= 2:
            chk.nontrivial((c["t"], width, sem))
        chk.hist("mode", "semantic" if sem else "fill")
        case = {"text": c["t"], "width": width, "i1": i1, "i2": i2, "semantic": sem, "out": out}
        for k, t in c["toks"]:
            if k != "atom":
                continue
            ct = collapse(t)
            # paired/adjacent tags may be split at the adjacency point only
            pieces = [ct]
            if not any(ct in collapse(l) for l in lines):
                m = re.match(r"^(.*?(?:%\}|#\}|\}\}|-->))\s?((?:\{%|\{#|\{\{|<!--).*)$", ct)
                pieces = [m.group(1), m.group(2)] if m else [ct]
            bad_piece = False
            for pc in pieces:
                if not any(pc in collapse(l) for l in lines):
                    nb += 1
                    bad_piece = True
                    chk.fail("property", dict(case, construct=t), f"atomic construct {t!r} is not intact on one output line", classify)
                    break
            # an opening tag directly followed by its closing tag ({% f %}{% /f %}) is one word for the wrapper: it may not even be split
            # between the two tags (finding D-93: it is, when the pair has been moved to a continuation line that starts with other text)
            if not bad_piece and len(pieces) == 2 and re.match(r"^(?:\{%|\{#|\{\{|<!--)\s*/", pieces[1]):
                li = next(j for j, l in enumerate(lines) if pieces[0] in collapse(l))
                # D-93: the rule that puts a closing tag on its own line looks at the raw line (container prefix included)
                cont = li >= 1 and not lines[li].lstrip().startswith(("{%", "{#", "{{", "<!--"))
                # D-97: the paired-tag patterns exclude the first character of the closing delimiter from the tag body
                # ({% .. % .. %}, {# .. # .. #}, {{ .. } .. }}): such a pair is two words for the wrapper
                excl = {"{%": "%", "{#": "#", "{{": "}"}.get(pieces[0][:2])
                body0 = pieces[0][2:-2]
                kind = "continuation" if cont else ("unrecognised-pair-body" if excl and excl in body0 else "other")
                nb += 1
                chk.fail("property", dict(case, construct=t, pair_split=kind),
                         f"adjacent open/close pair {t!r} was split across two lines", classify)
        # spacing between consecutive tag-like atoms
        flat = collapse(out.replace("\n", " "))
        for j, sep in enumerate(c["seps"]):
            (k1, a), (k2, b) = c["toks"][j], c["toks"][j + 1]
            if k1 == "atom" and k2 == "atom" and any(a.endswith(x) for x in CLOSES) and any(b.startswith(x) for x in OPENS):
                la, lb = collapse(a)[-6:], collapse(b)[:6]
                joined_adj = la + lb in out.replace("\n", "")
                if sep == "" and la + lb not in out:
                    nb += 1
                    if re.search(re.escape(la) + r"\s*\n[>\s\-*\d.)]*" + re.escape(lb), out):
                        # two adjacent tags that are not one open/close pair are separate words: a line break can fall between them (D-97)
                        chk.fail("property", dict(case, pair=[a, b], pair_split="unpaired"), "spacing: adjacent tags were separated by a line break", classify)
                    else:
                        chk.fail("property", dict(case, pair=[a, b]), "spacing: adjacent tags were separated by a space", classify)
                if sep != "" and "\n" not in sep and (la + lb) in out:
                    nb += 1
                    chk.fail("property", dict(case, pair=[a, b]), "spacing: separated tags became adjacent", classify)
        if i < 3:
            chk.sample({k: case[k] for k in ("text", "width", "semantic", "out")})
    chk.port_stat("spec: constructs intact / spacing on the line wrappers", ncase, nb)
    # ---- documents: tag lines alone, enclosed lists stay lists ----
    nd = 252 + 100 * n
    nbd = 0
    for i in range(nd):
        # the first 252 documents go through every combination of tag style, enclosed block and blank lines; the others are drawn at random
        TAGS2 = {"{% field %}": "{% /field %}", "{% a x=1 %}": "{% /a %}", "<!-- block -->": "<!-- /block -->", "{# c #}": "{# /c #}",
                 "{% for x in xs %}": "{% endfor %}", "<!-- start -->": "<!-- end -->", "{{ open }}": "{{ close }}"}
        INNER = {"list": "- one\n- two\n- three", "olist": "1. one\n2. two", "table": "| a | b |\n|---|---|\n| 1 | 2 |", "prose": "Some prose text here that is long enough to wrap.",
                 "nested2": "- a\n  - nested item", "nested4": "- a\n    - nested item", "nested-tab": "- a\n\t- nested item", "nested-ol": "1. a\n   1. nested item",
                 "wrapped-item": "- item one is long enough that it has to be wrapped\n  continued here"}
        combos = [(t, k, b1, b2) for t in TAGS2 for k in INNER for b1 in ("", "\n") for b2 in ("", "\n")]
        if i < len(combos):
            tag, kind, blank1, blank2 = combos[i]
        else:
            tag, kind, blank1, blank2 = rng.choice(combos)
        close = TAGS2[tag]
        inner = INNER[kind]
        kind = {"nested2": "list", "nested4": "list", "nested-tab": "list", "nested-ol": "olist", "wrapped-item": "list"}.get(kind, kind)
        doc = f"Intro text.\n\n{tag}\n{blank1}{inner}\n{blank2}{close}\n\nOutro.\n"
        o = dict(width=rng.choice([20, 40, 88]), semantic=rng.random() < 0.5)
        out = reformat_text(doc, **o)
        chk.count()
        why = None
        lines = out.split("\n")
        for tg in (tag, close):
            if tg not in lines:
                why = f"tag line {tg!r} does not stand alone on an unindented line"
        if why is None and kind != "prose":
            tree = mdast.doc_tree(out)
            want = {"list": "List", "olist": "List", "table": "Table"}[kind]
            if want not in [c["t"] for c in tree["c"]]:
                why = f"the enclosed {kind} is no longer a {want} when the output is read again"
            else:
                it, ic = lines.index(tag), lines.index(close)
                if lines[it + 1].strip() != "" or lines[ic - 1].strip() != "":
                    why = "no blank line between the tag line and the enclosed block"
        if why is None and reformat_text(out, **o) != out:
            why = "second formatting pass changes the tag block"
        if why:
            nbd += 1
            chk.fail("property", {"doc": doc, "opts": o, "out": out}, "tag block: " + why, classify)
    chk.port_stat("spec: tag-delimited blocks through reformat_text", nd, nbd)
    # listed with a fixed reproducer only (D-93): an adjacent open/close pair that wrapping moves to a continuation line
    doc = "Some long text that wraps to the next line and has {% field %}{% /field %} after it.\n"
    out = reformat_text(doc, width=40, semantic=False)
    chk.count()
    if "{% field %}{% /field %}" not in out:
        chk.fail("property", {"doc": doc, "opts": {"width": 40}, "out": out, "repro": "D-93"}, "adjacent tag pair split: " + repr(out), classify)


def replay(path: str) -> int:
    from flowmark.linewrapping import line_wrappers as lw
    from flowmark import reformat_text
    rec = json.loads(open(path).read())
    c = rec.get("case")
    print("what:", rec.get("what"))
    if not c:
        print("broken:", rec.get("broken"))
        return 1
    if "text" in c:
        w = (lw.line_wrap_by_sentence if c["semantic"] else lw.line_wrap_to_width)(width=c["width"], is_markdown=True)
        print(repr(c["text"]))
        print(w(c["text"], c["i1"], c["i2"]))
    else:
        print(c["doc"])
        print("->")
        print(reformat_text(c["doc"], **c["opts"]))
    return 1
