#!/bin/bash
# run every claimed check at the given tier (default quick), print one line per property
tier=${1:-quick}
cd /verif
for p in $(python3 -c "import json; print(' '.join(c['property_id'] for c in json.load(open('/verif/MANIFEST.json'))['checks']))"); do
  t0=$(date +%s)
  out=$(./check $p $tier 2>&1); rc=$?
  t1=$(date +%s)
  echo "$p rc=$rc $((t1-t0))s $(echo "$out" | grep -c '^VIOLATION') violations, $(echo "$out" | grep -c '^KNOWN-FINDING') known | $(echo "$out" | grep '^OK\|^VIOLATION' | head -2 | tr '\n' ' ')"
done
