"""C04 — Code, tags, URLs and other non-prose spans are reproduced verbatim."""
from __future__ import annotations

import json
import re
from textwrap import dedent

from common import Check, TRUSTED_BASE_COMMON
import docports
import gen_docs
import mdast
import c01
import c02

WS = re.compile(r"\s+")


def literals(text: str) -> list:
    """the literal spans of a document, in order, as the parser reads them"""
    # template tags as the property text names them (not the implementation's pattern), found in the text of one inline scope with its
    # soft line breaks, so that a tag written across two source lines is one tag on both sides of the comparison
    spec_tag = re.compile(r"\{%.*?%\}|\{#.*?#\}|\{\{.*?\}\}|<!--.*?-->", re.S)
    out = []

    def walk(t):
        n = t["t"]
        if n in ("FencedCode", "CustomFencedCode", "CodeBlock"):
            c = t.get("c", [])
            body = (c[0].get("s", "") if c else "").rstrip("\n")
            out.append(("code", t.get("lang", "") or "", t.get("extra", "") or "", body))
            return
        if n == "CodeSpan":
            out.append(("codespan", WS.sub(" ", t.get("s", "")).strip()))
        elif n == "InlineHTML":
            out.append(("html", WS.sub(" ", t.get("s", ""))))
        elif n == "HTMLBlock":
            out.append(("htmlblock", WS.sub(" ", t.get("body", t.get("s", "")) or "").strip()))
        elif n == "AutoLink":
            out.append(("autolink", t.get("dest")))
        elif n == "Url":
            out.append(("url", t.get("dest")))
        elif n in ("Link", "Image"):
            out.append((n.lower(), t.get("dest"), WS.sub(" ", t["title"]) if t.get("title") else None))
        elif n == "LinkRefDef":
            out.append(("refdef", t.get("label"), t.get("dest"), WS.sub(" ", t["title"]) if t.get("title") else None))
        elif n == "FootnoteRef":
            out.append(("footref", t.get("label")))
        elif n == "FootnoteDef":
            out.append(("footdef", t.get("label")))
        kids = t.get("c", [])
        if any(k["t"] == "RawText" for k in kids):
            flat = "".join(k.get("s", "") if k["t"] == "RawText" else ("\n" if k["t"] == "LineBreak" and k.get("soft") else "\x00") for k in kids)
            for m in spec_tag.finditer(flat):
                if "\x00" not in m.group(0):
                    out.append(("tag", WS.sub(" ", m.group(0))))
        for k in kids:
            walk(k)
    tree = mdast.doc_tree(text)
    walk(tree)
    # reference labels as written (the parser only keeps their normalised form)
    in_code = False
    for line in text.split("\n"):
        body = re.sub(r"^[ >]*", "", line)
        if re.match(r"^(```|~~~)", body):
            in_code = not in_code
        if not in_code:
            m = re.match(r"^\[([^\]^][^\]]*)\]:", body)
            if m:
                out.append(("reflabel", m.group(1)))
            for m in re.finditer(r"\]\[([^\]]+)\]", body):
                out.append(("refuse", m.group(1)))
    for k, v in sorted(tree.get("link_ref_defs", {}).items()):
        out.append(("refdef-table", k, v[0], WS.sub(" ", v[1]) if v[1] else None))
    return out


def seq_diff(a: list, b: list) -> str | None:
    for i, (x, y) in enumerate(zip(a, b)):
        if x != y:
            return f"literal #{i}: {x!r} became {y!r}"
    if len(a) != len(b):
        extra = a[len(b):] if len(a) > len(b) else b[len(a):]
        return f"{len(a)} literal spans became {len(b)} (first unmatched: {extra[0]!r})"
    return None


# code content that looks like fences, prefixes or blank lines, at every container nesting
NASTY_CODE = ["```", "````", "~~~", "~~~~~", "> quoted", "- item", "1. one", "    indented", "\tx", "", "  ", "`", "``` js", "   ```", "    ```",
              "{% tag %}", "<!-- c -->", "\"q\" 'a' it's", "wait...", "a...b", "\\", "# h", "***", "| a | b |", "[x]: /u", "x y", "end"]
CONTAINERS = ["{}", "> {}", "- {}", "1. {}", "> - {}", "- > {}", "[^n]: {}", "- - {}", "> > {}", "10. > {}"]


def nest(template: str, lines: list[str]) -> str:
    """put a block (list of lines) into the container spelled by template: first-line marker, continuation indentation / markers"""
    first = template.replace("{}", "")
    cont = "".join(ch if ch == ">" else " " for ch in first)
    if template.startswith("[^n]"):
        cont = "    "
    return "\n".join((first if i == 0 else cont) + l if l.strip() or ">" in cont else ((first if i == 0 else cont).rstrip() + l) for i, l in enumerate(lines))


def gen_indented_code_doc(rng) -> str:
    """indented code blocks (rendered as fenced ones: the fence has to be chosen from the content) and fenced blocks whose
    opening fence is itself indented, with fence-like content lines at every indentation"""
    lines = [rng.choice(["```", " ```", "  ```", "   ```", "    ```", "~~~", " ~~~", "```js", "  ````", "x", "", "- y", "   `````", "wait...what", "say \"hi\"... ok", "a...b",
                         "``` ", "```\t", " ````  ", "~~~ ", "   ~~~~\t "]) for _ in range(rng.randint(1, 6))]
    if rng.random() < 0.5:
        block = ["    " + l if l else "" for l in lines]
        while block and not block[0].strip():
            block.pop(0)
        while block and not block[-1].strip():
            block.pop()
        block = block or ["    x"]
    else:
        ind = rng.choice([" ", "  ", "   "])
        fence = rng.choice(["```", "~~~"])
        body = [ind + "    " + l for l in lines]          # deeper than the opening fence by four or more: content, not a closing fence
        block = [ind + fence] + body + [ind + fence]
    pre = rng.choice(["", "para before\n\n", "# h\n\n"])
    post = rng.choice(["", "\n\npara after", "\n\n- x"])
    return pre + nest(rng.choice(CONTAINERS[:6]), block) + post + "\n"


def gen_code_doc(rng) -> str:
    fence = rng.choice(["```", "~~~", "````", "~~~~~~"])
    info = rng.choice(["", "py", "python title=\"x y\"", "c++", "~x", "{% t %}", "\"q\"...", "a`b" if fence[0] == "~" else "ab", "a\\\\|b", "x\\\\ y\\\\*z", "C:\\dir"])
    n = rng.randint(0, 6)
    body = [rng.choice(NASTY_CODE) for _ in range(n)]
    body = [l for l in body if not (l.strip().startswith(fence[0] * len(fence)) and set(l.strip()) == {fence[0]} and len(l) - len(l.lstrip()) < 4)]
    block = [fence + info] + body + [fence]
    doc = nest(rng.choice(CONTAINERS), block)
    pre = rng.choice(["", "para before\n\n", "# h\n\n"])
    post = rng.choice(["", "\n\npara 'after' it...", "\n\n- x"])
    return pre + doc + post + "\n"


SPANS = ["`a  b`", "`` ` ``", "``` `` ```", "`'q' \"d\" it's...`", "`{% x %}`", "<span class=\"a  b\" title='it...s'>", "<b>", "{% tag a=\"x\"  b='y' %}", "{{ v | f('a') }}",
         "{# it's \"c\"... #}", "<!-- 'c' ... -->", "<http://ex.com/a_b?c='d'>", "http://bare.url/it's...x", "[t](http://ex.com/a_(b)_c \"T 'q'...\")", "[t](</u v> 'it...s')",
         "![a](i.png \"x...y\")", "[t][r 1]", "[r 1]", "[t](/u2)", "[t](/u2 \"Other\")", "[t](/u2 \"Title two\")", "note[^n]", "\\*", "\\.", "1\\.", "\\_x\\_", "a\\.b",
         "{% field a=\"x\"\nhint=\"First, middle... and last\" %}", "{{ v |\nf('it...s') }}", "<!-- wait...\nmore 'q' -->",
         "[t](a\\\\*b)", "[t](<a\\> b>)", "[t](C:\\dir\\f)", "[t](\\<a)", "[t](a\\)b)", "[t](/p 't\\\\')", "[t](/p \"a\\\\*b\")", "![i](<a\\\\>)"]
REFS = "\n\n[r2]: /u2 \"Title two\"\n[r 1]: http://ex.com/q?a=\"b\"...c \"T 'q' it's...\"\n\n[^n]: foot 'note'..."


def gen_span_doc(rng) -> str:
    words = []
    for _ in range(rng.randint(3, 25)):
        r = rng.random()
        if r < 0.4:
            words.append(rng.choice(SPANS))
        elif r < 0.5:
            words.append(rng.choice(["\"open", "close\"", "'a'", "it's", "wait...", "...", "x...y", "\"q\"", "—"]))
        else:
            words.append(rng.choice(gen_docs.WORDS))
    text = " ".join(words)
    if rng.random() < 0.3:
        text = "# " + text
    elif rng.random() < 0.3:
        text = "| " + text.replace("|", "/").replace("\n", " ") + " | x |\n|---|---|\n| " + rng.choice(SPANS).replace("|", "/").replace("\n", " ") + " | " + \
            rng.choice(["y", "`a\\\\\\|b`", "C:\\\\\\|D", "<kbd title=\"x\\\\\\|y\">", "`p\\|q`"]) + " |"
    elif rng.random() < 0.3:
        text = "- " + text
    return text + REFS + "\n"


REPRO = {
    "D-70": "{% field pattern=\"\\d+\\.\\d+\" %}\n",
    "D-71": "```\n{% field %}\n- item\n{% /field %}\n```\n",
    "D-76": "[a][Second] [b][first]\n\n[first]: /u\n[Second]: /u\n",
}


def classify(kf, rec):
    import common
    if common.repro_only(kf, rec):
        return True
    c = rec["case"]
    cl = kf.get("classifier")
    what = rec["what"]
    if c.get("_diff"):
        return False
    if cl == "first-pass-changes-structure":
        return bool(c.get("c01_diff"))
    if cl == "ellipsis-space-creates-autolink":
        return bool(c["opts"].get("ellipses")) and "url" in what
    if cl == "url-before-hard-break":
        return "url" in what and bool(re.search(r"\S  +\n", c.get("doc", "")))
    if cl == "escape-inside-template-tag":
        from flowmark.linewrapping.tag_handling import TEMPLATE_TAG_PATTERN
        return "'tag'" in what and any(re.search(r"\\[.!#*_\-]", m.group(0)) for m in TEMPLATE_TAG_PATTERN.finditer(c.get("doc", "")))
    if cl == "tag-spacing-inside-fenced-code":
        m = re.search(r"\('code', .*?\) became", what, flags=re.S)
        return "'code'" in what and bool(re.search(r"\{%|\{#|<!--|\{\{", what.split(" became ")[0]))
    if cl == "reference-label-rewritten":
        return "'reflabel'" in what or "'refuse'" in what
    if cl == "code-span-padding-lost":
        return False
    return False


def run(chk: Check) -> None:
    tier = chk.tier
    chk.cov["trusted_base"] = TRUSTED_BASE_COMMON + [
        "the literal-span extractor is Marko's parse plus a template-tag pattern written from the property text over each inline scope, applied identically to the parser input and to the output"]
    chk.cov["rule"] = ("(a) code blocks with content lines that look like fences / prefixes / blank lines / tags / typography bait, every fence kind and info string, "
                       "in every container nesting of the table CONTAINERS; (b) paragraphs, headings, table cells and list items dense with code spans, inline HTML, "
                       "template tags, comments, URLs, links with titles, reference labels, escapes; (c) generated documents; each x random option sets with "
                       "typography and cleanups on and off: the sequence of literal spans of the output equals that of the parser input (code exactly; spans, tags, "
                       "HTML and titles up to whitespace runs); non-trivial = at least 3 literal spans; distinct by (document, options)")
    if not chk.phase_build("Props/C04.v"):
        return
    rng = chk.rng
    n = 1 if tier == "quick" else 10
    import readspec
    readspec.validate_all(chk, 800 * n)
    readspec.ports_inline(chk, 1500 * n)
    import c01
    c01.validate_block_start_spec(chk, 800 * n)       # includes the port escape_word (model) vs markdown_escape_word: code spans and fences at line starts
    docs = [gen_code_doc(rng) for _ in range(200 * n)] + [gen_indented_code_doc(rng) for _ in range(150 * n)] + [gen_span_doc(rng) for _ in range(250 * n)]
    gen_docs.AVOID = set(c02.AVOID_MAIN)
    docs += [gen_docs.gen_doc(rng) for _ in range(150 * n)] + gen_docs.systematic_docs()
    gen_docs.AVOID = set()
    docs = [d for d in docs if not d.lstrip().startswith("---")]
    optsets = c02.all_option_sets(rng, len(docs))
    for o in optsets[: len(optsets) // 2]:
        o.update(smartquotes=True, ellipses=True)
    cases = [{"doc": d, "opts": o} for d, o in zip(docs, optsets)]
    plain = dict(width=88, semantic=False, cleanups=False, smartquotes=False, ellipses=False, list_spacing="preserve")
    for fid, d in REPRO.items():
        cases.append({"doc": d, "opts": dict(plain), "repro": fid})
    docports.run_fill_port(chk, cases)
    nb = 0
    for i, c in enumerate(cases):
        if c["out"].startswith("EXC") or c.get("parser_input") is None:
            continue
        try:
            from flowmark.formats.frontmatter import split_frontmatter
            la = literals(dedent(split_frontmatter(c["doc"])[1]).strip() + "\n")
            lb = literals(c["out"])
            d = seq_diff(la, lb)
        except Exception as e:
            la = []
            d = f"re-parse failed: {type(e).__name__}: {e}"
        if len(la) >= 3:
            chk.nontrivial((c["doc"], json.dumps(c["opts"], sort_keys=True)))
        chk.hist("typography", "on" if c["opts"]["smartquotes"] else "off")
        if d:
            nb += 1
            d1 = None if c01.structure_preserved(c["doc"], c["opts"]["width"], c["opts"]["semantic"]) else "structure changed"
            chk.fail("property", {"doc": c["doc"], "opts": c["opts"], "out": c["out"], "c01_diff": d1, "_diff": c.get("_diff", False)},
                     "literal span changed: " + d, classify)
        if i < 2:
            chk.sample({"doc": c["doc"][:200], "opts": c["opts"], "literals": [list(x) for x in la[:6]]})
    chk.port_stat("spec: literal spans of the output == literal spans of the parser input", len(cases), nb)
    # listed with a fixed reproducer only (D-95): CJK/Latin spacing inside a template tag
    from flowmark import reformat_text as _rt
    doc = "{% tag \u4e2d\u6587abc %} x\n"
    out = _rt(doc)
    chk.count()
    if "{% tag \u4e2d\u6587abc %}" not in out:
        chk.fail("property", {"doc": doc, "opts": {}, "out": out, "repro": "D-95"}, "template tag changed: " + repr(out), classify)


def replay(path: str) -> int:
    rec = json.loads(open(path).read())
    c = rec.get("case")
    print("what:", rec.get("what"))
    if not c:
        print("broken:", rec.get("broken"))
        return 1
    out = docports.fmt(c["doc"], c["opts"])
    print("---- input\n" + c["doc"])
    print("---- output", c["opts"], "\n" + out)
    from flowmark.formats.frontmatter import split_frontmatter
    pin = dedent(split_frontmatter(c["doc"])[1]).strip() + "\n"
    print("---- diff:", seq_diff(literals(pin), literals(out)))
    return 1
