"""C15 — All entry points agree: CLI, file API and text API give the same bytes."""
from __future__ import annotations

import contextlib
import io
import itertools
import json
import os
import shutil
import subprocess
import sys
from pathlib import Path

from common import Check, TRUSTED_BASE_COMMON, WORK, PY, enc_bool, enc_str, enc_strs, model_batch, Toks

SCRATCH = WORK / "c15"
DOCS = {
    # a.md ends in a heading and b.md starts with a definition and an empty line: state left behind by one file of a run would show in the next
    "a.md": "# **Bold Title**\n\nShe said \"hello\" and... left.   It's a long   line of text that will certainly need to be wrapped somewhere. Second sentence here.\n\n- one\n- two\n\n1. x\n\n2. y\n\n## Last heading\n",
    "b.md": "[ref]: /u \"T\"\n\nPlain *b* file... with 'quotes' and [ref]. Short. Another short sentence follows it.\n",
    "c.md": "**All bold**\n===\n\n> quote   text\n",
}
WIDTHS = [0, 1, 40, 88, -5]
LS = ["preserve", "loose", "tight"]
SINKS = ["stdout", "-o", "inplace", "inplace+nobackup", "auto"]
SOURCES = ["file", "stdin", "3files"]


# documents whose bytes matter: line endings, missing final newline, non-ASCII, already formatted
VARIETY = {
    "crlf-fixed-point": b"Already formatted text.\r\n\r\n- item\r\n",
    "crlf": b"# T\r\n\r\nSome   text here.\r\nMore.\r\n",
    "lone-cr": b"---\na: x\ry\n---\nbody one\rtwo\n",
    "no-final-newline": b"last   line without newline",
    "non-ascii": "caf\u00e9   \u65e5\u672c\u8a9e \u201cq\u201d \u2026 na\u00efve\n".encode(),
    "fixed-point": b"Already formatted.\n",
    "empty": b"",
    "blank-lines": b"\n\n  \n",
}


def variety_section(chk, reformat_text, tier):
    """every entry point on documents whose bytes matter; everything is compared as bytes with the text API's result on the decoded
    file content (decoded without newline translation)"""
    from flowmark.reformat_api import reformat_file
    d = SCRATCH / "v"
    nb = 0
    n = 0
    base = dict(width=88, plaintext=False, semantic=False, cleanups=False, smartquotes=False, ellipses=False)
    auto = dict(base, semantic=True, cleanups=True, smartquotes=True, ellipses=True)
    env = dict(os.environ, PYTHONPATH="/repo/src")
    for name, raw in VARIETY.items():
        text = raw.decode("utf-8")
        for entry in ("file-stdout", "stdin-stdout", "stdin-o", "inplace", "inplace-nobackup", "auto", "file-api", "file-api-inplace", "two-files"):
            if d.exists():
                shutil.rmtree(d)
            d.mkdir(parents=True)
            (d / "x.md").write_bytes(raw)
            (d / "y.md").write_bytes(b"Other   file.\n")
            o = auto if entry == "auto" else base
            want = reformat_text(text, **o).encode("utf-8")
            got = None
            rc = 0
            try:
                if entry == "file-stdout":
                    p = subprocess.run([PY, "-m", "flowmark.cli", "x.md"], cwd=d, env=env, stdout=subprocess.PIPE, stderr=subprocess.PIPE, timeout=60)
                    got, rc = p.stdout, p.returncode
                elif entry == "two-files":
                    p = subprocess.run([PY, "-m", "flowmark.cli", "y.md", "x.md"], cwd=d, env=env, stdout=subprocess.PIPE, stderr=subprocess.PIPE, timeout=60)
                    got, rc = p.stdout, p.returncode
                    want = reformat_text("Other   file.\n", **o).encode() + want
                elif entry == "stdin-stdout":
                    p = subprocess.run([PY, "-m", "flowmark.cli", "-"], cwd=d, env=env, input=raw, stdout=subprocess.PIPE, stderr=subprocess.PIPE, timeout=60)
                    got, rc = p.stdout, p.returncode
                elif entry == "stdin-o":
                    p = subprocess.run([PY, "-m", "flowmark.cli", "-o", "out.md", "-"], cwd=d, env=env, input=raw, stdout=subprocess.PIPE, stderr=subprocess.PIPE, timeout=60)
                    got, rc = ((d / "out.md").read_bytes() if (d / "out.md").exists() else None), p.returncode
                elif entry in ("inplace", "inplace-nobackup", "auto"):
                    argv = {"inplace": ["-i"], "inplace-nobackup": ["-i", "--nobackup"], "auto": ["--auto"]}[entry]
                    p = subprocess.run([PY, "-m", "flowmark.cli"] + argv + ["x.md"], cwd=d, env=env, stdout=subprocess.PIPE, stderr=subprocess.PIPE, timeout=60)
                    got, rc = (d / "x.md").read_bytes(), p.returncode
                elif entry == "file-api":
                    reformat_file(d / "x.md", d / "api.md", inplace=False, **api_kwargs(dict(base, list_spacing="preserve")))
                    got = (d / "api.md").read_bytes()
                elif entry == "file-api-inplace":
                    reformat_file(d / "x.md", None, inplace=True, nobackup=True, **api_kwargs(dict(base, list_spacing="preserve")))
                    got = (d / "x.md").read_bytes()
            except Exception as e:  # noqa: BLE001
                got, rc = f"<raised {type(e).__name__}: {e}>".encode(), -1
            n += 1
            chk.count()
            chk.hist("variety_entry", entry)
            chk.nontrivial((name, entry))
            if got != want or rc != 0:
                nb += 1
                chk.fail("property", {"document": name, "bytes": raw.decode("latin-1"), "entry": entry, "got": (got or b"").decode("latin-1")[:300],
                                      "text_api": want.decode("latin-1")[:300], "exit": rc, "variety": True},
                         f"entry point {entry} delivers other bytes than the text API on document '{name}'", classify)
    chk.port_stat("every entry point x documents whose bytes matter (compared as bytes)", n, nb)
    shutil.rmtree(d, ignore_errors=True)


def classify(kf, rec):
    c = rec["case"]
    if kf.get("classifier") == "lone-cr-read-as-line-end":
        raw = c.get("bytes", "")
        return bool(c.get("variety")) and "\r" in raw.replace("\r\n", "") and c.get("entry") != "text-api"
    if kf.get("classifier") == "inplace-with-stdin-among-files":
        return c.get("usage") == "inplace-stdin-mixed"
    if kf.get("classifier") == "clustered-short-flags":
        return bool(c.get("clustered"))
    return False


def run_main(argv, cwd: Path, stdin_text=""):
    from flowmark import cli
    old = os.getcwd()
    out, err = io.StringIO(), io.StringIO()
    os.chdir(cwd)
    oldin = sys.stdin
    sys.stdin = io.StringIO(stdin_text)
    try:
        with contextlib.redirect_stdout(out), contextlib.redirect_stderr(err):
            try:
                rc = cli.main(list(argv))
            except SystemExit as e:
                rc = e.code if isinstance(e.code, int) else 2
    finally:
        sys.stdin = oldin
        os.chdir(old)
    return rc, out.getvalue(), err.getvalue()


def setup(d: Path):
    if d.exists():
        shutil.rmtree(d)
    d.mkdir(parents=True)
    for n, c in DOCS.items():
        (d / n).write_text(c)


def opts_argv(o, short=False):
    a = []
    a += (["-w", str(o["width"])] if short else ["--width", str(o["width"])])
    for k, s in (("plaintext", "-p"), ("semantic", "-s"), ("cleanups", "-c")):
        if o[k]:
            a.append(s if short else "--" + k)
    for k in ("smartquotes", "ellipses"):
        if o[k]:
            a.append("--" + k)
    a += ["--list-spacing", o["list_spacing"]]
    return a


def api_kwargs(o):
    from flowmark.formats.flowmark_markdown import ListSpacing
    return dict(width=o["width"], plaintext=o["plaintext"], semantic=o["semantic"], cleanups=o["cleanups"],
                smartquotes=o["smartquotes"], ellipses=o["ellipses"], list_spacing=ListSpacing(o["list_spacing"]))


def enc_fo(o, inplace, nobackup):
    return " ".join([str(o["width"]), enc_bool(o["plaintext"]), enc_bool(o["semantic"]), enc_bool(o["cleanups"]),
                     enc_bool(o["smartquotes"]), enc_bool(o["ellipses"]), str(LS.index(o["list_spacing"])),
                     enc_bool(inplace), enc_bool(nobackup)])


def one_case(chk, d: Path, o, sink, source, short, reformat_text):
    """returns (model request, observed-string) and runs the property oracle"""
    setup(d)
    eff = dict(o)
    argv = opts_argv(o, short)
    inplace = sink in ("inplace", "inplace+nobackup", "auto")
    nobackup = sink in ("inplace+nobackup", "auto")
    if sink == "auto":
        argv.append("--auto")
        eff.update(semantic=True, cleanups=True, smartquotes=True, ellipses=True)
    elif sink == "inplace":
        argv.append("-i" if short else "--inplace")
    elif sink == "inplace+nobackup":
        argv += ["--inplace", "--nobackup"]
    output = None
    if sink == "-o":
        output = "out.md"
        argv += ["-o", output]
    files = {"file": ["a.md"], "stdin": ["-"], "3files": ["a.md", "b.md", "c.md"]}[source]
    argv += files
    stdin_text = DOCS["a.md"] if source == "stdin" else ""
    inodes = {n: (d / n).stat().st_ino for n in DOCS}
    rc, out, err = run_main(argv, d, stdin_text)
    # observed effects (an atomic replace shows as a new inode even when the bytes are equal)
    written = {}
    for n in sorted(os.listdir(d)):
        if n.endswith(".partial"):
            written[n] = ("stray", "")
            continue
        txt = (d / n).read_text()
        if n in DOCS:
            if txt != DOCS[n] or (d / n).stat().st_ino != inodes[n]:
                written[n] = (txt, (d / (n + ".orig")).exists())
        elif n.endswith(".orig"):
            pass
        else:
            written[n] = (txt, False)
    observed = {"rc": rc, "stdout": out, "written": {k: list(v) for k, v in written.items()}}
    # model
    kw = api_kwargs(eff)
    texts = [stdin_text if f == "-" else DOCS[f] for f in files]
    # "the result it would get alone": each expected text is computed right after a neutral document, never after another input of the
    # run, so that state a file leaves behind inside the process cannot enter the expectation the same way it enters the run
    def alone(t):
        reformat_text("A neutral paragraph.\n", **kw)
        return reformat_text(t, **kw)
    fmt_table = [(t, alone(t)) for t in dict.fromkeys(texts)]
    req = "main_run %s %s %s %s %s %s" % (
        enc_fo(eff, inplace, nobackup), enc_strs(files), ("1 " + enc_str(output)) if output else "0", enc_str(stdin_text),
        " ".join([str(len(DOCS))] + [enc_str(n) + " 1 " + enc_str(c) for n, c in DOCS.items()]),
        " ".join([str(len(fmt_table))] + [enc_str(t) + " " + enc_str(r) for t, r in fmt_table]))
    case = {"argv": argv, "stdin": source == "stdin", "sink": sink, "source": source, "opts": eff}
    return req, observed, case, dict(fmt_table), files


def expected_from_model(ans: str, files):
    tk = Toks(ans)
    stdout = ""
    written = {}
    for _ in range(tk.int()):
        kind = tk.int()
        if kind == 0:
            stdout += tk.str()
        else:
            p, b, bk = tk.str(), tk.str(), tk.bool()
            written[p] = [b, bk]
    rc = tk.int()
    return {"rc": rc, "stdout": stdout, "written": written}


def run(chk: Check) -> None:
    from flowmark import reformat_text
    tier = chk.tier
    chk.cov["trusted_base"] = TRUSTED_BASE_COMMON + ["wiring translator gen/wiring.py (ast + inspect.signature); argparse itself (tokenisation of argv) is exercised, not modelled"]
    chk.cov["rule"] = ("option product {width in 0,1,40,88,-5} x 2^5 switches x 3 list spacings x {stdout,-o,inplace,inplace+nobackup,auto} x "
                       "{file,stdin,3 files}: complete in thorough, a seeded 1/16 slice plus all pairs of (switch, sink, source) in quick; each "
                       "run through cli.main in-process; non-trivial = the run delivers output; distinct by argv")
    if not chk.phase_build("Props/C15.v"):
        return
    rng = chk.rng
    d = SCRATCH / "w"
    combos = []
    for w in WIDTHS:
        for bits in itertools.product([False, True], repeat=5):
            for ls in LS:
                o = dict(width=w, plaintext=bits[0], semantic=bits[1], cleanups=bits[2], smartquotes=bits[3], ellipses=bits[4], list_spacing=ls)
                for sink in SINKS:
                    for source in SOURCES:
                        combos.append((o, sink, source))
    if tier == "quick":
        keep = [c for i, c in enumerate(combos) if rng.random() < 1 / 24]
        # make sure every (single switch on, sink, source) triple is present
        for k in ("plaintext", "semantic", "cleanups", "smartquotes", "ellipses"):
            for sink in SINKS:
                for source in SOURCES:
                    o = dict(width=40, plaintext=False, semantic=False, cleanups=False, smartquotes=False, ellipses=False, list_spacing="preserve")
                    o[k] = True
                    keep.append((o, sink, source))
        combos = keep
    chk.cov["exhaustive"] = tier == "thorough"
    reqs, obs, cases = [], [], []
    for i, (o, sink, source) in enumerate(combos):
        req, observed, case, table, files = one_case(chk, d, o, sink, source, short=(i % 3 == 0), reformat_text=reformat_text)
        reqs.append(req)
        obs.append(observed)
        cases.append(case)
        chk.hist("sink", sink)
        chk.hist("source", source)
    answers = model_batch(reqs, shards=8)
    ndiff = 0
    for req, o, c, a in zip(reqs, obs, cases, answers):
        exp = expected_from_model(a, None)
        chk.count()
        if o["stdout"] or o["written"]:
            chk.nontrivial(" ".join(c["argv"]))
        if exp != o:
            ndiff += 1
            # the model's bytes ARE reformat_text(text, **opts): a difference in delivered bytes is a property violation
            usage = None
            chk.fail("property", dict(c, observed=o, expected=exp), "CLI run delivers something other than reformat_text(text, **options) / wrong sink / wrong exit code", classify)
    chk.port_stat("cli.main vs Cli.main_run (bytes = reformat_text)", len(cases), ndiff)
    for c, o in list(zip(cases, obs))[:3]:
        chk.sample({"argv": c["argv"], "rc": o["rc"], "stdout_len": len(o["stdout"]), "written": sorted(o["written"])})

    # ---- usage errors must write nothing ----
    usage_cases = [
        (["--inplace", "-"], "x\n", None),
        (["-i", "--nobackup", "-"], "x\n", None),
        (["-o", "out.md", "a.md", "b.md"], "", None),
        (["-o", "out.md", "a.md"], "", None),
        ([], "", None),
        (["--auto"], "", None),
        (["--list-files"], "", None),
        (["-i", "--nobackup", "a.md", "-"], "x\n", "inplace-stdin-mixed"),
        (["-i", "-", "a.md"], "x\n", "inplace-stdin-mixed"),
        (["--auto", "b.md", "-"], "x\n", "inplace-stdin-mixed"),
    ]
    nbad = 0
    for argv, stdin_text, tag in usage_cases:
        setup(d)
        rc, out, err = run_main(argv, d, stdin_text)
        chk.count()
        changed = [n for n in os.listdir(d) if n not in DOCS or (d / n).read_text() != DOCS[n]]
        if rc == 0 or changed or out:
            nbad += 1
            chk.fail("property", {"argv": argv, "rc": rc, "changed": changed, "stdout": out[:200], "usage": tag},
                     "usage error must exit non-zero without writing anything", classify)
    chk.port_stat("usage errors write nothing", len(usage_cases), nbad)

    # ---- real subprocess cross-check of the in-process shortcut + file API ----
    from flowmark.reformat_api import reformat_file
    nsub = 6 if tier == "quick" else 60
    nb = 0
    for i in range(nsub):
        o, sink, source = combos[(i * 7919) % len(combos)]
        if sink != "stdout" or source != "file":
            sink, source = "stdout", "file"
        setup(d)
        argv = opts_argv(o, short=False) + ["a.md"]
        p = subprocess.run([PY, "-m", "flowmark.cli"] + argv, cwd=d, env=dict(os.environ, PYTHONPATH="/repo/src"),
                           text=True, stdout=subprocess.PIPE, stderr=subprocess.PIPE, timeout=60)
        want = reformat_text(DOCS["a.md"], **api_kwargs(o))
        # file API
        kw = api_kwargs(o)
        reformat_file(d / "a.md", d / "api_out.md", inplace=False, **kw)
        api = (d / "api_out.md").read_text()
        chk.count()
        if p.stdout != want or api != want:
            nb += 1
            chk.fail("property", {"argv": argv, "subprocess_stdout": p.stdout[:300], "file_api": api[:300], "text_api": want[:300]},
                     "subprocess CLI / file API / text API disagree", classify)
    chk.port_stat("subprocess CLI vs file API vs text API", nsub, nb)
    variety_section(chk, reformat_text, tier)
    shutil.rmtree(SCRATCH, ignore_errors=True)


def replay(path: str) -> int:
    rec = json.loads(open(path).read())
    c = rec.get("case")
    if not c:
        print("replay: no concrete input; broken:", rec.get("broken"))
        return 1
    d = SCRATCH / "replay"
    setup(d)
    rc, out, err = run_main(c["argv"], d, DOCS["a.md"] if c.get("stdin") else "x\n")
    print("what:", rec["what"])
    print("argv:", c["argv"], "exit:", rc)
    print("stdout:", out[:500])
    print("files:", {n: (d / n).read_text()[:80] for n in os.listdir(d)})
    shutil.rmtree(SCRATCH, ignore_errors=True)
    return 1
