"""regenerate the seeded-defect table of DESIGN.md (section 0.10) from seeded/*/result.json"""
import json, glob, os, re

NOTES = {
 "C01-2": "caught after strengthening: the generator had no inline link sharing a destination with a definition (added to gen_docs.inline)",
 "C04-2": "caught after strengthening: no indented code blocks / indented fences with fence-like content (added gen_indented_code_doc)",
 "C07-2": "caught after strengthening: unclosed frontmatter never contained the delimiter text inside a line (added DELIM_LIKE lines)",
 "C10-1": "caught after strengthening: no heading whose italic span only starts with a bold span (added to HEADINGS)",
 "C02-r2-2": "caught after strengthening (empty code lines in a quote inside a list item became likelier); also caught by C01 and C04",
 "C03-r2-1": "NOT caught by C03 (the change is in flowmark's own parse-time extension, so both layouts are read differently and the pair is discarded as 'not the same document'); caught by C01",
 "C03-r2-2": "caught after strengthening: multi-line setext headings with emphasis across the line break (added to gen_docs)",
 "C04-r2-1": "caught after strengthening: indented code blocks had no three-dot runs (added)",
 "C04-r2-2": "caught after strengthening: an untitled inline link to the destination of a titled definition (added to SPANS/REFS)",
 "C10-r2-1": "caught after strengthening: lists never had empty items (added to gen_docs)",
 "C12-r2-2": "caught after strengthening: code blocks never held a tag-only line next to an indented list line (added to gen_docs)",
 "C08-2": "caught after strengthening: first recorded as caught, but that run had failed on a stale build (0.6); really missed - no sentence ended next to a quote in semantic mode (tokens added to gen_quote_text)",
 "C07-r2-1": "caught after strengthening: bodies after frontmatter were never uniformly indented or preceded by blank lines (added to gen_case)",
 "C08-r2-1": "caught after strengthening: no escaped period after digits at the start of a continuation line (tokens added)",
 "C08-r2-2": "caught after strengthening: the oracle found tags with the implementation's own TEMPLATE_TAG_PATTERN, which the change had altered; it now uses a pattern written from the property text, and the generator has tags holding '%', '}' and '-'",
 "C13-r2-1": "caught (patch rebased onto fix 409e762): the class-level dict is of a kind the inventory certificate does not cover, and the new definer/user document pair shows the leak",
 "C13-r2-2": "caught after strengthening: the inventory scan now lists assignments through cls / type(self) / ClassName inside methods (class-attr-written: certificate fails); documents with differently styled fences added for the schedules",
 "C14-r2-1": "caught after strengthening: no CRLF file among the scenarios and snapshots were read with newline translation (now bytes); the write after the rename shows in the syscall trace correspondence",
 "C14-r2-2": "caught after strengthening: faults were only failing or killed syscalls; runs under a real file-size limit (RLIMIT_FSIZE, several limits below the new size) give the short write",
 "C15-r2-1": "caught after strengthening: files were compared after newline translation and no document was an already formatted CRLF file; a section comparing bytes of every entry point on documents whose bytes matter was added (it also found D-80)",
 "C15-r2-2": "caught after strengthening: the expected text of each file was computed in the same process in the same order as the run; it is now computed after a neutral document, and the three files are arranged so that one ends in a heading and the next starts with a definition",
 "C17-r2-2": "caught after strengthening: no existing file or directory had a glob metacharacter in its name (added to treegen)",
 "C18-r2-2": "caught after strengthening: the check only drove the FileResolver API; a section running the command line with and without --no-respect-gitignore under config files was added",
 # found missed when every seed was re-run from a clean build state (the earlier 'caught' had depended on the random stream or on the stale build)
 "C01-1": "caught after strengthening: detection had depended on the random stream; the hand-written escape_word the theorems are about is now compared with markdown_escape_word in C01 itself (it was only done in C05)",
 "C04-1": "caught after strengthening: same port (escape_word vs markdown_escape_word) added to C04",
 "C05-r2-2": "caught after strengthening: paragraphs never had two hard breaks in a row (empty segment); added to gen_para_text",
 "C06-1": "caught after strengthening: the oracle accepted a line break between adjacent tags (a loosening from an earlier session, see 0.6); it now requires an open/close pair to stay on one line and lists what the unchanged code does as D-93 / D-97; tags holding their delimiters' characters added",
 "C08-1": "caught after strengthening: no container held two paragraphs whose quotes balance only across them; added, and the pipeline model (per-paragraph scope, theorem C08_rewrite_is_per_paragraph) is compared with the implementation with the option on",
 "C11-2": "caught after strengthening: a fixed corpus of plain sentence ends in several scripts (caf\u00e9., na\u00efve!, \u043c\u0438\u0440\u0435.) must be followed by a break (the seed changes the detector itself, which the model follows)",
 "C12-1": "caught after strengthening: the pumped families were only timed; their output is now checked for well-formedness too (placeholder bytes), and a family with hundreds of mixed constructs was added",
 "C12-r2-1": "caught after strengthening: code never held a fence-like line indented by four or more columns without a shallower one; added to gen_docs",
 # round 4
 "C01-r3-2": "caught after strengthening: indented code never held a fence line followed by spaces or a tab (still a closing fence for a reader); added to gen_docs and C04's code generators",
 "C02-r3-2": "caught after strengthening: as C01-r3-2",
 "C02-r3-1": "caught after strengthening: no table cell had a backslash directly before a pipe (plain or inside a code span); added to gen_docs",
 "C04-r3-2": "caught after strengthening: as C02-r3-1, added to C04's table cells",
 "C04-r3-1": "caught after strengthening: no template tag was written across two source lines; added to SPANS (the literal extractor then had to look for tags across soft breaks, with a pattern of its own)",
 "C03-r3-2": "caught after strengthening: layout pairs rarely differed inside a reference label; ten hand-written pairs that differ inside constructs (link text, label, title, emphasis, setext heading, item, quote, footnote, image, code span) run in every check",
 "C05-r3-2": "caught after strengthening: the model follows the changed pattern, so the port agrees; an oracle counting hard breaks in and out of line_wrap_to_width was added, and separators with a literal backslash before the break",
 "C10-r3-1": "caught after strengthening: the heading vocabulary had no bold span followed by bare punctuation; it is now every ordered pair of 15 heading pieces, each used in every run",
 "C11-r3-1": "caught after strengthening: words were only separated by ASCII whitespace; U+00A0, U+2003, U+3000, form feed, U+001F, U+2028 added as separators",
 "C06-r3-1": "obsolete: caught as it stood by the run before fix c8c087c; the repaired pre-pass (it remembers an open list instead of looking at the previous line only) no longer depends on the function the change breaks, and the demonstration now exits 0 with the change applied",
 "C01-r3-1": "caught after strengthening: had been caught by luck of the random stream; every kind of block is now the first block of every kind of container in every run (gen_docs.systematic_docs)",
 "C02-1": "caught after strengthening: as C01-r3-1 - the line-start escapes on a continuation line are part of the systematic family",
 "C02-r2-2": "caught after strengthening: as C01-r3-1 - a code block with an empty line inside every container combination is part of the systematic family (this replaces the earlier note: likelihood alone was not enough)",
 "C12-r3-1": "caught (patch rebased onto fix a7bad7d, which rewrote the lines it changes)",
 "C12-r3-2": "caught after strengthening: nothing was run at a huge width; a 250 KB paragraph is timed at width 88 and at width 1 000 000",
}
rows = []
for d in sorted(glob.glob('/verif/seeded/*/')):
    sid = os.path.basename(d.rstrip('/'))
    try:
        r = json.load(open(d + 'result.json')); m = json.load(open(d + 'meta.json'))
    except Exception:
        continue
    own = r.get('checks', {}).get(r['property'], {})
    caught = own.get('exit') == 1 and own.get('violations', 0) > 0
    others = [p for p, v in r.get('checks', {}).items() if p != r['property'] and v.get('exit') == 1]
    summ = (m.get('summary') or '').replace('|', '/').replace('\n', ' ')
    if len(summ) > 170:
        summ = summ[:167] + '...'
    res = 'VIOLATION' if caught else ('missed' + (f" (caught by {', '.join(others)})" if others else ''))
    if r.get('demo_exit') == 0:
        res = 'change no longer breaks the property (demonstration exits 0)' 
    rows.append(f"| {sid} | {summ} | `./check {r['property']} quick`: {res} | {NOTES.get(sid, 'caught as it stood' if caught else '')} |")
n = len(rows)
tbl = "| id | seeded change (one line) | check | result |\n|---|---|---|---|\n" + "\n".join(rows)
first = sum(1 for r in rows if 'caught as it stood' in r)
tbl += (f"\n\n{n} changes from 46 sub-agent runs (round 1: two per property, 36; round 2, asked for subtler changes different from round 1: 20 for C01-C06, C09-C12 and 16 for C07, C08, C13-C18; round 3, asked for changes that look like plausible refactorings: 20 for C01-C06, C09-C12, ids Cxx-r3-k), each confirmed: "
        "the patch applies to /repo, the 302 tests pass with it, the agent's demonstration exits 1 with it and 0 without it. "
        f"{first} were reported by the property's quick check as it stood; the others were missed at first and are caught after the named strengthening of a "
        "generator or oracle (nothing was special-cased to a seed; where an oracle was changed it was made stricter or independent of the implementation), "
        "except C03-r2-1, which only the C01 check sees, and C06-r3-1, which fix c8c087c made harmless (it was caught before that fix). Twenty changes of rounds 1 and 2 had been recorded as caught in earlier sessions on the strength of a "
        "check that had failed for another reason (a stale build, 0.6); all 92 were therefore run again from a clean state at the end, with the checks as "
        "committed: `seeded/<id>/result.json` holds that run. A patch that no longer applied after a later `fix:` commit was rebased by hand onto the "
        "current code (same change, same demonstration).")
s = open('/verif/DESIGN.md').read()
i = s.index('### 0.10 Seeded defects'); j = s.index('### 0.11')
head = s[i:].split('\n\n', 1)[0]
s = s[:i] + head + "\n\n" + tbl + "\n\n" + s[j:]
open('/verif/DESIGN.md', 'w').write(s)
print(n, first)
