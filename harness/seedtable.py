"""regenerate the seeded-defect table of DESIGN.md (section 0.10) from seeded/*/result.json"""
import json, glob, os, re

NOTES = {
 "C01-2": "caught after strengthening: the generator had no inline link sharing a destination with a definition (added to gen_docs.inline)",
 "C04-2": "caught after strengthening: no indented code blocks / indented fences with fence-like content (added gen_indented_code_doc)",
 "C07-2": "caught after strengthening: unclosed frontmatter never contained the delimiter text inside a line (added DELIM_LIKE lines)",
 "C10-1": "caught after strengthening: no heading whose italic span only starts with a bold span (added to HEADINGS)",
 "C02-r2-2": "caught after strengthening (empty code lines in a quote inside a list item became likelier); also caught by C01 and C04",
 "C03-r2-1": "NOT caught by C03 (the change is in flowmark's own parse-time extension, so both layouts are read differently and the pair is discarded as 'not the same document'); caught by C01",
 "C03-r2-2": "caught after strengthening: multi-line setext headings with emphasis across the line break (added to gen_docs)",
 "C04-r2-1": "caught after strengthening: indented code blocks had no three-dot runs (added)",
 "C04-r2-2": "caught after strengthening: an untitled inline link to the destination of a titled definition (added to SPANS/REFS)",
 "C10-r2-1": "caught after strengthening: lists never had empty items (added to gen_docs)",
 "C12-r2-2": "caught after strengthening: code blocks never held a tag-only line next to an indented list line (added to gen_docs)",
}
rows = []
for d in sorted(glob.glob('/verif/seeded/*/')):
    sid = os.path.basename(d.rstrip('/'))
    try:
        r = json.load(open(d + 'result.json')); m = json.load(open(d + 'meta.json'))
    except Exception:
        continue
    own = r.get('checks', {}).get(r['property'], {})
    caught = own.get('exit') == 1 and own.get('violations', 0) > 0
    others = [p for p, v in r.get('checks', {}).items() if p != r['property'] and v.get('exit') == 1]
    summ = (m.get('summary') or '').replace('|', '/').replace('\n', ' ')
    if len(summ) > 170:
        summ = summ[:167] + '...'
    res = 'VIOLATION' if caught else ('missed' + (f" (caught by {', '.join(others)})" if others else ''))
    rows.append(f"| {sid} | {summ} | `./check {r['property']} quick`: {res} | {NOTES.get(sid, 'caught as it stood' if caught else '')} |")
n = len(rows)
tbl = "| id | seeded change (one line) | check | result |\n|---|---|---|---|\n" + "\n".join(rows)
first = sum(1 for r in rows if 'caught as it stood' in r)
tbl += (f"\n\n{n} changes from 28 sub-agent runs (round 1: two per property, 36; round 2, asked for subtler changes different from round 1: 20), each confirmed: "
        "the patch applies to /repo, the 302 tests pass with it, the agent's demonstration exits 1 with it and 0 without it. "
        f"{first} were reported by the property's quick check as it stood; the others were missed at first and are caught after the named strengthening of a "
        "generator (no oracle was loosened or special-cased), except C03-r2-1, which only the C01 check sees. `seeded/<id>/result.json` holds the last run of each.")
s = open('/verif/DESIGN.md').read()
i = s.index('### 0.10 Seeded defects'); j = s.index('### 0.11')
head = s[i:].split('\n\n', 1)[0]
s = s[:i] + head + "\n\n" + tbl + "\n\n" + s[j:]
open('/verif/DESIGN.md', 'w').write(s)
print(n, first)
