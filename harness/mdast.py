"""Marko AST helpers for the document-level oracles: parse with flowmark's own parser
configuration and convert to plain nested data (no source spans)."""
from __future__ import annotations

import re

DROP = {"source_span", "syntax_spans", "dest_span", "title_span", "inline_body", "link_ref_defs", "footnotes", "escape", "delimiters"}


class ParseTimeout(Exception):
    pass


def parse(text: str, limit_s: int = 30):
    """Marko's parse under a watchdog: a parser that does not return must not take the whole check with it"""
    import signal
    from flowmark.formats.flowmark_markdown import flowmark_markdown

    def on_alarm(signum, frame):
        raise ParseTimeout(f"parser did not return within {limit_s} s")
    try:
        old = signal.signal(signal.SIGALRM, on_alarm)
    except ValueError:          # not in the main thread: no watchdog available
        return flowmark_markdown().parse(text)
    prev = signal.setitimer(signal.ITIMER_REAL, limit_s)
    try:
        return flowmark_markdown().parse(text)
    finally:
        signal.setitimer(signal.ITIMER_REAL, prev[0] if prev and prev[0] > 0 else 0)
        signal.signal(signal.SIGALRM, old)


def to_tree(e) -> dict:
    name = {"CustomFootnoteDef": "FootnoteDef"}.get(type(e).__name__, type(e).__name__)
    d = {"t": name}
    for k, v in vars(e).items():
        if k == "children" or k.startswith("_") or k in DROP:
            continue
        d[k] = getattr(v, "value", v) if not isinstance(v, (list, tuple, dict)) else v
    ch = getattr(e, "children", None)
    if isinstance(ch, list):
        d["c"] = [to_tree(c) for c in ch]
    elif ch is not None:
        d["s"] = ch
    if name == "RawText":
        d["esc"] = bool(getattr(e, "escape", True))
    return d


def doc_tree(text: str) -> dict:
    doc = parse(text)
    t = to_tree(doc)
    t["link_ref_defs"] = {k: list(v) for k, v in getattr(doc, "link_ref_defs", {}).items()}
    return t


def strip_blank(t: dict) -> dict:
    """remove BlankLine nodes (they carry no meaning)"""
    if "c" in t:
        t = dict(t, c=[strip_blank(c) for c in t["c"] if c["t"] != "BlankLine"])
    return t


def walk(t: dict, path=()):
    yield path, t
    for i, c in enumerate(t.get("c", [])):
        yield from walk(c, path + (i,))


def shape_diff(a: dict, b: dict, text_rel, path="") -> str | None:
    """structural comparison: same node types / attributes / literal (non-RawText) strings;
    RawText strings related by text_rel(sa, sb) -> None | reason"""
    if a["t"] != b["t"]:
        return f"{path}: node {a['t']} vs {b['t']}"
    for k in set(a) | set(b):
        if k in ("c", "s", "t"):
            continue
        if a.get(k) != b.get(k):
            return f"{path}/{a['t']}.{k}: {a.get(k)!r} vs {b.get(k)!r}"
    if "s" in a or "s" in b:
        sa, sb = a.get("s"), b.get("s")
        if a["t"] == "RawText" and a.get("esc", True):
            r = text_rel(sa, sb)
            if r:
                return f"{path}/RawText: {r}"
        elif sa != sb:
            return f"{path}/{a['t']}: literal {sa!r} vs {sb!r}"
    ca, cb = a.get("c", []), b.get("c", [])
    if len(ca) != len(cb):
        return f"{path}/{a['t']}: {len(ca)} children vs {len(cb)} ({[c['t'] for c in ca]} vs {[c['t'] for c in cb]})"
    for i, (x, y) in enumerate(zip(ca, cb)):
        r = shape_diff(x, y, text_rel, f"{path}/{a['t']}[{i}]")
        if r:
            return r
    return None


def coalesce_text(t: dict) -> dict:
    """merge adjacent RawText / soft LineBreak children into single RawText nodes with
    whitespace runs collapsed (the 'same text up to runs of whitespace' of the properties)"""
    if "c" not in t:
        return t
    out = []
    for c in t["c"]:
        c = coalesce_text(c)
        is_txt = (c["t"] == "RawText" and c.get("esc", True)) or c["t"] == "Literal"     # an escaped character is text (line-start escapes come and go with the wrapping)
        is_soft = c["t"] == "LineBreak" and c.get("soft")
        if is_txt or is_soft:
            s = c["s"] if is_txt else " "
            if out and out[-1]["t"] == "RawText" and out[-1].get("esc", True):
                out[-1] = dict(out[-1], s=out[-1]["s"] + s)
            else:
                out.append({"t": "RawText", "s": s, "esc": True})
        else:
            out.append(c)
    for c in out:
        if c["t"] == "RawText" and c.get("esc", True):
            c["s"] = re.sub(r"\s+", " ", c["s"])
    return dict(t, c=out)
