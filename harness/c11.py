"""C11 — Semantic line breaks fall at sentence ends and keep edits local."""
from __future__ import annotations

import json

from common import Check, TRUSTED_BASE_COMMON
import gen_words as G
import rx
import wports

MLL = 20


def _mods():
    from flowmark.linewrapping import line_wrappers as lw, sentence_split_regex as ss, text_wrapping as tw
    return lw, ss, tw


def classify(kf, rec) -> bool:
    cl = kf.get("classifier")
    if cl == "sentence-merge-accounting":
        return bool(rec["case"].get("merge_related"))
    return False


def gen_sentence(rng, nwords=None) -> list[str]:
    n = nwords or rng.choice([1, 2, 3, 4, 6, 9, 14])
    ws = []
    for _ in range(n - 1):
        w = rng.choice(G.PLAIN + ["-", "1.", "#", ">", "e.g.", "U.S.", "x)", "42.", "A."]) if rng.random() < 0.9 else G.word_of_len(rng, rng.randint(1, 14))
        ws.append(w)
    ws.append(rng.choice(["end.", "stop!", "why?", "done.\"", "ok.)", "fin.”", "said.", "there."]))
    return ws


def unindent(lines, i1, i2):
    out = []
    for i, l in enumerate(lines):
        ind = i1 if i == 0 else i2
        if not l.startswith(ind):
            return None
        out.append(l[len(ind):])
    return out


def unescape(w: str) -> str:
    import re
    if re.fullmatch(r"(?:\\[*_])+", w):       # a run of * or _ : one backslash per character
        return w.replace("\\", "")
    if w.startswith("\\"):
        return w[1:]
    if len(w) >= 3 and w[-2] == "\\" and w[-1] in ".)":
        return w[:-2] + w[-1]
    return w


def check_breaks(ss, text, width, i1, i2, out):
    """property clauses on one implementation output; returns list of (what, merge_related)"""
    probs = []
    lines = unindent(out.split("\n"), i1, i2) if out else []
    if lines is None:
        return [("indent: a line does not carry the configured indent", False)]
    words = text.split()
    lw_ = [l.split(" ") for l in lines]
    flat = [w for l in lw_ for w in l]
    if [unescape(w) if (i > 0) else w for i, w in enumerate(flat)] != words and [unescape(w) for w in flat] != words:
        # tolerate escapes only at line heads
        ok = True
        k = 0
        for li, l in enumerate(lw_):
            for wi, w in enumerate(l):
                if k >= len(words) or not (w == words[k] or (wi == 0 and li > 0 and unescape(w) == words[k])):
                    ok = False
                k += 1
        if not ok or k != len(words):
            return [("lossless: output words differ from input words", False)]
    heur = ss.heuristic_end_of_sentence

    def merged_line(l):  # interior sentence end at a prefix shorter than MLL
        acc = 0
        for wi, w in enumerate(l[:-1]):
            acc += len(w) + (1 if wi else 0)
            if heur(w) and acc < MLL:
                return True
        return False

    k = 0
    for li, l in enumerate(lw_):
        ind = len(i1 if li == 0 else i2)
        linelen = len(lines[li])
        prev_short_end = li > 0 and len(lines[li - 1]) < MLL and heur(lw_[li - 1][-1])
        related = merged_line(l) or prev_short_end
        # width
        if ind + linelen > width and len(l) > 1:
            probs.append((f"width: line {li} is {ind + linelen} columns wide (> {width}) and breakable", related))
        # interior sentence ends must sit on a line-so-far shorter than the minimum
        acc = 0
        for wi, w in enumerate(l[:-1]):
            acc += len(w) + (1 if wi else 0)
            if heur(w) and acc >= MLL:
                probs.append((f"sentence end {w!r} inside line {li} although the line so far has {acc} >= {MLL} chars", False))
        # the break after this line
        if li + 1 < len(lw_):
            last = l[-1]
            nxt = words[k + len(l)] if k + len(l) < len(words) else ""
            if not heur(last):
                if ind + linelen + 1 + len(nxt) <= width:
                    probs.append((f"break after line {li} is neither at a sentence end nor width-forced", related))
        k += len(l)
    return probs


def run(chk: Check) -> None:
    tier = chk.tier
    chk.cov["trusted_base"] = TRUSTED_BASE_COMMON + [
        "regex engine agreement with CPython/regex on SENTENCE_END_RE: tested (port regex:re_sentence_end), not proved"]
    chk.cov["rule"] = ("paragraphs built from generated sentences (each ending in a sentence-end word), widths 10..120, "
                       "indent pairs; edit pairs change interior words of one sentence; non-trivial = output has >= 3 lines "
                       "and at least one merge or width-forced break; distinct by (text,width,indent)")
    if not chk.phase_build("Props/C11.v"):
        return
    lw, ss, tw = _mods()
    rng = chk.rng
    n = 1 if tier == "quick" else 8
    rx.validate(chk, ["re_sentence_end"], tier)
    wports.port_split_sentences(chk, 1500 * n)
    wports.port_line_wrap_by_sentence(chk, 1500 * n, md=True)
    wports.port_line_wrap_by_sentence(chk, 800 * n, md=False)

    # ---- spec on implementation ----
    nfail = 0
    ncases = 2500 * n
    cases = []
    for it in range(ncases):
        nsent = rng.choice([1, 2, 3, 4, 6])
        sents = [gen_sentence(rng) for _ in range(nsent)]
        i1, i2 = rng.choice(wports.INDENTS[:6])
        cases.append({"sents": sents, "t": " ".join(" ".join(s) for s in sents), "w": rng.choice([12, 20, 25, 30, 40, 60, 88, 120]),
                      "i1": i1, "i2": i2})
    for md in (True, False):
        sub = [c for i, c in enumerate(cases) if (i % 10 < 7) == md]
        for c in sub:
            c["md"] = md
        _, outs = wports.port_line_wrap_by_sentence(chk, 0, md=md, cases=sub)
        for c in sub:
            c["out"] = outs.get(id(c))
    for it, c in enumerate(cases):
        sents, text, width, i1, i2, md, out = c["sents"], c["t"], c["w"], c["i1"], c["i2"], c["md"], c["out"]
        nsent = len(sents)
        if out is None:
            continue
        wrapper = lw.line_wrap_by_sentence(width=width, is_markdown=md)
        chk.count()
        nl = out.count("\n") + 1
        chk.hist("sentence_out_lines", min(nl, 8))
        if nl >= 3:
            chk.nontrivial((text, width, i1))
        for what, related in check_breaks(ss, text, width, i1, i2, out):
            nfail += 1
            # a listed finding only covers behaviour the pinned model also shows
            same_as_model = not c.get("_diff")
            chk.fail("property", {"text": text, "width": width, "i1": i1, "i2": i2, "md": md, "out": out,
                                  "merge_related": related and same_as_model}, what, classify)
        # edit locality (theorems 3-5) on the implementation
        k = rng.randrange(nsent)
        edited = list(sents)
        new = gen_sentence(rng, max(1, len(sents[k]) + rng.choice([-1, 0, 1, 2])))
        new[-1] = sents[k][-1] if rng.random() < 0.7 else new[-1]
        edited[k] = new
        text2 = " ".join(" ".join(s) for s in edited)
        out2 = wrapper(text2, i1, i2)
        A = " ".join(" ".join(s) for s in sents[:k])
        LA = wrapper(A, i1, i2).split("\n") if A else []
        L, L2 = out.split("\n"), out2.split("\n")
        keep = LA[:-1]
        case = {"text": text, "edited": text2, "width": width, "i1": i1, "i2": i2, "md": md, "sentence": k}
        if L[:len(keep)] != keep or L2[:len(keep)] != keep:
            nfail += 1
            chk.fail("property", dict(case, out=out, out2=out2), "edit locality: a line before the previous sentence's last line changed", classify)
        for j in range(k, nsent):
            PX = " ".join(" ".join(s) for s in sents[:j + 1])
            PX2 = " ".join(" ".join(s) for s in edited[:j + 1])
            LX, LX2 = wrapper(PX, i1, i2).split("\n"), wrapper(PX2, i1, i2).split("\n")
            ulx = LX[-1][len(i2 if len(LX) > 1 else i1):]
            ulx2 = LX2[-1][len(i2 if len(LX2) > 1 else i1):]
            if len(ulx) >= MLL and len(ulx2) >= MLL:
                if L[:len(LX)] != LX or L2[:len(LX2)] != LX2 or L[len(LX):] != L2[len(LX2):]:
                    nfail += 1
                    chk.fail("property", dict(case, out=out, out2=out2, resync_after_sentence=j),
                             "edit locality: lines after a resynchronisation point differ", classify)
                break
        if it < 4:
            chk.sample(dict(case, out=out, out2=out2))
    chk.port_stat("spec: break classification + edit locality on implementation", ncases, nfail)
    # ---- words that end a sentence in any reader's eyes: a lower-case word of three or more letters (any script) with '.', '!' or '?',
    # followed by a capitalised word; each must be followed by a line break once the line is long enough ----
    from flowmark import reformat_text
    enders = ["here.", "done!", "why?", "caf\u00e9.", "na\u00efve!", "Stra\u00dfe.", "\u00e9t\u00e9?", "\u043c\u0438\u0440\u0435.", "\u03ba\u03cc\u03c3\u03bc\u03bf\u03c2.", "ma\u00f1ana!",
              "fin.\"", "(ok\u00e9.)", "\u00fcber.", "r\u00e9sum\u00e9."]
    nsp = 0
    for e in enders:
        for ctx in ("", "> ", "- "):
            doc = ctx + "Some words that come first and " + e + " Then another sentence follows here.\n"
            out = reformat_text(doc, width=88, semantic=True)
            chk.count()
            first = out.split("\n")[0]
            if not first.rstrip().endswith(e):
                nsp += 1
                chk.fail("property", {"text": doc, "ender": e, "out": out, "corpus": True},
                         f"no line break after the sentence end {e!r} (first line {first!r})", classify)
    chk.port_stat("spec: plain sentence ends (letters of several scripts) are followed by a line break", len(enders) * 3, nsp)


def replay(path: str) -> int:
    lw, ss, tw = _mods()
    rec = json.loads(open(path).read())
    c = rec.get("case")
    if not c:
        print("replay: no concrete input; broken:", rec.get("broken"))
        return 1
    wrapper = lw.line_wrap_by_sentence(width=c["width"], is_markdown=c.get("md", True))
    print("what :", rec["what"])
    print("input:", json.dumps({k: c[k] for k in ("text", "width", "i1", "i2")}))
    print("out  :\n" + wrapper(c["text"], c["i1"], c["i2"]))
    if "edited" in c:
        print("edited out:\n" + wrapper(c["edited"], c["i1"], c["i2"]))
    return 1
