"""Document-level correspondence: fill_markdown (Python) vs the extracted pipeline model with
Marko's parse answered by the harness."""
from __future__ import annotations

import json

from common import Check, enc_str, model_batch, Toks
import astenc
import gen_docs

OPTION_SETS = []
for w in (0, 1, 7, 40, 88):
    for sem in (False, True):
        OPTION_SETS.append(dict(width=w, semantic=sem, cleanups=False, smartquotes=False, ellipses=False, list_spacing="preserve"))
OPTION_SETS += [
    dict(width=88, semantic=True, cleanups=True, smartquotes=True, ellipses=True, list_spacing="preserve"),
    dict(width=30, semantic=False, cleanups=True, smartquotes=True, ellipses=False, list_spacing="loose"),
    dict(width=30, semantic=True, cleanups=False, smartquotes=False, ellipses=True, list_spacing="tight"),
    dict(width=60, semantic=False, cleanups=True, smartquotes=False, ellipses=False, list_spacing="tight"),
    dict(width=-3, semantic=True, cleanups=False, smartquotes=True, ellipses=True, list_spacing="loose"),
]


def fmt(text, o):
    from flowmark.linewrapping.markdown_filling import fill_markdown
    return fill_markdown(text, width=o["width"], semantic=o["semantic"], cleanups=o["cleanups"], smartquotes=o["smartquotes"],
                         ellipses=o["ellipses"], list_spacing=o["list_spacing"])


from mdast import ParseTimeout, parse  # noqa: E402,F401  (parse under a watchdog)


def run_fill_port(chk: Check, cases: list[dict], name="fill_markdown (Marko parse supplied)") -> None:
    """cases: dicts with 'doc' and 'opts'. Sets c['out'] (implementation) and c['_diff'] on mismatch."""
    # phase 1: what does the model hand to the parser?
    pin = model_batch(["parser_input " + enc_str(c["doc"]) for c in cases], shards=8)
    reqs = []
    for c, a in zip(cases, pin):
        tk = Toks(a)
        ptxt = tk.opt(tk.str)
        c["parser_input"] = ptxt
        o = c["opts"]
        try:
            dtoks = "0" if ptxt is None else "1 " + astenc.enc_doc(parse(ptxt))
        except astenc.UnknownNode as e:
            chk.broken.append(f"AST encoder: unknown Marko node type {e}")
            dtoks = "0"
        except ParseTimeout as e:
            c["_parse_timeout"] = True
            chk.fail("property", {"doc": c["doc"], "opts": c["opts"], "family": "parser-hang"}, f"time: {e} (input handed to the parser: {ptxt[:200]!r})", None)
            dtoks = "0"
        reqs.append("fill_markdown %s %s %s" % (astenc.enc_mdopts(o["width"], o["semantic"], o["cleanups"], o["smartquotes"], o["ellipses"], o["list_spacing"]),
                                             enc_str(c["doc"]), dtoks))
    outs = model_batch(reqs, shards=8)
    nd = 0
    for c, a in zip(cases, outs):
        if c.get("_parse_timeout"):
            c["out"] = "EXC ParseTimeout"
            continue
        try:
            impl = fmt(c["doc"], c["opts"])
        except Exception as e:
            impl = "EXC " + type(e).__name__
        c["out"] = impl
        model = a if a.startswith(("ERR", "EXC")) else Toks(a).str()
        if model != impl:
            nd += 1
            c["_diff"] = True
            if nd <= 5:
                try:
                    import os
                    os.makedirs("/verif/.work", exist_ok=True)
                    prev = json.load(open("/verif/.work/last_fill_diffs.json")) if nd > 1 and os.path.exists("/verif/.work/last_fill_diffs.json") else []
                    json.dump(prev + [{"doc": c["doc"], "opts": c["opts"]}], open("/verif/.work/last_fill_diffs.json", "w"))
                except Exception:
                    pass
            if nd <= 3:
                chk.notes.append("fill_markdown differs: " + json.dumps({"doc": c["doc"][:300], "opts": c["opts"]}, ensure_ascii=False) +
                                 f" model={model[:200]!r} impl={impl[:200]!r}")
    chk.count(len(cases))
    chk.port_stat(name, len(cases), nd)
    if nd:
        chk.broken.append(f"correspondence {name}: {nd}/{len(cases)} cases differ")


def gen_cases(chk: Check, n: int, malformed_share=0.15, opts=None) -> list[dict]:
    rng = chk.rng
    cases = []
    for i in range(n):
        doc = gen_docs.gen_malformed(rng) if rng.random() < malformed_share else gen_docs.gen_doc(rng)
        cases.append({"doc": doc, "opts": dict(rng.choice(opts or OPTION_SETS))})
    return cases
