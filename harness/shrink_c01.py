"""minimise a C01 replay: smallest document (lines, then characters) that still re-parses differently"""
import json, sys, signal
sys.path.insert(0, "/verif/harness")
import docports, c01


def split_fm(doc):
    from flowmark.formats.frontmatter import split_frontmatter
    return bool(split_frontmatter(doc)[0])


def pin(doc):
    from textwrap import dedent
    from flowmark.formats.frontmatter import split_frontmatter
    fm, content = split_frontmatter(doc)
    return dedent(content).strip() + "\n"


def bad(doc, opts):
    try:
        signal.alarm(5)
        if split_fm(doc): return None
        out = docports.fmt(doc, opts)
        d = c01.reparse_check(pin(doc), out)
        signal.alarm(0)
        return d
    except Exception as e:
        signal.alarm(0)
        return None


def ddmin(items, test):
    n = 2
    while len(items) >= 2:
        chunk = max(1, len(items) // n)
        reduced = False
        for i in range(0, len(items), chunk):
            cand = items[:i] + items[i + chunk:]
            if cand and test(cand):
                items = cand
                n = max(n - 1, 2)
                reduced = True
                break
        if not reduced:
            if chunk == 1:
                break
            n = min(n * 2, len(items))
    return items


def main(path):
    rec = json.load(open(path))
    c = rec["case"]
    opts = c["opts"]
    doc = c["doc"]
    d0 = bad(doc, opts)
    if not d0:
        print("does not reproduce")
        return
    import re
    def sig(d):
        if not d: return None
        d = re.sub(r"'(?:[^'\\]|\\.)*'|\"(?:[^\"\\]|\\.)*\"", "S", d.split(": ", 1)[-1])
        last = d.split("/")[-1] if ":" in d else d
        return re.sub(r"\[\d+\]", "", last)[:60]
    s0 = sig(d0)
    print("signature:", s0)
    same = lambda x: sig(bad(x, opts)) == s0
    lines = ddmin(doc.split("\n"), lambda ls: same("\n".join(ls)))
    doc = "\n".join(lines)
    chars = ddmin(list(doc), lambda cs: same("".join(cs)))
    doc = "".join(chars)
    out = docports.fmt(doc, opts)
    print("opts:", {k: opts[k] for k in ("width", "semantic")})
    print("doc :", repr(doc))
    print("out :", repr(out))
    print("diff:", bad(doc, opts))


if __name__ == "__main__":
    for p in sys.argv[1:]:
        main(p)
        print()
