"""Word / paragraph-text generators shared by the wrapper checks."""
from __future__ import annotations

import itertools
import random

HAZARD_WORDS = [
    "-", "+", "*", ">", "#", "##", "###", "1.", "1)", "12.", "2.", "10)", "---", "===", "***",
    "_", "___", "```", "~~~", "|", "|---|", ">x", "#x", "-x", "1.x", "\\-", "\\", "a.", "b)",
]
SENT_WORDS = ["end.", "Stop.", "why?", "yes!", "said.\"", "done.)", "it.'", "e.g.", "U.S.", "A.", "Mr.", "ok.”", "x.’"]
PLAIN = ["a", "ab", "abc", "abcd", "abcde", "word", "longerword", "averyveryverylongword", "I", "to", "é", "ñu", "日本", "漢", "x1", "42", "3.14"]
TAGS = ["{% a %}", "{% /a %}", "{{ v }}", "{# c #}", "<!-- c -->", "<!-- /c -->", "{%a%}", "{% tag x=1 y=\"q r\" %}"]
ATOMS = ["`c`", "`a b`", "``x ` y``", "[t](u)", "[a b](http://x.y/z w)", "[r][s]", "[z]", "<b>", "</b>", "<a href=\"x y\">", "<br/>"]
QUOTES = ["\"q\"", "'s", "it's", "\"open", "close\"", "'a'", "x...", "...", "wait..."]


def word_of_len(rng: random.Random, n: int, hazard_p=0.3) -> str:
    if rng.random() < hazard_p:
        c = [w for w in HAZARD_WORDS if len(w) == n]
        if c:
            return rng.choice(c)
    return "".join(rng.choice("abcdefgxyzAB") for _ in range(n))


def bounded_vectors(max_words: int, max_len: int):
    for k in range(1, max_words + 1):
        for v in itertools.product(range(1, max_len + 1), repeat=k):
            yield v


def random_words(rng: random.Random, n: int, tags=False, atoms=False, sentences=True) -> list[str]:
    out = []
    for _ in range(n):
        r = rng.random()
        if r < 0.45:
            out.append(rng.choice(PLAIN))
        elif r < 0.6:
            out.append(rng.choice(HAZARD_WORDS))
        elif r < 0.7 and sentences:
            out.append(rng.choice(SENT_WORDS))
        elif r < 0.78 and tags:
            out.append(rng.choice(TAGS))
        elif r < 0.86 and atoms:
            out.append(rng.choice(ATOMS))
        elif r < 0.9:
            out.append(rng.choice(QUOTES))
        else:
            out.append(word_of_len(rng, rng.randint(1, 12)))
    return out


WS_CHOICES = [" ", " ", " ", "  ", "\n", "\t", " \n ", " ", " ", "\r\n", "\x0c", "   "]


def join_random_ws(rng: random.Random, words: list[str], exotic=True) -> str:
    ws = WS_CHOICES if exotic else [" ", " ", "  ", "\n", " \n"]
    s = ""
    if rng.random() < 0.2:
        s += rng.choice(ws)
    for i, w in enumerate(words):
        if i:
            s += rng.choice(ws)
        s += w
    if rng.random() < 0.2:
        s += rng.choice(ws)
    return s
