"""Shared machinery of the checks: regeneration of Gen/, Coq build and obligation scan,
extraction build, model batch runner, violations / known findings / evidence."""
from __future__ import annotations

import fcntl
import hashlib
import json
import os
import random
import re
import shutil
import subprocess
import sys
import time
from pathlib import Path

VERIF = Path("/verif")
REPO = Path("/repo")
COQ = VERIF / "coq"
WORK = VERIF / ".work"
OCAML_WORK = WORK / "ocaml"
PY = "/venv/bin/python"
QFLAGS = []
for _d in ("Base", "Gen", "Model", "Proofs", "Props", "Findings", "Extract"):
    QFLAGS += ["-Q", str(COQ / _d), _d]

STD_AXIOMS_ALLOWED: set[str] = set()  # std-lib axioms we accept; none needed so far

FORBIDDEN = re.compile(
    r"\b(Admitted|admit|Axiom|Axioms|Parameter|Parameters|Conjecture|Conjectures|"
    r"Admit Obligations)\b|Unset\s+Guard|bypass_check|type-in-type|impredicative-set|"
    r"Unset\s+Positivity|Unset\s+Universe"
)


def log(*a):
    print(*a, file=sys.stderr, flush=True)


def sh(cmd, timeout=None, cwd=None, env=None, input=None):
    return subprocess.run(
        cmd, cwd=cwd, env=env, input=input, timeout=timeout, text=True,
        stdout=subprocess.PIPE, stderr=subprocess.STDOUT,
    )


class Lock:
    def __enter__(self):
        WORK.mkdir(exist_ok=True)
        self.f = open(WORK / "lock", "w")
        fcntl.flock(self.f, fcntl.LOCK_EX)
        return self

    def __exit__(self, *a):
        fcntl.flock(self.f, fcntl.LOCK_UN)
        self.f.close()


# ----------------------------------------------------------------------------------
# Gen/ regeneration (translator)
# ----------------------------------------------------------------------------------

def regen() -> tuple[bool, str, dict]:
    """Run the translator. Returns (ok, log, hashes). Files only rewritten on change."""
    env = dict(os.environ, PYTHONPATH=str(REPO / "src"), PYTHONHASHSEED="0")
    p = sh([PY, str(VERIF / "gen" / "translate.py")], timeout=300, env=env)
    hashes = {}
    for f in sorted((COQ / "Gen").glob("*.v")):
        hashes[f.name] = hashlib.sha256(f.read_bytes()).hexdigest()[:16]
    return p.returncode == 0, p.stdout, hashes


# ----------------------------------------------------------------------------------
# Coq build
# ----------------------------------------------------------------------------------

def coq_project():
    """(Re)write _CoqProject and Makefile when the file set changed."""
    files = []
    for d in ("Gen", "Base", "Model", "Proofs", "Props"):
        files += sorted(str(p.relative_to(COQ)) for p in (COQ / d).glob("*.v"))
    text = (COQ / "_CoqProject.in").read_text() + "\n".join(files) + "\n"
    cp = COQ / "_CoqProject"
    if not cp.exists() or cp.read_text() != text or not (COQ / "Makefile").exists():
        cp.write_text(text)
        sh(["coq_makefile", "-f", "_CoqProject", "-o", "Makefile"], cwd=COQ, timeout=60)


def grep_gate() -> list[str]:
    bad = []
    for f in sorted(COQ.rglob("*.v")):
        txt = f.read_text()
        # strip comments (non-nested is enough for our sources; nested handled by loop)
        prev = None
        while prev != txt:
            prev = txt
            txt = re.sub(r"\(\*(?:(?!\(\*|\*\)).)*?\*\)", " ", txt, flags=re.S)
        for m in FORBIDDEN.finditer(txt):
            bad.append(f"{f.relative_to(COQ)}: {m.group(0)}")
        # Variable / Hypothesis / Context are only allowed inside a Section
        depth = 0
        for m in re.finditer(r"(?m)^\s*(Section|Module|End|Variables?|Hypothes[ie]s|Context)\b", txt):
            w = m.group(1)
            if w == "Section":
                depth += 1
            elif w == "End":
                depth = max(0, depth - 1)
            elif w == "Module":
                pass
            elif depth == 0:
                bad.append(f"{f.relative_to(COQ)}: {w} outside a Section")
    return bad


def coq_make(targets: list[str], timeout=1500) -> tuple[bool, str]:
    coq_project()
    p = sh(["timeout", str(timeout), "make", "-j16", "-k"] + targets, cwd=COQ, timeout=timeout + 30)
    return p.returncode == 0, p.stdout


def props_obligations(prop_file: str) -> tuple[list[dict], str]:
    """Compile Props/<file> (deps must be built) and scan Print Assumptions output.
    Returns list of {name, status: closed|axioms|missing, axioms: [...]}, and raw log."""
    src = (COQ / prop_file).read_text()
    names = re.findall(r"^\s*Theorem\s+(\w+)", src, flags=re.M)
    printed = re.findall(r"^\s*Print Assumptions\s+(\w+)\s*\.", src, flags=re.M)
    p = sh(["timeout", "600", "coqc"] + QFLAGS + [str(COQ / prop_file)], cwd=COQ, timeout=630)
    out = p.stdout
    res = []
    if p.returncode != 0:
        # find which theorem failed from the error line number
        m = re.search(r"line (\d+), characters", out)
        fail_line = int(m.group(1)) if m else 0
        lines = src.split("\n")
        failed = None
        for i in range(min(fail_line, len(lines)) - 1, -1, -1):
            mm = re.match(r"\s*Theorem\s+(\w+)", lines[i])
            if mm:
                failed = mm.group(1)
                break
        for n in names:
            res.append({"name": n, "status": "failed" if n == failed else "unchecked", "axioms": []})
        return res, out
    # split output into blocks per Print Assumptions in order
    blocks = re.split(r"(?=^Closed under the global context|^Axioms:)", out, flags=re.M)
    blocks = [b for b in blocks if b.startswith("Closed under") or b.startswith("Axioms:")]
    for i, n in enumerate(names):
        if n not in printed:
            res.append({"name": n, "status": "missing-print", "axioms": []})
            continue
        j = printed.index(n)
        if j >= len(blocks):
            res.append({"name": n, "status": "missing", "axioms": []})
        elif blocks[j].startswith("Closed under"):
            res.append({"name": n, "status": "closed", "axioms": []})
        else:
            ax = re.findall(r"^(\S+)\s*:", blocks[j], flags=re.M)
            ax = [a for a in ax if a != "Axioms"]
            ok = all(a in STD_AXIOMS_ALLOWED for a in ax)
            res.append({"name": n, "status": "closed" if ok else "axioms", "axioms": ax})
    return res, out


# ----------------------------------------------------------------------------------
# Extraction + OCaml driver
# ----------------------------------------------------------------------------------

def build_modelrun() -> tuple[bool, str]:
    OCAML_WORK.mkdir(parents=True, exist_ok=True)
    logtxt = ""
    p = sh(["timeout", "600", "coqc"] + QFLAGS + [str(COQ / "Extract" / "Extract.v")],
           cwd=OCAML_WORK, timeout=630)
    logtxt += p.stdout
    if p.returncode != 0:
        return False, logtxt
    h = hashlib.sha256()
    for f in ("model.ml", "model.mli"):
        h.update((OCAML_WORK / f).read_bytes())
    for f in ("driver.ml", "main.ml"):
        h.update((VERIF / "ocaml" / f).read_bytes())
    stamp = OCAML_WORK / "stamp"
    if stamp.exists() and stamp.read_text() == h.hexdigest() and (OCAML_WORK / "modelrun").exists():
        return True, logtxt
    for f in ("driver.ml", "main.ml"):
        shutil.copy(VERIF / "ocaml" / f, OCAML_WORK / f)
    p = sh(["ocamlfind", "ocamlopt", "-w", "-a", "-inline", "100", "model.mli", "model.ml",
            "driver.ml", "main.ml", "-o", "modelrun"], cwd=OCAML_WORK, timeout=600)
    logtxt += p.stdout
    if p.returncode != 0:
        return False, logtxt
    stamp.write_text(h.hexdigest())
    return True, logtxt


def model_batch(requests: list[str], timeout=600, shards=1) -> list[str]:
    """Run request lines through the extracted model; returns answer lines."""
    if not requests:
        return []
    env = dict(os.environ, OCAMLRUNPARAM="l=8000M")
    if shards <= 1 or len(requests) < 2000:
        p = subprocess.run(["bash", "-c", "ulimit -s unlimited 2>/dev/null; exec ./modelrun"],
                           cwd=OCAML_WORK, input="\n".join(requests) + "\n", text=True,
                           stdout=subprocess.PIPE, stderr=subprocess.PIPE, timeout=timeout, env=env)
        out = p.stdout.split("\n")
        if out and out[-1] == "":
            out.pop()
        if len(out) != len(requests):
            raise RuntimeError(f"modelrun returned {len(out)} lines for {len(requests)} requests: {p.stderr[:500]}")
        return out
    n = len(requests)
    size = (n + shards - 1) // shards
    procs = []
    for i in range(0, n, size):
        chunk = requests[i:i + size]
        pr = subprocess.Popen(["bash", "-c", "ulimit -s unlimited 2>/dev/null; exec ./modelrun"],
                              cwd=OCAML_WORK, stdin=subprocess.PIPE, stdout=subprocess.PIPE,
                              stderr=subprocess.PIPE, text=True, env=env)
        procs.append((pr, chunk))
    # feed sequentially via threads to avoid deadlock
    import threading
    results: list[list[str]] = [None] * len(procs)  # type: ignore

    def run(i, pr, chunk):
        o, e = pr.communicate("\n".join(chunk) + "\n", timeout=timeout)
        lines = o.split("\n")
        if lines and lines[-1] == "":
            lines.pop()
        if len(lines) != len(chunk):
            raise RuntimeError(f"modelrun shard {i}: {len(lines)} != {len(chunk)}: {e[:300]}")
        results[i] = lines

    ths = [threading.Thread(target=run, args=(i, pr, ch)) for i, (pr, ch) in enumerate(procs)]
    for t in ths:
        t.start()
    for t in ths:
        t.join()
    out = []
    for r in results:
        if r is None:
            raise RuntimeError("modelrun shard failed")
        out += r
    return out


# ---- token encoding ----

def enc_str(s: str) -> str:
    if not s:
        return "0"
    return str(len(s)) + " " + " ".join(str(ord(c)) for c in s)


def enc_strs(l) -> str:
    return " ".join([str(len(l))] + [enc_str(s) for s in l])


def enc_bool(b) -> str:
    return "1" if b else "0"


class Toks:
    def __init__(self, line: str):
        self.t = line.split()
        self.i = 0
        self.err = line if line.startswith("ERR") else None

    def int(self) -> int:
        v = int(self.t[self.i])
        self.i += 1
        return v

    def bool(self) -> bool:
        return self.int() != 0

    def str(self) -> str:
        n = self.int()
        s = "".join(chr(int(x)) for x in self.t[self.i:self.i + n])
        self.i += n
        return s

    def list(self, f):
        n = self.int()
        return [f() for _ in range(n)]

    def strs(self):
        return self.list(self.str)

    def opt(self, f):
        return f() if self.bool() else None

    def done(self) -> bool:
        return self.i == len(self.t)


# ----------------------------------------------------------------------------------
# known findings
# ----------------------------------------------------------------------------------

def repro_only(kf: dict, rec: dict) -> bool:
    """findings that are listed with one fixed reproducer only: nothing but that reproducer is classified as the finding"""
    return str(kf.get("classifier", "")).startswith("repro-only") and rec.get("case", {}).get("repro") == kf.get("id")


def load_known() -> list[dict]:
    p = VERIF / "known_findings.json"
    if not p.exists():
        return []
    return json.loads(p.read_text()).get("findings", [])


# ----------------------------------------------------------------------------------
# A check run
# ----------------------------------------------------------------------------------

class Check:
    def __init__(self, pid: str, tier: str, seed: int):
        self.pid = pid
        self.tier = tier
        self.seed = seed
        self.t0 = time.time()
        self.rng = random.Random(seed)
        self.obligations: list[dict] = []
        self.broken: list[str] = []        # names of broken theorems / correspondences
        self.violations: list[dict] = []   # unlisted failing cases (with replay data)
        self.known_hits: dict[str, dict] = {}
        self.cov = {
            "evaluations": 0, "distinct_nontrivial": 0, "rule": "", "samples": [],
            "obligations": 0, "discharged": 0, "checker_cmd": "", "trusted_base": [],
            "ports": {}, "histograms": {}, "gen_hashes": {}, "findings_reproduced": [],
        }
        self._distinct: set = set()
        self.assumptions: list[str] = []
        self.notes: list[str] = []

    # ---- phases ----
    def phase_build(self, prop_file: str, extract=True):
        """regen + make + obligation scan + extraction. Records broken items."""
        ok, lg, hashes = regen()
        self.cov["gen_hashes"] = hashes
        if not ok:
            self.broken.append("translator: " + lg.strip().split("\n")[-1][:300])
            log(lg)
        bad = grep_gate()
        if bad:
            self.broken.append("grep-gate: " + "; ".join(bad[:5]))
        target = prop_file.replace(".v", ".vo")
        # the model files too: extraction loads every Model/*.vo, and a stale one (left by a run on a tree whose regexes differed)
        # would make the extraction fail with 'inconsistent assumptions' although nothing is wrong with the tree being checked
        model_vos = sorted("Model/" + p.name + "o" for p in (COQ / "Model").glob("*.v")) if extract else []
        ok, lg = coq_make([target] + model_vos)
        if not ok:
            log(lg[-3000:])
            m = re.findall(r'File "\./([^"]+)", line (\d+)', lg)
            self.broken.append("coq-build: " + (", ".join(f"{f}:{l}" for f, l in m[:3]) or "make failed"))
        obs, lg2 = props_obligations(prop_file)
        self.obligations = obs
        self.cov["obligations"] = len(obs)
        self.cov["discharged"] = sum(1 for o in obs if o["status"] == "closed")
        for o in obs:
            if o["status"] != "closed":
                self.broken.append(f"theorem {o['name']}: {o['status']} {o['axioms']}")
        self.cov["checker_cmd"] = (
            f"make -j16 {target} (full .vo build, coqc 8.16.1) && coqc {prop_file} "
            "with Print Assumptions scan; grep gate for Admitted/Axiom/..."
        )
        # refutation witnesses (non-fatal): do the recorded findings still reproduce in the model?
        ff = COQ / "Findings" / f"{self.pid}_refuted.v"
        if ff.exists():
            p = sh(["timeout", "600", "coqc"] + QFLAGS + [str(ff)], cwd=COQ, timeout=630)
            names = re.findall(r"^\s*Theorem\s+(\w+)", ff.read_text(), flags=re.M)
            self.cov["refutation_witnesses"] = {"file": str(ff.relative_to(VERIF)), "theorems": names,
                                                "status": "reproduce" if p.returncode == 0 else "no longer compile (finding does not reproduce in the model)"}
            if p.returncode != 0:
                self.notes.append("Findings file no longer compiles: " + p.stdout[-300:])
        if extract:
            ok, lg = build_modelrun()
            if not ok:
                log(lg[-3000:])
                self.broken.append("extraction/ocaml build failed")
                return False
        return True

    # ---- case accounting ----
    def count(self, n=1):
        self.cov["evaluations"] += n

    def nontrivial(self, key):
        self._distinct.add(key if isinstance(key, (str, int, tuple)) else json.dumps(key, sort_keys=True))

    def sample(self, s, cap=12):
        if len(self.cov["samples"]) < cap:
            self.cov["samples"].append(s)

    def port_stat(self, port: str, n: int, disagreements: int):
        d = self.cov["ports"].setdefault(port, {"cases": 0, "disagreements": 0})
        d["cases"] += n
        d["disagreements"] += disagreements

    def hist(self, name: str, key):
        h = self.cov["histograms"].setdefault(name, {})
        h[str(key)] = h.get(str(key), 0) + 1

    # ---- failures ----
    def fail(self, kind: str, case: dict, what: str, classify=None):
        """A concrete failing case on the implementation. kind: 'property' | 'correspondence'."""
        rec = {"property": self.pid, "kind": kind, "what": what, "case": case}
        for kf in load_known():
            if kf.get("property") != self.pid or kf.get("status") != "open":
                continue
            if classify and classify(kf, rec):
                self.known_hits.setdefault(kf["id"], {"finding": kf, "n": 0, "example": rec})["n"] += 1
                return "known"
        self.violations.append(rec)
        return "violation"

    def finish(self) -> int:
        rc = 0
        out_lines = []
        (VERIF / "replays").mkdir(exist_ok=True)
        for fid, h in sorted(self.known_hits.items()):
            out_lines.append(f"KNOWN-FINDING: property={self.pid} {fid}: {h['finding'].get('what','')} ({h['n']} case(s) this run)")
            self.cov["findings_reproduced"].append(fid)
        if self.violations:
            rc = 1
            # group: report first few distinct
            seen = set()
            for v in self.violations:
                key = (v["kind"], v["what"][:80])
                if key in seen and len(seen) >= 1:
                    continue
                seen.add(key)
                hh = hashlib.sha256(json.dumps(v, sort_keys=True, default=str).encode()).hexdigest()[:12]
                path = VERIF / "replays" / f"{self.pid}-{hh}.json"
                v2 = dict(v, broken=self.broken, seed=self.seed, tier=self.tier)
                path.write_text(json.dumps(v2, indent=1, default=str))
                out_lines.append(f"VIOLATION property={self.pid} replay={path}")
                if len(seen) >= 5:
                    break
        elif self.broken:
            rc = 1
            hh = hashlib.sha256(json.dumps(self.broken).encode()).hexdigest()[:12]
            path = VERIF / "replays" / f"{self.pid}-broken-{hh}.json"
            path.write_text(json.dumps({
                "property": self.pid, "kind": "unproved",
                "broken": self.broken,
                "note": "a theorem, the translator or a model/implementation correspondence no longer checks; "
                        "the search found no concrete failing input for the property itself",
                "seed": self.seed, "tier": self.tier}, indent=1))
            out_lines.append(f"VIOLATION property={self.pid} replay={path} no-failing-input-found")
        self.cov["distinct_nontrivial"] = len(self._distinct)
        ev = {
            "property_id": self.pid, "tier": self.tier, "seed": self.seed, "level": "proof",
            "coverage": self.cov,
            "assumptions": self.assumptions,
            "wall_s": round(time.time() - self.t0, 2),
            "violations": len(self.violations) + (1 if (self.broken and not self.violations) else 0),
            "broken": self.broken,
            "obligation_list": self.obligations,
            "notes": self.notes,
        }
        (VERIF / "evidence").mkdir(exist_ok=True)
        (VERIF / "evidence" / f"{self.pid}.json").write_text(json.dumps(ev, indent=1, default=str))
        for l in out_lines:
            print(l, flush=True)
        if rc == 0:
            print(f"OK property={self.pid} tier={self.tier} obligations={self.cov['discharged']}/{self.cov['obligations']} "
                  f"evaluations={self.cov['evaluations']} wall={ev['wall_s']}s", flush=True)
        return rc


TRUSTED_BASE_COMMON = [
    "Coq 8.16.1 kernel (coqc; vm_compute used for table facts/certificates; no native_compute)",
    "no axioms: every property theorem must print 'Closed under the global context'",
    "translator gen/translate.py (Python ast/inspect/re._parser + probing of the running CPython/regex for Unicode tables)",
    "extraction: ExtrOcamlBasic only (bool/option/unit/list/prod/sumbool mapped to OCaml natives), no Extract Constant; ocamlopt 4.13.1; hand-written driver ocaml/driver.ml",
    "correspondence harness (Python) comparing extracted model and /repo implementation on generated inputs",
    "modelled-not-verified: flowmark source is represented by hand-written Gallina (coq/Model) tied by the correspondence runs; Marko parser, pathspec, tomllib, OS are outside the model",
]
