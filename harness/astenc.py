"""Encode a Marko document (as parsed by flowmark_markdown()) into the token syntax of the
extracted model (Model/Ast.v).  Fail-closed: an unknown node type raises."""
from __future__ import annotations

from common import enc_bool, enc_str


class UnknownNode(Exception):
    pass


def enc_opt_str(x):
    return "0" if x is None else "1 " + enc_str(x)


def enc_list(items, f):
    return " ".join([str(len(items))] + [f(x) for x in items])


def enc_inl(e) -> str:
    n = {"CustomFootnoteDef": "FootnoteDef"}.get(type(e).__name__, type(e).__name__)
    if n == "RawText":
        return "0 " + enc_str(e.children)
    if n == "CodeSpan":
        return "1 " + enc_str(e.children)
    if n == "LineBreak":
        return "2 " + enc_bool(e.soft)
    if n == "Literal":
        return "3 " + enc_str(e.children)
    if n == "InlineHTML":
        return "4 " + enc_str(e.children)
    if n == "FootnoteRef":
        return "5 " + enc_str(e.label)
    kids = lambda: enc_list(e.children, enc_inl)  # noqa: E731
    if n == "Emphasis":
        return "6 0 " + kids()
    if n == "StrongEmphasis":
        return "6 1 " + kids()
    if n in ("Strikethrough", "CustomStrikethrough"):
        return "6 2 " + kids()
    if n == "Link":
        return "6 3 %s %s %s" % (enc_str(e.dest), enc_opt_str(e.title), kids())
    if n == "Image":
        return "6 4 %s %s %s" % (enc_str(e.dest), enc_opt_str(e.title), kids())
    if n == "AutoLink":
        return "6 5 %s %s" % (enc_str(e.dest), kids())
    if n == "Url":
        return "6 6 %s %s" % (enc_str(e.dest), kids())
    raise UnknownNode(n)


def enc_inls(l) -> str:
    return enc_list(l, enc_inl)


def enc_blk(e) -> str:
    n = {"CustomFootnoteDef": "FootnoteDef"}.get(type(e).__name__, type(e).__name__)
    if n == "Paragraph":
        ch = "1 " + enc_bool(e.checked) if hasattr(e, "checked") else "0"
        return "0 0 %s %s" % (ch, enc_inls(e.children))
    if n in ("Heading", "SetextHeading"):
        return "0 1 %s %d %s" % (enc_bool(n == "SetextHeading"), e.level, enc_inls(e.children))
    if n in ("CustomFencedCode", "FencedCode"):
        fc = getattr(e, "fence_char", "`")
        fl = getattr(e, "fence_len", 3)
        return "0 2 %s %s %d %d %s" % (enc_str(e.lang), enc_str(e.extra), ord(fc), fl, enc_str(e.children[0].children))
    if n == "CodeBlock":
        return "0 2 0 0 96 3 %s" % enc_str(e.children[0].children)
    if n == "ThematicBreak":
        return "0 3"
    if n == "BlankLine":
        return "0 4"
    if n == "LinkRefDef":
        return "0 5 %s %s %s" % (enc_str(e.label), enc_str(e.dest), enc_opt_str(e.title))
    if n == "Table":
        rows = enc_list(e.children, lambda row: enc_list(row.children, lambda cell: enc_inls(cell.children)))
        return "0 6 %s %s" % (enc_list(e.delimiters, enc_str), rows)
    if n in ("HTMLBlock", "CustomHTMLBlock"):
        return "0 7 " + enc_str(e.body)
    kids = lambda: enc_list(e.children, enc_blk)  # noqa: E731
    if n == "List":
        return "1 0 %s %s %d %s %s" % (enc_bool(e.ordered), enc_str(e.bullet), e.start, enc_bool(e.tight), kids())
    if n == "ListItem":
        return "1 1 " + kids()
    if n == "Quote":
        return "1 2 " + kids()
    if n == "Alert":
        return "1 3 %s %s" % (enc_str(e.alert_type), kids())
    if n == "FootnoteDef":
        return "1 4 %s %s" % (enc_str(e.label), kids())
    raise UnknownNode(n)


def enc_doc(doc) -> str:
    defs = list(getattr(doc, "link_ref_defs", {}).items())
    return "%s %s" % (enc_list(doc.children, enc_blk),
                      enc_list(defs, lambda kv: "%s %s %s" % (enc_str(kv[0]), enc_str(kv[1][0]), enc_opt_str(kv[1][1]))))


def enc_mdopts(width, semantic, cleanups, smartquotes, ellipses, spacing) -> str:
    return "%d %s %s %s %s %d" % (width, enc_bool(semantic), enc_bool(cleanups), enc_bool(smartquotes), enc_bool(ellipses),
                                  ["preserve", "loose", "tight"].index(getattr(spacing, "value", spacing)))
