"""C10 — Cleanups and list-spacing options do exactly what they say and nothing else."""
from __future__ import annotations

import copy
import json
import re
from textwrap import dedent

from common import Check, TRUSTED_BASE_COMMON
import docports
import gen_docs
import mdast
import c01
import c02

PREFIX_ONLY = re.compile(r"^[ >]*$")


def unblank(text: str) -> list[str]:
    """the lines of a document that are not empty up to quote markers and indentation"""
    return [l for l in text.split("\n") if not PREFIX_ONLY.match(l)]


def unbold_tree(t: dict) -> dict:
    """the documented cleanup applied to a parsed tree"""
    t = copy.deepcopy(t)

    def walk(n):
        if n["t"] in ("Heading", "SetextHeading"):
            ch = n.get("c", [])
            if len(ch) == 1 and ch[0]["t"] == "StrongEmphasis":
                # bold directly inside bold is still "entirely bold": every level goes (fix 2465fe2 made the code do this in one pass)
                while len(ch) == 1 and ch[0]["t"] == "StrongEmphasis":
                    ch = ch[0].get("c", [])
                n["c"] = ch
            # bold-italic becomes italic; this also holds for what the first rule leaves (fix b925259: '**_**a**_**' is entirely bold and what
            # remains, '***a***', is bold-italic), with bold directly inside bold counting as bold
            ch = n.get("c", [])
            if len(ch) == 1 and ch[0]["t"] == "Emphasis":
                inner = ch[0].get("c", [])
                while len(inner) == 1 and inner[0]["t"] == "StrongEmphasis":
                    inner = inner[0].get("c", [])
                ch[0]["c"] = inner
        for k in n.get("c", []):
            walk(k)
    walk(t)
    return t


def lists_of(text: str) -> list[dict]:
    acc = []

    def walk(t):
        if t["t"] == "List":
            items = [k for k in t.get("c", []) if k["t"] == "ListItem"]
            acc.append({"tight": bool(t.get("tight")), "n": len(items),
                        "single": all(len([b for b in it.get("c", []) if b["t"] != "BlankLine"]) <= 1 for it in items)})
        for k in t.get("c", []):
            walk(k)
    walk(mdast.doc_tree(text))
    return acc


HEADINGS = ["# **All bold**", "## ***Bold italic***", "### **Partly** bold", "# **A** and **B**", "#### *italic only*", "# **bold `code` [l](u)**",
            "**Setext bold**\n===", "***Setext both***\n---", "# plain", "##### **bold**trailing", "# ** not bold **", "## __Underscore bold__", "# **x** ",
            "- # **in item**", "> ## **in quote**", "[^n]: # **in note**", "# ~~**struck bold**~~", "# [**link bold**](u)",
            # italic spans that merely start or end with a bold span, several bold spans, bold holding italic
            "# ***bold** more*", "# *__bold__ more*", "# *more **bold***", "## ***a** b **c***", "# **bold *and italic***", "# ***a*** ***b***",
            "*__Setext bold__ more*\n---", "# _**x**_", "# **_x_**", "# *`code` **b***",
            # bold around italics around bold (one pass must reach the fixed point), bold nested in bold inside italics
            "# **_**a**_**", "# ***__a__***", "# _****a****_", "# **_**a** b_**", "**_**Setext**_**\n===", "# __*__a__*__"]


# every ordered pair of heading pieces (bold, bold-italic, italic, text, bare punctuation, code, link): a heading is "entirely bold" only if
# nothing at all stands beside the bold span
_PIECES = ["**B**", "***BI***", "*I*", "text", ":", " :", ".", " -", "!", "`c`", "[l](u)", "__U__", "\\*", "&amp;", "**C** "]
HEADINGS += ["# " + a + b for a in _PIECES for b in _PIECES if (a + b).strip() and not (a + b).startswith(" ")]
HEADINGS += [(a + b).strip() + "\n===" for a in _PIECES[:6] for b in _PIECES[:9] if (a + b).strip() and not (a + b).lstrip().startswith(("-", "=", ":", ".", "!"))]


def gen_heading_doc(rng) -> str:
    parts = []
    for _ in range(rng.randint(1, 5)):
        r = rng.random()
        if r < 0.6:
            parts.append(rng.choice(HEADINGS))
        elif r < 0.8:
            parts.append("**bold paragraph** and **more**")
        else:
            parts.append("- **bold item**\n- x")
    return "\n\n".join(parts) + "\n"


D98_DOC = "# **____*b*__ a__**\n"
D98_OPTS = dict(width=88, semantic=False, smartquotes=False, ellipses=False, list_spacing="preserve")


def classify(kf, rec):
    import common
    if common.repro_only(kf, rec):
        return True
    c = rec["case"]
    cl = kf.get("classifier")
    what = rec["what"]
    if c.get("_diff"):
        return False
    if cl == "first-pass-changes-structure":
        return bool(c.get("c01_diff"))
    if cl == "heading-in-tight-list-item":
        def heading_in_item(t):
            if t["t"] == "ListItem" and any(k["t"] in ("Heading", "SetextHeading") for k in t.get("c", [])):
                return True
            return any(heading_in_item(k) for k in t.get("c", []))
        try:
            src = c.get("parser_input") or c.get("doc", "")
            return ("preserve" in what and c01.heading_in_tight_item(src)) or ("tight:" in what and heading_in_item(mdast.doc_tree(src)))
        except Exception:
            return False
    if cl == "loose-list-nested-in-tight-item":
        def hit(t):
            if t["t"] == "List" and t.get("tight"):
                for it in t.get("c", []):
                    kids = [k for k in it.get("c", []) if k["t"] != "BlankLine"]
                    if any(k["t"] == "List" and not k.get("tight") for k in kids):       # also as the item's first block ("- * x")
                        return True
            return any(hit(k) for k in t.get("c", []))
        try:
            return "preserve" in what and hit(mdast.doc_tree(c.get("parser_input") or c.get("doc", "")))
        except Exception:
            return False
    if cl == "refdef-at-end-of-loose-item":
        def hit(t):
            if t["t"] == "ListItem":
                kids = [k for k in t.get("c", []) if k["t"] != "BlankLine"]
                if kids and kids[-1]["t"] == "LinkRefDef":
                    return True
            return any(hit(k) for k in t.get("c", []))
        try:
            return hit(mdast.doc_tree(c.get("parser_input") or c.get("doc", "")))
        except Exception:
            return False
    if cl == "tight-mode-leaves-multi-block-neighbours":
        return False
    return False


REPRO = {
    "D-42": "* a\n  # h\n* b\n* c\n",
    "D-56": "- a\n  - x\n\n  - y\n- b\n",
}


def run(chk: Check) -> None:
    tier = chk.tier
    chk.cov["trusted_base"] = TRUSTED_BASE_COMMON + [
        "tight / loose and the tree of the outputs are read with Marko, which is not modelled"]
    chk.cov["rule"] = ("(a) documents dense with headings of every emphasis mix (ATX, setext, in items / quotes / footnotes) and generated documents, cleanups on vs "
                       "off: the tree of the 'on' output equals the documented rewrite applied to the tree of the 'off' output, and all non-heading lines are "
                       "byte-identical; (b) generated documents (nested / mixed lists, lists in quotes and footnotes, multi-block items) under preserve / loose / "
                       "tight: the outputs agree on every line that is not empty up to quote markers and indentation; loose: every list of two or more items is "
                       "loose; tight: every list whose items each hold one block is tight; preserve: every list keeps the tightness it has in the input; "
                       "non-trivial = the option changes the output; distinct by (document, options)")
    if not chk.phase_build("Props/C10.v"):
        return
    rng = chk.rng
    n = 1 if tier == "quick" else 10
    # ---- (a) cleanups ----
    docs = [gen_heading_doc(rng) for _ in range(150 * n)]
    # every heading of the vocabulary at least once, eight to a document (deterministic coverage of the heading shapes)
    docs += ["\n\n".join(HEADINGS[i:i + 8]) + "\n" for i in range(0, len(HEADINGS), 8)]
    gen_docs.AVOID = set(c02.AVOID_MAIN)
    docs += [gen_docs.gen_doc(rng) for _ in range(150 * n)]
    gen_docs.AVOID = set()
    docs = [d for d in docs if not d.lstrip().startswith("---")]
    base = c02.all_option_sets(rng, len(docs))
    on = [{"doc": d, "opts": dict(o, cleanups=True)} for d, o in zip(docs, base)]
    off = [{"doc": d, "opts": dict(o, cleanups=False)} for d, o in zip(docs, base)]
    # listed with a fixed reproducer only (D-98): literal delimiter runs inside an entirely bold heading become emphasis once the bold is gone
    on.append({"doc": D98_DOC, "opts": dict(D98_OPTS, cleanups=True), "repro": "D-98"})
    off.append({"doc": D98_DOC, "opts": dict(D98_OPTS, cleanups=False), "repro": "D-98"})
    docports.run_fill_port(chk, on, name="fill_markdown cleanups on")
    docports.run_fill_port(chk, off, name="fill_markdown cleanups off")
    nb = 0
    for a, b in zip(on, off):
        if a["out"].startswith("EXC") or b["out"].startswith("EXC"):
            continue
        if a["out"] != b["out"]:
            chk.nontrivial((a["doc"], json.dumps(a["opts"], sort_keys=True)))
        why = None
        try:
            ta = mdast.strip_blank(mdast.doc_tree(a["out"]))
            tb = unbold_tree(mdast.strip_blank(mdast.doc_tree(b["out"])))
            why = c01.tree_diff(ta, tb) if False else (None if ta == tb else (c01.tree_diff(c01.canon(tb), c01.canon(ta)) or "trees differ in layout attributes"))
        except Exception as e:
            why = f"re-parse failed: {e}"
        if why is None:
            la = [l for l in a["out"].split("\n") if not re.match(r"^[ >\-*+\d.)\[\]^n:]*#{1,6} ", l)]
            lb = [l for l in b["out"].split("\n") if not re.match(r"^[ >\-*+\d.)\[\]^n:]*#{1,6} ", l)]
            if la != lb:
                why = "a line that is not a heading differs between cleanups on and off"
        if why:
            nb += 1
            d1 = None if c01.structure_preserved(a["doc"], a["opts"]["width"], a["opts"]["semantic"]) else "structure changed"
            chk.fail("property", {"doc": a["doc"], "opts": a["opts"], "on": a["out"], "off": b["out"], "c01_diff": d1, "repro": a.get("repro"),
                                  "_diff": bool(a.get("_diff") or b.get("_diff"))}, "cleanups on vs off: " + why, classify)
    chk.port_stat("spec: cleanups = unbold wholly-bold headings, nothing else", len(on), nb)
    # ---- (b) list spacing ----
    gen_docs.AVOID = set(c02.AVOID_MAIN)
    docs = [gen_docs.gen_doc(rng) for _ in range(250 * n)] + gen_docs.systematic_docs()
    gen_docs.AVOID = set()
    docs = [d for d in docs if not d.lstrip().startswith("---")] + list(REPRO.values())
    base = c02.all_option_sets(rng, len(docs))
    runs = {}
    for mode in ("preserve", "loose", "tight"):
        runs[mode] = [{"doc": d, "opts": dict(o, list_spacing=mode)} for d, o in zip(docs, base)]
        docports.run_fill_port(chk, runs[mode], name=f"fill_markdown list_spacing={mode}")
    nbl = 0
    for i, d in enumerate(docs):
        P, L, T = runs["preserve"][i], runs["loose"][i], runs["tight"][i]
        if any(x["out"].startswith("EXC") for x in (P, L, T)):
            continue
        if not (P["out"] == L["out"] == T["out"]):
            chk.nontrivial((d, json.dumps(base[i], sort_keys=True)))
        problems = []
        if not (unblank(P["out"]) == unblank(L["out"]) == unblank(T["out"])):
            problems.append("the modes differ in more than empty lines")
        try:
            pin = P.get("parser_input") or d
            li, lp, ll, lt = lists_of(pin), lists_of(P["out"]), lists_of(L["out"]), lists_of(T["out"])
            if any(x["n"] >= 2 and x["tight"] for x in ll):
                problems.append("loose: a list of two or more items is still tight")
            if any(x["single"] and not x["tight"] for x in lt):
                problems.append("tight: a list whose items each hold a single block is still loose")
            if [x["tight"] for x in li] != [x["tight"] for x in lp]:
                problems.append(f"preserve: tightness {[x['tight'] for x in li]} became {[x['tight'] for x in lp]}")
        except Exception as e:
            problems.append(f"re-parse failed: {e}")
        for why in problems:
            nbl += 1
            d1 = None if c01.structure_preserved(d, base[i]["width"], base[i]["semantic"]) else "structure changed"
            chk.fail("property", {"doc": d, "opts": base[i], "preserve": P["out"], "loose": L["out"], "tight": T["out"], "parser_input": P.get("parser_input"),
                                  "c01_diff": d1, "_diff": bool(P.get("_diff") or L.get("_diff") or T.get("_diff"))}, "list spacing: " + why, classify)
    chk.port_stat("spec: list-spacing modes change only empty lines, and do what they say", len(docs), nbl)


def replay(path: str) -> int:
    rec = json.loads(open(path).read())
    c = rec.get("case")
    print("what:", rec.get("what"))
    if not c:
        print("broken:", rec.get("broken"))
        return 1
    print("---- input\n" + c["doc"])
    if "on" in c:
        print("---- cleanups on\n" + docports.fmt(c["doc"], dict(c["opts"], cleanups=True)))
        print("---- cleanups off\n" + docports.fmt(c["doc"], dict(c["opts"], cleanups=False)))
    else:
        for mode in ("preserve", "loose", "tight"):
            print(f"---- list_spacing={mode}\n" + docports.fmt(c["doc"], dict(c["opts"], list_spacing=mode)))
    return 1
