"""C02 — Formatting is idempotent."""
from __future__ import annotations

import itertools
import json
import re

from common import Check, TRUSTED_BASE_COMMON
import docports
import gen_docs
import wports

AVOID_MAIN = {"tags_in_prose", "tags_in_containers", "bare_url", "backslash_word", "footnote_in_container",
              "marker_first_word", "refdef_in_container", "break_in_list", "mixed_ordered_delims", "html_block_words"}


def all_option_sets(rng, n):
    out = []
    for _ in range(n):
        out.append(dict(width=rng.choice([0, 1, 7, 20, 40, 88, -3]), semantic=rng.random() < 0.5, cleanups=rng.random() < 0.5,
                        smartquotes=rng.random() < 0.5, ellipses=rng.random() < 0.5,
                        list_spacing=rng.choice(["preserve", "loose", "tight"])))
    return out


def first_diff(a: str, b: str) -> str:
    k = next((i for i in range(min(len(a), len(b))) if a[i] != b[i]), min(len(a), len(b)))
    return f"at {k}: pass1 {a[max(0, k - 40):k + 40]!r} vs pass2 {b[max(0, k - 40):k + 40]!r}"


# fixed inputs that reproduce each listed finding
REPRO = {
    "D-42": ("* a\n  # h\n* b\n* c\n", dict(width=88, semantic=False, cleanups=False, smartquotes=False, ellipses=False, list_spacing="preserve")),
    "D-50": ("* ---\n", dict(width=88, semantic=False, cleanups=False, smartquotes=False, ellipses=False, list_spacing="preserve")),
    "D-51": ("\"he said 'hi' to me\"\n", dict(width=88, semantic=False, cleanups=False, smartquotes=True, ellipses=False, list_spacing="preserve")),
    "D-52": ("> \u201d\n> 1) x\n", dict(width=88, semantic=False, cleanups=False, smartquotes=False, ellipses=False, list_spacing="loose")),
    "D-27": ("> (...)\n> a...b...c ... ...\"...\" ...and ...anda...b...ca...b...c\n", dict(width=30, semantic=True, cleanups=False, smartquotes=False, ellipses=True, list_spacing="preserve")),
    "D-83": ("text {% t %} | a b\n", dict(width=12, semantic=False, cleanups=False, smartquotes=False, ellipses=False, list_spacing="preserve")),
    "D-98": ("# **____*b*__ a__**\n", dict(width=88, semantic=False, cleanups=True, smartquotes=False, ellipses=False, list_spacing="preserve")),
    "D-25": ("- aaa bbb {% /x %} ccc ddd\n", dict(width=10, semantic=False, cleanups=False, smartquotes=False, ellipses=False, list_spacing="preserve")),
}


def classify(kf, rec):
    import common
    if common.repro_only(kf, rec):
        return True
    c = rec["case"]
    cl = kf.get("classifier")
    doc = c.get("doc", "")
    o1 = c.get("pass1", "")
    o = c.get("opts", {})
    if c.get("_diff"):
        return False
    if cl == "block-like-line-after-tag-line":
        # pass 1 put a word that looks like a table row / list item at a line start right after a line ending in a tag
        return bool(re.search(r"(?:%\}|#\}|\}\}|-->)[ \t]*\n[ \t>]*(?:\||[-*+][ \t]|\d+[.)][ \t])", o1))
    if cl == "closing-tag-unindented":
        return bool(re.search(r"^(?:\s+|[-*+>] .*|\d+[.)] .*)(?:\{% /|\{# /|\{\{ /|<!-- /)", o1, flags=re.M)) or \
            bool(re.search(r"^\s+(?:\{% /|\{# /|\{\{ /|<!-- /)", o1, flags=re.M))
    if cl == "ellipsis-line-start-layout":
        return bool(o.get("ellipses")) and "..." in o1
    if cl == "sentence-merge-accounting":
        return bool(o.get("semantic")) and o.get("width", 0) > 0 and not c.get("plaintext")
    if cl == "first-pass-changes-structure":
        # pass 1 already changed the document (a C01 violation, reported by the C01 check): pass 2 formats a different document
        return bool(c.get("c01_diff"))
    if cl == "heading-in-tight-list-item":
        import c01
        return o.get("list_spacing") == "preserve" and c01.heading_in_tight_item(c.get("parser_input") or doc)
    if cl == "loose-list-nested-in-tight-item":
        import c01
        return o.get("list_spacing") == "preserve" and c01.loose_list_in_tight_item(c.get("parser_input") or doc)
    if cl == "nested-quotes-second-pass":
        if not o.get("smartquotes"):
            return False
        if re.search(r"[\u201c\u2018][^\u201d\u2019]*['\"]", o1):
            return True
        # the second pass only curls quotes the first left straight, and each of them stands inside a quotation the first pass did
        # curl (an opening curly quote earlier in the same paragraph that is not closed yet); apostrophes may lie in between
        o2 = c.get("pass2", "")
        if not o2 or len(o2) != len(o1):
            return False
        changed = [i for i, (a, b) in enumerate(zip(o1, o2)) if a != b]
        if not changed or any(not (o1[i] in "'\"" and o2[i] in "\u2018\u2019\u201c\u201d") for i in changed):
            return False
        for i in changed:
            para = o1[:i].rsplit("\n\n", 1)[-1]
            if not (para.rfind("\u201c") > para.rfind("\u201d") or "\u2018" in para):      # the last double curly quote is an opening one
                return False
        return True
    if cl == "quote-blank-line-trailing-space":
        o2 = c.get("pass2", "")
        return [l.rstrip() for l in o1.split("\n")] == [l.rstrip() for l in o2.split("\n")] and \
            any(a != b and a.rstrip().endswith(">") for a, b in zip(o1.split("\n"), o2.split("\n")))
    return False


def run(chk: Check) -> None:
    from flowmark import reformat_text
    import c01
    tier = chk.tier
    chk.cov["trusted_base"] = TRUSTED_BASE_COMMON + [
        "parser residue: pass 2 re-parses pass 1's output with Marko, which is not modelled; this part is decided by running both passes",
        "two-pass runs execute the implementation; the model is compared with it on the inputs of both passes"]
    chk.cov["rule"] = ("generated documents x random option sets over {width in {0,1,7,20,40,88,-3}} x semantic x cleanups x smartquotes x ellipses x "
                       "list_spacing, and plaintext mode x widths: format(format(x)) byte-identical to format(x); non-trivial = pass 1 differs from the "
                       "input; distinct by (document, options)")
    if not chk.phase_build("Props/C02.v"):
        return
    rng = chk.rng
    n = 1 if tier == "quick" else 10
    gen_docs.AVOID = set(AVOID_MAIN)
    docs = [gen_docs.gen_doc(rng) for _ in range(300 * n)] + gen_docs.systematic_docs()
    gen_docs.AVOID = set()
    optsets = all_option_sets(rng, len(docs))
    cases = [{"doc": d, "opts": o} for d, o in zip(docs, optsets)]
    # every heading of the C10 vocabulary with cleanups on: the cleanup has to reach its fixed point in one pass (fix b925259: a bold heading
    # whose content was bold-italic needed two)
    import c10
    for i in range(0, len(c10.HEADINGS), 8):
        for ls in ("preserve", "loose"):
            cases.append({"doc": "\n\n".join(c10.HEADINGS[i:i + 8]) + "\n",
                          "opts": dict(width=88, semantic=False, cleanups=True, smartquotes=False, ellipses=False, list_spacing=ls)})
    for fid, (doc, o) in REPRO.items():
        cases.append({"doc": doc, "opts": dict(o), "repro": fid})
    docports.run_fill_port(chk, cases, name="fill_markdown pass 1")
    second = [{"doc": c["out"], "opts": c["opts"]} for c in cases if not c["out"].startswith("EXC")]
    docports.run_fill_port(chk, second, name="fill_markdown pass 2 (input = pass 1 output)")
    nb = 0
    for c, s in zip([c for c in cases if not c["out"].startswith("EXC")], second):
        o1, o2 = c["out"], s["out"]
        if o1 != c["doc"]:
            chk.nontrivial((c["doc"], json.dumps(c["opts"], sort_keys=True)))
        chk.hist("width", c["opts"]["width"])
        chk.hist("list_spacing", c["opts"]["list_spacing"])
        if o1 != o2:
            nb += 1
            d1 = None if c01.structure_preserved(c["doc"], c["opts"]["width"], c["opts"]["semantic"]) else "structure changed by the plain formatting pass"
            chk.fail("property", {"doc": c["doc"], "opts": c["opts"], "pass1": o1, "pass2": o2, "c01_diff": d1, "parser_input": c.get("parser_input"),
                                  "repro": c.get("repro"), "_diff": bool(c.get("_diff") or s.get("_diff"))},
                     "not idempotent: " + first_diff(o1, o2), classify)
    chk.port_stat("spec: format(format(x)) == format(x) (Markdown)", len(second), nb)
    # ---- plaintext mode ----
    nbp = 0
    ntp = 0
    for i in range(400 * n):
        r = rng.random()
        if r < 0.5:
            gen_docs.AVOID = set(AVOID_MAIN)
            text = gen_docs.gen_doc(rng)
            gen_docs.AVOID = set()
        else:
            paras = []
            for _ in range(rng.randint(1, 4)):
                paras.append(" ".join(rng.choice(gen_docs.WORDS + gen_docs.G.HAZARD_WORDS + gen_docs.G.SENT_WORDS) for _ in range(rng.randint(1, 30))))
            text = ("\n" * rng.choice([2, 2, 3])).join(paras)
        for w in (rng.choice([0, 1, 7, 20, 40, 88]),):
            sem = rng.random() < 0.5
            kw = dict(width=w, plaintext=True, semantic=sem)
            try:
                o1 = reformat_text(text, **kw)
                o2 = reformat_text(o1, **kw)
            except Exception as e:  # noqa
                chk.fail("property", {"doc": text, "opts": kw, "plaintext": True}, f"plaintext raised {type(e).__name__}: {e}", classify)
                continue
            ntp += 1
            chk.count()
            if o1 != text:
                chk.nontrivial((text, w, sem, "plain"))
            if o1 != o2:
                nbp += 1
                chk.fail("property", {"doc": text, "opts": kw, "plaintext": True, "pass1": o1, "pass2": o2},
                         "plaintext not idempotent: " + first_diff(o1, o2), classify)
    chk.port_stat("spec: plaintext format(format(x)) == format(x)", ntp, nbp)
    # listed with a fixed reproducer only (D-96)
    from flowmark import reformat_text as _rt
    for doc, kw in (("don't...won't\n", dict(smartquotes=True, ellipses=True)), ("wait..\\. x\n", dict(ellipses=True))):
        p1 = _rt(doc, width=88, semantic=False, **kw)
        p2 = _rt(p1, width=88, semantic=False, **kw)
        chk.count()
        if p1 != p2:
            chk.fail("property", {"doc": doc, "opts": kw, "pass1": p1, "pass2": p2, "repro": "D-96"}, "not idempotent: " + first_diff(p1, p2), classify)


def replay(path: str) -> int:
    from flowmark import reformat_text
    rec = json.loads(open(path).read())
    c = rec.get("case")
    print("what:", rec.get("what"))
    if not c:
        print("broken:", rec.get("broken"))
        return 1
    if c.get("plaintext"):
        o1 = reformat_text(c["doc"], **c["opts"])
        o2 = reformat_text(o1, **c["opts"])
    else:
        o1 = docports.fmt(c["doc"], c["opts"])
        o2 = docports.fmt(o1, c["opts"])
    print("---- input\n" + c["doc"])
    print("---- pass 1", c["opts"], "\n" + o1)
    print("---- pass 2\n" + o2)
    print("---- identical:", o1 == o2, "" if o1 == o2 else first_diff(o1, o2))
    return 1
