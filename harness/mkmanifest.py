"""Regenerate MANIFEST.json from the table below (keeps it valid at all times)."""
import json, sys
from pathlib import Path

CLAIMED = {
    "C05": {
        "text": "Machine-checked Coq theorems (unbounded in words, widths, columns) over a Gallina model of wrap_paragraph_lines: "
                "lossless (words in order, only later-line heads escaped), no empty line, width bound per line, maximality, "
                "width<=0 single line; the boolean specification checker is proved sound and is run (extracted) on the "
                "implementation's outputs; model tied to /repo by correspondence on ~60k bounded-exhaustive + random cases.",
        "note": "Trusted: Coq kernel, extraction (ExtrOcamlBasic), OCaml driver, Python harness. Modelled not verified: the Python "
                "code itself; the model is hand-written and tied by differential runs each check. No axioms.",
        "design": "DESIGN.md §5 C05",
    },
}
CLAIMED["C11"] = {
    "text": "Coq theorems generic in the sentence heuristic, minimum lengths, width and per-sentence wrapper: sentences partition the "
            "words and end only at sentence ends; every output line is a wrapped line of one sentence possibly prefixed by merged short "
            "lines (<min length); prefix stability, resynchronisation and edit locality of the sentence loop. Model tied by "
            "correspondence (split_sentences_regex, line_wrap_by_sentence, SENTENCE_END_RE engine validation); break classification and "
            "edit locality are also evaluated on the implementation for generated edit pairs.",
    "note": "Known finding D-12 (merge accounting) is listed in known_findings.json and suppressed only when the implementation still "
            "agrees with the pinned model on that input. Regex engine agreement with the `regex` module is tested, not proved.",
    "design": "DESIGN.md §5 C11",
}
CLAIMED["C07"] = {
    "text": "Coq theorems with the whole post-split pipeline (dedent, parser, transforms, renderer) universally quantified as BODY: "
            "closed frontmatter is emitted literally (any characters except CR/LF inside lines; CRLF->LF the only change) followed by "
            "BODY of the rest; the frontmatter never depends on the options; unclosed frontmatter is returned unchanged up to a final "
            "newline and is a fixpoint. split_frontmatter tied by correspondence; exactness, independence and the unclosed fixpoint are "
            "also evaluated on reformat_text for generated documents containing every str.splitlines boundary character.",
    "note": "Two genuine defects found by this check were repaired in /repo (fix: d2c449d, e09ddfc) and the model follows the fixed code. "
            "Independence is relative to BODY(body') with body' = the body as re-joined by the splitter (final newline dropped).",
    "design": "DESIGN.md §5 C07",
}
CLAIMED["C14"] = {
    "text": "Coq theorems over a file-system state machine (create/append/backup-move/atomic rename) and the op program of "
            "reformat_file(s)+strif.atomic_output_file: for every prefix of every chunking of every run (= every failing operation and "
            "every crash point), any number of files, with/without backup, each target is the complete old or new content or (backup) "
            "absent with the old content at .orig; old content always recoverable with backups; frame for untouched paths. The op "
            "program is tied to the code by comparing strace traces of the real CLI with the extracted program; every traced syscall is "
            "then failed with EIO and answered with SIGKILL and the resulting directory judged by the extracted checker.",
    "note": "level is proof for the model + fault_enumeration on the implementation; POSIX rename atomicity / O_TRUNC semantics are "
            "assumptions of the op semantics; durability (fsync) and non-POSIX file systems are outside the model.",
    "design": "DESIGN.md §5 C14",
}
CLAIMED["C15"] = {
    "text": "Gen/Wiring.v is regenerated from the source (ast + inspect.signature) on every run: each call site CLI->reformat_files->"
            "reformat_file->reformat_text->fill_markdown/fill_text becomes a Coq function on the option record; theorem: every layer is the "
            "identity (keyword and positional bindings), --auto table = the documented six switches. Hand model of the control flow with "
            "reformat_text, file reading and stdin universally quantified: every delivered byte string is reformat_text(input, options); "
            "each file alone; usage errors perform no action. The model is run against cli.main over the option product (complete in "
            "thorough) and real subprocess / file-API runs.",
    "note": "argparse's tokenisation of argv is exercised, not modelled; one genuine defect (inplace with stdin among files) was repaired (fix: f28f6da).",
    "design": "DESIGN.md §5 C15",
}
CLAIMED["C16"] = {
    "text": "Coq: merge_cli_with_config modelled generically over any duplicate-free field list with the pointwise precedence theorem; "
            "find_config_file modelled over directory chains with the nearest-directory / filename-order theorems; certificates by "
            "vm_compute over tables translated from the source (explicit-flag table complete, sentinel parser spellings, auto-locked "
            "set, accepted keys, resolver wiring). Both models run against the implementation; the complete settings x flag x config x "
            "auto x file-kind x spelling x depth product is enumerated on cli.main with recorders at reformat_files / FileResolver.",
    "note": "Known findings D-19 (config key include ignored) and D-20 (clustered short flags not seen as explicit) are listed; "
            "tomllib is exercised, not modelled.",
    "design": "DESIGN.md §5 C16",
}
CLAIMED["C13"] = {
    "text": "Partial by nature (thread timing is runtime behaviour). Proved: (1) a certificate, re-computed from a source scan on every "
            "run, that every cache / global / module-level container or object / class attribute of src/flowmark is of a kind that "
            "cannot carry information between calls; (2) for the abstract process whose only shared state is init-once cells, every call "
            "returns its stand-alone result for every history and every interleaving (Coq, unbounded). Tied to the code by sequential "
            "histories against fresh-interpreter baselines and by a deterministic scheduler that switches threads at every function call "
            "inside flowmark/marko.",
    "note": "Races below function-call granularity inside C extensions (re/regex) and Marko internals are exercised by free-running "
            "threads only; the machine abstracts a call to 'reads of memo cells + pure function'.",
    "design": "DESIGN.md §5 C13",
}
CLAIMED["C08"] = {
    "text": "Coq: declarative capture semantics of the regex matcher with a soundness theorem, finditer/sub/split decomposition "
            "theorems, and on top of them: smart_quotes is a pointwise rewrite (same length; each position equal or a straight quote "
            "replaced by a matching curly quote), template tags are copied at the same positions, and the rewrite never raises. The "
            "proofs use the translated QUOTE_PATTERN only through a shape certificate re-evaluated on every run. Model tied to the "
            "code by correspondence (all strings <= 5/6 over the property's alphabet + random) and engine validation; the document-level "
            "claim (protected spans, same line breaks) is evaluated on reformat_text on/off with re-parsed ASTs.",
    "note": "The across-inlines tree rewrite (doc_transforms) is not yet inside the Coq model: code spans / links / HTML being context-only "
            "is checked on the implementation by AST comparison, not proved. Regex engine agreement with CPython is tested, not proved.",
    "design": "DESIGN.md §5 C08",
}
CLAIMED["C09"] = {
    "text": "Coq: ellipses() is confined -- the text is cut into gaps and ELLIPSIS_PATTERN matches, gaps are copied, each match is "
            "copied or has exactly its three dots replaced and the whitespace runs directly around them kept or reduced to one space -- "
            "and never raises; proof via the regex capture semantics and a shape certificate of the translated pattern. "
            "Correspondence on all strings <= 6/8 over the property's alphabet; idempotence of the string rewrite is tested "
            "exhaustively, not proved; document-level on/off comparison on re-parsed ASTs.",
    "note": "Known findings D-26 (inserted space creates an autolink) and D-27 (line-start rule makes document-level idempotence depend on "
            "wrapping). D-15 (tags not protected) was repaired (fix: 70efe46).",
    "design": "DESIGN.md §5 C09",
}
CLAIMED["C06"] = {
    "text": "Coq: the whole word splitter / tag handling / wrapper stack is modelled (regexes translated from source) and tied by "
            "correspondence; theorems: a whitespace-free non-empty piece (each placeholder) lies inside exactly one token of the "
            "whitespace split; lines partition the word list (no word is ever cut); tag/block preprocessing only inserts empty lines and "
            "afterwards no tag-only line touches a list/table line. On the implementation: every inserted construct intact on one "
            "line for widths 1..88 in both modes, adjacency/separation of tags, tag-delimited lists/tables stay lists/tables with blank "
            "lines and are a fixpoint.",
    "note": "Placeholder restoration (str.replace loop) is modelled and tested, not proved. Known findings D-13 (separated tags merged), "
            "D-60 (semantic mode cuts inside constructs), D-93 and D-97 (adjacent tags that are not kept on one line).",
    "design": "DESIGN.md §5 C06",
}
CLAIMED["C12"] = {
    "text": "Partial by nature (CPU time of CPython's re and of Marko's parser is runtime behaviour). Proved in Coq: the model of the "
            "whole fill_markdown (parser = arbitrary function returning documents whose tables have a header row) never raises, for every "
            "text and option set; the regex matcher "
            "of the model never exhausts its fuel for any pattern and input; smart_quotes and ellipses never raise; every rendered "
            "block and document is empty or ends in a newline for every tree and every wrapper; the fence of a code block is longer "
            "than any fence-like run in its content. The whole fill_markdown pipeline (renderer, transforms, wrappers, with Marko's "
            "parse supplied) is modelled, extracted and compared with the implementation on generated and malformed documents; the "
            "implementation is run under a watchdog on a malformed stream and on pumped families with a growth bound; output "
            "well-formedness (final newline, no leaked placeholder, no invented control characters) is checked on every run.",
    "note": "Termination of the Python code is covered only through the model's totality plus correspondence; timing is a test. "
            "Several genuine defects found here were repaired in /repo (see known_findings.json).",
    "design": "DESIGN.md §5 C12",
}
CLAIMED["C01"] = {
    "text": "Coq theorems: wrapping keeps the word sequence and changes nothing but the head of later lines (escape); the escaped form "
            "of ANY whitespace-free word is not a block opener according to a CommonMark line-start specification (Model/BlockStart.v: "
            "list markers, ATX headings, quotes, fences, rules, setext underlines), hence no wrapped line after the first begins a block, "
            "for all word lists, widths and columns; code spans and fences are delimited adequately. Read-back theorems against executable "
            "specifications of a CommonMark/GFM reader (Model/InlineRead.v, BlockRead.v, validated against Marko on every run): what the renderer "
            "writes for a code span, a link destination, a link title, a fenced code block (every content), an ATX heading, an ordered-list "
            "marker (every number below 10^9) and a table row (every cell content) is read back as exactly what the parser had handed over, "
            "and the delimiter row keeps each alignment. The unguarded statement (first "
            "line of each wrap call) is refuted with a witness (Findings/C01_refuted.v). The whole renderer/transform/wrapper "
            "pipeline is modelled and compared with fill_markdown on generated documents; the specification is validated against "
            "Marko; the end-to-end claim is decided by re-parsing input and output of the implementation and comparing the trees "
            "modulo whitespace runs, soft breaks, escapes and CJK/Latin spacing.",
    "note": "Marko itself is not modelled: 'the parser reads the canonical spelling back as the same tree' is evaluated, not proved. "
            "21 genuine defects found by this oracle were repaired in /repo; the remaining ones are listed as known findings with narrow "
            "classifiers (known_findings.json) and the everyday generator avoids their triggers so that new violations surface. "
            "List tightness is compared under C10, not here.",
    "design": "DESIGN.md §5 C01",
}
CLAIMED["C02"] = {
    "text": "Coq theorems at the paragraph level, for every text, width (wrapping or not) and pair of columns: re-reading the wrapped lines gives "
            "the source's word sequence, the wrapped form is a function of the word sequence, hence wrapping the wrapped lines again "
            "changes nothing (plain mode, whitespace splitter) - and in Markdown mode as well: with the escapes the first pass put at line heads "
            "in place the second pass makes the same decisions (any idempotent escape that never shortens a word; markdown_escape_word is "
            "proved to be one); the cleanup stage is idempotent on every tree (Proofs/CleanupIdem.v, after fix b925259); unclosed frontmatter "
            "is a fixpoint of the whole formatter (C07). The "
            "document-level claim is decided by two-pass runs: the extracted pipeline model and the implementation are compared on the "
            "inputs of both passes, and format(format(x)) is compared byte for byte with format(x) over random option sets (all widths "
            "classes, both modes, typography, cleanups, three list spacings) and plaintext mode.",
    "note": "Marko's re-reading of the canonical spelling and the Markdown-aware splitter are exercised, not proved. 7 genuine defects "
            "found by the two-pass runs were repaired in /repo; D-25, D-27, D-42, D-50, D-51, D-52, D-83, D-96, D-98 are listed findings.",
    "design": "DESIGN.md §5 C02",
}
CLAIMED["C03"] = {
    "text": "Coq theorems at the paragraph level: the wrapped form depends on the text only through its whitespace-normal form (any "
            "splitter, any width, both modes) and, with the whitespace splitter, for every width only through its word sequence; "
            "wrapping with any other width and columns first and then with the target ones equals wrapping the source with the target "
            "ones. Document level: pairs of layouts of one generated content (separate content / layout random streams; soft breaks "
            "moved, spaces multiplied, lazy and indented continuation, blank-line counts, hard-break spelling, CRLF, uniform indentation) "
            "that Marko reads as the same document must format byte-identically, and format(format(x,o1),o2) = format(x,o2) for random "
            "option pairs; model and implementation compared on every input.",
    "note": "The sentence loop being a function of the word sequence is C11's theorem. Findings D-12, D-27, D-42, D-50..D-52, D-55 listed; "
            "2 genuine defects found by the re-layout pairs were repaired in /repo.",
    "design": "DESIGN.md §5 C03",
}
CLAIMED["C04"] = {
    "text": "Coq theorems: the transform stage (cleanups, smart quotes, ellipses) leaves the literal content of the document tree untouched "
            "-- tree shape, every code block, code span, HTML, escaped character, footnote label, link/image destination and title, table "
            "alignment -- for EVERY rewrite function (so independently of the typography code), including the coalescing of text across "
            "soft breaks; smart_quotes copies template tags at the same positions; fences and code-span delimiters are adequate for every "
            "content; in every container a code block is written as the fence line, each content line verbatim under the continuation prefix and "
            "the closing fence; code span, destination, title, fence language word and fenced block are read back by an executable reader "
            "specification (validated against Marko each run) as exactly the literal handed over. The renderer/wrapper pipeline is modelled and compared with fill_markdown; on the implementation the sequence of "
            "literal spans (code exactly; spans, tags, HTML, titles up to whitespace runs) of the output is compared with that of the "
            "parser input on documents built for the purpose (fence-like / prefix-like / blank code lines in ten container nestings, "
            "paragraphs dense with spans, tags, URLs, titles under typography on).",
    "note": "Marko is the span extractor on both sides and is not modelled. Defects found earlier through this oracle (code split at "
            "form feeds, code span delimiters, titles re-quoted, destinations with spaces) were repaired in /repo.",
    "design": "DESIGN.md §5 C04",
}
CLAIMED["C10"] = {
    "text": "Coq theorems: doc_cleanups keeps the block structure and maps every leaf through the documented rewrite (a heading whose whole "
            "content is bold loses the bold, bold-italic becomes italic), all other leaves untouched at any depth; for every document tree, "
            "every wrapper and every two list-spacing modes the two rendered outputs have the same lines apart from lines that are empty up "
            "to quote markers and indentation (simulation of the two renderer runs, Proofs/SpacingProofs.v); the modes are re-labellings of list "
            "tightness and nothing else (Proofs/ModeProofs.v: rendering under a mode = rendering under preserve the tree whose lists carry "
            "the tightness that mode decides; preserve re-labels nothing, loose marks every list loose, tight marks a list tight exactly "
            "when each item holds at most one block; choosing a mode twice is choosing it once). What the modes do to the "
            "tightness Marko reads back (loose: every list of two or more items loose; tight: lists of single-block items tight; preserve: "
            "as in the input) and cleanups on vs off on re-parsed trees are evaluated on the extracted model and the implementation.",
    "note": "Findings D-42 and D-56 (tightness not preserved around headings / nested loose lists) and D-98 (literal delimiter runs in an entirely "
            "bold heading) are listed. Marko's reading of tight/loose "
            "is not modelled.",
    "design": "DESIGN.md §0.3 / §5 C10",
}
CLAIMED["C17"] = {
    "text": "Coq theorems over an abstract directory tree with pathspec, glob and the order of paths as oracles (for every tree, matcher "
            "and setting): the traversal returns exactly the files that are regular files reached through real directories only, none "
            "of them excluded, and that pass the per-file tests (sound and complete against a declarative specification); nothing is "
            "reached through a link; the listing order of directories at any depth is irrelevant; a glob selects among the traversal's "
            "files; explicit files bypass exclusion unless force_exclude and never the size limit; the result is sorted, duplicate-free, "
            "the union of what the arguments give, and equal for every permutation or repetition of the arguments (any total order). "
            "Model tied by running it with pathspec's answers supplied against FileResolver on real trees; the implementation is compared "
            "with an independent reference walk over random trees x the complete settings product x argument mixes, with shuffled "
            "listing order and permuted arguments.",
    "note": "pathspec, glob and the file system are used, not modelled. Three genuine defects (symlinked files listed, globs bypassing "
            "the filters, slash rules of .flowmarkignore ignored for files) were repaired in /repo.",
    "design": "DESIGN.md §5 C17",
}
CLAIMED["C18"] = {
    "text": "The reference is git itself, so agreement is decided differentially: FileResolver(respect_gitignore) vs `git ls-files -co "
            "--exclude-standard` in scratch repositories over random trees with .gitignore files at every level drawn from the pattern "
            "language (basename, wildcard, ?, class, dir-only, anchored, multi-segment, **, negation, comments). Coq theorems about the "
            "model of the chain handling: each file is asked about the path relative to its own directory and the deepest file with an "
            "opinion decides; an ignored directory contributes no file; with respect_gitignore off the .gitignore files have no "
            "influence at all. Model tied by correspondence with pathspec's check_file answers supplied.",
    "note": "git 2.39.5 is the oracle and pathspec the matcher; neither is modelled. The basename-only / any-over-the-chain matching "
            "(D-23) was repaired in /repo; D-59 (pathspec's reading of negated directory patterns) is a listed finding.",
    "design": "DESIGN.md §5 C18",
}
PENDING_REASON = "check not built yet in this revision (work in progress; see DESIGN.md §7 staging)"

def main():
    props = [json.loads(l)["id"] for l in open("/verif/properties.jsonl")]
    checks, na = [], []
    for pid in props:
        if pid in CLAIMED:
            c = CLAIMED[pid]
            checks.append({
                "property_id": pid,
                "quick_cmd": f"./check {pid} quick",
                "thorough_cmd": f"./check {pid} thorough",
                "evidence_file": f"/verif/evidence/{pid}.json",
                "replay_cmd_template": f"./check {pid} --replay {{path}}",
                "engine": "coq-model",
                "level_claimed": {"category": "proof", "text": c["text"], "design_ref": c["design"]},
                "level_note": c["note"],
                "technique": "machine-checked proof in Coq 8.16 (model + theorems) with extracted-model correspondence and spec-on-implementation search",
            })
        else:
            na.append({"property_id": pid, "reason": PENDING_REASON})
    m = {
        "version": 1,
        "setup_cmd": "./check --setup",
        "hooks": {
            "guard": "FLOWMARK_VERIF",
            "enable": "no source hooks are needed; checks export FLOWMARK_VERIF=1 (reserved, unused by /repo)",
            "baseline_off_cmd": "cd /repo && /venv/bin/python -m pytest -ra -q -p no:cacheprovider --timeout=900",
            "source_commits": [],
            "add_only": True,
        },
        "engines": [{
            "name": "coq-model", "path": "/verif/coq",
            "serves_properties": sorted(CLAIMED),
            "kind_free_text": "Coq 8.16.1 development: Gen/ (translated from /repo each run), Base/, Model/ (hand-written Gallina model), "
                              "Proofs/, Props/ (property theorems + Print Assumptions); extracted to OCaml (ocaml/driver.ml) and compared with the Python implementation by harness/",
        }],
        "checks": checks,
        "not_applicable": na,
        "notes": "Single entry point ./check; scratch under /verif/.work; fix: commits in /repo are listed in known_findings.json.",
    }
    Path("/verif/MANIFEST.json").write_text(json.dumps(m, indent=1) + "\n")

if __name__ == "__main__":
    main()
