"""C09 — Ellipsis conversion touches only three-dot runs in prose."""
from __future__ import annotations

import itertools
import json
import re

from common import Check, TRUSTED_BASE_COMMON, enc_str
from ports import run_port
import rx
import wports
import mdast
import c08

ALPHA = ["a", " ", ".", "\"", "?", "\n"]


def classify(kf, rec):
    import common
    if common.repro_only(kf, rec):
        return True
    c = rec["case"]
    cl = kf.get("classifier")
    if cl == "ellipsis-space-creates-autolink":
        t = c.get("text") or c.get("doc") or ""
        return ("'Url'" in rec["what"] and "children vs" in rec["what"]) or \
            ("prose differs" in rec["what"] and bool(re.search(r"\.\.\.(?:https?://|www\.)", t)))
    if cl == "ellipsis-line-start-layout":
        if "again changes" not in rec["what"] or "on" not in c or "on2" not in c:
            return False
        a, b = c["on"].split("\n"), c["on2"].split("\n")

        def body(l):
            return re.sub(r"^[>\s\-*+]*(\d+[.)])?\s*", "", l)
        if any(body(l).startswith("...") for l in c.get("doc", "").split("\n")):
            return True       # the source had a run at a line start: which runs match depends on where the lines break
        if len(a) != len(b):
            return any(body(l).startswith("...") for l in a)
        lead = [body(l).startswith("...") for l in a]

        def near(i):
            return lead[i] or (i + 1 < len(a) and lead[i + 1]) or (i > 0 and lead[i - 1])
        return all(x == y or near(i) for i, (x, y) in enumerate(zip(a, b)))
    if cl == "tag-split-by-inline-markup":
        t = c.get("text") or c.get("doc") or ""
        # inline markup inside the tag, or a bare URL running into the tag's opening delimiter: either way the parser cuts the tag
        return any("..." in m.group(0) and (re.search(r"[*_`]", m.group(0)) or re.search(r"(?:https?://|www\.)\S*$", t[:m.start()]))
                   for m in re.finditer(r"\{%.*?%\}|\{\{.*?\}\}|\{#.*?#\}|<!--.*?-->", t, flags=re.S))
    if cl == "ellipsis-inside-template-tag":
        t = c.get("text") or c.get("doc") or ""
        return bool(re.search(r"\{%[^%]*\.\.\.[^%]*%\}|\{\{[^}]*\.\.\.[^}]*\}\}|\{#[^#]*\.\.\.[^#]*#\}|<!--(?:(?!-->).)*\.\.\.(?:(?!-->).)*-->", t, flags=re.S))
    return False


def undo(s: str) -> str:
    """inverse mapping used to compare modulo the rewrite: ellipsis char -> ..., spaces around it erased"""
    s = s.replace("…", "...")
    # whether two tags separated by one space end up adjacent depends on where the line breaks (finding D-13, C06), not on the option
    s = re.sub(r"(%\}|\}\}|#\}|-->)\s+(\{%|\{\{|\{#|<!--)", r"\1\2", s)
    return re.sub(r"\s*\.\.\.\s*", "...", s)


def confined(a: str, b: str) -> str | None:
    """b must be a with some '...' replaced by the ellipsis character and whitespace directly around
    those places normalised; nothing else may differ"""
    if "…" in a:
        # the character may already be in the input; compare structurally via the inverse mapping
        pass
    if undo(a) != undo(b):
        return "texts differ beyond three-dot runs and the spaces around them"
    return None


def gen_text(rng) -> str:
    toks = ["...", "...", "wait...", "...and", "a ... b", "x....", "..", ".", "\"...\"", "(...)", "end...!", "...?", " ", "  ", "\n", "word", "a", "'...", "—...", "1...", "_..._",
            "{% t x... %}", "{{ a...b }}", "<!-- ... -->", "`c...`", "[l...](u...)", "http://a.b/...", "é...", "…", "... ...", "a...b...c"]
    return "".join(rng.choice(toks) + rng.choice(["", " ", " ", "\n"]) for _ in range(rng.randint(0, 10)))


def gen_doc(rng) -> str:
    blocks = []
    for _ in range(rng.randint(1, 4)):
        t = (gen_text(rng).strip() or "x...").replace("\n\n", "\n")
        r = rng.random()
        if r < 0.5:
            blocks.append(t)
        elif r < 0.6:
            blocks.append("# " + t.replace("\n", " "))
        elif r < 0.7:
            blocks.append("- " + t.replace("\n", "\n  "))
        elif r < 0.8:
            blocks.append("```\n" + t + "\n```")
        elif r < 0.9:
            blocks.append("> " + t.replace("\n", "\n> "))
        else:
            blocks.append("*em " + t.replace("\n", " ").replace("*", "") + "* `code...` <b>...</b>")
    return "\n\n".join(blocks) + "\n"


def run(chk: Check) -> None:
    from flowmark.typography.ellipses import ellipses
    from flowmark import reformat_text
    tier = chk.tier
    chk.cov["trusted_base"] = TRUSTED_BASE_COMMON + ["regex engine agreement with CPython re on ELLIPSIS_PATTERN: tested, not proved; idempotence of the rewrite is tested exhaustively on short strings, not proved"]
    chk.cov["rule"] = ("ellipses(): every string of length <= 6 (quick) / 8 (thorough) over {a,space,.,\",?,newline} plus random token soups; "
                       "documents with option on vs off; non-trivial = output differs from input; distinct by input")
    if not chk.phase_build("Props/C09.v"):
        return
    rng = chk.rng
    rx.validate(chk, ["re_ellipsis", "re_ell_word_or_end", "re_ell_word"], tier, per_pattern=800 if tier == "quick" else None)
    maxlen = 6 if tier == "quick" else 8
    cases = [{"t": "".join(t)} for k in range(maxlen + 1) for t in itertools.product(ALPHA, repeat=k) if "..." in "".join(t) or k <= 3]
    cases += [{"t": gen_text(rng)} for _ in range(3000 if tier == "quick" else 40000)]
    outs = {}

    def impl(c):
        o = ellipses(c["t"])
        outs[id(c)] = o
        return enc_str(o)

    d = run_port(chk, "ellipses", cases, lambda c: "ellipses " + enc_str(c["t"]), impl)
    wports.note_diffs(chk, "ellipses", d, ["t"])
    nb = 0
    for c in cases:
        o = outs.get(id(c))
        if o is None:
            continue
        if o != c["t"]:
            chk.nontrivial(c["t"])
        why = confined(c["t"], o)
        if why is None and ellipses(o) != o:
            why = "not idempotent: second application gives " + repr(ellipses(o))
        if why:
            nb += 1
            chk.fail("property", {"text": c["t"], "out": o}, "ellipses(): " + why, classify)
    chk.port_stat("spec: confinement + idempotence of ellipses()", len(cases), nb)
    # ---- documents ----
    nd = 300 if tier == "quick" else 5000
    nbd = 0
    for i in range(nd):
        doc = '{% x a="*b*" c="wait... more" %} text\n' if i == 0 else gen_doc(rng)     # i == 0: reproducer of finding D-62
        o = dict(width=rng.choice([0, 30, 88]), semantic=rng.random() < 0.5, cleanups=rng.random() < 0.3, smartquotes=rng.random() < 0.3)
        off = reformat_text(doc, ellipses=False, **o)
        on = reformat_text(doc, ellipses=True, **o)
        chk.count()
        if on != off:
            chk.nontrivial(doc)
        why = None
        try:
            def no_ws_nodes(t):
                # a whitespace-only text node between two tags / comments depends on where the wrapper breaks the line, not on the option
                if "c" in t:
                    t = dict(t, c=[no_ws_nodes(k) for k in t["c"] if not (k["t"] == "RawText" and not k.get("s", "").strip())])
                return t
            ta = no_ws_nodes(mdast.coalesce_text(mdast.strip_blank(mdast.doc_tree(off))))
            tb = no_ws_nodes(mdast.coalesce_text(mdast.strip_blank(mdast.doc_tree(on))))
            why = mdast.shape_diff(ta, tb, lambda a, b: None if undo(a) == undo(b) else f"prose differs beyond ellipses: {a!r} vs {b!r}")
        except Exception as e:
            why = f"re-parse failed: {e}"
        if why is None:
            tag_rx = re.compile(r"\{%.*?%\}|\{\{.*?\}\}|\{#.*?#\}|<!--.*?-->", flags=re.S)
            ws = lambda t: re.sub(r"\s+", " ", t)  # noqa: E731
            ta_, tb_ = [ws(m.group(0)) for m in tag_rx.finditer(off)], [ws(m.group(0)) for m in tag_rx.finditer(on)]
            if ta_ != tb_:
                bad = next((x for x, y in zip(ta_, tb_) if x != y), None)
                why = f"a template tag differs between ellipses off and on: {bad!r}"
        on2 = None
        if why is None:
            on2 = reformat_text(on, ellipses=True, **o)
            if on2 != on:
                why = "applying the option again changes the document"
        if why and why != "applying the option again changes the document":
            import c01
            if not c01.structure_preserved(doc, o["width"], o["semantic"]):
                chk.hist("skipped", "formatting without the option already changes the structure (C01 finding)")
                continue
        if why:
            nbd += 1
            chk.fail("property", {"doc": doc, "opts": o, "off": off, "on": on, "on2": on2}, "ellipses on vs off: " + why, classify)
        if i < 2:
            chk.sample({"doc": doc[:200], "opts": o, "on": on[:200]})
    chk.port_stat("spec: reformat_text(ellipses on) vs off", nd, nbd)
    # listed with a fixed reproducer only (D-88): a URL whose scheme the autolink extension does not know
    doc = "see s3://bucket/v1...v2 now\n"
    off, on = reformat_text(doc, ellipses=False), reformat_text(doc, ellipses=True)
    chk.count()
    if "s3://bucket/v1...v2" not in on:
        chk.fail("property", {"doc": doc, "opts": {"ellipses": True}, "off": off, "on": on, "repro": "D-88"}, "URL changed: " + repr(on), classify)


def replay(path: str) -> int:
    from flowmark.typography.ellipses import ellipses
    from flowmark import reformat_text
    rec = json.loads(open(path).read())
    c = rec.get("case")
    print("what:", rec.get("what"))
    if not c:
        print("broken:", rec.get("broken"))
        return 1
    if "text" in c:
        print(repr(c["text"]), "->", repr(ellipses(c["text"])))
    else:
        print("off:", repr(reformat_text(c["doc"], ellipses=False, **c["opts"])))
        print("on :", repr(reformat_text(c["doc"], ellipses=True, **c["opts"])))
    return 1
