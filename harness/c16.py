"""C16 — Configuration precedence: explicit flag over config file over default."""
from __future__ import annotations

import contextlib
import io
import json
import os
import shutil
import sys
from pathlib import Path

from common import Check, TRUSTED_BASE_COMMON, WORK, enc_bool, enc_str, model_batch, Toks
from ports import run_port

SCRATCH = WORK / "c16"

# setting -> (argv tokens for the flag, value the flag gives, config values to try, built-in default, auto preset or None)
SETTINGS = {
    "width": (["--width", "50"], 50, [60], 88, None),
    "semantic": (["--semantic"], True, [True, False], False, True),
    "cleanups": (["--cleanups"], True, [True, False], False, True),
    "smartquotes": (["--smartquotes"], True, [True, False], False, True),
    "ellipses": (["--ellipses"], True, [True, False], False, True),
    "list_spacing": (["--list-spacing", "tight"], "tight", ["loose"], "preserve", None),
    "extend_include": (["--extend-include", "*.mdx"], ["*.mdx"], [["*.txt"]], [], None),
    "exclude": (["--exclude", "zz/"], ["zz/"], [["yy/"]], None, None),
    "extend_exclude": (["--extend-exclude", "drafts/"], ["drafts/"], [["tmp/"]], [], None),
    "files_max_size": (["--files-max-size", "10"], 10, [20], 1048576, None),
    "respect_gitignore": (["--no-respect-gitignore"], False, [False, True], True, None),
    "force_exclude": (["--force-exclude"], True, [True, False], False, None),
}
LOCKED = {"semantic", "cleanups", "smartquotes", "ellipses"}
FORMATTING = ["width", "semantic", "cleanups", "smartquotes", "ellipses", "list_spacing"]
DISCOVERY = ["extend_include", "exclude", "extend_exclude", "files_max_size", "respect_gitignore", "force_exclude"]
SECTION = {k: "formatting" for k in FORMATTING} | {k: "file-discovery" for k in DISCOVERY}


def classify(kf, rec):
    c = rec["case"]
    if kf.get("classifier") == "config-include-ignored":
        return c.get("setting") == "include"
    if kf.get("classifier") == "clustered-short-flags":
        return bool(c.get("clustered"))
    return False


def toml_val(v):
    if isinstance(v, bool):
        return "true" if v else "false"
    if isinstance(v, int):
        return str(v)
    if isinstance(v, str):
        return json.dumps(v)
    return "[" + ", ".join(json.dumps(x) for x in v) + "]"


def write_config(d: Path, kind: str, spelling: str, key: str, val):
    k = key.replace("_", "-") if "kebab" in spelling else key
    line = f"{k} = {toml_val(val)}\n"
    if kind == "pyproject.toml":
        body = "[tool.flowmark]\n" + line if "flat" in spelling else f"[tool.flowmark.{SECTION.get(key, 'formatting')}]\n" + line
    else:
        body = line if "flat" in spelling else f"[{SECTION.get(key, 'formatting')}]\n" + line
    (d / kind).write_text(body)


class Recorder:
    def __init__(self):
        self.files_kwargs = None
        self.resolver_cfg = None


def run_main_recorded(argv, cwd: Path):
    """cli.main with reformat_files and the FileResolver replaced by recorders (in this process)."""
    from flowmark import cli
    import flowmark.file_resolver as fr
    rec = Recorder()

    def fake_reformat_files(**kw):
        rec.files_kwargs = kw

    class FakeResolver:
        def __init__(self, config):
            rec.resolver_cfg = config

        def resolve(self, paths):
            return []

    old = os.getcwd()
    orig_rf, orig_res = cli.reformat_files, fr.FileResolver
    cli.reformat_files = fake_reformat_files
    fr.FileResolver = FakeResolver
    out, err = io.StringIO(), io.StringIO()
    os.chdir(cwd)
    try:
        with contextlib.redirect_stdout(out), contextlib.redirect_stderr(err):
            try:
                rc = cli.main(list(argv))
            except SystemExit as e:
                rc = e.code if isinstance(e.code, int) else 2
    finally:
        os.chdir(old)
        cli.reformat_files, fr.FileResolver = orig_rf, orig_res
    return rc, rec, err.getvalue()


def effective_expected(setting, flag_given, cfg_val, auto):
    flagtoks, fval, _cfgs, default, preset = SETTINGS[setting]
    if flag_given:
        return fval
    if cfg_val is not None and not (auto and setting in LOCKED):
        return cfg_val
    if auto and preset is not None:
        return preset
    return default


def observed_value(setting, rec: Recorder):
    if setting in FORMATTING:
        if rec.files_kwargs is None:
            return "<reformat_files not called>"
        v = rec.files_kwargs.get(setting)
        return getattr(v, "value", v) if setting == "list_spacing" else v
    if rec.resolver_cfg is None:
        return "<resolver not built>"
    return getattr(rec.resolver_cfg, setting)


def run(chk: Check) -> None:
    tier = chk.tier
    chk.cov["trusted_base"] = TRUSTED_BASE_COMMON + ["tomllib (TOML syntax) is exercised, not modelled; effective arguments are captured by replacing reformat_files / FileResolver with recorders inside the harness process"]
    chk.cov["rule"] = ("complete product: 12 dual settings x {flag given, not} x {config absent, value(s)} x {--auto, not} x {flat, sectioned} x "
                       "{snake, kebab} x {.flowmark.toml, flowmark.toml, pyproject.toml} x config depth {0,1,2}; effective arguments "
                       "recorded at reformat_files / FileResolverConfig; non-trivial = config sets the value; distinct by (argv, config)")
    if not chk.phase_build("Props/C16.v"):
        return
    rng = chk.rng
    from flowmark import config as cfgmod
    import dataclasses

    # ---- port: merge_cli_with_config vs Cli.merge_fields on random tables ----
    fields = [f.name for f in dataclasses.fields(cfgmod.FlowmarkConfig)]
    locked = ["semantic", "cleanups", "smartquotes", "ellipses", "inplace", "nobackup"]
    mcases = []
    for _ in range(400 if tier == "quick" else 5000):
        cli_names = [n for n in fields + ["inplace", "nobackup", "files"] if rng.random() < 0.85]
        mcases.append({
            "cli": {n: "c_" + n for n in cli_names},
            "cfg": {n: ("g_" + n if rng.random() < 0.5 else None) for n in fields},
            "auto": rng.random() < 0.5,
            "explicit": [n for n in fields if rng.random() < 0.3],
        })

    def enc_name(n):
        return enc_str(n)

    def enc_tbl(t, names):
        return " ".join([str(len(names))] + [enc_name(n) + (" 1 " + enc_str(t[n]) if t.get(n) is not None else " 0") for n in names])

    def req(c):
        names = sorted(c["cli"])
        return "merge %s %s %s %s %s %s" % (
            " ".join([str(len(fields))] + [enc_name(n) for n in fields]), enc_tbl(c["cli"], names), enc_tbl(c["cfg"], fields),
            enc_bool(c["auto"]), " ".join([str(len(c["explicit"]))] + [enc_name(n) for n in c["explicit"]]),
            " ".join([str(len(locked))] + [enc_name(n) for n in locked]))

    def impl(c):
        class O:
            pass
        o = O()
        for n, v in c["cli"].items():
            setattr(o, n, v)
        cfgmod.merge_cli_with_config(o, cfgmod.FlowmarkConfig(**{n: v for n, v in c["cfg"].items()}), c["auto"], set(c["explicit"]))
        names = sorted(c["cli"])
        return " ".join([str(len(names))] + [enc_name(n) + " 1 " + enc_str(getattr(o, n)) for n in names])

    run_port(chk, "merge_cli_with_config", mcases, req, impl)

    # ---- port: find_config_file vs Cli.find_config on real directory chains ----
    fcases = []
    names = list(cfgmod._CONFIG_FILENAMES)
    for _ in range(150 if tier == "quick" else 1500):
        depth = rng.randint(1, 4)
        dirs = []
        for _i in range(depth):
            cand = []
            for n in names:
                st = rng.choice([0, 0, 0, 1]) if n != "pyproject.toml" else rng.choice([0, 0, 2, 3])
                cand.append((n, st))
            dirs.append(cand)
        fcases.append({"dirs": dirs})
    base = SCRATCH / "find"

    def freq(c):
        return "find_config %d %s" % (len(c["dirs"]), " ".join(
            "%d %s" % (len(dd), " ".join(enc_name(n) + " " + str(st) for n, st in dd)) for dd in c["dirs"]))

    def fimpl(c):
        if base.exists():
            shutil.rmtree(base)
        # dirs[0] is the start directory (deepest); build root/l(n-1)/.../l0
        path = base
        chain = []
        for i in range(len(c["dirs"]) - 1, -1, -1):
            path = path / f"l{i}"
            chain.append((i, path))
        path.mkdir(parents=True)
        for i, p in chain:
            for n, st in c["dirs"][i]:
                if st == 1:
                    (p / n).write_text("width = 70\n")
                elif st == 2:
                    (p / n).write_text("[tool.flowmark]\nwidth = 70\n")
                elif st == 3:
                    (p / n).write_text("[tool.other]\nx = 1\n")
        start = chain[-1][1]
        r = cfgmod.find_config_file(start)
        if r is None or not str(r).startswith(str(base)):
            return "0"
        rel = r.relative_to(base)
        lvl = int(rel.parent.name[1:])
        return "1 %d %s" % (lvl, enc_name(rel.name))

    run_port(chk, "find_config_file", fcases, freq, fimpl)
    shutil.rmtree(base, ignore_errors=True)

    # ---- the full product on the CLI: effective arguments vs the precedence rule ----
    kinds = list(cfgmod._CONFIG_FILENAMES)
    spellings = ["flat-snake", "flat-kebab", "sect-snake", "sect-kebab"]
    nbad = ntot = 0
    for setting, (flagtoks, fval, cfgvals, default, preset) in SETTINGS.items():
        for flag_given in (False, True):
            for cfg_val in [None] + cfgvals:
                for auto in (False, True):
                    for kind in kinds:
                        for spelling in spellings:
                            for depth in ((0, 1, 2) if tier == "thorough" else (0, 2) if kind == "flowmark.toml" else (1,)):
                                root = SCRATCH / "prod"
                                if root.exists():
                                    shutil.rmtree(root)
                                cwd = root / "x" / "y"
                                cwd.mkdir(parents=True)
                                (cwd / "a.md").write_text("hi\n")
                                if cfg_val is not None:
                                    cdir = cwd
                                    for _ in range(depth):
                                        cdir = cdir.parent
                                    write_config(cdir, kind, spelling, setting, cfg_val)
                                argv = (flagtoks if flag_given else []) + (["--auto"] if auto else [])
                                argv += ["."] if setting in DISCOVERY else ["a.md"]
                                rc, rec, err = run_main_recorded(argv, cwd)
                                want = effective_expected(setting, flag_given, cfg_val, auto)
                                got = observed_value(setting, rec)
                                ntot += 1
                                chk.count()
                                if cfg_val is not None:
                                    chk.nontrivial((tuple(argv), kind, spelling, depth, setting, str(cfg_val)))
                                chk.hist("setting", setting)
                                if got != want or rc != 0:
                                    nbad += 1
                                    chk.fail("property", {"setting": setting, "argv": argv, "config_file": kind, "spelling": spelling,
                                                          "config_depth": depth, "config_value": cfg_val, "effective": got, "expected": want, "rc": rc,
                                                          "stderr": err[-300:]},
                                             f"effective value of {setting} does not follow flag > config > default", classify)
                                elif ntot <= 3:
                                    chk.sample({"setting": setting, "argv": argv, "config": f"{kind}:{spelling}:{cfg_val}", "effective": got})
    chk.port_stat("spec: precedence on recorded effective arguments", ntot, nbad)

    # ---- every accepted key has an effect (include: D-19) ----
    root = SCRATCH / "inc"
    if root.exists():
        shutil.rmtree(root)
    root.mkdir(parents=True)
    (root / "a.md").write_text("x\n")
    (root / "flowmark.toml").write_text('include = ["*.txt"]\n')
    rc, rec, err = run_main_recorded(["--list-files", "."], root)
    chk.count()
    inc = getattr(rec.resolver_cfg, "include", None) if rec.resolver_cfg else None
    if "unrecognized" not in err and inc != ["*.txt"]:
        chk.fail("property", {"setting": "include", "config": 'include = ["*.txt"]', "effective_include": inc, "stderr": err[-200:]},
                 "config key `include` is accepted without warning but has no effect", classify)

    # ---- clustered short flags are still 'the flag was passed' ----
    for argv, tag in ((["-is", "--nobackup", "a.md"], "semantic"), (["-si", "--nobackup", "a.md"], "semantic"), (["-cs", "a.md"], "cleanups")):
        root = SCRATCH / "cl"
        if root.exists():
            shutil.rmtree(root)
        root.mkdir(parents=True)
        (root / "a.md").write_text("x\n")
        (root / "flowmark.toml").write_text("semantic = false\ncleanups = false\n")
        rc, rec, err = run_main_recorded(argv, root)
        chk.count()
        got = (rec.files_kwargs or {}).get(tag)
        if rc != 0 or got is not True:
            chk.fail("property", {"argv": argv, "config": "semantic=false, cleanups=false", "effective_" + tag: got, "rc": rc, "clustered": True},
                     f"flag -{tag[0]} passed in a short-option cluster is not treated as explicit", classify)
    shutil.rmtree(SCRATCH, ignore_errors=True)


def replay(path: str) -> int:
    rec = json.loads(open(path).read())
    print("what:", rec.get("what"))
    print(json.dumps(rec.get("case"), indent=1)[:2000])
    return 1
